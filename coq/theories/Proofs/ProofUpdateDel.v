(** [Proof.Update] with deletions (C07, continued from Proofs/ProofUpdateSpec.v): the remove part of the
    mirror ([Model.ProofUpdate.updateProofRemove]) against the reference forest, and whole blocks.

    What is proved here
    - [dg_remove] / [dg_block]  G2 and G3 IN GENERAL, REDUCED to four facts about the block
        A1  [deTwin] of the sorted block targets = the positions of a coordinate list [Dd];
        A2  every [d] in [Dd] is a valid target of [getNewPositions] ([ProofUpdateSpec.dok]);
        A3  every subtree of [s] whose [prune] is not empty is a subtree of [kill hs s], at the
            coordinate lifted over [Dd] ([StumpAddData.liftc]);
        A4  every subtree of [kill hs s] arises so, from an uncontracted subtree of [s].
      From A1-A4: [updateProofRemove] with the update data [new_del s hs] returns
      [exp_cached (kill hs s) (C minus hs)], and [Proof.Update] for the whole block returns
      [exp_cached (apply_block s hs adds) (cached_after C hs remembered)] (through
      [ProofUpdateSpec.ag_both] on [kill hs s]).  The proof covers everything else of
      [updateProofRemove]: [subtractSorted...], both [ProofPositions], [upr_keep]/[upr_missing]
      against [new_del], [getNewPositions] on the list [kept ++ missing] (which is not sorted: the row
      counter is stale there, [pd_gnp_loop]), the dropped all-zero hashes, the final sort.
    - [proof_update_regular_deletions]  A1-A4 hold, hence G2 and G3 hold, for every block whose
      deletions are REGULAR: no subtree of the forest is deleted as a whole except single leaves, and no
      tree is deleted as a whole ([regular], decidable as [regular_forestb]) - that is, any number of
      deleted leaves, cached or not, no two of them siblings and none alone in its tree; the sibling
      subtrees (with the cached leaves and proof positions in them) move up, possibly several rows -
      followed by any additions.  [deTwin] is the identity there ([mfin_deTwin]); the lift over all
      targets is the contraction of [prune] ([move_tree_multi], [mf_move]).
      [pu_ex_three_deletions] is an instance.
    - [proof_update_one_deletion], [update_remove_one_deletion]  the special case of one deleted
      leaf that is not the root of its tree, proved first and separately ([dm_remove], [dm_block];
      [pu_ex_one_deletion] is an instance).

    Not proved: A1-A4 when sibling leaves (hence whole subtrees) are deleted together (needs the
    specification of [deTwin]: the roots of the maximal deleted subtrees; the lift over them is the same
    argument as [move_tree_multi] with subtrees in place of leaves), and when a whole tree is deleted
    (there the subtree test of [getNewPositions] is not an optimisation: it needs that positions of
    different trees have different [DetectOffset] results).  The executable check
    [ProofUpdateSpec.pu_check] covers those cases on small histories.

    Structure: 1 [getNewPositions] with a list of targets on any list; 2 the loops of
    [updateProofRemove] on graphs; 3 [prune] along paths, occurrences of [kill dels s], [new_del] in
    terms of occurrences; 4, 5 one deleted leaf: the lift = the contraction of [prune]; 6 the subtrees of
    a canonical proof are disjoint; 7 the remove part and the block for one deleted leaf; 8, 9 closed
    forms, the free algebra, an example; 10 the general reduction; 11 regular deletions. *)
From Utreexo Require Import Base.Hash Model.Utils Model.UtilsFast Model.Verify Model.ProofOps
  Model.ProofUpdate Spec.Forest Spec.Oracle Spec.Geometry Spec.Term
  Proofs.UtilsGeom Proofs.UtilsGeom2 Proofs.SpecBasics Proofs.StumpAdd Proofs.LayoutStruct
  Proofs.ProofPosSpec Proofs.CalcTotal Proofs.CalcSound Proofs.CalcComplete Proofs.CachedVerifies
  Proofs.AbstractModels Proofs.StumpAddData Proofs.StumpDelData Proofs.ProofOpsSpec
  Proofs.ProofUpdateSpec.
From Utreexo Require Proofs.RefTheory.
From Coq Require Import List Arith PeanoNat NArith ZArith Lia ZifyNat ZifyN ZifyBool Sorted Permutation.
Import ListNotations.
Open Scope N_scope.

Local Notation SSlt := (StronglySorted N.lt).
Local Notation SSle := (StronglySorted N.le).

(** * 1. [getNewPositions] with a list of targets, on any list of positions *)

(** a position is a root position on some row only on its own row *)
Lemma pd_isRoot_any R n x rho : (R <= 63)%nat -> n <= 2 ^ 63 -> N.of_nat R = TreeRows n ->
  cvalid R x -> isRootPositionOnRow (cpos R x) n rho = true -> is_root_c n (cN x) = true.
Proof.
  intros HR Hn ER [Hx1 Hx2] Hroot.
  apply (isRootPositionOnRow_spec _ n rho Hn) in Hroot as [Hbit Ep].
  pose proof (TreeRows_le_63 n Hn) as Hh. pose proof (TreeRows_upper n) as Hup.
  destruct (root_coord_valid n rho (TreeRows n) Hup Hbit) as [Hr1 Hr2].
  rewrite cpos_gpos, ER in Ep. rewrite ER in Hx2.
  apply gpos_inj in Ep as [Er Eo]; try assumption; [|lia].
  unfold is_root_c, cN. cbn [fst snd]. rewrite Er, Hbit, Eo, N.eqb_refl. reflexivity.
Qed.

Lemma pd_lift1_id d x : anc (S (fst d), snd d / 2) x = false -> lift1 d x = x.
Proof. intros E. unfold lift1. rewrite E. reflexivity. Qed.

Section GnpGen.
  Variable H : Type.
  Variable HO : ops H.
  Variable R : nat.
  Variable n : N.
  Hypothesis HR : (R <= 63)%nat.
  Hypothesis Hn : n <= 2 ^ 63.
  Hypothesis ER : N.of_nat R = TreeRows n.
  Local Notation hp := (hp H).
  Local Notation Heqb := (op_eqb HO).
  Local Notation empty := (op_empty HO).

  Lemma pd_liftc_root : forall D x, (forall d, In d D -> pf_ok n d) ->
    is_root_c n (cN x) = true -> liftc D x = x.
  Proof.
    induction D as [|d D IH]; intros x HD Hr; [reflexivity|].
    unfold liftc. cbn [fold_left].
    rewrite (pd_lift1_id d x (pu_root_not_under n d x (HD d (or_introl eq_refl)) Hr)).
    apply IH; [intros d' Hd'; apply HD; right; exact Hd'|exact Hr].
  Qed.

  (** the inner loop of [getNewPositions] computes the lift over the targets, whatever the row
      counter says *)
  Lemma pd_gnp_targets : forall (D : list coord) x rho,
    (forall d, In d D -> dok R n d) -> cvalid R x -> cinf n x ->
    gnp_targets (map (cpos R) D) (cpos R x) n rho (N.of_nat R) = cpos R (liftc D x).
  Proof.
    induction D as [|d D IH]; intros x rho HD Hvx Hix; [reflexivity|].
    destruct (HD d (or_introl eq_refl)) as (Hd & Hvd & Hpf).
    assert (HD' : forall d', In d' D -> dok R n d') by (intros d' Hd'; apply HD; right; exact Hd').
    cbn [map gnp_targets].
    destruct (isRootPositionOnRow (cpos R x) n rho) eqn:Eroot.
    - pose proof (pd_isRoot_any R n x rho HR Hn ER Hvx Eroot) as Hr.
      rewrite (pd_liftc_root (d :: D) x); [reflexivity| |exact Hr].
      intros d' Hd'. exact (proj2 (proj2 (HD d' Hd'))).
    - unfold liftc. cbn [fold_left]. fold (liftc D (lift1 d x)).
      rewrite (pu_isAnc_anc R d x HR Hd Hvd Hvx).
      destruct (anc (S (fst d), snd d / 2) x) eqn:Ea.
      + rewrite (pu_same_subtree R n d x HR Hn ER Hvd Hvx Hpf Ea), N.eqb_refl. cbn [negb].
        pose proof (lift1_bridge R d x HR Hd Hvd Hvx) as Hb.
        rewrite (pu_isAnc_anc R d x HR Hd Hvd Hvx), Ea in Hb. rewrite Hb.
        apply IH; [exact HD'|apply lift1_valid; assumption|apply pu_lift1_cinf; assumption].
      + rewrite (pd_lift1_id d x Ea).
        destruct (negb _); apply IH; assumption.
  Qed.

  (** the row counter on a list that is not sorted *)
  Lemma pd_gnp_row_stale c : vld (TreeRows n) c -> forall fuel rho, fst c <= rho -> rho <= TreeRows n ->
    gnp_row fuel (g (TreeRows n) c) rho (TreeRows n) = rho.
  Proof.
    intros [Hr Ho] fuel rho Hge Hle. destruct fuel as [|f]; [reflexivity|]. cbn [gnp_row].
    pose proof (TreeRows_le_63 n Hn) as Ht.
    rewrite (pps_maxPossible n (TreeRows n) Ht (TreeRows_upper n) rho Hle).
    pose proof (gpos_lt (TreeRows n) (fst c) (snd c) Hr Ho) as Hlt.
    assert (Hp : 2 ^ (TreeRows n - rho) <= 2 ^ (TreeRows n - fst c)) by (apply pow2_le; lia).
    destruct (N.ltb_spec (2 ^ (TreeRows n + 1) - 2 ^ (TreeRows n - rho) - 1) (g (TreeRows n) c)) as [Hc|_];
      [unfold ProofPosSpec.g in Hc; lia|reflexivity].
  Qed.

  Lemma pd_gnp_row_le c : vld (TreeRows n) c -> forall rho, rho <= TreeRows n ->
    gnp_row 300 (g (TreeRows n) c) rho (TreeRows n) <= TreeRows n.
  Proof.
    intros Hv rho Hle. destruct (N.le_gt_cases rho (fst c)) as [H1|H1].
    - rewrite (pu_gnp_row n Hn c Hv 300 rho H1); [exact (proj1 Hv)|].
      destruct Hv as [Hv _]. pose proof (TreeRows_le_63 n Hn). lia.
    - rewrite (pd_gnp_row_stale c Hv 300 rho ltac:(lia) Hle). exact Hle.
  Qed.

  (** [X]: coordinates and hashes; entries with the all-zero hash are dropped; with
      [appendRoots = false] no entry may end on a root *)
  Lemma pd_gnp_loop (D : list coord) b : (forall d, In d D -> dok R n d) ->
    forall (X : list (coord * H)) rho, rho <= N.of_nat R ->
    (forall e, In e X -> cvalid R (fst e) /\ cinf n (fst e)) ->
    (forall e, In e X -> Heqb (snd e) empty = false ->
               b = true \/ is_root_c n (cN (liftc D (fst e))) = false) ->
    gnp_loop HO (map (cpos R) D) (map (cposh H R) X) n (N.of_nat R) rho b
    = map (fun e => cposh H R (liftc D (fst e), snd e))
          (filter (fun e => negb (Heqb (snd e) empty)) X).
  Proof.
    intros HD. induction X as [|e X IH]; intros rho Hrho Hok Hnr; [reflexivity|].
    cbn [map gnp_loop filter]. change (cposh H R e) with (cpos R (fst e), snd e). cbn [fst snd].
    assert (HokX : forall e', In e' X -> cvalid R (fst e') /\ cinf n (fst e'))
      by (intros e' He'; apply Hok; right; exact He').
    assert (HnrX : forall e', In e' X -> Heqb (snd e') empty = false ->
               b = true \/ is_root_c n (cN (liftc D (fst e'))) = false)
      by (intros e' He'; apply Hnr; right; exact He').
    destruct (Heqb (snd e) empty) eqn:Enz; cbn [negb].
    - apply IH; assumption.
    - destruct (Hok e (or_introl eq_refl)) as [Hv Hi].
      pose proof (pu_cvalid_vld R n HR Hn ER (fst e) Hv) as Hvl.
      assert (Hrow : gnp_row 300 (cpos R (fst e)) rho (N.of_nat R) <= N.of_nat R).
      { change (cpos R (fst e)) with (g (N.of_nat R) (cN (fst e))). rewrite ER.
        apply pd_gnp_row_le; [exact Hvl|rewrite <- ER; exact Hrho]. }
      set (rho' := gnp_row 300 (cpos R (fst e)) rho (N.of_nat R)) in *.
      destruct (N.ltb_spec (N.of_nat R) rho') as [Hc|_]; [lia|].
      rewrite (pd_gnp_targets D (fst e) rho' HD Hv Hi).
      assert (Hkeep : b || negb (isRootPositionOnRow (cpos R (liftc D (fst e))) n rho') = true).
      { destruct (Hnr e (or_introl eq_refl) Enz) as [->|Hnroot]; [reflexivity|].
        destruct (isRootPositionOnRow (cpos R (liftc D (fst e))) n rho') eqn:Er;
          [|apply Bool.orb_true_r].
        assert (Hvy : cvalid R (liftc D (fst e))).
        { apply liftc_valid; [intros d Hd; exact (proj1 (HD d Hd))|exact Hv]. }
        rewrite (pd_isRoot_any R n _ rho' HR Hn ER Hvy Er) in Hnroot. discriminate. }
      rewrite Hkeep. cbn [map]. f_equal. apply IH; assumption.
  Qed.
End GnpGen.

(** * 2. The two loops of [updateProofRemove] on graphs *)

Section UprGraph.
  Variable H : Type.
  Variable HO : ops H.
  Variables Fo U : N -> H.
  Local Notation Heqb := (op_eqb HO).
  Local Notation empty := (op_empty HO).

  Lemma pd_dropN_mem pos l p : SSlt l -> pos <= p -> memN p (dropN_lt l pos) = memN p l.
  Proof.
    intros Hs Hp. destruct (pu_dropN_lt_spec H Fo pos l Hs) as [_ D2].
    destruct (memN p l) eqn:A.
    - apply RefTheory.memN_In. apply D2. split; [apply RefTheory.memN_In, A|exact Hp].
    - apply po_memN_false. intros Hin. apply D2 in Hin as [Hin _].
      apply RefTheory.memN_In in Hin. congruence.
  Qed.

  (** "Loop through oldProofs and only add the needed proof hashes" *)
  Definition keep1 (EX UK : list N) (p : N) : list (hp H) :=
    if memN p EX then []
    else if memN p UK then (if Heqb (U p) empty then [] else [(p, U p)])
         else [(p, Fo p)].

  Lemma pd_upr_keep : forall OP EX UK, SSlt OP -> SSlt EX -> SSlt UK ->
    upr_keep HO (gr H Fo OP) EX (gr H U UK) = flat_map (keep1 EX UK) OP.
  Proof.
    induction OP as [|p OP IH]; intros EX UK Ho He Hu; [reflexivity|].
    destruct (po_SS_inv _ _ _ Ho) as [Ho' Hp].
    destruct (pu_dropN_lt_spec H Fo p EX He) as [E1 _].
    destruct (pu_dropN_lt_spec H Fo p UK Hu) as [U1 _].
    cbn [ProofOpsSpec.gr map upr_keep flat_map fst snd].
    rewrite (pu_head_mem H Fo p EX He).
    assert (Erest : forall EX' UK', (forall q, p < q -> memN q EX' = memN q EX) ->
                      (forall q, p < q -> memN q UK' = memN q UK) ->
                      flat_map (keep1 EX' UK') OP = flat_map (keep1 EX UK) OP).
    { intros EX' UK' A B. apply flat_map_ext_in. intros q Hq. specialize (Hp q Hq).
      unfold keep1. rewrite (A q Hp), (B q Hp). reflexivity. }
    assert (AEX : forall q, p < q -> memN q (dropN_lt EX p) = memN q EX)
      by (intros q Hq; apply pd_dropN_mem; [exact He|lia]).
    assert (AUK : forall q, p < q -> memN q (dropN_lt UK p) = memN q UK)
      by (intros q Hq; apply pd_dropN_mem; [exact Hu|lia]).
    unfold keep1 at 1. destruct (memN p EX).
    - cbn [app]. change (map (fun p0 => (p0, Fo p0)) OP) with (gr H Fo OP).
      rewrite (IH _ _ Ho' E1 Hu). apply Erest; [exact AEX|auto].
    - rewrite pu_dropHP_gr, pu_headHP_gr, (pu_head_mem H U p UK Hu).
      change (map (fun p0 => (p0, Fo p0)) OP) with (gr H Fo OP).
      destruct (memN p UK).
      + destruct (Heqb (U p) empty); cbn [app]; rewrite (IH _ _ Ho' E1 U1);
          [apply Erest; assumption|f_equal; apply Erest; assumption].
      + cbn [app]. rewrite (IH _ _ Ho' E1 U1). f_equal. apply Erest; assumption.
  Qed.

  (** "Loop through the missingPos and add missing positions" *)
  Lemma pd_upr_missing_eq : forall (MP : list N) (upd : list (hp H)),
    upr_missing MP upd = upa_needed MP upd.
  Proof. induction MP as [|m MP IH]; intros upd; [reflexivity|]. cbn [upr_missing upa_needed]. rewrite !IH. reflexivity. Qed.

  Lemma pd_upr_missing MP UK : SSlt MP -> SSlt UK ->
    upr_missing MP (gr H U UK) = gr H U (filter (fun p => memN p UK) MP).
  Proof. intros Hm Hu. rewrite pd_upr_missing_eq. apply pu_upa_needed_gr; assumption. Qed.
End UprGraph.

(** a list with distinct keys is the graph of its look-up function *)
Section Lookup.
  Variable H : Type.
  Variable dflt : H.
  Fixpoint lookup (l : list (hp H)) (p : N) : H :=
    match l with
    | [] => dflt
    | e :: t => if fst e =? p then snd e else lookup t p
    end.
  Lemma lookup_In l : NoDup (map fst l) -> forall e, In e l -> lookup l (fst e) = snd e.
  Proof.
    induction l as [|a l IH]; intros Hnd e He; [destruct He|]. cbn [map] in Hnd.
    inversion Hnd as [|x y Hna Hnd']; subst. cbn [lookup].
    destruct He as [->|He]; [rewrite N.eqb_refl; reflexivity|].
    destruct (N.eqb_spec (fst a) (fst e)) as [E|_]; [|exact (IH Hnd' e He)].
    exfalso. apply Hna. rewrite E. apply in_map, He.
  Qed.
  Lemma lookup_graph l : NoDup (map fst l) -> l = gr H (lookup l) (map fst l).
  Proof.
    intros Hnd. apply po_graph_eq. intros e He. symmetry. exact (lookup_In l Hnd e He).
  Qed.
End Lookup.

(** [deTwin] of at most one position *)
Lemma pd_deTwin_single p fr : deTwin [p] fr = [p].
Proof. reflexivity. Qed.

(** * 3. Occurrences after deletions: [prune] along paths *)

Section PrunePath.
  Variable H : Type.
  Variable HO : ops H.
  Hypothesis HOK : ops_ok HO.
  Variable dels : list H.
  Local Notation prune := (RefTheory.prune HO dels).
  Local Notation ctree := (ctree H).

  (** the path of an occurrence once every node with a fully deleted child is contracted *)
  Fixpoint ppath (c : ctree) (pi : list bool) : list bool :=
    match pi, c with
    | b :: pi', CNode _ l r =>
        match prune (if b then l else r) with
        | None => ppath (if b then r else l) pi'
        | Some _ => b :: ppath (if b then r else l) pi'
        end
    | _, _ => []
    end.

  Lemma ppath_length c : forall pi, (length (ppath c pi) <= length pi)%nat.
  Proof.
    induction c as [h|h l IHl r IHr]; intros [|b pi]; cbn [ppath length]; try lia.
    destruct b; destruct (prune _); cbn [length];
      first [specialize (IHr pi); lia|specialize (IHl pi); lia].
  Qed.

  Lemma prune_occp c pi c0 : occp H c pi c0 -> forall c0', prune c0 = Some c0' ->
    exists c', prune c = Some c' /\ occp H c' (ppath c pi) c0'.
  Proof.
    induction 1 as [c|h l r pi c0 _ IH|h l r pi c0 _ IH]; intros c0' Hp.
    - exists c0'. split; [exact Hp|]. destruct c; constructor.
    - destruct (IH c0' Hp) as (l' & Hl & Ho). cbn [RefTheory.prune ppath]. rewrite Hl.
      destruct (prune r) as [r'|]; cbn [join].
      + eexists. split; [reflexivity|]. apply occp_l. exact Ho.
      + exists l'. split; [reflexivity|exact Ho].
    - destruct (IH c0' Hp) as (r' & Hr & Ho). cbn [RefTheory.prune ppath]. rewrite Hr.
      destruct (prune l) as [l'|]; cbn [join].
      + eexists. split; [reflexivity|]. apply occp_r. exact Ho.
      + exists r'. split; [reflexivity|exact Ho].
  Qed.

  Lemma prune_occp_inv : forall c c', prune c = Some c' -> forall pi' c0', occp H c' pi' c0' ->
    exists pi c0, occp H c pi c0 /\ prune c0 = Some c0' /\ ppath c pi = pi'.
  Proof.
    induction c as [h|h l IHl r IHr]; intros c' Hp pi' c0' Ho.
    - cbn [RefTheory.prune] in Hp. destruct (memH HO h dels) eqn:Em; [discriminate|].
      injection Hp as <-. inversion Ho; subst. exists [], (CLeaf h).
      split; [constructor|]. split; [cbn [RefTheory.prune]; rewrite Em; reflexivity|reflexivity].
    - cbn [RefTheory.prune] in Hp.
      destruct (prune l) as [l'|] eqn:El; destruct (prune r) as [r'|] eqn:Er; cbn [join] in Hp;
        try discriminate; injection Hp as <-.
      + inversion Ho; subst.
        * exists [], (CNode h l r). split; [constructor|]. split; [|reflexivity].
          cbn [RefTheory.prune]. rewrite El, Er. reflexivity.
        * match goal with X : occp H l' _ _ |- _ => destruct (IHl l' eq_refl _ _ X) as (p & c0 & A & B & C) end.
          exists (false :: p), c0. split; [constructor; exact A|]. split; [exact B|].
          cbn [ppath]. rewrite Er, C. reflexivity.
        * match goal with X : occp H r' _ _ |- _ => destruct (IHr r' eq_refl _ _ X) as (p & c0 & A & B & C) end.
          exists (true :: p), c0. split; [constructor; exact A|]. split; [exact B|].
          cbn [ppath]. rewrite El, C. reflexivity.
      + destruct (IHl l' eq_refl _ _ Ho) as (p & c0 & A & B & C).
        exists (false :: p), c0. split; [constructor; exact A|]. split; [exact B|].
        cbn [ppath]. rewrite Er. exact C.
      + destruct (IHr r' eq_refl _ _ Ho) as (p & c0 & A & B & C).
        exists (true :: p), c0. split; [constructor; exact A|]. split; [exact B|].
        cbn [ppath]. rewrite El. exact C.
  Qed.

  Lemma ppath_app c p c1 : occp H c p c1 -> forall q, ppath c (p ++ q) = ppath c p ++ ppath c1 q.
  Proof.
    induction 1 as [c|h l r pi c0 _ IH|h l r pi c0 _ IH]; intros q.
    - cbn [app]. destruct c; reflexivity.
    - cbn [app ppath]. rewrite IH. destruct (prune r); reflexivity.
    - cbn [app ppath]. rewrite IH. destruct (prune l); reflexivity.
  Qed.

  Lemma prune_none_iff (c : ctree) : prune c = None <-> forall h, In h (cleaves H c) -> In h dels.
  Proof.
    induction c as [h|h l IHl r IHr]; cbn [RefTheory.prune cleaves].
    - destruct (memH HO h dels) eqn:Em.
      + split; [|reflexivity]. intros _ x [<-|[]]. apply (memH_In H HO HOK), Em.
      + split; [discriminate|]. intros Hall. exfalso.
        assert (Hc : memH HO h dels = true) by (apply (memH_In H HO HOK), Hall; left; reflexivity).
        congruence.
    - destruct (prune l) as [l'|]; destruct (prune r) as [r'|]; cbn [join].
      + split; [discriminate|]. intros Hall. exfalso.
        assert (X : Some l' = None); [|discriminate]. apply IHl. intros x Hx. apply Hall, in_or_app. left. exact Hx.
      + split; [discriminate|]. intros Hall. exfalso.
        assert (X : Some l' = None); [|discriminate]. apply IHl. intros x Hx. apply Hall, in_or_app. left. exact Hx.
      + split; [discriminate|]. intros Hall. exfalso.
        assert (X : Some r' = None); [|discriminate]. apply IHr. intros x Hx. apply Hall, in_or_app. right. exact Hx.
      + split; [|reflexivity]. intros _ x Hx. apply in_app_or in Hx as [Hx|Hx];
          [apply (proj1 IHl eq_refl), Hx|apply (proj1 IHr eq_refl), Hx].
  Qed.

  Lemma prune_untouched (c : ctree) : cwf H HO c -> (forall h, In h (cleaves H c) -> ~ In h dels) ->
    prune c = Some c.
  Proof.
    induction c as [h|h l IHl r IHr]; intros Hw Hno; cbn [RefTheory.prune].
    - destruct (memH HO h dels) eqn:Em; [|reflexivity]. exfalso.
      apply (Hno h (or_introl eq_refl)). apply (memH_In H HO HOK), Em.
    - cbn [cwf] in Hw. destruct Hw as (Eh & Wl & Wr). cbn [cleaves] in Hno.
      rewrite (IHl Wl), (IHr Wr); cbn [join].
      + rewrite Eh. reflexivity.
      + intros x Hx. apply Hno, in_or_app. right. exact Hx.
      + intros x Hx. apply Hno, in_or_app. left. exact Hx.
  Qed.

  Lemma ppath_untouched (c : ctree) : cwf H HO c -> (forall h, In h (cleaves H c) -> ~ In h dels) ->
    forall pi c0, occp H c pi c0 -> ppath c pi = pi.
  Proof.
    intros Hw Hno pi c0 Ho. revert Hw Hno.
    induction Ho as [c|h l r pi c0 _ IH|h l r pi c0 _ IH]; intros Hw Hno.
    - destruct c; reflexivity.
    - cbn [cwf] in Hw. destruct Hw as (_ & Wl & Wr). cbn [cleaves] in Hno. cbn [ppath].
      rewrite (prune_untouched r Wr) by (intros x Hx; apply Hno, in_or_app; right; exact Hx).
      rewrite IH; [reflexivity|exact Wl|]. intros x Hx. apply Hno, in_or_app. left. exact Hx.
    - cbn [cwf] in Hw. destruct Hw as (_ & Wl & Wr). cbn [cleaves] in Hno. cbn [ppath].
      rewrite (prune_untouched l Wl) by (intros x Hx; apply Hno, in_or_app; left; exact Hx).
      rewrite IH; [reflexivity|exact Wr|]. intros x Hx. apply Hno, in_or_app. right. exact Hx.
  Qed.
End PrunePath.

Section KillOcc.
  Variable H : Type.
  Variable HO : ops H.
  Hypothesis HOK : ops_ok HO.
  Variable dels : list H.
  Variable s : slots H.
  Local Notation prune := (RefTheory.prune HO dels).
  Local Notation s1 := (kill HO dels s).
  Local Notation entry := (StumpAdd.entry H).
  Local Notation erow := (@StumpAdd.erow H).
  Local Notation ecoord := (@StumpAddData.ecoord H).
  Local Notation R := (rows_of (num_leaves s)).

  Lemma entry_cwf (e : entry) ce : In e (forest HO s) -> snd e = Some ce -> cwf H HO ce.
  Proof.
    intros He Hs. destruct e as [[k lo] t]. cbn [snd] in Hs. subst t.
    apply forest_entry in He as (_ & _ & _ & _ & _ & Ht). symmetry in Ht.
    exact (proj1 (compress_wf H HO k _ ce Ht)).
  Qed.

  Lemma kill_rows : rows_of (num_leaves s1) = R.
  Proof. unfold num_leaves. rewrite length_kill. reflexivity. Qed.

  (** every surviving subtree of [s], pruned, is a subtree of [kill dels s] ... *)
  Lemma locc_kill_up (e : entry) ce pi c0 c0' :
    In e (forest HO s) -> snd e = Some ce -> occp H ce pi c0 -> prune c0 = Some c0' ->
    locc H HO s1 c0' (fst (walk (ecoord e) (ppath H HO dels ce pi)))
                     (snd (walk (ecoord e) (ppath H HO dels ce pi))).
  Proof.
    intros He Hs Hp Hpr. destruct (prune_occp H HO dels ce pi c0 Hp c0' Hpr) as (c' & Hc' & Ho).
    apply locc_path. exists (RefTheory.prune_entry HO dels e), c', (ppath H HO dels ce pi).
    split; [rewrite RefTheory.forest_kill; apply in_map, He|].
    split; [unfold RefTheory.prune_entry; cbn [snd]; rewrite Hs; exact Hc'|].
    split; [exact Ho|]. split; [apply surjective_pairing|].
    pose proof (sl_height H HO s e ce pi c0 He Hs Hp). pose proof (ppath_length H HO dels ce pi).
    unfold RefTheory.prune_entry, StumpAdd.erow in *. cbn [fst] in *. lia.
  Qed.

  (** ... and there are no others *)
  Lemma locc_kill_down c0' r1 o1 : locc H HO s1 c0' r1 o1 ->
    exists (e : entry) ce pi c0, In e (forest HO s) /\ snd e = Some ce /\ occp H ce pi c0 /\
      prune c0 = Some c0' /\ walk (ecoord e) (ppath H HO dels ce pi) = (r1, o1).
  Proof.
    intros Hl. apply locc_path in Hl as (e' & c' & pi' & He' & Hs' & Hp' & Hw & _).
    rewrite RefTheory.forest_kill in He'. apply in_map_iff in He' as (e & <- & He).
    unfold RefTheory.prune_entry in Hs'. cbn [snd] in Hs'.
    destruct (snd e) as [ce|] eqn:Ese; [|discriminate]. cbn [RefTheory.oprune] in Hs'.
    destruct (prune_occp_inv H HO dels ce c' Hs' pi' c0' Hp') as (pi & c0 & A & B & C).
    exists e, ce, pi, c0. repeat split; try assumption. rewrite C. exact Hw.
  Qed.

  (** ** the update data of the deletions *)
  Lemma has_del_iff (c : ctree H) : has_del HO dels c = true <-> exists h, In h (cleaves H c) /\ In h dels.
  Proof.
    induction c as [h|h l IHl r IHr]; cbn [has_del cleaves].
    - rewrite (memH_In H HO HOK). split.
      + intros Hh. exists h. split; [left; reflexivity|exact Hh].
      + intros (a & [<-|[]] & Ha). exact Ha.
    - rewrite orb_true_iff, IHl, IHr. split.
      + intros [(a & H1 & H2)|(a & H1 & H2)]; exists a; (split; [apply in_or_app; auto|exact H2]).
      + intros (a & H1 & H2). apply in_app_or in H1 as [H1|H1]; [left|right]; exists a; auto.
  Qed.

  Lemma del_nodes_occ c r o c0 r0 o0 : occ H c r o c0 r0 o0 -> has_del HO dels c0 = true ->
    In (r0, o0, ohash HO (after_del HO dels c0)) (del_nodes HO dels c r o).
  Proof.
    induction 1 as [c r o | h l rr r o c0 r0 o0 Ho IH | h l rr r o c0 r0 o0 Ho IH]; intros Hd.
    - apply dn_head. exact Hd.
    - assert (Hc : has_del HO dels (CNode h l rr) = true).
      { apply has_del_iff. apply has_del_iff in Hd as (a & H1 & H2). exists a. split; [|exact H2].
        apply (occ_leaves H _ _ _ _ _ _ (occ_left H h l rr r o c0 r0 o0 Ho)). exact H1. }
      rewrite dn_node_eq, Hc. right. apply in_or_app. left. exact (IH Hd).
    - assert (Hc : has_del HO dels (CNode h l rr) = true).
      { apply has_del_iff. apply has_del_iff in Hd as (a & H1 & H2). exists a. split; [|exact H2].
        apply (occ_leaves H _ _ _ _ _ _ (occ_right H h l rr r o c0 r0 o0 Ho)). exact H1. }
      rewrite dn_node_eq, Hc. right. apply in_or_app. right. exact (IH Hd).
  Qed.

  Lemma del_nodes_occ_inv (c : ctree H) : forall r o r0 o0 h,
    In (r0, o0, h) (del_nodes HO dels c r o) ->
    exists c0, occ H c r o c0 r0 o0 /\ has_del HO dels c0 = true /\
               h = ohash HO (after_del HO dels c0).
  Proof.
    induction c as [x|x l IHl rr IHr]; intros r o r0 o0 h Hin.
    - rewrite dn_leaf_eq in Hin. destruct (memH HO x dels) eqn:Em; [|destruct Hin].
      destruct Hin as [E|[]]. injection E as <- <- <-. exists (CLeaf x).
      split; [apply occ_here|]. split; [exact Em|reflexivity].
    - rewrite dn_node_eq in Hin. destruct (has_del HO dels (CNode x l rr)) eqn:Ed; [|destruct Hin].
      destruct Hin as [E|Hin].
      + injection E as <- <- <-. exists (CNode x l rr). split; [apply occ_here|]. auto.
      + destruct r as [|r']; [destruct Hin|]. apply in_app_or in Hin as [Hin|Hin].
        * destruct (IHl _ _ _ _ _ Hin) as (c0 & A & B & C). exists c0. split; [apply occ_left, A|auto].
        * destruct (IHr _ _ _ _ _ Hin) as (c0 & A & B & C). exists c0. split; [apply occ_right, A|auto].
  Qed.

  Lemma new_del_occ p h : In (p, h) (new_del HO s dels) <->
    exists c0 r0 o0, locc H HO s c0 r0 o0 /\ has_del HO dels c0 = true /\
                     p = pos R r0 o0 /\ h = ohash HO (after_del HO dels c0).
  Proof.
    rewrite new_del_dlist, (RefTheory.sortK_In), dlist_In. split.
    - intros (r0 & o0 & (k & lo & c & He & Hin) & ->).
      destruct (del_nodes_occ_inv c _ _ _ _ _ Hin) as (c0 & A & B & C).
      exists c0, r0, o0. split; [exists k, lo, c; auto|auto].
    - intros (c0 & r0 & o0 & (k & lo & c & He & Ho) & Hd & -> & ->).
      exists r0, o0. split; [|reflexivity]. exists k, lo, c. split; [exact He|].
      exact (del_nodes_occ _ _ _ _ _ _ Ho Hd).
  Qed.

  Lemma new_del_SSlt : SSlt (map fst (new_del HO s dels)).
  Proof. rewrite new_del_dlist. apply cc_sortK_SSlt. apply dlist_keys_NoDup. Qed.
End KillOcc.

(** * 4. One deleted leaf: the lift of [getNewPositions] is the contraction of [prune] *)

(** [x] is [u] or lies below [u] *)
Definition under (u x : coord) : Prop :=
  (fst x <= fst u)%nat /\ snd x / 2 ^ N.of_nat (fst u - fst x) = snd u.

Lemma under_refl u : under u u.
Proof. split; [lia|]. rewrite Nat.sub_diag. apply N.div_1_r. Qed.

Lemma under_trans a b c : under a b -> under b c -> under a c.
Proof.
  intros [H1 H2] [H3 H4]. split; [lia|].
  replace (N.of_nat (fst a - fst c)) with (N.of_nat (fst b - fst c) + N.of_nat (fst a - fst b)) by lia.
  rewrite N.pow_add_r, <- N.div_div by apply pow2_nz. rewrite H4. exact H2.
Qed.

Lemma under_walk Y pi : (length pi <= fst Y)%nat -> under Y (walk Y pi).
Proof.
  intros Hl. destruct (walk_coord pi Y Hl) as [W1 W2]. split; [lia|].
  replace (fst Y - fst (walk Y pi))%nat with (length pi) by lia. exact W2.
Qed.

Lemma anc_under u x : anc u x = true <-> (fst x < fst u)%nat /\ under u x.
Proof.
  unfold anc, under. rewrite andb_true_iff, Nat.ltb_lt, N.eqb_eq. split; intros [A B]; split; try lia; exact B.
Qed.

Lemma under_chd_disj Z x : (1 <= fst Z)%nat -> under (chd 0 Z) x -> under (chd 1 Z) x -> False.
Proof.
  unfold under, chd. cbn [fst snd]. intros HZ [A1 A2] [B1 B2]. rewrite A2 in B2. lia.
Qed.

Lemma under_chd_parent Z b : (1 <= fst Z)%nat -> b < 2 -> under Z (chd b Z).
Proof.
  intros HZ Hb. unfold under, chd. cbn [fst snd]. split; [lia|].
  replace (fst Z - Nat.pred (fst Z))%nat with 1%nat by lia. change (2 ^ N.of_nat 1) with 2.
  replace (2 * snd Z + b) with (b + snd Z * 2) by lia. rewrite N.div_add by lia.
  rewrite N.div_small by exact Hb. reflexivity.
Qed.

(** the slots below: [under] in terms of slot ranges *)
Lemma under_lo u x : under u x ->
  snd u * p2 (fst u) <= snd x * p2 (fst x) /\ snd x * p2 (fst x) < (snd u + 1) * p2 (fst u).
Proof.
  intros [Hr E]. set (P := 2 ^ N.of_nat (fst u - fst x)) in *.
  assert (EP : p2 (fst u) = P * p2 (fst x)).
  { unfold P, p2. rewrite <- N.pow_add_r. f_equal. lia. }
  pose proof (N.div_mod (snd x) P (pow2_nz _)) as Hd. pose proof (N.mod_lt (snd x) P (pow2_nz _)) as Hm.
  rewrite E in Hd. rewrite EP. pose proof (p2_pos (fst x)) as Hq.
  remember (snd x mod P) as m eqn:Em. remember (p2 (fst x)) as Q eqn:EQ.
  remember (snd u) as a eqn:Ea. rewrite Hd. clear - Hm Hq. nia.
Qed.

(** the parent of a node strictly below [A] is [A] or below [A] *)
Lemma under_parent_walk A tau : tau <> [] -> (length tau <= fst A)%nat ->
  under A (S (fst (walk A tau)), snd (walk A tau) / 2).
Proof.
  intros Hne Hl. destruct (walk_coord tau A Hl) as [W1 W2].
  destruct tau as [|b tau]; [contradiction|]. cbn [length] in *.
  split; cbn [fst snd]; [lia|].
  replace (N.of_nat (fst A - S (fst (walk A (b :: tau))))) with (N.of_nat (length tau)) by lia.
  rewrite Nat2N.inj_succ, N.pow_succ_r', <- N.div_div in W2 by (try apply pow2_nz; lia). exact W2.
Qed.

(** the sibling subtree of a deleted node moves up one row *)
Lemma lift1_sibling P b rest : (1 <= fst P)%nat -> (S (length rest) <= fst P)%nat ->
  lift1 (chd (bN b) P) (walk (chd (bN (negb b)) P) rest) = walk P rest.
Proof.
  intros HP Hl.
  assert (Hbase : lift1 (chd (bN b) P) (chd (bN (negb b)) P) = P).
  { unfold lift1. assert (Ea : anc (S (fst (chd (bN b) P)), snd (chd (bN b) P) / 2) (chd (bN (negb b)) P) = true).
    { apply anc_under. unfold chd. cbn [fst snd]. split; [lia|]. unfold under. cbn [fst snd].
      split; [lia|]. replace (S (Nat.pred (fst P)) - Nat.pred (fst P))%nat with 1%nat by lia.
      change (2 ^ N.of_nat 1) with 2. destruct b; cbn [bN negb];
        rewrite ?N.add_0_r; [rewrite N.mul_comm, N.div_mul by lia|rewrite N.mul_comm, N.div_mul by lia];
        [replace (snd P * 2 + 1) with (1 + snd P * 2) by lia|replace (snd P * 2 + 1) with (1 + snd P * 2) by lia];
        rewrite N.div_add by lia; reflexivity. }
    rewrite Ea. unfold chd. cbn [fst snd]. rewrite Nat.sub_diag. unfold rmbit.
    change (2 ^ (N.of_nat 0 + 1)) with 2. change (2 ^ N.of_nat 0) with 1. rewrite N.mod_1_r, N.mul_1_r, N.add_0_r.
    destruct P as [r o]. cbn [fst snd] in *. f_equal; [lia|].
    destruct b; cbn [bN negb]; rewrite ?N.add_0_r; [rewrite N.mul_comm, N.div_mul by lia; reflexivity|].
    replace (2 * o + 1) with (1 + o * 2) by lia. rewrite N.div_add by lia. reflexivity. }
  pose proof (walk_liftc [chd (bN b) P] rest (chd (bN (negb b)) P)) as Hw.
  unfold liftc in Hw. cbn [fold_left] in Hw. rewrite Hw, Hbase; [reflexivity| |].
  - unfold chd. cbn [fst]. lia.
  - cbn [asc_from]. unfold chd. cbn [fst]. split; [lia|exact I].
Qed.

Section MoveOne.
  Variable H : Type.
  Variable HO : ops H.
  Hypothesis HOK : ops_ok HO.
  Variable hd : H.
  Local Notation prune := (RefTheory.prune HO [hd]).
  Local Notation ppath := (ppath H HO [hd]).

  Lemma pd_other_untouched (a b : list H) : NoDup (a ++ b) -> In hd a ->
    forall x, In x b -> ~ In x [hd].
  Proof.
    intros Hnd Ha x Hx [<-|[]]. exact (proj2 (proj2 (NoDup_app_inv _ _ _ Hnd)) _ Ha Hx).
  Qed.
  Lemma pd_other_untouched' (a b : list H) : NoDup (a ++ b) -> In hd b ->
    forall x, In x a -> ~ In x [hd].
  Proof.
    intros Hnd Hb x Hx [<-|[]]. exact (proj2 (proj2 (NoDup_app_inv _ _ _ Hnd)) _ Hx Hb).
  Qed.

  (** a subtree that holds the deleted leaf strictly below its top survives *)
  Lemma pd_prune_some (l : ctree H) pi : occp H l pi (CLeaf hd) -> pi <> [] ->
    NoDup (cleaves H l) -> prune l <> None.
  Proof.
    intros Ho Hne Hnd Hn. pose proof (proj1 (prune_none_iff H HO HOK [hd] l) Hn) as Hall. clear Hn. rename Hall into Hn.
    inversion Ho; subst; [contradiction| |].
    - cbn [cleaves] in *. destruct (cleaves H r) as [|y ys] eqn:Er; [exact (cleaves_nonnil H r Er)|].
      destruct (cleaves H l0) as [|x xs] eqn:El; [exact (cleaves_nonnil H l0 El)|].
      assert (Hx : x = hd) by (destruct (Hn x (or_introl eq_refl)) as [E|[]]; auto).
      assert (Hy : y = hd).
      { destruct (Hn y) as [E|[]]; [apply in_or_app; right; left; reflexivity|auto]. }
      subst x y. apply (proj2 (proj2 (NoDup_app_inv _ _ _ Hnd)) hd); left; reflexivity.
    - cbn [cleaves] in *. destruct (cleaves H r) as [|y ys] eqn:Er; [exact (cleaves_nonnil H r Er)|].
      destruct (cleaves H l0) as [|x xs] eqn:El; [exact (cleaves_nonnil H l0 El)|].
      assert (Hx : x = hd) by (destruct (Hn x (or_introl eq_refl)) as [E|[]]; auto).
      assert (Hy : y = hd).
      { destruct (Hn y) as [E|[]]; [apply in_or_app; right; left; reflexivity|auto]. }
      subst x y. apply (proj2 (proj2 (NoDup_app_inv _ _ _ Hnd)) hd); left; reflexivity.
  Qed.

  Lemma pd_lift1_above d x : (fst d < fst x)%nat -> lift1 d x = x.
  Proof.
    intros Hr. apply pd_lift1_id. destruct (anc (S (fst d), snd d / 2) x) eqn:Ea; [|reflexivity].
    apply anc_under in Ea as [Hlt _]. cbn [fst] in Hlt. lia.
  Qed.

  (** [d] strictly below [A], [x] below the sibling [B] of [A]: [x] does not move *)
  Lemma pd_lift1_sib_disj Z b tau pi : (1 <= fst Z)%nat -> tau <> [] ->
    (S (length tau) <= fst Z)%nat -> (S (length pi) <= fst Z)%nat ->
    lift1 (walk (chd (bN b) Z) tau) (walk (chd (bN (negb b)) Z) pi) = walk (chd (bN (negb b)) Z) pi.
  Proof.
    intros HZ Hne Hlt Hlp. apply pd_lift1_id.
    set (d := walk (chd (bN b) Z) tau). set (x := walk (chd (bN (negb b)) Z) pi).
    destruct (anc (S (fst d), snd d / 2) x) eqn:Ea; [exfalso|reflexivity].
    apply anc_under in Ea as [_ Hu].
    assert (HA : under (chd (bN b) Z) (S (fst d), snd d / 2)).
    { apply under_parent_walk; [exact Hne|]. unfold chd. cbn [fst]. lia. }
    assert (HB : under (chd (bN (negb b)) Z) x).
    { apply under_walk. unfold chd. cbn [fst]. lia. }
    pose proof (under_trans _ _ _ HA Hu) as HAx.
    destruct b; cbn [bN negb] in *;
      [exact (under_chd_disj Z x HZ HB HAx)|exact (under_chd_disj Z x HZ HAx HB)].
  Qed.

  Lemma move_tree (c : ctree H) pid : occp H c pid (CLeaf hd) -> pid <> [] ->
    NoDup (cleaves H c) -> cwf H HO c ->
    forall Y, (cheight H c <= fst Y)%nat -> forall pi c0 c0', occp H c pi c0 -> prune c0 = Some c0' ->
      lift1 (walk Y pid) (walk Y pi) = walk Y (ppath c pi).
  Proof.
    intros Hd. remember (CLeaf hd) as lf eqn:Elf.
    induction Hd as [c|h l r pid c1 Hd IH|h l r pid c1 Hd IH]; intros Hne Hnd Hw Y HY pi c0 c0' Ho Hp;
      [contradiction| |]; subst c1.
    - cbn [cleaves cwf cheight] in Hnd, Hw, HY. destruct Hw as (_ & Wl & Wr).
      pose proof (NoDup_app_inv _ _ _ Hnd) as (Ndl & Ndr & _).
      assert (Hhd : In hd (cleaves H l)) by (apply (occp_leaves H _ _ _ Hd); left; reflexivity).
      pose proof (pd_other_untouched _ _ Hnd Hhd) as Hur.
      pose proof (occp_height H _ _ _ Hd) as Hhd'. cbn [cheight] in Hhd'.
      change (walk Y (false :: pid)) with (walk (chd 0 Y) pid).
      inversion Ho; subst.
      + (* the top *) cbn [ppath walk fold_left]. apply pd_lift1_above.
        destruct (walk_coord pid (chd 0 Y)) as [W1 _]; [unfold chd; cbn [fst]; lia|].
        rewrite W1. unfold chd. cbn [fst]. lia.
      + (* in the subtree of the deleted leaf *)
        match goal with X : occp H l _ c0 |- _ => rename X into Hol end.
        pose proof (occp_height H _ _ _ Hol) as Hh2.
        change (walk Y (false :: ?p)) with (walk (chd 0 Y) p).
        cbn [ppath]. rewrite (prune_untouched H HO HOK [hd] r Wr Hur).
        change (walk Y (false :: ?p)) with (walk (chd 0 Y) p).
        destruct pid as [|b0 pid'].
        * inversion Hd; subst. inversion Hol; subst. cbn [RefTheory.prune memH] in Hp.
          rewrite (proj2 (HOK hd hd) eq_refl) in Hp. discriminate.
        * apply (IH eq_refl ltac:(discriminate) Ndl Wl (chd 0 Y) ltac:(unfold chd; cbn [fst]; lia) _ c0 c0' Hol Hp).
      + (* in the sibling subtree *)
        match goal with X : occp H r _ c0 |- _ => rename X into Hor end.
        pose proof (occp_height H _ _ _ Hor) as Hh2.
        change (walk Y (true :: ?p)) with (walk (chd 1 Y) p). cbn [ppath].
        rewrite (ppath_untouched H HO HOK [hd] r Wr Hur _ _ Hor).
        destruct pid as [|b0 pid'].
        * inversion Hd; subst. cbn [RefTheory.prune memH]. rewrite (proj2 (HOK hd hd) eq_refl). cbn [orb].
          cbn [walk fold_left]. apply (lift1_sibling Y false); lia.
        * destruct (prune l) eqn:El; [|exfalso; exact (pd_prune_some l _ Hd ltac:(discriminate) Ndl El)].
          change (walk Y (true :: ?p)) with (walk (chd 1 Y) p).
          apply (pd_lift1_sib_disj Y false (b0 :: pid') pi0); try discriminate; cbn [length] in *; lia.
    - cbn [cleaves cwf cheight] in Hnd, Hw, HY. destruct Hw as (_ & Wl & Wr).
      pose proof (NoDup_app_inv _ _ _ Hnd) as (Ndl & Ndr & _).
      assert (Hhd : In hd (cleaves H r)) by (apply (occp_leaves H _ _ _ Hd); left; reflexivity).
      pose proof (pd_other_untouched' _ _ Hnd Hhd) as Hul.
      pose proof (occp_height H _ _ _ Hd) as Hhd'. cbn [cheight] in Hhd'.
      change (walk Y (true :: pid)) with (walk (chd 1 Y) pid).
      inversion Ho; subst.
      + cbn [ppath walk fold_left]. apply pd_lift1_above.
        destruct (walk_coord pid (chd 1 Y)) as [W1 _]; [unfold chd; cbn [fst]; lia|].
        rewrite W1. unfold chd. cbn [fst]. lia.
      + match goal with X : occp H l _ c0 |- _ => rename X into Hol end.
        pose proof (occp_height H _ _ _ Hol) as Hh2.
        change (walk Y (false :: ?p)) with (walk (chd 0 Y) p). cbn [ppath].
        rewrite (ppath_untouched H HO HOK [hd] l Wl Hul _ _ Hol).
        destruct pid as [|b0 pid'].
        * inversion Hd; subst. cbn [RefTheory.prune memH]. rewrite (proj2 (HOK hd hd) eq_refl). cbn [orb].
          cbn [walk fold_left]. apply (lift1_sibling Y true); lia.
        * destruct (prune r) eqn:Er; [|exfalso; exact (pd_prune_some r _ Hd ltac:(discriminate) Ndr Er)].
          change (walk Y (false :: ?p)) with (walk (chd 0 Y) p).
          apply (pd_lift1_sib_disj Y true (b0 :: pid') pi0); try discriminate; cbn [length] in *; lia.
      + match goal with X : occp H r _ c0 |- _ => rename X into Hor end.
        pose proof (occp_height H _ _ _ Hor) as Hh2.
        change (walk Y (true :: ?p)) with (walk (chd 1 Y) p).
        cbn [ppath]. rewrite (prune_untouched H HO HOK [hd] l Wl Hul).
        change (walk Y (true :: ?p)) with (walk (chd 1 Y) p).
        destruct pid as [|b0 pid'].
        * inversion Hd; subst. inversion Hor; subst. cbn [RefTheory.prune memH] in Hp.
          rewrite (proj2 (HOK hd hd) eq_refl) in Hp. discriminate.
        * apply (IH eq_refl ltac:(discriminate) Ndr Wr (chd 1 Y) ltac:(unfold chd; cbn [fst]; lia) _ c0 c0' Hor Hp).
  Qed.
End MoveOne.

(** * 5. One deleted leaf that is not a tree root: the forest after the deletion *)

Lemma pd_live_sub_nodup {H} (s : slots H) a b : NoDup (live s) -> NoDup (live (firstn a (skipn b s))).
Proof.
  intros Hnd. rewrite <- (firstn_skipn b s), live_app in Hnd.
  apply NoDup_app_inv in Hnd as (_ & Hnd & _).
  rewrite <- (firstn_skipn a (skipn b s)), live_app in Hnd.
  exact (proj1 (NoDup_app_inv _ _ _ Hnd)).
Qed.

Section DelOne.
  Variable H : Type.
  Variable HO : ops H.
  Hypothesis HOK : ops_ok HO.
  Variable s : slots H.
  Hypothesis Hn63 : N.of_nat (length s) <= 2 ^ 63.
  Hypothesis Hnd : NoDup (live s).
  Variable xd : node H.
  Local Notation hd := (nhash xd).
  Local Notation lay := (layout HO s).
  Local Notation R := (rows_of (num_leaves s)).
  Local Notation n := (N.of_nat (length s)).
  Hypothesis Hxd : In xd lay.
  Hypothesis Hxl : nleaf xd = true.
  Hypothesis Hxr : nroot xd = false.
  Local Notation entry := (StumpAdd.entry H).
  Local Notation erow := (@StumpAdd.erow H).
  Local Notation ecoord := (@StumpAddData.ecoord H).
  Local Notation prune := (RefTheory.prune HO [hd]).
  Local Notation ppath := (ppath H HO [hd]).
  Local Notation s1 := (kill HO [hd] s).
  Local Notation d := (nrow xd, noff xd).

  Lemma dl_entry_leaves_nodup (e : entry) ce : In e (forest HO s) -> snd e = Some ce ->
    NoDup (cleaves H ce).
  Proof.
    intros He Hs. destruct e as [[k lo] t]. cbn [snd] in Hs. subst t.
    apply forest_entry in He as (_ & _ & _ & _ & _ & Ht).
    pose proof (compress_leaves H HO k (skipn (N.to_nat lo) s)) as Hl. rewrite <- Ht in Hl.
    cbn [oleaves] in Hl. rewrite Hl. apply pd_live_sub_nodup, Hnd.
  Qed.

  Lemma dl_entry_height (e : entry) ce : In e (forest HO s) -> snd e = Some ce ->
    (cheight H ce <= erow e)%nat.
  Proof.
    intros He Hs. destruct e as [[k lo] t]. cbn [snd] in Hs. subst t.
    apply forest_entry in He as (_ & _ & _ & _ & _ & Ht). symmetry in Ht.
    exact (proj2 (compress_wf H HO k _ ce Ht)).
  Qed.

  (** where the deleted leaf is *)
  Lemma dl_locate : exists (e : entry) cd pid,
    In e (forest HO s) /\ snd e = Some cd /\ occp H cd pid (CLeaf hd) /\
    walk (ecoord e) pid = d /\ pid <> [] /\ (length pid <= erow e)%nat.
  Proof.
    destruct (node_locc H HO s xd Hxd Hxl) as (k & lo & c & He & Ho & _).
    destruct (occ_path H _ _ _ _ _ _ Ho) as (pid & Hp & Hw & Hl).
    exists (k, lo, Some c), c, pid. repeat split; try assumption.
    intros ->. cbn [walk fold_left] in Hw.
    destruct (root_node H HO s k lo (Some c) He) as (_ & _ & _ & x & Hx & Hr & _).
    apply tnode_some in Hx as (Hx & Xr & Xo).
    assert (E : x = xd).
    { apply (RefTheory.layout_coord_inj H HO s x xd Hx Hxd). unfold RefTheory.coord.
      injection Hw as <- <-. rewrite Xr, Xo. reflexivity. }
    subst x. congruence.
  Qed.

  (** a leaf hash occurs in one tree only *)
  Lemma dl_other_tree (e e' : entry) ce ce' h : In e (forest HO s) -> In e' (forest HO s) ->
    snd e = Some ce -> snd e' = Some ce' -> In h (cleaves H ce) -> In h (cleaves H ce') ->
    erow e = erow e'.
  Proof.
    intros He He' Hs Hs' Hh Hh'.
    destruct e as [[k lo] t], e' as [[k' lo'] t']. cbn [snd] in Hs, Hs'. subst t t'.
    unfold StumpAdd.erow. cbn [fst].
    pose proof (dl_entry_height _ _ He eq_refl) as Hk. pose proof (dl_entry_height _ _ He' eq_refl) as Hk'.
    unfold StumpAdd.erow in Hk, Hk'. cbn [fst] in Hk, Hk'.
    destruct (leaf_occ H ce k (lo / 2 ^ N.of_nat k) h Hh Hk) as (r0 & o0 & Ho).
    destruct (leaf_occ H ce' k' (lo' / 2 ^ N.of_nat k') h Hh' Hk') as (r0' & o0' & Ho').
    destruct (locc_entry_node H HO s _ _ _ _ _ _ He Ho) as (x & Hxe & Hx & _ & _ & Xh & Xl & _).
    destruct (locc_entry_node H HO s _ _ _ _ _ _ He' Ho') as (x' & Hxe' & Hx' & _ & _ & Xh' & Xl' & _).
    cbn [chash cleafb] in *.
    assert (E : x = x') by (apply (live_leaf_unique H HO s x x' Hnd Hx Hx' Xl Xl'); congruence).
    subst x'. pose proof (nlo_lt_nhi H x) as Hlt.
    destruct (layout_same_entry H HO s _ _ _ _ _ _ x x He He' Hxe Hxe' ltac:(lia) Hlt) as (E & _).
    exact E.
  Qed.

  Lemma dl_ecoord_lo (e : entry) : In e (forest HO s) ->
    snd (ecoord e) * p2 (erow e) = StumpAddData.elo H e.
  Proof.
    intros He. destruct e as [[k lo] t]. apply forest_entry in He as (_ & _ & E & _).
    unfold StumpAddData.ecoord, StumpAdd.erow, StumpAddData.elo. cbn [fst snd].
    rewrite E at 1. fold (p2 k). rewrite N.div_mul by (apply N.neq_0_lt_0, p2_pos). symmetry. exact E.
  Qed.

  (** coordinates below the roots of two different trees are not related *)
  Lemma dl_trees_disj (e e' : entry) u x : In e (forest HO s) -> In e' (forest HO s) ->
    erow e <> erow e' -> under (ecoord e) u -> under (ecoord e') x -> under u x -> False.
  Proof.
    intros He He' Hne Hu Hx Hux. pose proof (under_trans _ _ _ Hu Hux) as Hex.
    apply under_lo in Hex as [A1 A2]. apply under_lo in Hx as [B1 B2].
    rewrite N.mul_add_distr_r, N.mul_1_l in A2, B2.
    change (fst (ecoord e)) with (erow e) in *. change (fst (ecoord e')) with (erow e') in *.
    rewrite (dl_ecoord_lo e He) in A1, A2. rewrite (dl_ecoord_lo e' He') in B1, B2.
    destruct e as [[k lo] t], e' as [[k' lo'] t'].
    unfold StumpAdd.erow, StumpAddData.elo in *. cbn [fst snd] in *.
    destruct (Nat.lt_trichotomy k k') as [Hlt|[Heq|Hgt]]; [|contradiction|].
    - pose proof (forest_entries_disjoint H HO s _ _ _ _ _ _ He' He Hlt). lia.
    - pose proof (forest_entries_disjoint H HO s _ _ _ _ _ _ He He' Hgt). lia.
  Qed.

  (** the positions after [getNewPositions] with the deleted leaf as the only target: the
      coordinates in the forest after the deletion *)
  Lemma dl_move (e : entry) ce pi c0 c0' : In e (forest HO s) -> snd e = Some ce ->
    occp H ce pi c0 -> prune c0 = Some c0' ->
    lift1 d (walk (ecoord e) pi) = walk (ecoord e) (ppath ce pi).
  Proof.
    intros He Hs Hp Hpr.
    destruct dl_locate as (ed & cd & pid & Hed & Hsd & Hpd & Hwd & Hne & Hld).
    pose proof (sl_height H HO s e ce pi c0 He Hs Hp) as Hl.
    destruct (Nat.eq_dec (erow e) (erow ed)) as [Er|Er].
    - (* the tree of the deleted leaf *)
      assert (Ee : e = ed).
      { destruct e as [[k lo] t], ed as [[k' lo'] t']. unfold StumpAdd.erow in Er. cbn [fst] in Er. subst k'.
        destruct (forest_entry_unique H HO s _ _ _ _ _ He Hed) as [-> ->]. reflexivity. }
      subst ed. rewrite Hs in Hsd. injection Hsd as <-. rewrite <- Hwd.
      apply (move_tree H HO HOK hd ce pid Hpd Hne (dl_entry_leaves_nodup e ce He Hs)
               (entry_cwf H HO s e ce He Hs) (ecoord e) (dl_entry_height e ce He Hs) pi c0 c0' Hp Hpr).
    - (* another tree *)
      assert (Hno : forall h, In h (cleaves H ce) -> ~ In h [hd]).
      { intros h Hh [<-|[]]. apply Er.
        apply (dl_other_tree e ed ce cd hd He Hed Hs Hsd Hh).
        apply (occp_leaves H _ _ _ Hpd). left. reflexivity. }
      rewrite (ppath_untouched H HO HOK [hd] ce (entry_cwf H HO s e ce He Hs) Hno pi c0 Hp).
      apply pd_lift1_id.
      destruct (anc (S (fst d), snd d / 2) (walk (ecoord e) pi)) eqn:Ea; [exfalso|reflexivity].
      apply anc_under in Ea as [_ Hu].
      assert (HA : under (ecoord ed) (S (fst d), snd d / 2)).
      { rewrite <- Hwd. apply under_parent_walk; assumption. }
      exact (dl_trees_disj ed e _ _ Hed He (fun E => Er (eq_sym E)) HA (under_walk (ecoord e) pi Hl) Hu).
  Qed.

  (** the deleted leaf as a target of [getNewPositions] *)
  Lemma dl_dok : dok R n d.
  Proof.
    destruct (rf_parent H HO s xd Hxd Hxr) as (p & Hp & Ep & _).
    destruct (layout_coords_rows_of H HO s xd Hxd) as [V1 V2].
    destruct (layout_coords_rows_of H HO s p Hp) as [P1 _].
    pose proof (layout_coords_valid H HO s p Hp) as Pv.
    unfold ncrd, par, cN in Ep. cbn [fst snd] in Ep. injection Ep as Er Eo.
    assert (Erp : nrow p = S (nrow xd)) by lia.
    split; [cbn [fst]; lia|]. split; [split; assumption|].
    unfold pf_ok. cbn [fst snd]. rewrite Eo, Erp in Pv.
    replace (N.of_nat (nrow xd) + 1) with (N.of_nat (S (nrow xd))) by lia. exact Pv.
  Qed.
End DelOne.

(** * 6. More about [prune]; the subtrees of a canonical proof are disjoint *)

Section PruneMore.
  Variable H : Type.
  Variable HO : ops H.
  Hypothesis HOK : ops_ok HO.
  Variable dels : list H.
  Local Notation prune := (RefTheory.prune HO dels).

  Lemma prune_leaves : forall (c c' : ctree H), prune c = Some c' ->
    forall x, In x (cleaves H c') <-> In x (cleaves H c) /\ ~ In x dels.
  Proof.
    induction c as [h|h l IHl r IHr]; intros c' Hp x.
    - cbn [RefTheory.prune] in Hp. destruct (memH HO h dels) eqn:Em; [discriminate|].
      injection Hp as <-. cbn [cleaves In]. split.
      + intros [<-|[]]. split; [left; reflexivity|]. intros Hin.
        apply (memH_In H HO HOK) in Hin. congruence.
      + intros [[<-|[]] _]. left. reflexivity.
    - cbn [RefTheory.prune] in Hp. cbn [cleaves]. rewrite in_app_iff.
      destruct (prune l) as [l'|] eqn:El; destruct (prune r) as [r'|] eqn:Er; cbn [join] in Hp;
        try discriminate; injection Hp as <-.
      + cbn [cleaves]. rewrite in_app_iff, (IHl l' eq_refl x), (IHr r' eq_refl x). tauto.
      + rewrite (IHl l' eq_refl x). pose proof (proj1 (prune_none_iff H HO HOK dels r) Er x). tauto.
      + rewrite (IHr r' eq_refl x). pose proof (proj1 (prune_none_iff H HO HOK dels l) El x). tauto.
  Qed.

  (** a node of the pruned tree comes from a node both of whose children survive (or a leaf) *)
  Definition uncontracted (c0 : ctree H) : Prop :=
    forall h l r, c0 = CNode h l r -> prune l <> None /\ prune r <> None.

  Lemma prune_occp_inv2 : forall c c', prune c = Some c' -> forall pi' c0', occp H c' pi' c0' ->
    exists pi c0, occp H c pi c0 /\ prune c0 = Some c0' /\ ppath H HO dels c pi = pi' /\ uncontracted c0.
  Proof.
    induction c as [h|h l IHl r IHr]; intros c' Hp pi' c0' Ho.
    - cbn [RefTheory.prune] in Hp. destruct (memH HO h dels) eqn:Em; [discriminate|].
      injection Hp as <-. inversion Ho; subst. exists [], (CLeaf h).
      split; [constructor|]. split; [cbn [RefTheory.prune]; rewrite Em; reflexivity|].
      split; [reflexivity|]. intros ? ? ? E. discriminate.
    - cbn [RefTheory.prune] in Hp.
      destruct (prune l) as [l'|] eqn:El; destruct (prune r) as [r'|] eqn:Er; cbn [join] in Hp;
        try discriminate; injection Hp as <-.
      + inversion Ho; subst.
        * exists [], (CNode h l r). split; [constructor|]. split; [|split; [reflexivity|]].
          -- cbn [RefTheory.prune]. rewrite El, Er. reflexivity.
          -- intros ? ? ? E. injection E as <- <- <-. rewrite El, Er. split; discriminate.
        * match goal with X : occp H l' _ _ |- _ => destruct (IHl l' eq_refl _ _ X) as (p & c0 & A & B & C & D) end.
          exists (false :: p), c0. split; [constructor; exact A|]. split; [exact B|]. split; [|exact D].
          cbn [ppath]. rewrite Er, C. reflexivity.
        * match goal with X : occp H r' _ _ |- _ => destruct (IHr r' eq_refl _ _ X) as (p & c0 & A & B & C & D) end.
          exists (true :: p), c0. split; [constructor; exact A|]. split; [exact B|]. split; [|exact D].
          cbn [ppath]. rewrite El, C. reflexivity.
      + destruct (IHl l' eq_refl _ _ Ho) as (p & c0 & A & B & C & D).
        exists (false :: p), c0. split; [constructor; exact A|]. split; [exact B|]. split; [|exact D].
        cbn [ppath]. rewrite Er. exact C.
      + destruct (IHr r' eq_refl _ _ Ho) as (p & c0 & A & B & C & D).
        exists (true :: p), c0. split; [constructor; exact A|]. split; [exact B|]. split; [|exact D].
        cbn [ppath]. rewrite El. exact C.
  Qed.
End PruneMore.

Section CanonDisjoint.
  Variable H : Type.
  Variable HO : ops H.
  Variable s : slots H.
  Hypothesis Hnd : NoDup (live s).
  Variable tsn : list (node H).

  (** two subtrees of the forest that share a leaf: the lower one occurs in the higher one *)
  Lemma locc_nested c1 r1 o1 c2 r2 o2 x : locc H HO s c1 r1 o1 -> locc H HO s c2 r2 o2 ->
    In x (cleaves H c1) -> In x (cleaves H c2) -> (r1 <= r2)%nat -> occ H c2 r2 o2 c1 r1 o1.
  Proof.
    intros L1 L2 X1 X2 Hr.
    pose proof (locc_height H HO s _ _ _ L1) as H1. pose proof (locc_height H HO s _ _ _ L2) as H2.
    destruct (leaf_occ H c1 r1 o1 x X1 H1) as (ra & oa & Oa).
    destruct (leaf_occ H c2 r2 o2 x X2 H2) as (rb & ob & Ob).
    assert (La : locc H HO s (CLeaf x) ra oa).
    { destruct L1 as (k & lo & c & He & Ho). exists k, lo, c. split; [exact He|].
      exact (occ_trans H _ _ _ _ _ _ _ _ _ Ho Oa). }
    assert (Lb : locc H HO s (CLeaf x) rb ob).
    { destruct L2 as (k & lo & c & He & Ho). exists k, lo, c. split; [exact He|].
      exact (occ_trans H _ _ _ _ _ _ _ _ _ Ho Ob). }
    pose proof (locc_once HO s _ _ _ _ _ Hnd La Lb) as E. injection E as <- <-.
    pose proof (occ_range H _ _ _ _ _ _ Oa) as (Ra & Lo1 & Hi1).
    assert (Eo : o1 = oa / p2 (r1 - ra)).
    { pose proof (p2_pos (r1 - ra)) as Hp.
      apply (N.div_unique oa (p2 (r1 - ra)) o1 (oa - o1 * p2 (r1 - ra))); lia. }
    destruct (occ_anc H _ _ _ _ _ _ Ob (r1 - ra)%nat ltac:(lia)) as (cj & O1 & _).
    replace (ra + (r1 - ra))%nat with r1 in O1 by lia. rewrite <- Eo in O1.
    assert (Lj : locc H HO s cj r1 o1).
    { destruct L2 as (k & lo & c & He & Ho). exists k, lo, c. split; [exact He|].
      exact (occ_trans H _ _ _ _ _ _ _ _ _ Ho O1). }
    rewrite (locc_uniq H HO s _ _ _ _ L1 Lj). exact O1.
  Qed.

  (** the proof side of one canonical triple does not meet the proof side of another *)
  Lemma canon_sides_disjoint (h1 : H) (k1 p1 : ctree H) (r1 : nat) (o1 : N) (b1 : bool)
        (h2 : H) (k2 p2' : ctree H) (r2 : nat) (o2 : N) (b2 : bool) (x : H) :
    locc H HO s (if b1 then CNode h1 p1 k1 else CNode h1 k1 p1) (S r1) o1 ->
    locc H HO s (if b2 then CNode h2 p2' k2 else CNode h2 k2 p2') (S r2) o2 ->
    hit H tsn k1 -> ~ hit H tsn p1 -> hit H tsn k2 -> ~ hit H tsn p2' ->
    In x (cleaves H p1) -> In x (cleaves H p2') ->
    (r1, 2 * o1 + (if b1 then 0 else 1)) = (r2, 2 * o2 + (if b2 then 0 else 1)).
  Proof.
    assert (G : forall (h1 : H) (k1 p1 : ctree H) (r1 : nat) (o1 : N) (b1 : bool)
        (h2 : H) (k2 p2' : ctree H) (r2 : nat) (o2 : N) (b2 : bool),
      locc H HO s (if b1 then CNode h1 p1 k1 else CNode h1 k1 p1) (S r1) o1 ->
      locc H HO s (if b2 then CNode h2 p2' k2 else CNode h2 k2 p2') (S r2) o2 ->
      hit H tsn k1 -> ~ hit H tsn p2' ->
      In x (cleaves H p1) -> In x (cleaves H p2') -> (r1 <= r2)%nat ->
      (r1, 2 * o1 + (if b1 then 0 else 1)) = (r2, 2 * o2 + (if b2 then 0 else 1))).
    { clear h1 k1 p1 r1 o1 b1 h2 k2 p2' r2 o2 b2. intros h1 k1 p1 r1 o1 b1 h2 k2 p2' r2 o2 b2 L1 L2 Hk1 Hn2 X1 X2 Hr.
      set (q1 := 2 * o1 + (if b1 then 0 else 1)). set (q2 := 2 * o2 + (if b2 then 0 else 1)).
      assert (Lp1 : locc H HO s p1 r1 q1 /\ locc H HO s k1 r1 (2 * o1 + (if b1 then 1 else 0))).
      { destruct b1; destruct (locc_child H HO s _ _ _ L1 _ _ _ eq_refl) as (r' & Er & A & B);
          injection Er as <-; unfold q1; rewrite ?N.add_0_r in *; split; assumption. }
      destruct Lp1 as [Lp1 Lk1].
      assert (Lp2 : locc H HO s p2' r2 q2).
      { destruct b2; destruct (locc_child H HO s _ _ _ L2 _ _ _ eq_refl) as (r' & Er & A & B);
          injection Er as <-; unfold q2; rewrite ?N.add_0_r in *; assumption. }
      pose proof (locc_nested _ _ _ _ _ _ x Lp1 Lp2 X1 X2 Hr) as Hocc.
      destruct (Nat.eq_dec r1 r2) as [->|Hne].
      - apply occ_same_row in Hocc as [_ ->]. reflexivity.
      - exfalso. apply Hn2.
        destruct (occ_parent H _ _ _ _ _ _ Hocc) as [(_ & E & _)|(hh & l & rr & oo & Hop & Hc)]; [lia|].
        assert (Lpar : locc H HO s (CNode hh l rr) (S r1) oo).
        { destruct Lp2 as (k & lo & c & He & Ho). exists k, lo, c. split; [exact He|].
          exact (occ_trans H _ _ _ _ _ _ _ _ _ Ho Hop). }
        assert (Eoo : oo = o1).
        { unfold q1 in Hc. destruct Hc as [[_ E]|[_ E]]; destruct b1; lia. }
        subst oo. pose proof (locc_uniq H HO s _ _ _ _ L1 Lpar) as Epar.
        assert (Hk_in : incl (cleaves H k1) (cleaves H (CNode hh l rr))).
        { rewrite <- Epar. destruct b1; cbn [cleaves]; intros y Hy; apply in_or_app; [right|left]; exact Hy. }
        destruct Hk1 as (t & Ht & Hth). exists t. split; [exact Ht|].
        apply (occ_leaves H _ _ _ _ _ _ Hop). apply Hk_in. exact Hth. }
    intros L1 L2 Hk1 Hn1 Hk2 Hn2 X1 X2.
    destruct (Nat.le_ge_cases r1 r2) as [Hr|Hr].
    - exact (G h1 k1 p1 r1 o1 b1 h2 k2 p2' r2 o2 b2 L1 L2 Hk1 Hn2 X1 X2 Hr).
    - symmetry. exact (G h2 k2 p2' r2 o2 b2 h1 k1 p1 r1 o1 b1 L2 L1 Hk2 Hn1 X2 X1 Hr).
  Qed.
End CanonDisjoint.

(** * 7. The remove part of [Proof.Update] for one deleted leaf *)

Lemma pd_filter_map {A B} (f : B -> bool) (g : A -> B) (l : list A) :
  filter f (map g l) = map g (filter (fun x => f (g x)) l).
Proof.
  induction l as [|a l IH]; [reflexivity|]. cbn [map filter]. destruct (f (g a)); cbn [map]; rewrite IH; reflexivity.
Qed.

Lemma pd_sortK_graph {H} (F : N -> H) (L : list (hp H)) (T : list N) :
  graph H F L -> NoDup (map fst L) -> SSlt T -> (forall p, In p (map fst L) <-> In p T) ->
  sortK L = gr H F T.
Proof.
  intros HG Hnd HT Hset. rewrite (po_graph_eq H F L HG), (po_sortK_gr H F _ Hnd). f_equal.
  apply pps_sortN_unique; [exact HT|exact Hnd|]. intros p. symmetry. apply Hset.
Qed.

Lemma pd_ex_coords {H} (R : nat) (P : coord -> Prop) (L : list (hp H)) :
  (forall e, In e L -> exists x, P x /\ fst e = cpos R x) ->
  exists X : list (coord * H), L = map (cposh H R) X /\ forall e, In e X -> P (fst e).
Proof.
  induction L as [|e L IH]; intros HL.
  - exists []. split; [reflexivity|intros e []].
  - destruct (HL e (or_introl eq_refl)) as (x & Hx & Ex).
    destruct IH as (X & -> & HX); [intros e' He'; apply HL; right; exact He'|].
    exists ((x, snd e) :: X). split.
    + cbn [map]. f_equal. unfold cposh. cbn [fst snd]. rewrite <- Ex. destruct e; reflexivity.
    + intros e' [<-|He']; [exact Hx|exact (HX e' He')].
Qed.

Section DelMain.
  Variable H : Type.
  Variable HO : ops H.
  Hypothesis HOK : ops_ok HO.
  Hypothesis hash_nz : forall a b, NZ HO (op_hash2 HO a b).
  Variable s : slots H.
  Hypothesis Hlive_nz : forall h, In (Some h) s -> NZ HO h.
  Hypothesis Hn63 : N.of_nat (length s) <= 2 ^ 63.
  Hypothesis Hnd : NoDup (live s).
  Variable xd : node H.
  Local Notation hd := (nhash xd).
  Local Notation lay := (layout HO s).
  Local Notation R := (rows_of (num_leaves s)).
  Local Notation n := (N.of_nat (length s)).
  Local Notation total := (TreeRows (N.of_nat (length s))).
  Hypothesis Hxd : In xd lay.
  Hypothesis Hxl : nleaf xd = true.
  Hypothesis Hxr : nroot xd = false.
  Local Notation entry := (StumpAdd.entry H).
  Local Notation erow := (@StumpAdd.erow H).
  Local Notation ecoord := (@StumpAddData.ecoord H).
  Local Notation prune := (RefTheory.prune HO [hd]).
  Local Notation s1 := (kill HO [hd] s).
  Local Notation lay1 := (layout HO s1).
  Local Notation R1 := (rows_of (num_leaves s1)).
  Local Notation F := (Fv H HO s).
  Local Notation F1 := (Fv H HO s1).
  Local Notation d := (nrow xd, noff xd).
  Local Notation pd := (npos R xd).

  Lemma dm_up c0 r0 o0 c0' : locc H HO s c0 r0 o0 -> prune c0 = Some c0' ->
    locc H HO s1 c0' (fst (lift1 d (r0, o0))) (snd (lift1 d (r0, o0))).
  Proof.
    intros Hl Hp. apply locc_path in Hl as (e & ce & pi & He & Hs & Ho & Hw & _).
    rewrite <- Hw, (dl_move H HO HOK s Hn63 Hnd xd Hxd Hxl Hxr e ce pi c0 c0' He Hs Ho Hp).
    exact (locc_kill_up H HO [hd] s e ce pi c0 c0' He Hs Ho Hp).
  Qed.

  Lemma dm_down c0' r1 o1 : locc H HO s1 c0' r1 o1 ->
    exists c0 r0 o0, locc H HO s c0 r0 o0 /\ prune c0 = Some c0' /\ lift1 d (r0, o0) = (r1, o1) /\
                     uncontracted H HO [hd] c0.
  Proof.
    intros Hl. apply locc_path in Hl as (e' & c' & pi' & He' & Hs' & Hp' & Hw & _).
    rewrite RefTheory.forest_kill in He'. apply in_map_iff in He' as (e & <- & He).
    unfold RefTheory.prune_entry in Hs'. cbn [snd] in Hs'.
    destruct (snd e) as [ce|] eqn:Ese; [|discriminate]. cbn [RefTheory.oprune] in Hs'.
    destruct (prune_occp_inv2 H HO [hd] ce c' Hs' pi' c0' Hp') as (pi & c0 & A & B & C & U).
    pose proof (sl_height H HO s e ce pi c0 He Ese A) as Hl.
    exists c0, (fst (walk (ecoord e) pi)), (snd (walk (ecoord e) pi)).
    split; [apply locc_path; exists e, ce, pi; repeat split; try assumption; apply surjective_pairing|].
    split; [exact B|]. split; [|exact U]. rewrite <- surjective_pairing.
    rewrite (dl_move H HO HOK s Hn63 Hnd xd Hxd Hxl Hxr e ce pi c0 c0' He Ese A B), C.
    change (ecoord (RefTheory.prune_entry HO [hd] e)) with (ecoord e) in Hw. exact Hw.
  Qed.

  Lemma dm_n63' : N.of_nat (length s1) <= 2 ^ 63.
  Proof. rewrite length_kill. exact Hn63. Qed.
  Lemma dm_R1 : R1 = R. Proof. apply kill_rows. Qed.

  Lemma dm_live1 h : In (Some h) s1 <-> In (Some h) s /\ h <> hd.
  Proof.
    unfold kill. rewrite in_map_iff. split.
    - intros ([x|] & E & Hx); [|discriminate]. cbn [memH] in E.
      destruct (op_eqb HO x hd) eqn:Ex; cbn [orb] in E; [discriminate|]. injection E as <-.
      split; [exact Hx|]. intros ->. rewrite (proj2 (HOK _ _) eq_refl) in Ex. discriminate.
    - intros [Hh Hne]. exists (Some h). split; [|exact Hh]. cbn [memH].
      destruct (op_eqb HO h hd) eqn:Ex; [apply HOK in Ex; contradiction|reflexivity].
  Qed.

  Lemma dm_nd1 : NoDup (live s1).
  Proof.
    clear - Hnd. unfold kill. induction s as [|[h|] t IH]; cbn [map live flat_map] in *; [constructor| |].
    - cbn [app] in Hnd. inversion Hnd as [|x l Hn Hl]; subst. specialize (IH Hl).
      destruct (memH HO h [nhash xd]); cbn [app]; [exact IH|]. constructor; [|exact IH].
      intros Hin. apply Hn. fold (live t). fold (live (map (fun o => match o with Some h0 => if memH HO h0 [nhash xd] then None else Some h0 | None => None end) t)) in Hin.
      apply live_in in Hin. apply in_map_iff in Hin as ([y|] & E & Hy); [|discriminate].
      destruct (memH HO y [nhash xd]); [discriminate|]. injection E as ->. apply live_in. exact Hy.
    - apply IH. exact Hnd.
  Qed.

  Variable C : list H.
  Hypothesis HC : NoDup C.
  Variables (hC : list H) (tC : list N) (pC : list H).
  Hypothesis E : exp_cached HO (mk_ctx HO s) C = Some (hC, tC, pC).

  Theorem dm_remove :
    updateProofRemove HO tC pC [pd] hC (new_del HO s [hd]) (num_leaves s)
    = exp_cached HO (mk_ctx HO s1) (removeH HO C [hd]) /\
    exp_cached HO (mk_ctx HO s1) (removeH HO C [hd]) <> None.
  Proof.
    pose proof (pu_nle n) as Hnle. pose proof (pu_t63 n Hn63) as Ht63.
    pose proof dm_n63' as Hn63'. pose proof dm_nd1 as Hnd1. pose proof dm_R1 as ER1.
    pose proof (rf_R_total H s) as ER. pose proof (rows_of_le_63 _ Hn63) as HR63.
    pose proof (dl_dok H HO s Hn63 xd Hxd Hxl Hxr) as Hdok.
    (* the cached set before the block *)
    unfold exp_cached in E. cbn [mk_ctx clay crows] in E.
    destruct (find_leaves HO lay C) as [tsC|] eqn:FC; [|discriminate].
    fold (sort_nodes H s tsC) in E. injection E as <- <- <-.
    destruct (cc_find_leaves_facts HO s C tsC HOK HC FC) as (LC & FlC & NtC & EhC & InC).
    set (sorted := sort_nodes H s tsC).
    pose proof (po_sort_nodes_perm H s tsC) as Psort. fold sorted in Psort.
    assert (LS : forall x, In x sorted -> In x lay)
      by (intros x Hx; apply LC; exact (Permutation_in _ Psort Hx)).
    assert (FlS : forall x, In x sorted -> nleaf x = true)
      by (intros x Hx; apply FlC; exact (Permutation_in _ Psort Hx)).
    assert (NtS : NoDup sorted) by (exact (Permutation_NoDup (Permutation_sym Psort) NtC)).
    assert (HsT : SSlt (map (npos R) sorted)).
    { unfold sorted. rewrite (po_sort_nodes_pos H HO s tsC LC NtC).
      apply pps_sortN_NoDup_SSlt, (po_targets_NoDup H HO s tsC LC NtC). }
    assert (Epp : ProofPositions_fast (map (npos R) sorted) n total
                  = (canon_proof_pos R lay sorted, computable_pos R lay sorted)).
    { rewrite <- (po_sortN_sorted_id _ HsT) at 1. exact (po_pp_both_fast H HO s Hn63 sorted LS FlS NtS). }
    pose proof (po_canon_pos_SSlt H HO s Hn63 sorted LS) as HsP.
    set (OP := canon_proof_pos R lay sorted) in *.
    assert (HhS : forall h, In h (map (@nhash H) sorted) <-> In h C).
    { intros h. rewrite <- EhC. split; apply Permutation_in, Permutation_map;
        [exact Psort|exact (Permutation_sym Psort)]. }
    (* the survivors *)
    set (sortedS := filter (fun x => negb (npos R x =? pd)) sorted).
    assert (HinS : forall x, In x sortedS <-> In x sorted /\ x <> xd).
    { intros x. unfold sortedS. rewrite filter_In, negb_true_iff, N.eqb_neq. split; intros [A B]; split; auto.
      - intros ->. apply B. reflexivity.
      - intros Ep. apply B. exact (RefTheory.layout_npos_inj H HO s x xd (LS x A) Hxd Ep). }
    assert (LSS : forall x, In x sortedS -> In x lay) by (intros x Hx; apply LS, HinS, Hx).
    assert (FlSS : forall x, In x sortedS -> nleaf x = true) by (intros x Hx; apply FlS, HinS, Hx).
    assert (NtSS : NoDup sortedS) by (apply NoDup_filter, NtS).
    set (S := removeH HO C [hd]).
    assert (HS : forall h, In h S <-> In h C /\ h <> hd).
    { intros h. unfold S. rewrite (removeH_In HOK). split; intros [A B]; split; auto.
      - intros ->. apply B. left. reflexivity.
      - intros [Eh|[]]. apply B. symmetry. exact Eh. }
    assert (HhSS : forall h, In h (map (@nhash H) sortedS) <-> In h S).
    { intros h. rewrite HS, in_map_iff. split.
      - intros (x & <- & Hx). apply HinS in Hx as [Hx Hne]. split; [apply HhS, in_map, Hx|].
        intros Eh. apply Hne. exact (live_leaf_unique H HO s x xd Hnd (LS x Hx) Hxd (FlS x Hx) Hxl Eh).
      - intros [Hc Hne]. apply HhS in Hc. apply in_map_iff in Hc as (x & <- & Hx).
        exists x. split; [reflexivity|]. apply HinS. split; [exact Hx|]. intros ->. apply Hne. reflexivity. }
    assert (EmapS : map (npos R) sortedS = filter (fun p => negb (p =? pd)) (map (npos R) sorted)).
    { unfold sortedS. symmetry. exact (pd_filter_map (fun p => negb (p =? pd)) (npos R) sorted). }
    assert (HsTS : SSlt (map (npos R) sortedS)) by (rewrite EmapS; apply po_filter_SS, HsT).
    assert (EppS : ProofPositions_fast (map (npos R) sortedS) n total
                  = (canon_proof_pos R lay sortedS, computable_pos R lay sortedS)).
    { rewrite <- (po_sortN_sorted_id _ HsTS) at 1. exact (po_pp_both_fast H HO s Hn63 sortedS LSS FlSS NtSS). }
    pose proof (po_canon_pos_SSlt H HO s Hn63 sortedS LSS) as HsNP.
    set (NP := canon_proof_pos R lay sortedS) in *.
    (* the update data *)
    pose proof (new_del_SSlt H HO [hd] s) as HsUK.
    set (ND := new_del HO s [hd]) in *. set (UK := map fst ND) in *.
    set (U := lookup H (op_empty HO) ND).
    assert (NdUK : NoDup (map fst ND)) by (apply pps_SSlt_NoDup; exact HsUK).
    assert (END : ND = gr H U UK) by (apply lookup_graph; exact NdUK).
    (* the mirror, down to the two calls of [getNewPositions] *)
    rewrite (po_canon_hashes_Fv H HO s Hn63 sorted LS). fold OP.
    unfold updateProofRemove. cbv zeta. change (sortN [pd]) with [pd].
    rewrite (pu_toHP H (map (npos R) sorted) (map (@nhash H) sorted)) by (try assumption; rewrite !map_length; reflexivity).
    rewrite (subtractSortedHashAndPos_spec H _ [pd])
      by (try (rewrite pu_zip_fst by (rewrite !map_length; reflexivity); exact HsT); repeat constructor).
    rewrite pu_zip_map, pd_filter_map.
    assert (Efil : filter (fun x : node H => negb (memN (fst (npos R x, nhash x)) [pd])) sorted = sortedS).
    { unfold sortedS. apply filter_ext. intros x. cbn [fst memN]. rewrite Bool.orb_false_r. reflexivity. }
    rewrite Efil. clear Efil.
    rewrite (po_sortN_sorted_id _ HsT).
    change (N.of_nat (length s)) with (num_leaves s) in Epp, EppS. rewrite Epp.
    rewrite (pu_toHP H OP (map F OP)) by (try assumption; rewrite map_length; reflexivity).
    rewrite po_zip_gr. unfold positions at 1. rewrite map_map. cbn [fst].
    change (map (fun x : node H => npos R x) sortedS) with (map (npos R) sortedS). rewrite EppS.
    unfold positions. rewrite po_gr_fst, (po_sortN_sorted_id _ HsP), (po_sortN_sorted_id _ HsNP).
    rewrite (subtractSortedSlice_spec OP NP HsP (po_SSlt_SSle _ HsNP)).
    set (EX := filter (fun x => negb (memN x NP)) OP).
    assert (HsEX : SSlt EX) by (apply po_filter_SS, HsP).
    fold ND. rewrite END at 1 2.
    rewrite (pd_upr_keep H HO F U OP EX UK HsP HsEX HsUK).
    rewrite (subtractSortedSlice_spec NP OP HsNP (po_SSlt_SSle _ HsP)).
    rewrite (subtractSortedSlice_spec _ [pd] (po_filter_SS _ _ _ HsNP)) by (repeat constructor).
    set (MP := filter (fun x => negb (memN x [pd])) (filter (fun x => negb (memN x OP)) NP)).
    assert (HsMP : SSlt MP) by (apply po_filter_SS, po_filter_SS, HsNP).
    rewrite (pd_upr_missing H U MP UK HsMP HsUK).
    rewrite pd_deTwin_single.
    set (kept := flat_map (keep1 H HO F U EX UK) OP).
    set (miss := gr H U (filter (fun p => memN p UK) MP)).
    (* the cached set after the deletion *)
    assert (HSs1 : forall h, In h S -> In (Some h) s1).
    { intros h Hh. apply HS in Hh as [Hc Hne]. apply dm_live1. split; [|exact Hne].
      apply HhS in Hc. apply in_map_iff in Hc as (x & <- & Hx).
      exact (layout_leaf_live H HO s x (LS x Hx) (FlS x Hx)). }
    assert (NdS : NoDup S) by (unfold S, removeH; apply NoDup_filter, HC).
    destruct (po_find_leaves_some H HO s1 S) as [tsU FU].
    { intros h Hh. destruct (proj1 (find_leaf_live H HO s1 h HOK) (HSs1 h Hh)) as (x & Ex & _).
      exists x. exact Ex. }
    destruct (cc_find_leaves_facts HO s1 S tsU HOK NdS FU) as (LU & FlU & NtU & EhU & InU).
    set (sortedU := sort_nodes H s1 tsU).
    pose proof (po_sort_nodes_perm H s1 tsU) as PsortU. fold sortedU in PsortU.
    assert (LSU : forall x, In x sortedU -> In x lay1)
      by (intros x Hx; apply LU; exact (Permutation_in _ PsortU Hx)).
    assert (FlSU : forall x, In x sortedU -> nleaf x = true)
      by (intros x Hx; apply FlU; exact (Permutation_in _ PsortU Hx)).
    assert (NtSU : NoDup sortedU) by (exact (Permutation_NoDup (Permutation_sym PsortU) NtU)).
    assert (HhU : forall h, In h (map (@nhash H) sortedU) <-> In h S).
    { intros h. rewrite <- EhU. split; apply Permutation_in, Permutation_map;
        [exact PsortU|exact (Permutation_sym PsortU)]. }
    assert (HinU : forall y, In y lay1 -> nleaf y = true -> In (nhash y) S -> In y sortedU).
    { intros y Hy Hl Hh. apply (Permutation_in _ (Permutation_sym PsortU)). apply InU.
      exists (nhash y). split; [exact Hh|exact (find_leaf_of_node H HO HOK s1 y Hnd1 Hy Hl)]. }
    assert (HsTU : SSlt (map (npos R) sortedU)).
    { rewrite <- ER1. unfold sortedU. rewrite (po_sort_nodes_pos H HO s1 tsU LU NtU).
      apply pps_sortN_NoDup_SSlt, (po_targets_NoDup H HO s1 tsU LU NtU). }
    unfold exp_cached. cbn [mk_ctx clay crows]. rewrite FU. fold (sort_nodes H s1 tsU). fold sortedU. rewrite ER1.
    split; [|discriminate].
    (* values in the new state *)
    assert (Hval1 : forall c' r o, locc H HO s1 c' r o -> F1 (cpos R (r, o)) = chash c').
    { intros c' r o Hl. pose proof (locc_val H HO s1 c' r o Hl) as Hv. rewrite ER1 in Hv. exact Hv. }
    assert (Hnode1 : forall c' r o, locc H HO s1 c' r o ->
              exists y, In y lay1 /\ npos R y = cpos R (r, o) /\ nhash y = chash c' /\ nleaf y = cleafb H c').
    { intros c' r o Hl. destruct (locc_node H HO s1 c' r o Hl) as (y & Hy & Yr & Yo & Yh & Yl).
      exists y. split; [exact Hy|]. split; [unfold npos, cpos; rewrite Yr, Yo; reflexivity|]. auto. }
    (* the targets *)
    set (XT := map (fun x : node H => ((nrow x, noff x), nhash x)) sortedS).
    assert (Etwh : map (fun x : node H => (npos R x, nhash x)) sortedS = map (cposh H R) XT).
    { unfold XT. rewrite map_map. reflexivity. }
    rewrite Etwh.
    assert (Hd1 : forall d', In d' [d] -> dok R n d') by (intros d' [<-|[]]; exact Hdok).
    assert (HleafS : forall x, In x sortedS ->
              locc H HO s (CLeaf (nhash x)) (nrow x) (noff x) /\ prune (CLeaf (nhash x)) = Some (CLeaf (nhash x))).
    { intros x Hx. destruct (node_locc H HO s x (LSS x Hx) (FlSS x Hx)) as (k0 & lo & c & He & Ho & _).
      split; [exists k0, lo, c; auto|]. cbn [RefTheory.prune memH].
      destruct (op_eqb HO (nhash x) hd) eqn:Ex; [|reflexivity]. exfalso. apply HOK in Ex.
      apply HinS in Hx as [Hx Hne]. apply Hne.
      exact (live_leaf_unique H HO s x xd Hnd (LS x Hx) Hxd (FlS x Hx) Hxl Ex). }
    assert (HcokL : forall c r o, locc H HO s c r o -> cvalid R (r, o) /\ cinf n (r, o)).
    { intros c r o Hl. destruct (locc_node H HO s c r o Hl) as (y & Hy & Yr & Yo & _).
      destruct (layout_coords_rows_of H HO s y Hy) as [V1 V2]. pose proof (layout_coords_valid H HO s y Hy) as V3.
      rewrite Yr, Yo in *. split; [split; assumption|exact V3]. }
    assert (ET : getNewPositions HO [pd] (map (cposh H R) XT) (num_leaves s) true
                 = gr H F1 (map (npos R) sortedU)).
    { unfold getNewPositions. change [pd] with (map (cpos R) [d]).
      rewrite <- (ER : N.of_nat R = TreeRows (num_leaves s)).
      change (gnp_loop HO (map (cpos R) [d]) (map (cposh H R) XT) (num_leaves s) (N.of_nat R) 0 true)
        with (gnp_loop HO (map (cpos R) [d]) (map (cposh H R) XT) n (N.of_nat R) 0 true).
      rewrite (pd_gnp_loop H HO R n HR63 Hn63 ER [d] true Hd1 XT 0).
      - rewrite po_filter_all.
        2:{ intros e He. unfold XT in He. apply in_map_iff in He as (x & <- & Hx). cbn [snd].
            apply negb_true_iff. apply Hlive_nz. exact (layout_leaf_live H HO s x (LSS x Hx) (FlSS x Hx)). }
        assert (Himg : forall x, In x sortedS -> exists y, In y sortedU /\
                  npos R y = cpos R (lift1 d (nrow x, noff x)) /\ nhash y = nhash x).
        { intros x Hx. destruct (HleafS x Hx) as [Hl Hp].
          pose proof (dm_up _ _ _ _ Hl Hp) as Hu.
          destruct (Hnode1 _ _ _ Hu) as (y & Hy & Ey & Yh & Yl). cbn [chash cleafb] in Yh, Yl.
          exists y. rewrite <- surjective_pairing in Ey. split; [|auto].
          apply HinU; [exact Hy|exact Yl|]. rewrite Yh. apply HhSS, in_map, Hx. }
        apply pd_sortK_graph.
        + intros e He. apply in_map_iff in He as (e0 & <- & He0). unfold XT in He0.
          apply in_map_iff in He0 as (x & <- & Hx). unfold cposh, liftc. cbn [fst snd fold_left].
          destruct (Himg x Hx) as (y & Hy & Ey & Yh). rewrite <- Ey, <- Yh.
          rewrite <- ER1. symmetry. exact (po_Fv_node H HO s1 y (LSU y Hy)).
        + rewrite map_map. unfold XT. rewrite map_map. unfold cposh, liftc. cbn [fst snd fold_left].
          apply (RefTheory.NoDup_map_inj_on (fun x : node H => cpos R (lift1 d (nrow x, noff x)))); [exact NtSS|].
          intros x1 x2 Hx1 Hx2 Ek.
          destruct (Himg x1 Hx1) as (y1 & Hy1 & Ey1 & Yh1). destruct (Himg x2 Hx2) as (y2 & Hy2 & Ey2 & Yh2).
          assert (Ey : y1 = y2).
          { apply (RefTheory.layout_npos_inj H HO s1 y1 y2 (LSU _ Hy1) (LSU _ Hy2)). rewrite ER1. congruence. }
          subst y2. apply (live_leaf_unique H HO s x1 x2 Hnd (LSS _ Hx1) (LSS _ Hx2) (FlSS _ Hx1) (FlSS _ Hx2)).
          congruence.
        + exact HsTU.
        + intros p. rewrite map_map. unfold XT. rewrite map_map. unfold cposh, liftc. cbn [fst snd fold_left].
          rewrite !in_map_iff. split.
          * intros (x & <- & Hx). destruct (Himg x Hx) as (y & Hy & Ey & _). exists y. auto.
          * intros (y & <- & Hy). assert (Hh : In (nhash y) S) by (apply HhU, in_map, Hy).
            apply HhSS in Hh. apply in_map_iff in Hh as (x & Ex & Hx).
            destruct (Himg x Hx) as (y' & Hy' & Ey' & Yh'). exists x. split; [|exact Hx].
            rewrite <- Ey'. f_equal.
            apply (live_leaf_unique H HO s1 y' y Hnd1 (LSU _ Hy') (LSU _ Hy) (FlSU _ Hy') (FlSU _ Hy)). congruence.
      - lia.
      - intros e He. unfold XT in He. apply in_map_iff in He as (x & <- & Hx). cbn [fst].
        exact (HcokL _ _ _ (proj1 (HleafS x Hx))).
      - intros e _ _. left. reflexivity. }
    rewrite ET. clear ET.
    (* facts about occurrences of [s] *)
    assert (Hposinj : forall c1 r1 o1 c2 r2 o2, locc H HO s c1 r1 o1 -> locc H HO s c2 r2 o2 ->
              pos R r1 o1 = pos R r2 o2 -> (r1, o1) = (r2, o2) /\ c1 = c2).
    { intros c1 r1 o1 c2 r2 o2 L1 L2 Ep.
      destruct (locc_node H HO s _ _ _ L1) as (y1 & Y1 & Yr1 & Yo1 & _).
      destruct (locc_node H HO s _ _ _ L2) as (y2 & Y2 & Yr2 & Yo2 & _).
      assert (Ey : y1 = y2).
      { apply (RefTheory.layout_npos_inj H HO s y1 y2 Y1 Y2). unfold npos. rewrite Yr1, Yo1, Yr2, Yo2. exact Ep. }
      subst y2. assert (Ec : (r1, o1) = (r2, o2)) by congruence. split; [exact Ec|].
      injection Ec as <- <-. exact (locc_uniq H HO s _ _ _ _ L1 L2). }
    assert (Hcwf : forall c r o, locc H HO s c r o -> cwf H HO c).
    { intros c r o (k0 & lo & cT & He & Ho).
      exact (occ_cwf H HO _ _ _ _ _ _ Ho (entry_cwf H HO s (k0, lo, Some cT) cT He eq_refl)). }
    (* the value the update data and the old proof give for an occurrence *)
    set (Hv := fun p : N => if memN p UK then U p else F p).
    assert (VAL : forall c r o, locc H HO s c r o ->
              Hv (pos R r o) = match prune c with Some c' => chash c' | None => op_empty HO end).
    { intros c r o Hl. unfold Hv. destruct (has_del HO [hd] c) eqn:Ed.
      - assert (Hin : In (pos R r o, ohash HO (after_del HO [hd] c)) ND).
        { apply (new_del_occ H HO HOK [hd] s). exists c, r, o. auto. }
        assert (Hm : memN (pos R r o) UK = true) by (apply RefTheory.memN_In; unfold UK; apply in_map_iff; eexists; split; [|exact Hin]; reflexivity).
        rewrite Hm. unfold U. pose proof (lookup_In H (op_empty HO) ND NdUK _ Hin) as Hlk.
        cbn [fst snd] in Hlk. rewrite Hlk.
        rewrite (after_del_prune H HO [hd] c). destruct (prune c); reflexivity.
      - assert (Hm : memN (pos R r o) UK = false).
        { apply po_memN_false. intros Hin. unfold UK in Hin. apply in_map_iff in Hin as ([p h] & Ep & Hin).
          cbn [fst] in Ep. subst p. apply (new_del_occ H HO HOK [hd] s) in Hin as (c0 & r0 & o0 & L0 & D0 & Ep & _).
          destruct (Hposinj _ _ _ _ _ _ Hl L0 Ep) as [_ ->]. congruence. }
        rewrite Hm. rewrite (locc_val H HO s c r o Hl).
        rewrite (prune_untouched H HO HOK [hd] c (Hcwf _ _ _ Hl)); [reflexivity|].
        intros h Hh Hd. assert (Ht : has_del HO [hd] c = true) by (apply (has_del_iff H HO HOK); exists h; auto).
        congruence. }
    (* targets held by a subtree, before and after *)
    assert (HhitS : forall c, hit H sortedS c <-> exists h, In h S /\ In h (cleaves H c)).
    { intros c. split.
      - intros (x & Hx & Hc). exists (nhash x). split; [apply HhSS, in_map, Hx|exact Hc].
      - intros (h & Hh & Hc). apply HhSS in Hh. apply in_map_iff in Hh as (x & <- & Hx). exists x. auto. }
    assert (HhitU : forall c, hit H sortedU c <-> exists h, In h S /\ In h (cleaves H c)).
    { intros c. split.
      - intros (x & Hx & Hc). exists (nhash x). split; [apply HhU, in_map, Hx|exact Hc].
      - intros (h & Hh & Hc). apply HhU in Hh. apply in_map_iff in Hh as (x & <- & Hx). exists x. auto. }
    assert (Hhit_pr : forall c c', prune c = Some c' -> (hit H sortedU c' <-> hit H sortedS c)).
    { intros c c' Hp. rewrite HhitU, HhitS. split; intros (h & Hh & Hc); exists h; (split; [exact Hh|]).
      - apply (prune_leaves H HO HOK [hd] c c' Hp h). exact Hc.
      - apply (prune_leaves H HO HOK [hd] c c' Hp h). split; [exact Hc|].
        intros [E0|[]]. apply HS in Hh as [_ Hne]. apply Hne. symmetry. exact E0. }
    assert (Hhit_some : forall c, hit H sortedS c -> prune c <> None).
    { intros c Hc Hn. apply HhitS in Hc as (h & Hh & Hc).
      destruct (proj1 (prune_none_iff H HO HOK [hd] c) Hn h Hc) as [E0|[]].
      apply HS in Hh as [_ Hne]. apply Hne. symmetry. exact E0. }
    assert (HhitSC : forall c, hit H sortedS c -> hit H sorted c).
    { intros c (x & Hx & Hc). exists x. split; [apply HinS, Hx|exact Hc]. }
    (* the canonical proof positions as (known side, proof side) of an inner occurrence *)
    assert (TRI : forall (ss : slots H) (tsn : list (node H)), N.of_nat (length ss) <= 2 ^ 63 -> NoDup (live ss) ->
              (forall x, In x tsn -> In x (layout HO ss)) -> (forall x, In x tsn -> nleaf x = true) ->
              forall p, In p (canon_proof_pos (rows_of (num_leaves ss)) (layout HO ss) tsn) <->
              exists h k pr r o (b : bool),
                locc H HO ss (if b then CNode h pr k else CNode h k pr) (Datatypes.S r) o /\
                hit H tsn k /\ ~ hit H tsn pr /\
                p = pos (rows_of (num_leaves ss)) r (2 * o + (if b then 0 else 1)) /\
                locc H HO ss pr r (2 * o + (if b then 0 else 1)) /\
                locc H HO ss k r (2 * o + (if b then 1 else 0))).
    { intros ss tsn Hb' Hnd' Hl1 Hl2 p. rewrite (canon_pos_occ H HO ss Hb' Hnd' tsn Hl1 Hl2 p). split.
      - intros (h & l & rr & r & o & Hlp & [(A & B & ->)|(A & B & ->)]);
          destruct (locc_child H HO ss _ _ _ Hlp h l rr eq_refl) as (r' & Er & Ll & Lr); injection Er as <-.
        + exists h, l, rr, r, o, false. repeat split; try assumption. rewrite N.add_0_r. exact Ll.
        + exists h, rr, l, r, o, true. rewrite !N.add_0_r. repeat split; assumption.
      - intros (h & k & pr & r & o & b & Hlp & A & B & -> & _). destruct b.
        + exists h, pr, k, r, o. split; [exact Hlp|]. right. rewrite N.add_0_r. auto.
        + exists h, k, pr, r, o. split; [exact Hlp|]. left. auto. }
    pose proof (TRI s sortedS Hn63 Hnd LSS FlSS) as NPT. fold NP in NPT.
    pose proof (TRI s sorted Hn63 Hnd LS FlS) as OPT. fold OP in OPT.
    pose proof (TRI s1 sortedU Hn63' Hnd1 LSU FlSU) as N1T. rewrite ER1 in N1T.
    set (NP1 := canon_proof_pos R lay1 sortedU) in *.
    (* a needed position that the old proof does not hold is in the update data *)
    assert (K2a : forall p, In p NP -> ~ In p OP -> memN p UK = true /\ (p = pd \/ True)).
    { intros p Hp Hnop. split; [|right; exact I].
      apply NPT in Hp as (h & k & pr & r & o & b & Hlp & Hk & Hnpr & -> & Lpr & Lk).
      assert (HC' : hit H sorted pr).
      {
        assert (Hdec : hit H sorted pr \/ ~ hit H sorted pr).
        { destruct (existsb (fun x : node H => memH HO (nhash x) (cleaves H pr)) sorted) eqn:Ex.
          - left. apply existsb_exists in Ex as (x & Hx & Hm). exists x. split; [exact Hx|].
            apply (memH_In H HO HOK), Hm.
          - right. intros (x & Hx & Hm). assert (Ht : existsb (fun x : node H => memH HO (nhash x) (cleaves H pr)) sorted = true).
            { apply existsb_exists. exists x. split; [exact Hx|]. apply (memH_In H HO HOK), Hm. }
            congruence. }
        destruct Hdec as [Hy|Hn]; [exact Hy|]. exfalso. apply Hnop. apply OPT.
        exists h, k, pr, r, o, b. repeat split; try assumption. apply HhitSC, Hk. }
      destruct HC' as (x & Hx & Hxc).
      assert (Ex : x = xd).
      { assert (Hd : x = xd \/ In x sortedS).
        { destruct (N.eq_dec (npos R x) pd) as [Ep|Np].
          - left. exact (RefTheory.layout_npos_inj H HO s x xd (LS x Hx) Hxd Ep).
          - right. apply HinS. split; [exact Hx|]. intros ->. apply Np. reflexivity. }
        destruct Hd as [Hd|Hd]; [exact Hd|]. exfalso. apply Hnpr. exists x. auto. }
      subst x.
      assert (Hdl : has_del HO [hd] pr = true) by (apply (has_del_iff H HO HOK); exists hd; split; [exact Hxc|left; reflexivity]).
      assert (Hin : In (pos R r (2 * o + (if b then 0 else 1)), ohash HO (after_del HO [hd] pr)) ND).
      { apply (new_del_occ H HO HOK [hd] s). exists pr, r, (2 * o + (if b then 0 else 1)). auto. }
      apply RefTheory.memN_In. unfold UK. apply in_map_iff. eexists. split; [|exact Hin]. reflexivity. }
    (* the entries of the new proof before the positions move *)
    assert (Ldx : locc H HO s (CLeaf hd) (nrow xd) (noff xd)).
    { destruct (node_locc H HO s xd Hxd Hxl) as (k0 & lo & c & He & Ho & _). exists k0, lo, c. auto. }
    assert (Hempty : op_eqb HO (op_empty HO) (op_empty HO) = true) by (apply HOK; reflexivity).
    assert (K1 : forall e, In e (kept ++ miss) -> In (fst e) NP /\ snd e = Hv (fst e)).
    { intros e He. apply in_app_or in He as [He|He].
      - unfold kept in He. apply in_flat_map in He as (p & Hp & He). unfold keep1 in He.
        destruct (memN p EX) eqn:Eex; [destruct He|].
        assert (HpNP : In p NP).
        { apply po_memN_false in Eex. destruct (memN p NP) eqn:En; [apply RefTheory.memN_In, En|].
          exfalso. apply Eex. unfold EX. apply filter_In. split; [exact Hp|]. rewrite En. reflexivity. }
        unfold Hv. destruct (memN p UK) eqn:Euk.
        + destruct (op_eqb HO (U p) (op_empty HO)); [destruct He|].
          destruct He as [<-|[]]. cbn [fst snd]. rewrite Euk. auto.
        + destruct He as [<-|[]]. cbn [fst snd]. rewrite Euk. auto.
      - unfold miss in He. apply in_map_iff in He as (p & <- & Hp). cbn [fst snd].
        apply filter_In in Hp as [Hp Huk]. unfold MP in Hp. apply filter_In in Hp as [Hp _].
        apply filter_In in Hp as [Hp _]. split; [exact Hp|]. unfold Hv. rewrite Huk. reflexivity. }
    assert (K2 : forall p, In p NP -> op_eqb HO (Hv p) (op_empty HO) = false -> In (p, Hv p) (kept ++ miss)).
    { intros p Hp Hnz. apply in_or_app. destruct (memN p OP) eqn:Eop.
      - left. apply RefTheory.memN_In in Eop. unfold kept. apply in_flat_map. exists p. split; [exact Eop|].
        unfold keep1. assert (Eex : memN p EX = false).
        { apply po_memN_false. intros Hin. unfold EX in Hin. apply filter_In in Hin as [_ Hin].
          rewrite (proj2 (RefTheory.memN_In p NP) Hp) in Hin. discriminate. }
        rewrite Eex. unfold Hv in *. destruct (memN p UK); [rewrite Hnz|]; left; reflexivity.
      - right. apply po_memN_false in Eop. destruct (K2a p Hp Eop) as [Huk _].
        assert (Hne : p <> pd).
        { intros ->. change pd with (pos R (nrow xd) (noff xd)) in Hnz. rewrite (VAL _ _ _ Ldx) in Hnz.
          cbn [RefTheory.prune memH] in Hnz. rewrite (proj2 (HOK hd hd) eq_refl) in Hnz. cbn [orb] in Hnz.
          congruence. }
        unfold miss. apply in_map_iff. exists p. split; [unfold Hv; rewrite Huk; reflexivity|].
        apply filter_In. split; [|exact Huk]. unfold MP. apply filter_In. split.
        + apply filter_In. split; [exact Hp|]. apply negb_true_iff, po_memN_false. exact Eop.
        + cbn [memN]. destruct (N.eqb_spec p pd); [contradiction|reflexivity]. }
    assert (NdK : NoDup (map fst (kept ++ miss))).
    { rewrite map_app. apply NoDup_app_intro.
      - unfold kept. assert (Hnd0 : NoDup OP) by (apply pps_SSlt_NoDup; exact HsP).
        assert (G : forall l, NoDup l -> NoDup (map fst (flat_map (keep1 H HO F U EX UK) l)) /\
                    forall q, In q (map fst (flat_map (keep1 H HO F U EX UK) l)) -> In q l).
        { induction l as [|p l IH]; intros Hl; [split; [constructor|intros q []]|].
          inversion Hl as [|x y Hn Hl']; subst. destruct (IH Hl') as [I1 I2]. cbn [flat_map]. rewrite map_app.
          assert (Cnil : NoDup (map fst (flat_map (keep1 H HO F U EX UK) l)) /\
                         (forall q : N, In q (map fst (flat_map (keep1 H HO F U EX UK) l)) -> In q (p :: l))).
          { split; [exact I1|]. intros q Hq. right. exact (I2 q Hq). }
          assert (Ccons : NoDup (p :: map fst (flat_map (keep1 H HO F U EX UK) l)) /\
                          (forall q : N, In q (p :: map fst (flat_map (keep1 H HO F U EX UK) l)) -> In q (p :: l))).
          { split; [constructor; [intros Hin; exact (Hn (I2 p Hin))|exact I1]|].
            intros q [<-|Hq]; [left; reflexivity|right; exact (I2 q Hq)]. }
          unfold keep1 at 1 3. destruct (memN p EX); [exact Cnil|]. destruct (memN p UK).
          - destruct (op_eqb HO (U p) (op_empty HO)); [exact Cnil|exact Ccons].
          - exact Ccons. }
        exact (proj1 (G OP Hnd0)).
      - unfold miss. rewrite po_gr_fst. apply pps_SSlt_NoDup, po_filter_SS, HsMP.
      - intros q Hq1 Hq2. apply in_map_iff in Hq1 as (e1 & <- & He1). 
        unfold kept in He1. apply in_flat_map in He1 as (p & Hp & He1).
        assert (Efe : fst e1 = p).
        { unfold keep1 in He1. destruct (memN p EX); [destruct He1|]. destruct (memN p UK).
          - destruct (op_eqb HO (U p) (op_empty HO)); [destruct He1|]. destruct He1 as [<-|[]]. reflexivity.
          - destruct He1 as [<-|[]]. reflexivity. }
        rewrite Efe in Hq2. unfold miss in Hq2. rewrite po_gr_fst in Hq2.
        apply filter_In in Hq2 as [Hq2 _]. unfold MP in Hq2. apply filter_In in Hq2 as [Hq2 _].
        apply filter_In in Hq2 as [_ Hq2]. rewrite (proj2 (RefTheory.memN_In p OP) Hp) in Hq2. discriminate. }
    (* an inner occurrence both of whose children survive, after the deletion *)
    assert (MVgen : forall h l rr r o l' rr', locc H HO s (CNode h l rr) (Datatypes.S r) o ->
              prune l = Some l' -> prune rr = Some rr' ->
              exists r1 o1, lift1 d (Datatypes.S r, o) = (Datatypes.S r1, o1) /\
                lift1 d (r, 2 * o) = (r1, 2 * o1) /\ lift1 d (r, 2 * o + 1) = (r1, 2 * o1 + 1) /\
                locc H HO s1 (CNode (op_hash2 HO (chash l') (chash rr')) l' rr') (Datatypes.S r1) o1 /\
                locc H HO s1 l' r1 (2 * o1) /\ locc H HO s1 rr' r1 (2 * o1 + 1)).
    { intros h l rr r o l' rr' Hlp Pl Pr.
      destruct (locc_child H HO s _ _ _ Hlp h l rr eq_refl) as (r' & Er & Ll & Lr). injection Er as <-.
      assert (PT : prune (CNode h l rr) = Some (CNode (op_hash2 HO (chash l') (chash rr')) l' rr'))
        by (cbn [RefTheory.prune]; rewrite Pl, Pr; reflexivity).
      pose proof (dm_up _ _ _ _ Hlp PT) as UT. pose proof (dm_up _ _ _ _ Ll Pl) as Ul.
      pose proof (dm_up _ _ _ _ Lr Pr) as Ur.
      destruct (lift1 d (Datatypes.S r, o)) as [rt ot] eqn:Et. cbn [fst snd] in UT.
      destruct (locc_child H HO s1 _ _ _ UT _ _ _ eq_refl) as (r1 & Er1 & Ll1 & Lr1). subst rt.
      exists r1, ot. split; [reflexivity|].
      rewrite (surjective_pairing (lift1 d (r, 2 * o))), (surjective_pairing (lift1 d (r, 2 * o + 1))).
      split; [exact (locc_once HO s1 l' _ _ _ _ Hnd1 Ul Ll1)|].
      split; [exact (locc_once HO s1 rr' _ _ _ _ Hnd1 Ur Lr1)|]. auto. }
    assert (Hnr1 : forall h l rr r o c0 o0, locc H HO s1 (CNode h l rr) (Datatypes.S r) o ->
              (c0 = l /\ o0 = 2 * o) \/ (c0 = rr /\ o0 = 2 * o + 1) -> is_root_c n (cN (r, o0)) = false).
    { intros h l rr r o c0 o0 Hlp Hc.
      destruct (locc_child_node H HO s1 h l rr r o Hlp c0 o0 Hc) as (y & Hy & Yr & Yo & _ & Ynr & _).
      pose proof (rf_root_true H HO s1 y Hy Ynr) as Hrt. rewrite length_kill in Hrt.
      unfold ncrd in Hrt. rewrite Yr, Yo in Hrt. exact Hrt. }
    (* a needed old position whose subtree survives, after the deletion *)
    assert (MV : forall p c r o c', In p NP -> locc H HO s c r o -> p = pos R r o -> prune c = Some c' ->
              locc H HO s1 c' (fst (lift1 d (r, o))) (snd (lift1 d (r, o))) /\
              In (cpos R (lift1 d (r, o))) NP1 /\ is_root_c n (cN (lift1 d (r, o))) = false).
    { intros p c r o c' Hp Hl Ep Pc. split; [exact (dm_up _ _ _ _ Hl Pc)|].
      apply NPT in Hp as (h & k & pr & r0 & o0 & b & Hlp & Hk & Hnpr & Ep' & Lpr & Lk).
      rewrite Ep in Ep'. destruct (Hposinj _ _ _ _ _ _ Hl Lpr Ep') as [Ec ->]. apply pair_equal_spec in Ec as [-> ->].
      destruct (prune k) as [k'|] eqn:Pk; [|exfalso; exact (Hhit_some k Hk Pk)].
      destruct b.
      - destruct (MVgen h pr k r0 o0 c' k' Hlp Pc Pk) as (r1 & o1 & E0 & E1 & E2 & LT & L1 & L2).
        change (if true then 0 else 1) with 0. rewrite N.add_0_r, E1. split.
        + apply N1T. exists (op_hash2 HO (chash c') (chash k')), k', c', r1, o1, true.
          rewrite !N.add_0_r. repeat split; try assumption.
          * apply (Hhit_pr k k' Pk), Hk.
          * intros Hu. apply Hnpr. apply (Hhit_pr pr c' Pc), Hu.
        + apply (Hnr1 _ _ _ _ _ c' (2 * o1) LT). left. auto.
      - destruct (MVgen h k pr r0 o0 k' c' Hlp Pk Pc) as (r1 & o1 & E0 & E1 & E2 & LT & L1 & L2).
        change (if false then 0 else 1) with 1. rewrite E2. split.
        + apply N1T. exists (op_hash2 HO (chash k') (chash c')), k', c', r1, o1, false.
          rewrite !N.add_0_r. repeat split; try assumption.
          * apply (Hhit_pr k k' Pk), Hk.
          * intros Hu. apply Hnpr. apply (Hhit_pr pr c' Pc), Hu.
        + apply (Hnr1 _ _ _ _ _ c' (2 * o1 + 1) LT). right. auto. }
    (* every needed new position comes from a needed old one *)
    assert (N1sub : forall p', In p' NP1 -> exists p c r o c', In p NP /\ locc H HO s c r o /\
              p = pos R r o /\ prune c = Some c' /\ p' = cpos R (lift1 d (r, o))).
    { intros p' Hp'. apply N1T in Hp' as (h' & k' & pr' & r' & o' & b & Hlp' & Hk' & Hnpr' & -> & Lpr' & Lk').
      destruct (dm_down _ _ _ Hlp') as (c0 & r0 & o0 & L0 & P0 & E0 & U0).
      destruct c0 as [x|h0 l0 rr0].
      { cbn [RefTheory.prune] in P0. destruct (memH HO x [hd]); [discriminate|]. destruct b; discriminate. }
      destruct (U0 h0 l0 rr0 eq_refl) as [Nl Nr].
      destruct (prune l0) as [l0'|] eqn:Pl; [|contradiction]. destruct (prune rr0) as [rr0'|] eqn:Pr; [|contradiction].
      cbn [RefTheory.prune] in P0. rewrite Pl, Pr in P0. cbn [join] in P0.
      destruct (locc_child H HO s _ _ _ L0 h0 l0 rr0 eq_refl) as (r00 & Er & Ll0 & Lr0). subst r0.
      destruct (MVgen h0 l0 rr0 r00 o0 l0' rr0' L0 Pl Pr) as (r1 & o1 & E1 & E2 & E3 & _).
      rewrite E0 in E1. injection E1 as <- <-.
      destruct b; injection P0 as _ El Er.
      - subst l0' rr0'. exists (pos R r00 (2 * o0)), l0, r00, (2 * o0), pr'.
        split; [|split; [exact Ll0|split; [reflexivity|split; [exact Pl|]]]].
        + apply NPT. exists h0, rr0, l0, r00, o0, true. rewrite !N.add_0_r. repeat split; try assumption.
          * apply (Hhit_pr rr0 k' Pr), Hk'.
          * intros Hu. apply Hnpr'. apply (Hhit_pr l0 pr' Pl), Hu.
        + rewrite E2, N.add_0_r. reflexivity.
      - subst l0' rr0'. exists (pos R r00 (2 * o0 + 1)), rr0, r00, (2 * o0 + 1), pr'.
        split; [|split; [exact Lr0|split; [reflexivity|split; [exact Pr|]]]].
        + apply NPT. exists h0, l0, rr0, r00, o0, false. rewrite !N.add_0_r. repeat split; try assumption.
          * apply (Hhit_pr l0 k' Pl), Hk'.
          * intros Hu. apply Hnpr'. apply (Hhit_pr rr0 pr' Pr), Hu.
        + rewrite E3. reflexivity. }
    (* the new proof with coordinates *)
    destruct (pd_ex_coords R (fun x : coord => exists c, locc H HO s c (fst x) (snd x)) (kept ++ miss))
      as (XP & EXP & HXP).
    { intros e He. destruct (K1 e He) as [Hp _].
      apply NPT in Hp as (h & k & pr & r & o & b & _ & _ & _ & Ep & Lpr & _).
      exists (r, 2 * o + (if b then 0 else 1)). split; [exists pr; exact Lpr|exact Ep]. }
    assert (HXPin : forall e, In e XP -> In (cposh H R e) (kept ++ miss)) by (intros e He; rewrite EXP; apply in_map, He).
    assert (NdXP : NoDup XP).
    { rewrite EXP, map_map in NdK. exact (NoDup_map_inv _ _ NdK). }
    (* an entry with a non-zero hash: its subtree survives *)
    assert (HXPnz : forall e, In e XP -> op_eqb HO (snd e) (op_empty HO) = false ->
              exists c c', locc H HO s c (fst (fst e)) (snd (fst e)) /\ In (cpos R (fst e)) NP /\
                           prune c = Some c' /\ snd e = chash c').
    { intros e He Hnz. destruct (HXP e He) as (c & Hl). destruct (K1 _ (HXPin e He)) as [Hp Hs].
      unfold cposh in Hp, Hs. cbn [fst snd] in Hp, Hs.
      change (cpos R (fst e)) with (pos R (fst (fst e)) (snd (fst e))) in Hs. rewrite (VAL _ _ _ Hl) in Hs.
      destruct (prune c) as [c'|] eqn:Pc; [exists c, c'; auto|]. rewrite Hs in Hnz. congruence. }
    rewrite EXP.
    assert (EP : getNewPositions HO [pd] (map (cposh H R) XP) (num_leaves s) false = gr H F1 NP1).
    { unfold getNewPositions. change [pd] with (map (cpos R) [d]).
      rewrite <- (ER : N.of_nat R = TreeRows (num_leaves s)).
      change (gnp_loop HO (map (cpos R) [d]) (map (cposh H R) XP) (num_leaves s) (N.of_nat R) 0 false)
        with (gnp_loop HO (map (cpos R) [d]) (map (cposh H R) XP) n (N.of_nat R) 0 false).
      rewrite (pd_gnp_loop H HO R n HR63 Hn63 ER [d] false Hd1 XP 0).
      - set (XPn := filter (fun e : coord * H => negb (op_eqb HO (snd e) (op_empty HO))) XP).
        assert (HXPn : forall e, In e XPn -> In e XP /\ op_eqb HO (snd e) (op_empty HO) = false).
        { intros e He. unfold XPn in He. apply filter_In in He as [A B]. split; [exact A|].
          apply negb_true_iff, B. }
        assert (Hs1nz : forall h, In (Some h) s1 -> NZ HO h) by (intros h Hh; apply Hlive_nz, dm_live1, Hh).
        apply pd_sortK_graph.
        + intros e He. apply in_map_iff in He as (e0 & <- & He0). destruct (HXPn e0 He0) as [He1 Hnz].
          destruct (HXPnz e0 He1 Hnz) as (c & c' & Hl & Hp & Pc & Es).
          unfold cposh, liftc. cbn [fst snd fold_left]. rewrite Es.
          destruct (MV _ c _ _ c' Hp Hl eq_refl Pc) as (Hl1 & _). rewrite <- surjective_pairing in *.
          rewrite (surjective_pairing (lift1 d (fst e0))). symmetry. exact (Hval1 c' _ _ Hl1).
        + rewrite map_map. unfold cposh, liftc. cbn [fst snd fold_left].
          apply (RefTheory.NoDup_map_inj_on (fun e : coord * H => cpos R (lift1 d (fst e))));
            [apply NoDup_filter, NdXP|].
          intros e1 e2 He1 He2 Ek. destruct (HXPn e1 He1) as [Hi1 Hz1]. destruct (HXPn e2 He2) as [Hi2 Hz2].
          destruct (HXPnz e1 Hi1 Hz1) as (c1 & c1' & L1 & P1 & Pc1 & Es1).
          destruct (HXPnz e2 Hi2 Hz2) as (c2 & c2' & L2 & P2 & Pc2 & Es2).
          destruct (MV _ c1 _ _ c1' P1 L1 eq_refl Pc1) as (M1 & _).
          destruct (MV _ c2 _ _ c2' P2 L2 eq_refl Pc2) as (M2 & _).
          rewrite <- surjective_pairing in M1, M2.
          assert (Ec' : c1' = c2').
          { destruct (locc_node H HO s1 _ _ _ M1) as (y1 & Y1 & Yr1 & Yo1 & _).
            destruct (locc_node H HO s1 _ _ _ M2) as (y2 & Y2 & Yr2 & Yo2 & _).
            assert (Ey : y1 = y2).
            { apply (RefTheory.layout_npos_inj H HO s1 y1 y2 Y1 Y2). rewrite ER1. unfold npos.
              rewrite Yr1, Yo1, Yr2, Yo2. exact Ek. }
            subst y2. assert (Ecc : lift1 d (fst e1) = lift1 d (fst e2)).
            { rewrite (surjective_pairing (lift1 d (fst e1))), (surjective_pairing (lift1 d (fst e2))). congruence. }
            rewrite Ecc in M1. exact (locc_uniq H HO s1 _ _ _ _ M1 M2). }
          subst c2'.
          destruct (cleaves H c1') as [|x xs] eqn:Ecl; [exfalso; exact (cleaves_nonnil H c1' Ecl)|].
          assert (X1 : In x (cleaves H c1)) by (apply (prune_leaves H HO HOK [hd] c1 c1' Pc1 x); rewrite Ecl; left; reflexivity).
          assert (X2 : In x (cleaves H c2)) by (apply (prune_leaves H HO HOK [hd] c2 c1' Pc2 x); rewrite Ecl; left; reflexivity).
          apply NPT in P1 as (h1 & k1 & pr1 & r1 & o1 & b1 & Hlp1 & Hk1 & Hn1 & Ep1 & Lpr1 & _).
          apply NPT in P2 as (h2 & k2 & pr2 & r2 & o2 & b2 & Hlp2 & Hk2 & Hn2 & Ep2 & Lpr2 & _).
          destruct (Hposinj _ _ _ _ _ _ L1 Lpr1 Ep1) as [Ec1 ->].
          destruct (Hposinj _ _ _ _ _ _ L2 Lpr2 Ep2) as [Ec2 ->].
          pose proof (canon_sides_disjoint H HO s Hnd sortedS h1 k1 pr1 r1 o1 b1 h2 k2 pr2 r2 o2 b2 x
                        Hlp1 Hlp2 Hk1 Hn1 Hk2 Hn2 X1 X2) as Ecoord.
          assert (Ef : fst e1 = fst e2).
          { rewrite (surjective_pairing (fst e1)), (surjective_pairing (fst e2)). congruence. }
          destruct (K1 _ (HXPin e1 Hi1)) as [_ Hs1]. destruct (K1 _ (HXPin e2 Hi2)) as [_ Hs2].
          unfold cposh in Hs1, Hs2. cbn [fst snd] in Hs1, Hs2.
          destruct e1 as [x1 v1], e2 as [x2 v2]. cbn [fst snd] in *. subst x2. congruence.
        + pose proof (po_canon_pos_SSlt H HO s1 Hn63' sortedU LSU) as Hx. rewrite ER1 in Hx. exact Hx.
        + intros p. rewrite map_map. unfold cposh, liftc. cbn [fst snd fold_left]. split.
          * intros Hp. apply in_map_iff in Hp as (e & <- & He). destruct (HXPn e He) as [Hi Hz].
            destruct (HXPnz e Hi Hz) as (c & c' & L & P & Pc & _).
            destruct (MV _ c _ _ c' P L eq_refl Pc) as (_ & Hin & _).
            rewrite <- surjective_pairing in Hin. exact Hin.
          * intros Hp. destruct (N1sub p Hp) as (p0 & c & r & o & c' & Hp0 & L & -> & Pc & ->).
            destruct (MV _ c r o c' Hp0 L eq_refl Pc) as (M1 & _).
            assert (Hnz : op_eqb HO (Hv (pos R r o)) (op_empty HO) = false).
            { rewrite (VAL _ _ _ L), Pc. exact (locc_nz H HO s1 c' _ _ hash_nz Hs1nz M1). }
            pose proof (K2 _ Hp0 Hnz) as Hin. rewrite EXP in Hin. apply in_map_iff in Hin as (e & Ee & He).
            unfold cposh in Ee. injection Ee as Ee1 Ee2.
            destruct (HXP e He) as (ce & Le).
            destruct (Hposinj _ _ _ _ _ _ Le L Ee1) as [Ecoord _].
            apply in_map_iff. exists e. split.
            -- rewrite (surjective_pairing (fst e)), Ecoord. reflexivity.
            -- unfold XPn. apply filter_In. split; [exact He|]. rewrite Ee2. apply negb_true_iff. exact Hnz.
      - lia.
      - intros e He. destruct (HXP e He) as (c & Hl). rewrite (surjective_pairing (fst e)). exact (HcokL _ _ _ Hl).
      - intros e He Hnz. right. destruct (HXPnz e He Hnz) as (c & c' & L & P & Pc & _).
        destruct (MV _ c _ _ c' P L eq_refl Pc) as (_ & _ & Hr). rewrite <- surjective_pairing in Hr.
        unfold liftc. cbn [fold_left]. exact Hr. }
    rewrite EP. unfold hashes, positions. rewrite !po_gr_snd, po_gr_fst. unfold NP1.
    rewrite <- ER1.
    rewrite <- (po_hashes_Fv H HO s1 sortedU LSU).
    rewrite <- (po_canon_hashes_Fv H HO s1 Hn63' sortedU LSU). reflexivity.
  Qed.

  (** G3 for such a block: the deletion, then any additions *)
  Variable adds : list H.
  Variable rem : list N.
  Hypothesis Hb : N.of_nat (length s + length adds) <= 2 ^ 63.
  Hypothesis Hnd2 : NoDup (live (s1 ++ map Some adds)).
  Hypothesis Hrem : SSlt rem.
  Hypothesis Hcol : forall x, In x (layout HO (s1 ++ map Some adds)) -> nleaf x = false ->
                              ~ In (nhash x) (pick adds rem).

  Theorem dm_block :
    proof_update HO tC pC hC adds [pd] rem (ud_of_spec (spec_update_data HO s [hd] adds))
    = exp_cached HO (mk_ctx HO (apply_block HO s [hd] adds)) (cached_after HO C [hd] (pick adds rem)) /\
    exp_cached HO (mk_ctx HO (apply_block HO s [hd] adds)) (cached_after HO C [hd] (pick adds rem)) <> None.
  Proof.
    destruct dm_remove as [Erem Hsome].
    destruct (exp_cached HO (mk_ctx HO s1) (removeH HO C [hd])) as [[[h1 t1] p1]|] eqn:E1; [|contradiction].
    assert (Hs1nz : forall h, In (Some h) s1 -> NZ HO h) by (intros h Hh; apply Hlive_nz, dm_live1, Hh).
    assert (Hb1 : N.of_nat (length s1 + length adds) <= 2 ^ 63) by (rewrite length_kill; exact Hb).
    assert (NdS : NoDup (removeH HO C [hd])) by (unfold removeH; apply NoDup_filter, HC).
    destruct (ag_both H HO HOK hash_nz s1 adds Hs1nz Hb1 Hnd2 (removeH HO C [hd]) rem NdS Hrem Hcol
                h1 t1 p1 E1) as [_ Eadd].
    unfold proof_update, ud_of_spec, spec_update_data.
    cbn [u_del u_prev u_add u_to_destroy ud_new_del ud_prev_num_leaves ud_new_add ud_to_destroy].
    rewrite Erem. unfold apply_block, cached_after.
    assert (En : num_leaves s = num_leaves s1) by (unfold num_leaves; rewrite length_kill; reflexivity).
    rewrite En. exact Eadd.
  Qed.
End DelMain.

Print Assumptions dm_remove.
Print Assumptions dm_block.

(** * 8. Closed forms *)

(** G2 (restricted) and G3 for blocks that delete ONE leaf which is not the root of its tree (its tree
    keeps at least one other live leaf) and add any leaves: the mirror of [Proof.Update], called with
    the update data of the block, the position of the deleted leaf and the remember indexes,
    returns the expected cached proof of the new state *)
Theorem proof_update_one_deletion {H} (HO : ops H) :
  ops_ok HO -> (forall a b, NZ HO (op_hash2 HO a b)) ->
  forall (s : slots H) (hd : H) (adds C : list H) (rem : list N),
  (forall h, In (Some h) s -> NZ HO h) ->
  N.of_nat (length s + length adds) <= 2 ^ 63 ->
  NoDup (live s) ->
  In (Some hd) s ->
  (forall x, find_leaf HO (layout HO s) hd = Some x -> nroot x = false) ->
  NoDup (live (kill HO [hd] s ++ map Some adds)) ->
  NoDup C -> SSlt rem ->
  (forall x, In x (layout HO (kill HO [hd] s ++ map Some adds)) -> nleaf x = false ->
             ~ In (nhash x) (pick adds rem)) ->
  forall hC tC pC bt pfd,
  exp_cached HO (mk_ctx HO s) C = Some (hC, tC, pC) ->
  exp_prove HO (mk_ctx HO s) [hd] = Some (bt, pfd) ->
  proof_update HO tC pC hC adds bt rem (ud_of_spec (spec_update_data HO s [hd] adds))
  = exp_cached HO (mk_ctx HO (apply_block HO s [hd] adds)) (cached_after HO C [hd] (pick adds rem)) /\
  exp_cached HO (mk_ctx HO (apply_block HO s [hd] adds)) (cached_after HO C [hd] (pick adds rem)) <> None.
Proof.
  intros HOK Hnz s hd adds C rem Hl Hb Hnd Hhd Hnr Hnd2 HC Hrem Hcol hC tC pC bt pfd E Ep.
  destruct (proj1 (find_leaf_live H HO s hd HOK) Hhd) as (xd & Ef & Ht & Hxl & Hxh).
  apply tnode_some in Ht as (Hxd & _ & _).
  unfold exp_prove in Ep. cbn [mk_ctx clay crows find_leaves] in Ep. rewrite Ef in Ep.
  injection Ep as <- _. cbn [map]. subst hd.
  assert (Hn63 : N.of_nat (length s) <= 2 ^ 63) by lia.
  exact (dm_block H HO HOK Hnz s Hl Hn63 Hnd xd Hxd Hxl (Hnr xd Ef) C HC hC tC pC E adds rem Hb Hnd2 Hrem Hcol).
Qed.
Print Assumptions proof_update_one_deletion.

(** the deletion-only case: [updateProofRemove] alone *)
Theorem update_remove_one_deletion {H} (HO : ops H) :
  ops_ok HO -> (forall a b, NZ HO (op_hash2 HO a b)) ->
  forall (s : slots H) (hd : H) (C : list H),
  (forall h, In (Some h) s -> NZ HO h) ->
  N.of_nat (length s) <= 2 ^ 63 ->
  NoDup (live s) ->
  In (Some hd) s ->
  (forall x, find_leaf HO (layout HO s) hd = Some x -> nroot x = false) ->
  NoDup C ->
  forall hC tC pC bt pfd,
  exp_cached HO (mk_ctx HO s) C = Some (hC, tC, pC) ->
  exp_prove HO (mk_ctx HO s) [hd] = Some (bt, pfd) ->
  updateProofRemove HO tC pC bt hC (new_del HO s [hd]) (num_leaves s)
  = exp_cached HO (mk_ctx HO (kill HO [hd] s)) (removeH HO C [hd]) /\
  exp_cached HO (mk_ctx HO (kill HO [hd] s)) (removeH HO C [hd]) <> None.
Proof.
  intros HOK Hnz s hd C Hl Hn63 Hnd Hhd Hnr HC hC tC pC bt pfd E Ep.
  destruct (proj1 (find_leaf_live H HO s hd HOK) Hhd) as (xd & Ef & Ht & Hxl & Hxh).
  apply tnode_some in Ht as (Hxd & _ & _).
  unfold exp_prove in Ep. cbn [mk_ctx clay crows find_leaves] in Ep. rewrite Ef in Ep.
  injection Ep as <- _. cbn [map]. subst hd.
  exact (dm_remove H HO HOK Hnz s Hl Hn63 Hnd xd Hxd Hxl (Hnr xd Ef) C HC hC tC pC E).
Qed.

(** * 9. The free hash algebra; examples *)

Theorem proof_update_one_deletion_term (s : slots term) (hd : term) (adds C : list term) (rem : list N)
        (hC : list term) (tC : list N) (pC : list term) (bt : list N) (pfd : list term) :
  (forall h, In (Some h) s -> h <> Zero) ->
  N.of_nat (length s + length adds) <= 2 ^ 63 ->
  NoDup (live s) ->
  In (Some hd) s ->
  (forall x, find_leaf term_ops (layout term_ops s) hd = Some x -> nroot x = false) ->
  NoDup (live (kill term_ops [hd] s ++ map Some adds)) ->
  (forall a, In a adds -> exists i, a = Atom i) ->
  NoDup C -> SSlt rem ->
  exp_cached term_ops (mk_ctx term_ops s) C = Some (hC, tC, pC) ->
  exp_prove term_ops (mk_ctx term_ops s) [hd] = Some (bt, pfd) ->
  proof_update term_ops tC pC hC adds bt rem (ud_of_spec (spec_update_data term_ops s [hd] adds))
  = exp_cached term_ops (mk_ctx term_ops (apply_block term_ops s [hd] adds))
               (cached_after term_ops C [hd] (pick adds rem)) /\
  exp_cached term_ops (mk_ctx term_ops (apply_block term_ops s [hd] adds))
             (cached_after term_ops C [hd] (pick adds rem)) <> None.
Proof.
  intros Hl Hb Hnd Hhd Hnr Hnd2 Hatoms HC Hrem E Ep.
  apply (proof_update_one_deletion term_ops term_ops_ok cs_term_hash_nz s hd adds C rem
           (fun h Hh => term_nonzero_eqb h (Hl h Hh)) Hb Hnd Hhd Hnr Hnd2 HC Hrem) with (pfd := pfd);
    [|exact E|exact Ep].
  intros x Hx Hlf Hin. destruct (Hatoms _ (pick_In adds rem _ Hin)) as [i Ei].
  destruct (pu_term_inner _ x Hx Hlf) as [E0|(l & r & E0)]; congruence.
Qed.

(** non-vacuity: the seven-slot forest of [pu_ex_s2] (an empty root at row 1); the block deletes
    [Atom 3] - its sibling [Atom 4], which is cached, moves up - and adds two leaves that write the
    empty root over; one addition is remembered *)
Example pu_ex_one_deletion :
  exists hC tC pC bt pfd,
    exp_cached term_ops (mk_ctx term_ops pu_ex_s2) [Atom 4; Atom 7; Atom 1] = Some (hC, tC, pC) /\
    exp_prove term_ops (mk_ctx term_ops pu_ex_s2) [Atom 3] = Some (bt, pfd) /\
    proof_update term_ops tC pC hC [Atom 8; Atom 9] bt [1]
                 (ud_of_spec (spec_update_data term_ops pu_ex_s2 [Atom 3] [Atom 8; Atom 9]))
    = exp_cached term_ops (mk_ctx term_ops (apply_block term_ops pu_ex_s2 [Atom 3] [Atom 8; Atom 9]))
                 (cached_after term_ops [Atom 4; Atom 7; Atom 1] [Atom 3] (pick [Atom 8; Atom 9] [1])) /\
    tC = [0; 3; 6] /\ bt = [2].
Proof.
  eexists _, _, _, _, _. split; [vm_compute; reflexivity|]. split; [vm_compute; reflexivity|].
  split; [|split; reflexivity].
  apply (proof_update_one_deletion_term pu_ex_s2 (Atom 3) [Atom 8; Atom 9] [Atom 4; Atom 7; Atom 1] [1])
    with (pfd := [Atom 4; Node (Atom 1) (Atom 2)]).
  - intros h Hh. cbn in Hh. repeat (destruct Hh as [Hh|Hh]; [try discriminate; injection Hh as <-; discriminate|]). destruct Hh.
  - vm_compute. discriminate.
  - apply po_ex_nodup; reflexivity.
  - cbn. auto.
  - intros x Ex. vm_compute in Ex. injection Ex as <-. reflexivity.
  - apply po_ex_nodup; reflexivity.
  - intros a Ha. cbn in Ha. repeat (destruct Ha as [<-|Ha]; [eexists; reflexivity|]). destruct Ha.
  - apply po_ex_nodup; reflexivity.
  - repeat constructor; lia.
  - vm_compute. reflexivity.
  - vm_compute. reflexivity.
Qed.

(** * 10. The remove part in general, from the lift of the coordinates over the detwinned targets *)

Section DelGen.
  Variable H : Type.
  Variable HO : ops H.
  Hypothesis HOK : ops_ok HO.
  Hypothesis hash_nz : forall a b, NZ HO (op_hash2 HO a b).
  Variable s : slots H.
  Hypothesis Hlive_nz : forall h, In (Some h) s -> NZ HO h.
  Hypothesis Hn63 : N.of_nat (length s) <= 2 ^ 63.
  Hypothesis Hnd : NoDup (live s).
  Local Notation lay := (layout HO s).
  Local Notation R := (rows_of (num_leaves s)).
  Local Notation n := (N.of_nat (length s)).
  Local Notation total := (TreeRows (N.of_nat (length s))).
  (** the deleted leaves: hashes and nodes *)
  Variable hs : list H.
  Variable xds : list (node H).
  Hypothesis Hxds_lay : forall x, In x xds -> In x lay.
  Hypothesis Hxds_leaf : forall x, In x xds -> nleaf x = true.
  Hypothesis Hxds_hash : map (@nhash H) xds = hs.
  Local Notation prune := (RefTheory.prune HO hs).
  Local Notation s1 := (kill HO hs s).
  Local Notation lay1 := (layout HO s1).
  Local Notation R1 := (rows_of (num_leaves s1)).
  Local Notation F := (Fv H HO s).
  Local Notation F1 := (Fv H HO s1).
  Local Notation bt := (map (npos R) xds).
  Local Notation BT := (sortN (map (npos R) xds)).
  (** the detwinned targets as coordinates, and what the lift over them does *)
  Variable Dd : list coord.
  Hypothesis A1 : deTwin BT (TreeRows (num_leaves s)) = map (cpos R) Dd.
  Hypothesis A2 : forall d, In d Dd -> dok R n d.
  Hypothesis A3 : forall c0 r0 o0 c0', locc H HO s c0 r0 o0 -> prune c0 = Some c0' ->
    locc H HO s1 c0' (fst (liftc Dd (r0, o0))) (snd (liftc Dd (r0, o0))).
  Hypothesis A4 : forall c0' r1 o1, locc H HO s1 c0' r1 o1 ->
    exists c0 r0 o0, locc H HO s c0 r0 o0 /\ prune c0 = Some c0' /\ liftc Dd (r0, o0) = (r1, o1) /\
                     uncontracted H HO hs c0.

  Lemma dg_n63' : N.of_nat (length s1) <= 2 ^ 63.
  Proof. rewrite length_kill. exact Hn63. Qed.
  Lemma dg_R1 : R1 = R. Proof. apply kill_rows. Qed.

  Lemma dg_live1 h : In (Some h) s1 <-> In (Some h) s /\ ~ In h hs.
  Proof.
    unfold kill. rewrite in_map_iff. split.
    - intros ([x|] & E & Hx); [|discriminate].
      destruct (memH HO x hs) eqn:Ex; [discriminate|]. injection E as <-.
      split; [exact Hx|]. intros Hin. apply (memH_In H HO HOK) in Hin. congruence.
    - intros [Hh Hne]. exists (Some h). split; [|exact Hh].
      destruct (memH HO h hs) eqn:Ex; [apply (memH_In H HO HOK) in Ex; contradiction|reflexivity].
  Qed.

  Lemma dg_nd1 : NoDup (live s1).
  Proof.
    clear - Hnd. unfold kill. induction s as [|[h|] t IH]; cbn [map live flat_map] in *; [constructor| |].
    - cbn [app] in Hnd. inversion Hnd as [|x l Hn Hl]; subst. specialize (IH Hl).
      destruct (memH HO h hs); cbn [app]; [exact IH|]. constructor; [|exact IH].
      intros Hin. apply Hn. fold (live t).
      fold (live (map (fun o => match o with Some h0 => if memH HO h0 hs then None else Some h0 | None => None end) t)) in Hin.
      apply live_in in Hin. apply in_map_iff in Hin as ([y|] & E & Hy); [|discriminate].
      destruct (memH HO y hs); [discriminate|]. injection E as ->. apply live_in. exact Hy.
    - apply IH. exact Hnd.
  Qed.

  (** a leaf node with a deleted hash is one of the deleted nodes *)
  Lemma dg_xds x : In x lay -> nleaf x = true -> (In (nhash x) hs <-> In x xds).
  Proof.
    intros Hx Hl. split.
    - intros Hh. rewrite <- Hxds_hash in Hh. apply in_map_iff in Hh as (x' & Eh & Hx').
      rewrite (live_leaf_unique H HO s x x' Hnd Hx (Hxds_lay x' Hx') Hl (Hxds_leaf x' Hx') (eq_sym Eh)). exact Hx'.
    - intros Hin. rewrite <- Hxds_hash. apply in_map, Hin.
  Qed.

  Lemma dg_BT x : In x lay -> (In (npos R x) BT <-> In x xds).
  Proof.
    intros Hx. rewrite RefTheory.sortN_In, in_map_iff. split.
    - intros (x' & Ep & Hx'). rewrite (RefTheory.layout_npos_inj H HO s x x' Hx (Hxds_lay x' Hx') (eq_sym Ep)). exact Hx'.
    - intros Hin. exists x. auto.
  Qed.

  Variable C : list H.
  Hypothesis HC : NoDup C.
  Variables (hC : list H) (tC : list N) (pC : list H).
  Hypothesis E : exp_cached HO (mk_ctx HO s) C = Some (hC, tC, pC).

  Theorem dg_remove :
    updateProofRemove HO tC pC bt hC (new_del HO s hs) (num_leaves s)
    = exp_cached HO (mk_ctx HO s1) (removeH HO C hs) /\
    exp_cached HO (mk_ctx HO s1) (removeH HO C hs) <> None.
  Proof.
    pose proof (pu_nle n) as Hnle. pose proof (pu_t63 n Hn63) as Ht63.
    pose proof dg_n63' as Hn63'. pose proof dg_nd1 as Hnd1. pose proof dg_R1 as ER1.
    pose proof (rf_R_total H s) as ER. pose proof (rows_of_le_63 _ Hn63) as HR63.
    (* the cached set before the block *)
    unfold exp_cached in E. cbn [mk_ctx clay crows] in E.
    destruct (find_leaves HO lay C) as [tsC|] eqn:FC; [|discriminate].
    fold (sort_nodes H s tsC) in E. injection E as <- <- <-.
    destruct (cc_find_leaves_facts HO s C tsC HOK HC FC) as (LC & FlC & NtC & EhC & InC).
    set (sorted := sort_nodes H s tsC).
    pose proof (po_sort_nodes_perm H s tsC) as Psort. fold sorted in Psort.
    assert (LS : forall x, In x sorted -> In x lay)
      by (intros x Hx; apply LC; exact (Permutation_in _ Psort Hx)).
    assert (FlS : forall x, In x sorted -> nleaf x = true)
      by (intros x Hx; apply FlC; exact (Permutation_in _ Psort Hx)).
    assert (NtS : NoDup sorted) by (exact (Permutation_NoDup (Permutation_sym Psort) NtC)).
    assert (HsT : SSlt (map (npos R) sorted)).
    { unfold sorted. rewrite (po_sort_nodes_pos H HO s tsC LC NtC).
      apply pps_sortN_NoDup_SSlt, (po_targets_NoDup H HO s tsC LC NtC). }
    assert (Epp : ProofPositions_fast (map (npos R) sorted) n total
                  = (canon_proof_pos R lay sorted, computable_pos R lay sorted)).
    { rewrite <- (po_sortN_sorted_id _ HsT) at 1. exact (po_pp_both_fast H HO s Hn63 sorted LS FlS NtS). }
    pose proof (po_canon_pos_SSlt H HO s Hn63 sorted LS) as HsP.
    set (OP := canon_proof_pos R lay sorted) in *.
    assert (HhS : forall h, In h (map (@nhash H) sorted) <-> In h C).
    { intros h. rewrite <- EhC. split; apply Permutation_in, Permutation_map;
        [exact Psort|exact (Permutation_sym Psort)]. }
    (* the survivors *)
    set (sortedS := filter (fun x => negb (memN (npos R x) BT)) sorted).
    assert (HinS : forall x, In x sortedS <-> In x sorted /\ ~ In x xds).
    { intros x. unfold sortedS. rewrite filter_In, negb_true_iff, po_memN_false. split; intros [A B]; split; auto.
      - intros Hin. apply B. apply (dg_BT x (LS x A)). exact Hin.
      - intros Hin. apply B. apply (dg_BT x (LS x A)). exact Hin. }
    assert (LSS : forall x, In x sortedS -> In x lay) by (intros x Hx; apply LS, HinS, Hx).
    assert (FlSS : forall x, In x sortedS -> nleaf x = true) by (intros x Hx; apply FlS, HinS, Hx).
    assert (NtSS : NoDup sortedS) by (apply NoDup_filter, NtS).
    set (S := removeH HO C hs).
    assert (HS : forall h, In h S <-> In h C /\ ~ In h hs).
    { intros h. unfold S. apply (removeH_In HOK). }
    assert (HhSS : forall h, In h (map (@nhash H) sortedS) <-> In h S).
    { intros h. rewrite HS, in_map_iff. split.
      - intros (x & <- & Hx). apply HinS in Hx as [Hx Hne]. split; [apply HhS, in_map, Hx|].
        intros Eh. apply Hne. apply (dg_xds x (LS x Hx) (FlS x Hx)). exact Eh.
      - intros [Hc Hne]. apply HhS in Hc. apply in_map_iff in Hc as (x & <- & Hx).
        exists x. split; [reflexivity|]. apply HinS. split; [exact Hx|]. intros Hin. apply Hne.
        apply (dg_xds x (LS x Hx) (FlS x Hx)). exact Hin. }
    assert (EmapS : map (npos R) sortedS = filter (fun p => negb (memN p BT)) (map (npos R) sorted)).
    { unfold sortedS. symmetry. exact (pd_filter_map (fun p => negb (memN p BT)) (npos R) sorted). }
    assert (HsBT : SSle BT) by (apply sortN_spec).
    assert (HsTS : SSlt (map (npos R) sortedS)) by (rewrite EmapS; apply po_filter_SS, HsT).
    assert (EppS : ProofPositions_fast (map (npos R) sortedS) n total
                  = (canon_proof_pos R lay sortedS, computable_pos R lay sortedS)).
    { rewrite <- (po_sortN_sorted_id _ HsTS) at 1. exact (po_pp_both_fast H HO s Hn63 sortedS LSS FlSS NtSS). }
    pose proof (po_canon_pos_SSlt H HO s Hn63 sortedS LSS) as HsNP.
    set (NP := canon_proof_pos R lay sortedS) in *.
    (* the update data *)
    pose proof (new_del_SSlt H HO hs s) as HsUK.
    set (ND := new_del HO s hs) in *. set (UK := map fst ND) in *.
    set (U := lookup H (op_empty HO) ND).
    assert (NdUK : NoDup (map fst ND)) by (apply pps_SSlt_NoDup; exact HsUK).
    assert (END : ND = gr H U UK) by (apply lookup_graph; exact NdUK).
    (* the mirror, down to the two calls of [getNewPositions] *)
    rewrite (po_canon_hashes_Fv H HO s Hn63 sorted LS). fold OP.
    unfold updateProofRemove. cbv zeta.
    rewrite (pu_toHP H (map (npos R) sorted) (map (@nhash H) sorted)) by (try assumption; rewrite !map_length; reflexivity).
    rewrite (subtractSortedHashAndPos_spec H _ BT)
      by (try (rewrite pu_zip_fst by (rewrite !map_length; reflexivity); exact HsT); exact HsBT).
    rewrite pu_zip_map, pd_filter_map.
    assert (Efil : filter (fun x : node H => negb (memN (fst (npos R x, nhash x)) BT)) sorted = sortedS).
    { unfold sortedS. apply filter_ext. intros x. reflexivity. }
    rewrite Efil. clear Efil.
    rewrite (po_sortN_sorted_id _ HsT).
    change (N.of_nat (length s)) with (num_leaves s) in Epp, EppS. rewrite Epp.
    rewrite (pu_toHP H OP (map F OP)) by (try assumption; rewrite map_length; reflexivity).
    rewrite po_zip_gr. unfold positions at 1. rewrite map_map. cbn [fst].
    change (map (fun x : node H => npos R x) sortedS) with (map (npos R) sortedS). rewrite EppS.
    unfold positions. rewrite po_gr_fst, (po_sortN_sorted_id _ HsP), (po_sortN_sorted_id _ HsNP).
    rewrite (subtractSortedSlice_spec OP NP HsP (po_SSlt_SSle _ HsNP)).
    set (EX := filter (fun x => negb (memN x NP)) OP).
    assert (HsEX : SSlt EX) by (apply po_filter_SS, HsP).
    fold ND. rewrite END at 1 2.
    rewrite (pd_upr_keep H HO F U OP EX UK HsP HsEX HsUK).
    rewrite (subtractSortedSlice_spec NP OP HsNP (po_SSlt_SSle _ HsP)).
    rewrite (subtractSortedSlice_spec _ BT (po_filter_SS _ _ _ HsNP)) by exact HsBT.
    set (MP := filter (fun x => negb (memN x BT)) (filter (fun x => negb (memN x OP)) NP)).
    assert (HsMP : SSlt MP) by (apply po_filter_SS, po_filter_SS, HsNP).
    rewrite (pd_upr_missing H U MP UK HsMP HsUK).
    rewrite A1.
    set (kept := flat_map (keep1 H HO F U EX UK) OP).
    set (miss := gr H U (filter (fun p => memN p UK) MP)).
    (* the cached set after the deletion *)
    assert (HSs1 : forall h, In h S -> In (Some h) s1).
    { intros h Hh. apply HS in Hh as [Hc Hne]. apply dg_live1. split; [|exact Hne].
      apply HhS in Hc. apply in_map_iff in Hc as (x & <- & Hx).
      exact (layout_leaf_live H HO s x (LS x Hx) (FlS x Hx)). }
    assert (NdS : NoDup S) by (unfold S, removeH; apply NoDup_filter, HC).
    destruct (po_find_leaves_some H HO s1 S) as [tsU FU].
    { intros h Hh. destruct (proj1 (find_leaf_live H HO s1 h HOK) (HSs1 h Hh)) as (x & Ex & _).
      exists x. exact Ex. }
    destruct (cc_find_leaves_facts HO s1 S tsU HOK NdS FU) as (LU & FlU & NtU & EhU & InU).
    set (sortedU := sort_nodes H s1 tsU).
    pose proof (po_sort_nodes_perm H s1 tsU) as PsortU. fold sortedU in PsortU.
    assert (LSU : forall x, In x sortedU -> In x lay1)
      by (intros x Hx; apply LU; exact (Permutation_in _ PsortU Hx)).
    assert (FlSU : forall x, In x sortedU -> nleaf x = true)
      by (intros x Hx; apply FlU; exact (Permutation_in _ PsortU Hx)).
    assert (NtSU : NoDup sortedU) by (exact (Permutation_NoDup (Permutation_sym PsortU) NtU)).
    assert (HhU : forall h, In h (map (@nhash H) sortedU) <-> In h S).
    { intros h. rewrite <- EhU. split; apply Permutation_in, Permutation_map;
        [exact PsortU|exact (Permutation_sym PsortU)]. }
    assert (HinU : forall y, In y lay1 -> nleaf y = true -> In (nhash y) S -> In y sortedU).
    { intros y Hy Hl Hh. apply (Permutation_in _ (Permutation_sym PsortU)). apply InU.
      exists (nhash y). split; [exact Hh|exact (find_leaf_of_node H HO HOK s1 y Hnd1 Hy Hl)]. }
    assert (HsTU : SSlt (map (npos R) sortedU)).
    { rewrite <- ER1. unfold sortedU. rewrite (po_sort_nodes_pos H HO s1 tsU LU NtU).
      apply pps_sortN_NoDup_SSlt, (po_targets_NoDup H HO s1 tsU LU NtU). }
    unfold exp_cached. cbn [mk_ctx clay crows]. rewrite FU. fold (sort_nodes H s1 tsU). fold sortedU. rewrite ER1.
    split; [|discriminate].
    (* values in the new state *)
    assert (Hval1 : forall c' r o, locc H HO s1 c' r o -> F1 (cpos R (r, o)) = chash c').
    { intros c' r o Hl. pose proof (locc_val H HO s1 c' r o Hl) as Hv. rewrite ER1 in Hv. exact Hv. }
    assert (Hnode1 : forall c' r o, locc H HO s1 c' r o ->
              exists y, In y lay1 /\ npos R y = cpos R (r, o) /\ nhash y = chash c' /\ nleaf y = cleafb H c').
    { intros c' r o Hl. destruct (locc_node H HO s1 c' r o Hl) as (y & Hy & Yr & Yo & Yh & Yl).
      exists y. split; [exact Hy|]. split; [unfold npos, cpos; rewrite Yr, Yo; reflexivity|]. auto. }
    (* the targets *)
    set (XT := map (fun x : node H => ((nrow x, noff x), nhash x)) sortedS).
    assert (Etwh : map (fun x : node H => (npos R x, nhash x)) sortedS = map (cposh H R) XT).
    { unfold XT. rewrite map_map. reflexivity. }
    rewrite Etwh.
    pose proof A2 as Hd1.
    assert (HleafS : forall x, In x sortedS ->
              locc H HO s (CLeaf (nhash x)) (nrow x) (noff x) /\ prune (CLeaf (nhash x)) = Some (CLeaf (nhash x))).
    { intros x Hx. destruct (node_locc H HO s x (LSS x Hx) (FlSS x Hx)) as (k0 & lo & c & He & Ho & _).
      split; [exists k0, lo, c; auto|]. cbn [RefTheory.prune].
      destruct (memH HO (nhash x) hs) eqn:Ex; [|reflexivity]. exfalso. apply (memH_In H HO HOK) in Ex.
      apply HinS in Hx as [Hx Hne]. apply Hne. apply (dg_xds x (LS x Hx) (FlS x Hx)). exact Ex. }
    assert (HcokL : forall c r o, locc H HO s c r o -> cvalid R (r, o) /\ cinf n (r, o)).
    { intros c r o Hl. destruct (locc_node H HO s c r o Hl) as (y & Hy & Yr & Yo & _).
      destruct (layout_coords_rows_of H HO s y Hy) as [V1 V2]. pose proof (layout_coords_valid H HO s y Hy) as V3.
      rewrite Yr, Yo in *. split; [split; assumption|exact V3]. }
    assert (ET : getNewPositions HO (map (cpos R) Dd) (map (cposh H R) XT) (num_leaves s) true
                 = gr H F1 (map (npos R) sortedU)).
    { unfold getNewPositions.
      rewrite <- (ER : N.of_nat R = TreeRows (num_leaves s)).
      change (gnp_loop HO (map (cpos R) Dd) (map (cposh H R) XT) (num_leaves s) (N.of_nat R) 0 true)
        with (gnp_loop HO (map (cpos R) Dd) (map (cposh H R) XT) n (N.of_nat R) 0 true).
      rewrite (pd_gnp_loop H HO R n HR63 Hn63 ER Dd true Hd1 XT 0).
      - rewrite po_filter_all.
        2:{ intros e He. unfold XT in He. apply in_map_iff in He as (x & <- & Hx). cbn [snd].
            apply negb_true_iff. apply Hlive_nz. exact (layout_leaf_live H HO s x (LSS x Hx) (FlSS x Hx)). }
        assert (Himg : forall x, In x sortedS -> exists y, In y sortedU /\
                  npos R y = cpos R (liftc Dd (nrow x, noff x)) /\ nhash y = nhash x).
        { intros x Hx. destruct (HleafS x Hx) as [Hl Hp].
          pose proof (A3 _ _ _ _ Hl Hp) as Hu.
          destruct (Hnode1 _ _ _ Hu) as (y & Hy & Ey & Yh & Yl). cbn [chash cleafb] in Yh, Yl.
          exists y. rewrite <- surjective_pairing in Ey. split; [|auto].
          apply HinU; [exact Hy|exact Yl|]. rewrite Yh. apply HhSS, in_map, Hx. }
        apply pd_sortK_graph.
        + intros e He. apply in_map_iff in He as (e0 & <- & He0). unfold XT in He0.
          apply in_map_iff in He0 as (x & <- & Hx). unfold cposh. cbn [fst snd].
          destruct (Himg x Hx) as (y & Hy & Ey & Yh). rewrite <- Ey, <- Yh.
          rewrite <- ER1. symmetry. exact (po_Fv_node H HO s1 y (LSU y Hy)).
        + rewrite map_map. unfold XT. rewrite map_map. unfold cposh. cbn [fst snd].
          apply (RefTheory.NoDup_map_inj_on (fun x : node H => cpos R (liftc Dd (nrow x, noff x)))); [exact NtSS|].
          intros x1 x2 Hx1 Hx2 Ek.
          destruct (Himg x1 Hx1) as (y1 & Hy1 & Ey1 & Yh1). destruct (Himg x2 Hx2) as (y2 & Hy2 & Ey2 & Yh2).
          assert (Ey : y1 = y2).
          { apply (RefTheory.layout_npos_inj H HO s1 y1 y2 (LSU _ Hy1) (LSU _ Hy2)). rewrite ER1. congruence. }
          subst y2. apply (live_leaf_unique H HO s x1 x2 Hnd (LSS _ Hx1) (LSS _ Hx2) (FlSS _ Hx1) (FlSS _ Hx2)).
          congruence.
        + exact HsTU.
        + intros p. rewrite map_map. unfold XT. rewrite map_map. unfold cposh. cbn [fst snd].
          rewrite !in_map_iff. split.
          * intros (x & <- & Hx). destruct (Himg x Hx) as (y & Hy & Ey & _). exists y. auto.
          * intros (y & <- & Hy). assert (Hh : In (nhash y) S) by (apply HhU, in_map, Hy).
            apply HhSS in Hh. apply in_map_iff in Hh as (x & Ex & Hx).
            destruct (Himg x Hx) as (y' & Hy' & Ey' & Yh'). exists x. split; [|exact Hx].
            rewrite <- Ey'. f_equal.
            apply (live_leaf_unique H HO s1 y' y Hnd1 (LSU _ Hy') (LSU _ Hy) (FlSU _ Hy') (FlSU _ Hy)). congruence.
      - lia.
      - intros e He. unfold XT in He. apply in_map_iff in He as (x & <- & Hx). cbn [fst].
        exact (HcokL _ _ _ (proj1 (HleafS x Hx))).
      - intros e _ _. left. reflexivity. }
    rewrite ET. clear ET.
    (* facts about occurrences of [s] *)
    assert (Hposinj : forall c1 r1 o1 c2 r2 o2, locc H HO s c1 r1 o1 -> locc H HO s c2 r2 o2 ->
              pos R r1 o1 = pos R r2 o2 -> (r1, o1) = (r2, o2) /\ c1 = c2).
    { intros c1 r1 o1 c2 r2 o2 L1 L2 Ep.
      destruct (locc_node H HO s _ _ _ L1) as (y1 & Y1 & Yr1 & Yo1 & _).
      destruct (locc_node H HO s _ _ _ L2) as (y2 & Y2 & Yr2 & Yo2 & _).
      assert (Ey : y1 = y2).
      { apply (RefTheory.layout_npos_inj H HO s y1 y2 Y1 Y2). unfold npos. rewrite Yr1, Yo1, Yr2, Yo2. exact Ep. }
      subst y2. assert (Ec : (r1, o1) = (r2, o2)) by congruence. split; [exact Ec|].
      injection Ec as <- <-. exact (locc_uniq H HO s _ _ _ _ L1 L2). }
    assert (Hcwf : forall c r o, locc H HO s c r o -> cwf H HO c).
    { intros c r o (k0 & lo & cT & He & Ho).
      exact (occ_cwf H HO _ _ _ _ _ _ Ho (entry_cwf H HO s (k0, lo, Some cT) cT He eq_refl)). }
    (* the value the update data and the old proof give for an occurrence *)
    set (Hv := fun p : N => if memN p UK then U p else F p).
    assert (VAL : forall c r o, locc H HO s c r o ->
              Hv (pos R r o) = match prune c with Some c' => chash c' | None => op_empty HO end).
    { intros c r o Hl. unfold Hv. destruct (has_del HO hs c) eqn:Ed.
      - assert (Hin : In (pos R r o, ohash HO (after_del HO hs c)) ND).
        { apply (new_del_occ H HO HOK hs s). exists c, r, o. auto. }
        assert (Hm : memN (pos R r o) UK = true) by (apply RefTheory.memN_In; unfold UK; apply in_map_iff; eexists; split; [|exact Hin]; reflexivity).
        rewrite Hm. unfold U. pose proof (lookup_In H (op_empty HO) ND NdUK _ Hin) as Hlk.
        cbn [fst snd] in Hlk. rewrite Hlk.
        rewrite (after_del_prune H HO hs c). destruct (prune c); reflexivity.
      - assert (Hm : memN (pos R r o) UK = false).
        { apply po_memN_false. intros Hin. unfold UK in Hin. apply in_map_iff in Hin as ([p h] & Ep & Hin).
          cbn [fst] in Ep. subst p. apply (new_del_occ H HO HOK hs s) in Hin as (c0 & r0 & o0 & L0 & D0 & Ep & _).
          destruct (Hposinj _ _ _ _ _ _ Hl L0 Ep) as [_ ->]. congruence. }
        rewrite Hm. rewrite (locc_val H HO s c r o Hl).
        rewrite (prune_untouched H HO HOK hs c (Hcwf _ _ _ Hl)); [reflexivity|].
        intros h Hh Hd. assert (Ht : has_del HO hs c = true) by (apply (has_del_iff H HO HOK); exists h; auto).
        congruence. }
    (* targets held by a subtree, before and after *)
    assert (HhitS : forall c, hit H sortedS c <-> exists h, In h S /\ In h (cleaves H c)).
    { intros c. split.
      - intros (x & Hx & Hc). exists (nhash x). split; [apply HhSS, in_map, Hx|exact Hc].
      - intros (h & Hh & Hc). apply HhSS in Hh. apply in_map_iff in Hh as (x & <- & Hx). exists x. auto. }
    assert (HhitU : forall c, hit H sortedU c <-> exists h, In h S /\ In h (cleaves H c)).
    { intros c. split.
      - intros (x & Hx & Hc). exists (nhash x). split; [apply HhU, in_map, Hx|exact Hc].
      - intros (h & Hh & Hc). apply HhU in Hh. apply in_map_iff in Hh as (x & <- & Hx). exists x. auto. }
    assert (Hhit_pr : forall c c', prune c = Some c' -> (hit H sortedU c' <-> hit H sortedS c)).
    { intros c c' Hp. rewrite HhitU, HhitS. split; intros (h & Hh & Hc); exists h; (split; [exact Hh|]).
      - apply (prune_leaves H HO HOK hs c c' Hp h). exact Hc.
      - apply (prune_leaves H HO HOK hs c c' Hp h). split; [exact Hc|].
        intros Hin. apply HS in Hh as [_ Hne]. exact (Hne Hin). }
    assert (Hhit_some : forall c, hit H sortedS c -> prune c <> None).
    { intros c Hc Hn. apply HhitS in Hc as (h & Hh & Hc).
      pose proof (proj1 (prune_none_iff H HO HOK hs c) Hn h Hc) as Hin.
      apply HS in Hh as [_ Hne]. exact (Hne Hin). }
    assert (HhitSC : forall c, hit H sortedS c -> hit H sorted c).
    { intros c (x & Hx & Hc). exists x. split; [apply HinS, Hx|exact Hc]. }
    (* the canonical proof positions as (known side, proof side) of an inner occurrence *)
    assert (TRI : forall (ss : slots H) (tsn : list (node H)), N.of_nat (length ss) <= 2 ^ 63 -> NoDup (live ss) ->
              (forall x, In x tsn -> In x (layout HO ss)) -> (forall x, In x tsn -> nleaf x = true) ->
              forall p, In p (canon_proof_pos (rows_of (num_leaves ss)) (layout HO ss) tsn) <->
              exists h k pr r o (b : bool),
                locc H HO ss (if b then CNode h pr k else CNode h k pr) (Datatypes.S r) o /\
                hit H tsn k /\ ~ hit H tsn pr /\
                p = pos (rows_of (num_leaves ss)) r (2 * o + (if b then 0 else 1)) /\
                locc H HO ss pr r (2 * o + (if b then 0 else 1)) /\
                locc H HO ss k r (2 * o + (if b then 1 else 0))).
    { intros ss tsn Hb' Hnd' Hl1 Hl2 p. rewrite (canon_pos_occ H HO ss Hb' Hnd' tsn Hl1 Hl2 p). split.
      - intros (h & l & rr & r & o & Hlp & [(A & B & ->)|(A & B & ->)]);
          destruct (locc_child H HO ss _ _ _ Hlp h l rr eq_refl) as (r' & Er & Ll & Lr); injection Er as <-.
        + exists h, l, rr, r, o, false. repeat split; try assumption. rewrite N.add_0_r. exact Ll.
        + exists h, rr, l, r, o, true. rewrite !N.add_0_r. repeat split; assumption.
      - intros (h & k & pr & r & o & b & Hlp & A & B & -> & _). destruct b.
        + exists h, pr, k, r, o. split; [exact Hlp|]. right. rewrite N.add_0_r. auto.
        + exists h, k, pr, r, o. split; [exact Hlp|]. left. auto. }
    pose proof (TRI s sortedS Hn63 Hnd LSS FlSS) as NPT. fold NP in NPT.
    pose proof (TRI s sorted Hn63 Hnd LS FlS) as OPT. fold OP in OPT.
    pose proof (TRI s1 sortedU Hn63' Hnd1 LSU FlSU) as N1T. rewrite ER1 in N1T.
    set (NP1 := canon_proof_pos R lay1 sortedU) in *.
    (* a needed position that the old proof does not hold is in the update data *)
    assert (K2a : forall p, In p NP -> ~ In p OP -> memN p UK = true /\ True).
    { intros p Hp Hnop. split; [|exact I].
      apply NPT in Hp as (h & k & pr & r & o & b & Hlp & Hk & Hnpr & -> & Lpr & Lk).
      assert (HC' : hit H sorted pr).
      {
        assert (Hdec : hit H sorted pr \/ ~ hit H sorted pr).
        { destruct (existsb (fun x : node H => memH HO (nhash x) (cleaves H pr)) sorted) eqn:Ex.
          - left. apply existsb_exists in Ex as (x & Hx & Hm). exists x. split; [exact Hx|].
            apply (memH_In H HO HOK), Hm.
          - right. intros (x & Hx & Hm). assert (Ht : existsb (fun x : node H => memH HO (nhash x) (cleaves H pr)) sorted = true).
            { apply existsb_exists. exists x. split; [exact Hx|]. apply (memH_In H HO HOK), Hm. }
            congruence. }
        destruct Hdec as [Hy|Hn]; [exact Hy|]. exfalso. apply Hnop. apply OPT.
        exists h, k, pr, r, o, b. repeat split; try assumption. apply HhitSC, Hk. }
      destruct HC' as (x & Hx & Hxc).
      assert (Ex : In x xds).
      { destruct (memN (npos R x) BT) eqn:Em.
        - apply (dg_BT x (LS x Hx)). apply RefTheory.memN_In, Em.
        - exfalso. apply Hnpr. exists x. split; [|exact Hxc]. unfold sortedS. apply filter_In.
          split; [exact Hx|]. rewrite Em. reflexivity. }
      assert (Hdl : has_del HO hs pr = true).
      { apply (has_del_iff H HO HOK). exists (nhash x). split; [exact Hxc|].
        apply (dg_xds x (LS x Hx) (FlS x Hx)). exact Ex. }
      assert (Hin : In (pos R r (2 * o + (if b then 0 else 1)), ohash HO (after_del HO hs pr)) ND).
      { apply (new_del_occ H HO HOK hs s). exists pr, r, (2 * o + (if b then 0 else 1)). auto. }
      apply RefTheory.memN_In. unfold UK. apply in_map_iff. eexists. split; [|exact Hin]. reflexivity. }
    (* the entries of the new proof before the positions move *)
    assert (Hempty : op_eqb HO (op_empty HO) (op_empty HO) = true) by (apply HOK; reflexivity).
    assert (K1 : forall e, In e (kept ++ miss) -> In (fst e) NP /\ snd e = Hv (fst e)).
    { intros e He. apply in_app_or in He as [He|He].
      - unfold kept in He. apply in_flat_map in He as (p & Hp & He). unfold keep1 in He.
        destruct (memN p EX) eqn:Eex; [destruct He|].
        assert (HpNP : In p NP).
        { apply po_memN_false in Eex. destruct (memN p NP) eqn:En; [apply RefTheory.memN_In, En|].
          exfalso. apply Eex. unfold EX. apply filter_In. split; [exact Hp|]. rewrite En. reflexivity. }
        unfold Hv. destruct (memN p UK) eqn:Euk.
        + destruct (op_eqb HO (U p) (op_empty HO)); [destruct He|].
          destruct He as [<-|[]]. cbn [fst snd]. rewrite Euk. auto.
        + destruct He as [<-|[]]. cbn [fst snd]. rewrite Euk. auto.
      - unfold miss in He. apply in_map_iff in He as (p & <- & Hp). cbn [fst snd].
        apply filter_In in Hp as [Hp Huk]. unfold MP in Hp. apply filter_In in Hp as [Hp _].
        apply filter_In in Hp as [Hp _]. split; [exact Hp|]. unfold Hv. rewrite Huk. reflexivity. }
    assert (K2 : forall p, In p NP -> op_eqb HO (Hv p) (op_empty HO) = false -> In (p, Hv p) (kept ++ miss)).
    { intros p Hp Hnz. apply in_or_app. destruct (memN p OP) eqn:Eop.
      - left. apply RefTheory.memN_In in Eop. unfold kept. apply in_flat_map. exists p. split; [exact Eop|].
        unfold keep1. assert (Eex : memN p EX = false).
        { apply po_memN_false. intros Hin. unfold EX in Hin. apply filter_In in Hin as [_ Hin].
          rewrite (proj2 (RefTheory.memN_In p NP) Hp) in Hin. discriminate. }
        rewrite Eex. unfold Hv in *. destruct (memN p UK); [rewrite Hnz|]; left; reflexivity.
      - right. apply po_memN_false in Eop. destruct (K2a p Hp Eop) as [Huk _].
        assert (Hne : ~ In p BT).
        { intros Hin. apply (proj1 (RefTheory.sortN_In _ _)) in Hin. apply in_map_iff in Hin as (x' & <- & Hx').
          destruct (node_locc H HO s x' (Hxds_lay x' Hx') (Hxds_leaf x' Hx')) as (k0 & lo & c & He & Ho & _).
          assert (Lx : locc H HO s (CLeaf (nhash x')) (nrow x') (noff x')) by (exists k0, lo, c; auto).
          change (npos R x') with (pos R (nrow x') (noff x')) in Hnz. rewrite (VAL _ _ _ Lx) in Hnz.
          cbn [RefTheory.prune] in Hnz.
          rewrite (proj2 (memH_In H HO HOK (nhash x') hs)) in Hnz by (rewrite <- Hxds_hash; apply in_map, Hx').
          congruence. }
        unfold miss. apply in_map_iff. exists p. split; [unfold Hv; rewrite Huk; reflexivity|].
        apply filter_In. split; [|exact Huk]. unfold MP. apply filter_In. split.
        + apply filter_In. split; [exact Hp|]. apply negb_true_iff, po_memN_false. exact Eop.
        + apply negb_true_iff, po_memN_false. exact Hne. }
    assert (NdK : NoDup (map fst (kept ++ miss))).
    { rewrite map_app. apply NoDup_app_intro.
      - unfold kept. assert (Hnd0 : NoDup OP) by (apply pps_SSlt_NoDup; exact HsP).
        assert (G : forall l, NoDup l -> NoDup (map fst (flat_map (keep1 H HO F U EX UK) l)) /\
                    forall q, In q (map fst (flat_map (keep1 H HO F U EX UK) l)) -> In q l).
        { induction l as [|p l IH]; intros Hl; [split; [constructor|intros q []]|].
          inversion Hl as [|x y Hn Hl']; subst. destruct (IH Hl') as [I1 I2]. cbn [flat_map]. rewrite map_app.
          assert (Cnil : NoDup (map fst (flat_map (keep1 H HO F U EX UK) l)) /\
                         (forall q : N, In q (map fst (flat_map (keep1 H HO F U EX UK) l)) -> In q (p :: l))).
          { split; [exact I1|]. intros q Hq. right. exact (I2 q Hq). }
          assert (Ccons : NoDup (p :: map fst (flat_map (keep1 H HO F U EX UK) l)) /\
                          (forall q : N, In q (p :: map fst (flat_map (keep1 H HO F U EX UK) l)) -> In q (p :: l))).
          { split; [constructor; [intros Hin; exact (Hn (I2 p Hin))|exact I1]|].
            intros q [<-|Hq]; [left; reflexivity|right; exact (I2 q Hq)]. }
          unfold keep1 at 1 3. destruct (memN p EX); [exact Cnil|]. destruct (memN p UK).
          - destruct (op_eqb HO (U p) (op_empty HO)); [exact Cnil|exact Ccons].
          - exact Ccons. }
        exact (proj1 (G OP Hnd0)).
      - unfold miss. rewrite po_gr_fst. apply pps_SSlt_NoDup, po_filter_SS, HsMP.
      - intros q Hq1 Hq2. apply in_map_iff in Hq1 as (e1 & <- & He1). 
        unfold kept in He1. apply in_flat_map in He1 as (p & Hp & He1).
        assert (Efe : fst e1 = p).
        { unfold keep1 in He1. destruct (memN p EX); [destruct He1|]. destruct (memN p UK).
          - destruct (op_eqb HO (U p) (op_empty HO)); [destruct He1|]. destruct He1 as [<-|[]]. reflexivity.
          - destruct He1 as [<-|[]]. reflexivity. }
        rewrite Efe in Hq2. unfold miss in Hq2. rewrite po_gr_fst in Hq2.
        apply filter_In in Hq2 as [Hq2 _]. unfold MP in Hq2. apply filter_In in Hq2 as [Hq2 _].
        apply filter_In in Hq2 as [_ Hq2]. rewrite (proj2 (RefTheory.memN_In p OP) Hp) in Hq2. discriminate. }
    (* an inner occurrence both of whose children survive, after the deletion *)
    assert (MVgen : forall h l rr r o l' rr', locc H HO s (CNode h l rr) (Datatypes.S r) o ->
              prune l = Some l' -> prune rr = Some rr' ->
              exists r1 o1, liftc Dd (Datatypes.S r, o) = (Datatypes.S r1, o1) /\
                liftc Dd (r, 2 * o) = (r1, 2 * o1) /\ liftc Dd (r, 2 * o + 1) = (r1, 2 * o1 + 1) /\
                locc H HO s1 (CNode (op_hash2 HO (chash l') (chash rr')) l' rr') (Datatypes.S r1) o1 /\
                locc H HO s1 l' r1 (2 * o1) /\ locc H HO s1 rr' r1 (2 * o1 + 1)).
    { intros h l rr r o l' rr' Hlp Pl Pr.
      destruct (locc_child H HO s _ _ _ Hlp h l rr eq_refl) as (r' & Er & Ll & Lr). injection Er as <-.
      assert (PT : prune (CNode h l rr) = Some (CNode (op_hash2 HO (chash l') (chash rr')) l' rr'))
        by (cbn [RefTheory.prune]; rewrite Pl, Pr; reflexivity).
      pose proof (A3 _ _ _ _ Hlp PT) as UT. pose proof (A3 _ _ _ _ Ll Pl) as Ul.
      pose proof (A3 _ _ _ _ Lr Pr) as Ur.
      destruct (liftc Dd (Datatypes.S r, o)) as [rt ot] eqn:Et. cbn [fst snd] in UT.
      destruct (locc_child H HO s1 _ _ _ UT _ _ _ eq_refl) as (r1 & Er1 & Ll1 & Lr1). subst rt.
      exists r1, ot. split; [reflexivity|].
      rewrite (surjective_pairing (liftc Dd (r, 2 * o))), (surjective_pairing (liftc Dd (r, 2 * o + 1))).
      split; [exact (locc_once HO s1 l' _ _ _ _ Hnd1 Ul Ll1)|].
      split; [exact (locc_once HO s1 rr' _ _ _ _ Hnd1 Ur Lr1)|]. auto. }
    assert (Hnr1 : forall h l rr r o c0 o0, locc H HO s1 (CNode h l rr) (Datatypes.S r) o ->
              (c0 = l /\ o0 = 2 * o) \/ (c0 = rr /\ o0 = 2 * o + 1) -> is_root_c n (cN (r, o0)) = false).
    { intros h l rr r o c0 o0 Hlp Hc.
      destruct (locc_child_node H HO s1 h l rr r o Hlp c0 o0 Hc) as (y & Hy & Yr & Yo & _ & Ynr & _).
      pose proof (rf_root_true H HO s1 y Hy Ynr) as Hrt. rewrite length_kill in Hrt.
      unfold ncrd in Hrt. rewrite Yr, Yo in Hrt. exact Hrt. }
    (* a needed old position whose subtree survives, after the deletion *)
    assert (MV : forall p c r o c', In p NP -> locc H HO s c r o -> p = pos R r o -> prune c = Some c' ->
              locc H HO s1 c' (fst (liftc Dd (r, o))) (snd (liftc Dd (r, o))) /\
              In (cpos R (liftc Dd (r, o))) NP1 /\ is_root_c n (cN (liftc Dd (r, o))) = false).
    { intros p c r o c' Hp Hl Ep Pc. split; [exact (A3 _ _ _ _ Hl Pc)|].
      apply NPT in Hp as (h & k & pr & r0 & o0 & b & Hlp & Hk & Hnpr & Ep' & Lpr & Lk).
      rewrite Ep in Ep'. destruct (Hposinj _ _ _ _ _ _ Hl Lpr Ep') as [Ec ->]. apply pair_equal_spec in Ec as [-> ->].
      destruct (prune k) as [k'|] eqn:Pk; [|exfalso; exact (Hhit_some k Hk Pk)].
      destruct b.
      - destruct (MVgen h pr k r0 o0 c' k' Hlp Pc Pk) as (r1 & o1 & E0 & E1 & E2 & LT & L1 & L2).
        change (if true then 0 else 1) with 0. rewrite N.add_0_r, E1. split.
        + apply N1T. exists (op_hash2 HO (chash c') (chash k')), k', c', r1, o1, true.
          rewrite !N.add_0_r. repeat split; try assumption.
          * apply (Hhit_pr k k' Pk), Hk.
          * intros Hu. apply Hnpr. apply (Hhit_pr pr c' Pc), Hu.
        + apply (Hnr1 _ _ _ _ _ c' (2 * o1) LT). left. auto.
      - destruct (MVgen h k pr r0 o0 k' c' Hlp Pk Pc) as (r1 & o1 & E0 & E1 & E2 & LT & L1 & L2).
        change (if false then 0 else 1) with 1. rewrite E2. split.
        + apply N1T. exists (op_hash2 HO (chash k') (chash c')), k', c', r1, o1, false.
          rewrite !N.add_0_r. repeat split; try assumption.
          * apply (Hhit_pr k k' Pk), Hk.
          * intros Hu. apply Hnpr. apply (Hhit_pr pr c' Pc), Hu.
        + apply (Hnr1 _ _ _ _ _ c' (2 * o1 + 1) LT). right. auto. }
    (* every needed new position comes from a needed old one *)
    assert (N1sub : forall p', In p' NP1 -> exists p c r o c', In p NP /\ locc H HO s c r o /\
              p = pos R r o /\ prune c = Some c' /\ p' = cpos R (liftc Dd (r, o))).
    { intros p' Hp'. apply N1T in Hp' as (h' & k' & pr' & r' & o' & b & Hlp' & Hk' & Hnpr' & -> & Lpr' & Lk').
      destruct (A4 _ _ _ Hlp') as (c0 & r0 & o0 & L0 & P0 & E0 & U0).
      destruct c0 as [x|h0 l0 rr0].
      { cbn [RefTheory.prune] in P0. destruct (memH HO x hs); [discriminate|]. destruct b; discriminate. }
      destruct (U0 h0 l0 rr0 eq_refl) as [Nl Nr].
      destruct (prune l0) as [l0'|] eqn:Pl; [|contradiction]. destruct (prune rr0) as [rr0'|] eqn:Pr; [|contradiction].
      cbn [RefTheory.prune] in P0. rewrite Pl, Pr in P0. cbn [join] in P0.
      destruct (locc_child H HO s _ _ _ L0 h0 l0 rr0 eq_refl) as (r00 & Er & Ll0 & Lr0). subst r0.
      destruct (MVgen h0 l0 rr0 r00 o0 l0' rr0' L0 Pl Pr) as (r1 & o1 & E1 & E2 & E3 & _).
      rewrite E0 in E1. injection E1 as <- <-.
      destruct b; injection P0 as _ El Er.
      - subst l0' rr0'. exists (pos R r00 (2 * o0)), l0, r00, (2 * o0), pr'.
        split; [|split; [exact Ll0|split; [reflexivity|split; [exact Pl|]]]].
        + apply NPT. exists h0, rr0, l0, r00, o0, true. rewrite !N.add_0_r. repeat split; try assumption.
          * apply (Hhit_pr rr0 k' Pr), Hk'.
          * intros Hu. apply Hnpr'. apply (Hhit_pr l0 pr' Pl), Hu.
        + rewrite E2, N.add_0_r. reflexivity.
      - subst l0' rr0'. exists (pos R r00 (2 * o0 + 1)), rr0, r00, (2 * o0 + 1), pr'.
        split; [|split; [exact Lr0|split; [reflexivity|split; [exact Pr|]]]].
        + apply NPT. exists h0, l0, rr0, r00, o0, false. rewrite !N.add_0_r. repeat split; try assumption.
          * apply (Hhit_pr l0 k' Pl), Hk'.
          * intros Hu. apply Hnpr'. apply (Hhit_pr rr0 pr' Pr), Hu.
        + rewrite E3. reflexivity. }
    (* the new proof with coordinates *)
    destruct (pd_ex_coords R (fun x : coord => exists c, locc H HO s c (fst x) (snd x)) (kept ++ miss))
      as (XP & EXP & HXP).
    { intros e He. destruct (K1 e He) as [Hp _].
      apply NPT in Hp as (h & k & pr & r & o & b & _ & _ & _ & Ep & Lpr & _).
      exists (r, 2 * o + (if b then 0 else 1)). split; [exists pr; exact Lpr|exact Ep]. }
    assert (HXPin : forall e, In e XP -> In (cposh H R e) (kept ++ miss)) by (intros e He; rewrite EXP; apply in_map, He).
    assert (NdXP : NoDup XP).
    { rewrite EXP, map_map in NdK. exact (NoDup_map_inv _ _ NdK). }
    (* an entry with a non-zero hash: its subtree survives *)
    assert (HXPnz : forall e, In e XP -> op_eqb HO (snd e) (op_empty HO) = false ->
              exists c c', locc H HO s c (fst (fst e)) (snd (fst e)) /\ In (cpos R (fst e)) NP /\
                           prune c = Some c' /\ snd e = chash c').
    { intros e He Hnz. destruct (HXP e He) as (c & Hl). destruct (K1 _ (HXPin e He)) as [Hp Hs].
      unfold cposh in Hp, Hs. cbn [fst snd] in Hp, Hs.
      change (cpos R (fst e)) with (pos R (fst (fst e)) (snd (fst e))) in Hs. rewrite (VAL _ _ _ Hl) in Hs.
      destruct (prune c) as [c'|] eqn:Pc; [exists c, c'; auto|]. rewrite Hs in Hnz. congruence. }
    rewrite EXP.
    assert (EP : getNewPositions HO (map (cpos R) Dd) (map (cposh H R) XP) (num_leaves s) false = gr H F1 NP1).
    { unfold getNewPositions.
      rewrite <- (ER : N.of_nat R = TreeRows (num_leaves s)).
      change (gnp_loop HO (map (cpos R) Dd) (map (cposh H R) XP) (num_leaves s) (N.of_nat R) 0 false)
        with (gnp_loop HO (map (cpos R) Dd) (map (cposh H R) XP) n (N.of_nat R) 0 false).
      rewrite (pd_gnp_loop H HO R n HR63 Hn63 ER Dd false Hd1 XP 0).
      - set (XPn := filter (fun e : coord * H => negb (op_eqb HO (snd e) (op_empty HO))) XP).
        assert (HXPn : forall e, In e XPn -> In e XP /\ op_eqb HO (snd e) (op_empty HO) = false).
        { intros e He. unfold XPn in He. apply filter_In in He as [A B]. split; [exact A|].
          apply negb_true_iff, B. }
        assert (Hs1nz : forall h, In (Some h) s1 -> NZ HO h) by (intros h Hh; apply Hlive_nz, dg_live1, Hh).
        apply pd_sortK_graph.
        + intros e He. apply in_map_iff in He as (e0 & <- & He0). destruct (HXPn e0 He0) as [He1 Hnz].
          destruct (HXPnz e0 He1 Hnz) as (c & c' & Hl & Hp & Pc & Es).
          unfold cposh. cbn [fst snd]. rewrite Es.
          destruct (MV _ c _ _ c' Hp Hl eq_refl Pc) as (Hl1 & _). rewrite <- surjective_pairing in *.
          rewrite (surjective_pairing (liftc Dd (fst e0))). symmetry. exact (Hval1 c' _ _ Hl1).
        + rewrite map_map. unfold cposh. cbn [fst snd].
          apply (RefTheory.NoDup_map_inj_on (fun e : coord * H => cpos R (liftc Dd (fst e))));
            [apply NoDup_filter, NdXP|].
          intros e1 e2 He1 He2 Ek. destruct (HXPn e1 He1) as [Hi1 Hz1]. destruct (HXPn e2 He2) as [Hi2 Hz2].
          destruct (HXPnz e1 Hi1 Hz1) as (c1 & c1' & L1 & P1 & Pc1 & Es1).
          destruct (HXPnz e2 Hi2 Hz2) as (c2 & c2' & L2 & P2 & Pc2 & Es2).
          destruct (MV _ c1 _ _ c1' P1 L1 eq_refl Pc1) as (M1 & _).
          destruct (MV _ c2 _ _ c2' P2 L2 eq_refl Pc2) as (M2 & _).
          rewrite <- surjective_pairing in M1, M2.
          assert (Ec' : c1' = c2').
          { destruct (locc_node H HO s1 _ _ _ M1) as (y1 & Y1 & Yr1 & Yo1 & _).
            destruct (locc_node H HO s1 _ _ _ M2) as (y2 & Y2 & Yr2 & Yo2 & _).
            assert (Ey : y1 = y2).
            { apply (RefTheory.layout_npos_inj H HO s1 y1 y2 Y1 Y2). rewrite ER1. unfold npos.
              rewrite Yr1, Yo1, Yr2, Yo2. exact Ek. }
            subst y2. assert (Ecc : liftc Dd (fst e1) = liftc Dd (fst e2)).
            { rewrite (surjective_pairing (liftc Dd (fst e1))), (surjective_pairing (liftc Dd (fst e2))). congruence. }
            rewrite Ecc in M1. exact (locc_uniq H HO s1 _ _ _ _ M1 M2). }
          subst c2'.
          destruct (cleaves H c1') as [|x xs] eqn:Ecl; [exfalso; exact (cleaves_nonnil H c1' Ecl)|].
          assert (X1 : In x (cleaves H c1)) by (apply (prune_leaves H HO HOK hs c1 c1' Pc1 x); rewrite Ecl; left; reflexivity).
          assert (X2 : In x (cleaves H c2)) by (apply (prune_leaves H HO HOK hs c2 c1' Pc2 x); rewrite Ecl; left; reflexivity).
          apply NPT in P1 as (h1 & k1 & pr1 & r1 & o1 & b1 & Hlp1 & Hk1 & Hn1 & Ep1 & Lpr1 & _).
          apply NPT in P2 as (h2 & k2 & pr2 & r2 & o2 & b2 & Hlp2 & Hk2 & Hn2 & Ep2 & Lpr2 & _).
          destruct (Hposinj _ _ _ _ _ _ L1 Lpr1 Ep1) as [Ec1 ->].
          destruct (Hposinj _ _ _ _ _ _ L2 Lpr2 Ep2) as [Ec2 ->].
          pose proof (canon_sides_disjoint H HO s Hnd sortedS h1 k1 pr1 r1 o1 b1 h2 k2 pr2 r2 o2 b2 x
                        Hlp1 Hlp2 Hk1 Hn1 Hk2 Hn2 X1 X2) as Ecoord.
          assert (Ef : fst e1 = fst e2).
          { rewrite (surjective_pairing (fst e1)), (surjective_pairing (fst e2)). congruence. }
          destruct (K1 _ (HXPin e1 Hi1)) as [_ Hs1]. destruct (K1 _ (HXPin e2 Hi2)) as [_ Hs2].
          unfold cposh in Hs1, Hs2. cbn [fst snd] in Hs1, Hs2.
          destruct e1 as [x1 v1], e2 as [x2 v2]. cbn [fst snd] in *. subst x2. congruence.
        + pose proof (po_canon_pos_SSlt H HO s1 Hn63' sortedU LSU) as Hx. rewrite ER1 in Hx. exact Hx.
        + intros p. rewrite map_map. unfold cposh. cbn [fst snd]. split.
          * intros Hp. apply in_map_iff in Hp as (e & <- & He). destruct (HXPn e He) as [Hi Hz].
            destruct (HXPnz e Hi Hz) as (c & c' & L & P & Pc & _).
            destruct (MV _ c _ _ c' P L eq_refl Pc) as (_ & Hin & _).
            rewrite <- surjective_pairing in Hin. exact Hin.
          * intros Hp. destruct (N1sub p Hp) as (p0 & c & r & o & c' & Hp0 & L & -> & Pc & ->).
            destruct (MV _ c r o c' Hp0 L eq_refl Pc) as (M1 & _).
            assert (Hnz : op_eqb HO (Hv (pos R r o)) (op_empty HO) = false).
            { rewrite (VAL _ _ _ L), Pc. exact (locc_nz H HO s1 c' _ _ hash_nz Hs1nz M1). }
            pose proof (K2 _ Hp0 Hnz) as Hin. rewrite EXP in Hin. apply in_map_iff in Hin as (e & Ee & He).
            unfold cposh in Ee. injection Ee as Ee1 Ee2.
            destruct (HXP e He) as (ce & Le).
            destruct (Hposinj _ _ _ _ _ _ Le L Ee1) as [Ecoord _].
            apply in_map_iff. exists e. split.
            -- rewrite (surjective_pairing (fst e)), Ecoord. reflexivity.
            -- unfold XPn. apply filter_In. split; [exact He|]. rewrite Ee2. apply negb_true_iff. exact Hnz.
      - lia.
      - intros e He. destruct (HXP e He) as (c & Hl). rewrite (surjective_pairing (fst e)). exact (HcokL _ _ _ Hl).
      - intros e He Hnz. right. destruct (HXPnz e He Hnz) as (c & c' & L & P & Pc & _).
        destruct (MV _ c _ _ c' P L eq_refl Pc) as (_ & _ & Hr). rewrite <- surjective_pairing in Hr.
        exact Hr. }
    rewrite EP. unfold hashes, positions. rewrite !po_gr_snd, po_gr_fst. unfold NP1.
    rewrite <- ER1.
    rewrite <- (po_hashes_Fv H HO s1 sortedU LSU).
    rewrite <- (po_canon_hashes_Fv H HO s1 Hn63' sortedU LSU). reflexivity.
  Qed.


  (** G3 from the same hypotheses: the remove part, then [ProofUpdateSpec.ag_both] on [kill hs s] *)
  Variable adds : list H.
  Variable rem : list N.
  Hypothesis Hb : N.of_nat (length s + length adds) <= 2 ^ 63.
  Hypothesis Hnd2 : NoDup (live (s1 ++ map Some adds)).
  Hypothesis Hrem : SSlt rem.
  Hypothesis Hcol : forall x, In x (layout HO (s1 ++ map Some adds)) -> nleaf x = false ->
                              ~ In (nhash x) (pick adds rem).

  Theorem dg_block :
    proof_update HO tC pC hC adds bt rem (ud_of_spec (spec_update_data HO s hs adds))
    = exp_cached HO (mk_ctx HO (apply_block HO s hs adds)) (cached_after HO C hs (pick adds rem)) /\
    exp_cached HO (mk_ctx HO (apply_block HO s hs adds)) (cached_after HO C hs (pick adds rem)) <> None.
  Proof.
    destruct dg_remove as [Erem Hsome].
    destruct (exp_cached HO (mk_ctx HO s1) (removeH HO C hs)) as [[[h1 t1] p1]|] eqn:E1; [|contradiction].
    assert (Hs1nz : forall h, In (Some h) s1 -> NZ HO h) by (intros h Hh; apply Hlive_nz, dg_live1, Hh).
    assert (Hb1 : N.of_nat (length s1 + length adds) <= 2 ^ 63) by (rewrite length_kill; exact Hb).
    assert (NdS : NoDup (removeH HO C hs)) by (unfold removeH; apply NoDup_filter, HC).
    destruct (ag_both H HO HOK hash_nz s1 adds Hs1nz Hb1 Hnd2 (removeH HO C hs) rem NdS Hrem Hcol
                h1 t1 p1 E1) as [_ Eadd].
    unfold proof_update, ud_of_spec, spec_update_data.
    cbn [u_del u_prev u_add u_to_destroy ud_new_del ud_prev_num_leaves ud_new_add ud_to_destroy].
    rewrite Erem. unfold apply_block, cached_after.
    assert (En : num_leaves s = num_leaves s1) by (unfold num_leaves; rewrite length_kill; reflexivity).
    rewrite En. exact Eadd.
  Qed.
End DelGen.

Print Assumptions dg_remove.
Print Assumptions dg_block.

(** the hypotheses of [dg_remove] hold for one deleted non-root leaf (another proof of [dm_remove]) *)
Corollary dm_remove_from_gen {H} (HO : ops H) (HOK : ops_ok HO)
  (hash_nz : forall a b, NZ HO (op_hash2 HO a b)) (s : slots H)
  (Hlive_nz : forall h, In (Some h) s -> NZ HO h) (Hn63 : N.of_nat (length s) <= 2 ^ 63)
  (Hnd : NoDup (live s)) (xd : node H) (Hxd : In xd (layout HO s)) (Hxl : nleaf xd = true)
  (Hxr : nroot xd = false) (C : list H) (HC : NoDup C) hC tC pC
  (E : exp_cached HO (mk_ctx HO s) C = Some (hC, tC, pC)) :
  updateProofRemove HO tC pC [npos (rows_of (num_leaves s)) xd] hC (new_del HO s [nhash xd]) (num_leaves s)
  = exp_cached HO (mk_ctx HO (kill HO [nhash xd] s)) (removeH HO C [nhash xd]).
Proof.
  apply (dg_remove H HO HOK hash_nz s Hlive_nz Hn63 Hnd [nhash xd] [xd]) with (Dd := [(nrow xd, noff xd)]);
    try assumption.
  - intros x [<-|[]]. exact Hxd.
  - intros x [<-|[]]. exact Hxl.
  - reflexivity.
  - reflexivity.
  - intros d [<-|[]]. exact (dl_dok H HO s Hn63 xd Hxd Hxl Hxr).
  - intros c0 r0 o0 c0' Hl Hp. exact (dm_up H HO HOK s Hn63 Hnd xd Hxd Hxl Hxr c0 r0 o0 c0' Hl Hp).
  - intros c0' r1 o1 Hl. exact (dm_down H HO HOK s Hn63 Hnd xd Hxd Hxl Hxr c0' r1 o1 Hl).
Qed.

(** * 11. Several deleted leaves, none deleted together with its sibling, no tree deleted as a whole *)

(** row-major order of coordinates *)
Definition clt (a b : coord) : Prop := (fst a < fst b)%nat \/ (fst a = fst b /\ snd a < snd b).

Lemma clt_irrefl a : ~ clt a a.
Proof. unfold clt. lia. Qed.
Lemma clt_asym a b : clt a b -> clt b a -> False.
Proof. unfold clt. lia. Qed.

Lemma sorted_last (D L : list coord) z : StronglySorted clt D ->
  (forall d, In d D <-> In d L \/ d = z) -> (forall a, In a L -> clt a z) ->
  exists D', D = D' ++ [z] /\ (forall d, In d D' <-> In d L) /\ StronglySorted clt D'.
Proof.
  intros Hs Hp Hz.
  assert (Hin : In z D) by (apply Hp; right; reflexivity).
  apply in_split in Hin as (D1 & D2 & ->).
  assert (Hmid : forall y, In y D1 -> clt y z).
  { clear - Hs. induction D1 as [|a D1 IH]; intros y Hy; [destruct Hy|]. cbn [app] in Hs.
    apply StronglySorted_inv in Hs as [Hs Hf]. destruct Hy as [<-|Hy]; [|exact (IH Hs y Hy)].
    rewrite Forall_forall in Hf. apply Hf, in_or_app. right. left. reflexivity. }
  assert (HD2 : D2 = []).
  { destruct D2 as [|y D2]; [reflexivity|exfalso].
    assert (Hzy : clt z y).
    { clear - Hs. induction D1 as [|a D1 IH]; cbn [app] in Hs.
      - apply StronglySorted_inv in Hs as [_ Hf]. rewrite Forall_forall in Hf. apply Hf. left. reflexivity.
      - apply StronglySorted_inv in Hs as [Hs _]. exact (IH Hs). }
    assert (Hy : In y L \/ y = z) by (apply Hp, in_or_app; right; right; left; reflexivity).
    destruct Hy as [Hy| ->]; [exact (clt_asym _ _ Hzy (Hz y Hy))|exact (clt_irrefl _ Hzy)]. }
  subst D2. exists D1. split; [reflexivity|]. split.
  - intros d. split.
    + intros Hd. destruct (proj1 (Hp d) ltac:(apply in_or_app; left; exact Hd)) as [Hl| ->]; [exact Hl|].
      exfalso. exact (clt_irrefl _ (Hmid z Hd)).
    + intros Hd. assert (Hd' : In d (D1 ++ [z])) by (apply Hp; left; exact Hd).
      apply in_app_or in Hd' as [Hd'|[<-|[]]]; [exact Hd'|]. exfalso. exact (clt_irrefl _ (Hz _ Hd)).
  - clear - Hs. induction D1 as [|a D1 IH]; [constructor|]. cbn [app] in Hs.
    apply StronglySorted_inv in Hs as [Hs Hf]. constructor; [exact (IH Hs)|].
    rewrite Forall_forall in *. intros x Hx. apply Hf, in_or_app. left. exact Hx.
Qed.

Lemma SS_filter {A} (R : A -> A -> Prop) f l : StronglySorted R l -> StronglySorted R (filter f l).
Proof. apply po_filter_SS. Qed.

(** regions *)
Lemma pm_rmbit_div v b : rmbit v b / 2 ^ b = v / 2 ^ (b + 1).
Proof.
  unfold rmbit. rewrite N.add_comm, N.div_add by apply pow2_nz.
  rewrite N.div_small by (apply N.mod_lt, pow2_nz). reflexivity.
Qed.

(** a lifted coordinate lies below the parent of the target *)
Lemma pm_lift1_under d y : anc (S (fst d), snd d / 2) y = true -> under (S (fst d), snd d / 2) (lift1 d y).
Proof.
  intros Ea. unfold lift1. rewrite Ea. apply anc_under in Ea as [Hr [_ Eq]]. cbn [fst snd] in *.
  split; cbn [fst snd]; [lia|].
  replace (N.of_nat (S (fst d) - S (fst y))) with (N.of_nat (fst d - fst y)) by lia.
  rewrite pm_rmbit_div. rewrite <- Eq. f_equal. f_equal. lia.
Qed.

Lemma pm_region_closed A tau y : tau <> [] -> (length tau <= fst A)%nat -> under A y ->
  under A (lift1 (walk A tau) y).
Proof.
  intros Hne Hl Hy. set (d := walk A tau).
  destruct (anc (S (fst d), snd d / 2) y) eqn:Ea; [|rewrite (pd_lift1_id d y Ea); exact Hy].
  apply (under_trans A (S (fst d), snd d / 2)); [apply under_parent_walk; assumption|apply pm_lift1_under, Ea].
Qed.

Lemma pm_region_disj Z b tau y : (1 <= fst Z)%nat -> tau <> [] -> (S (length tau) <= fst Z)%nat ->
  under (chd (bN (negb b)) Z) y -> lift1 (walk (chd (bN b) Z) tau) y = y.
Proof.
  intros HZ Hne Hl Hy. apply pd_lift1_id. set (d := walk (chd (bN b) Z) tau).
  destruct (anc (S (fst d), snd d / 2) y) eqn:Ea; [exfalso|reflexivity].
  apply anc_under in Ea as [_ Hu].
  assert (HA : under (chd (bN b) Z) (S (fst d), snd d / 2)).
  { apply under_parent_walk; [exact Hne|]. unfold chd. cbn [fst]. lia. }
  pose proof (under_trans _ _ _ HA Hu) as HAy.
  destruct b; cbn [bN negb] in *; [exact (under_chd_disj Z y HZ Hy HAy)|exact (under_chd_disj Z y HZ HAy Hy)].
Qed.

Definition underb (u x : coord) : bool :=
  (fst x <=? fst u)%nat && (snd x / 2 ^ N.of_nat (fst u - fst x) =? snd u).
Lemma underb_spec u x : underb u x = true <-> under u x.
Proof. unfold underb, under. rewrite andb_true_iff, Nat.leb_le, N.eqb_eq. reflexivity. Qed.

Lemma perm_filter {A} (f : A -> bool) (l l' : list A) : Permutation l l' -> Permutation (filter f l) (filter f l').
Proof.
  induction 1 as [|x l l' _ IH|x y l|l l' l'' _ IH1 _ IH2]; cbn [filter].
  - constructor.
  - destruct (f x); [constructor; exact IH|exact IH].
  - destruct (f x), (f y); try apply Permutation_refl. apply perm_swap.
  - exact (Permutation_trans IH1 IH2).
Qed.

(** targets outside a region do not matter inside it *)
Lemma liftc_filter A : forall D x, under A x ->
  (forall d, In d D -> underb A d = true -> forall y, under A y -> under A (lift1 d y)) ->
  (forall d, In d D -> underb A d = false -> forall y, under A y -> lift1 d y = y) ->
  liftc D x = liftc (filter (underb A) D) x.
Proof.
  induction D as [|d D IH]; intros x Hx Hin Hout; [reflexivity|].
  unfold liftc. cbn [fold_left filter]. fold (liftc D (lift1 d x)).
  assert (HinD : forall d', In d' D -> underb A d' = true -> forall y, under A y -> under A (lift1 d' y))
    by (intros d' Hd'; apply Hin; right; exact Hd').
  assert (HoutD : forall d', In d' D -> underb A d' = false -> forall y, under A y -> lift1 d' y = y)
    by (intros d' Hd'; apply Hout; right; exact Hd').
  destruct (underb A d) eqn:Eu.
  - cbn [fold_left]. fold (liftc (filter (underb A) D) (lift1 d x)).
    apply IH; [exact (Hin d (or_introl eq_refl) Eu x Hx)|exact HinD|exact HoutD].
  - rewrite (Hout d (or_introl eq_refl) Eu x Hx). apply IH; assumption.
Qed.

Section MultiTree.
  Variable H : Type.
  Variable HO : ops H.
  Hypothesis HOK : ops_ok HO.
  Variable hs : list H.
  Local Notation prune := (RefTheory.prune HO hs).
  Local Notation ppath := (ppath H HO hs).

  (** the coordinates of the deleted leaves of a tree placed at [Y] *)
  Fixpoint dlist (c : ctree H) (Y : coord) : list coord :=
    match c with
    | CLeaf h => if memH HO h hs then [Y] else []
    | CNode _ l r => dlist l (chd 0 Y) ++ dlist r (chd 1 Y)
    end.

  (** only leaves are deleted as a whole *)
  Definition regular (c : ctree H) : Prop :=
    forall pi c0, occp H c pi c0 -> prune c0 = None -> exists h, c0 = CLeaf h.

  Lemma regular_l h l r : regular (CNode h l r) -> regular l.
  Proof. intros Hr pi c0 Ho. apply (Hr (false :: pi)). constructor. exact Ho. Qed.
  Lemma regular_r h l r : regular (CNode h l r) -> regular r.
  Proof. intros Hr pi c0 Ho. apply (Hr (true :: pi)). constructor. exact Ho. Qed.

  Lemma dlist_walk (c : ctree H) : forall Y d, (cheight H c <= fst Y)%nat -> In d (dlist c Y) ->
    exists tau, d = walk Y tau /\ (length tau <= cheight H c)%nat /\ (prune c <> None -> tau <> []).
  Proof.
    induction c as [h|h l IHl r IHr]; intros Y d HY Hd; cbn [dlist] in Hd.
    - cbn [RefTheory.prune]. destruct (memH HO h hs); [|destruct Hd]. destruct Hd as [<-|[]].
      exists []. split; [reflexivity|]. split; [cbn; lia|]. intros Hc. exfalso. apply Hc. reflexivity.
    - cbn [cheight] in HY. apply in_app_or in Hd as [Hd|Hd].
      + destruct (IHl (chd 0 Y) d ltac:(unfold chd; cbn [fst]; lia) Hd) as (tau & -> & Hl & _).
        exists (false :: tau). split; [reflexivity|]. split; [cbn [length cheight]; lia|discriminate].
      + destruct (IHr (chd 1 Y) d ltac:(unfold chd; cbn [fst]; lia) Hd) as (tau & -> & Hl & _).
        exists (true :: tau). split; [reflexivity|]. split; [cbn [length cheight]; lia|discriminate].
  Qed.

  Lemma dlist_row (c : ctree H) Y d : (cheight H c <= fst Y)%nat -> prune c <> None ->
    In d (dlist c Y) -> (fst d < fst Y)%nat.
  Proof.
    intros HY Hp Hd. destruct (dlist_walk c Y d HY Hd) as (tau & -> & Hl & Hne).
    specialize (Hne Hp). destruct (walk_coord tau Y ltac:(lia)) as [W1 _]. rewrite W1.
    destruct tau; [contradiction|cbn [length] in *; lia].
  Qed.

  Lemma dlist_under (c : ctree H) Y d : (cheight H c <= fst Y)%nat -> In d (dlist c Y) -> under Y d.
  Proof.
    intros HY Hd. destruct (dlist_walk c Y d HY Hd) as (tau & -> & Hl & _). apply under_walk. lia.
  Qed.

  Lemma prune_none_leaf (c : ctree H) h : c = CLeaf h -> prune c = None -> forall Y, dlist c Y = [Y].
  Proof. intros -> Hp Y. cbn [dlist]. cbn [RefTheory.prune] in Hp. destruct (memH HO h hs); [reflexivity|discriminate]. Qed.

  Theorem move_tree_multi : forall c : ctree H, regular c -> forall Y, (cheight H c <= fst Y)%nat ->
    forall D, StronglySorted clt D -> (forall d, In d D <-> In d (dlist c Y)) ->
    forall pi c0 c0', occp H c pi c0 -> prune c0 = Some c0' ->
      liftc D (walk Y pi) = walk Y (ppath c pi).
  Proof.
    induction c as [h|h l IHl r IHr]; intros Hreg Y HY D Hs Hp pi c0 c0' Ho Hpr.
    - inversion Ho; subst. cbn [RefTheory.prune] in Hpr. cbn [dlist] in Hp.
      destruct (memH HO h hs); [discriminate|]. destruct D as [|d D]; [reflexivity|]. exfalso. exact (proj1 (Hp d) (or_introl eq_refl)).
    - cbn [cheight] in HY. cbn [dlist] in Hp.
      assert (HZ : (1 <= fst Y)%nat) by lia.
      assert (Hhl : (cheight H l <= fst (chd 0 Y))%nat) by (unfold chd; cbn [fst]; lia).
      assert (Hhr : (cheight H r <= fst (chd 1 Y))%nat) by (unfold chd; cbn [fst]; lia).
      inversion Ho; subst.
      + (* the top *)
        cbn [ppath walk fold_left]. apply liftc_skip. intros d Hd.
        apply Hp in Hd. apply in_app_or in Hd as [Hd|Hd].
        * pose proof (dlist_under l _ d Hhl Hd) as [Hr _]. unfold chd in Hr. cbn [fst] in *. lia.
        * pose proof (dlist_under r _ d Hhr Hd) as [Hr _]. unfold chd in Hr. cbn [fst] in *. lia.
      + (* below the left child *)
        match goal with X : occp H l _ c0 |- _ => rename X into Hol end.
        pose proof (occp_height H _ _ _ Hol) as Hh2.
        destruct (prune_occp H HO hs l _ c0 Hol c0' Hpr) as (l' & Pl & _).
        change (walk Y (false :: ?p)) with (walk (chd 0 Y) p). cbn [ppath].
        destruct (prune r) as [r'|] eqn:Pr.
        * (* the right child survives: its deleted leaves do not matter *)
          change (walk Y (false :: ?p)) with (walk (chd 0 Y) p).
          rewrite (liftc_filter (chd 0 Y) D (walk (chd 0 Y) pi0)).
          -- refine (IHl (regular_l _ _ _ Hreg) (chd 0 Y) Hhl _ (SS_filter _ _ _ Hs) _ pi0 c0 c0' Hol Hpr).
             intros d. rewrite filter_In, Hp, in_app_iff, underb_spec. split.
             ++ intros [[Hd|Hd] Hu]; [exact Hd|]. exfalso. exact (under_chd_disj Y d HZ Hu (dlist_under r _ d Hhr Hd)).
             ++ intros Hd. split; [left; exact Hd|exact (dlist_under l _ d Hhl Hd)].
          -- apply under_walk. unfold chd. cbn [fst]. lia.
          -- intros d Hd Eu y Hy. apply Hp in Hd. apply in_app_or in Hd as [Hd|Hd].
             ++ destruct (dlist_walk l _ d Hhl Hd) as (tau & -> & Hlt & Hne).
                apply pm_region_closed; [apply Hne; rewrite Pl; discriminate|unfold chd; cbn [fst]; lia|exact Hy].
             ++ exfalso. apply underb_spec in Eu. exact (under_chd_disj Y d HZ Eu (dlist_under r _ d Hhr Hd)).
          -- intros d Hd Eu y Hy. apply Hp in Hd. apply in_app_or in Hd as [Hd|Hd].
             ++ exfalso. assert (Ht : underb (chd 0 Y) d = true) by (apply underb_spec, (dlist_under l _ d Hhl Hd)). congruence.
             ++ destruct (dlist_walk r _ d Hhr Hd) as (tau & -> & Hlt & Hne).
                apply (pm_region_disj Y true tau y HZ); [apply Hne; rewrite Pr; discriminate|lia|exact Hy].
        * (* the right child is a deleted leaf: it comes last *)
          destruct (Hreg [true] r ltac:(constructor; constructor) Pr) as (hr & ->).
          rewrite (prune_none_leaf _ hr eq_refl Pr) in Hp.
          assert (Hp2 : forall d, In d D <-> In d (dlist l (chd 0 Y)) \/ d = chd 1 Y).
          { intros d. rewrite Hp, in_app_iff. cbn [In]. split.
            - intros [A|[B|[]]]; [left; exact A|right; symmetry; exact B].
            - intros [A|B]; [left; exact A|right; left; symmetry; exact B]. }
          destruct (sorted_last D (dlist l (chd 0 Y)) (chd 1 Y) Hs Hp2) as (D' & -> & Hp' & Hs').
          { intros a Ha. left. pose proof (dlist_row l _ a Hhl ltac:(rewrite Pl; discriminate) Ha) as Hr.
            unfold chd in *. cbn [fst] in *. exact Hr. }
          rewrite liftc_app.
          rewrite (IHl (regular_l _ _ _ Hreg) (chd 0 Y) Hhl D' Hs' Hp' pi0 c0 c0' Hol Hpr).
          unfold liftc. cbn [fold_left].
          pose proof (ppath_length H HO hs l pi0) as Hpl.
          apply (lift1_sibling Y true (ppath l pi0)); lia.
      + (* below the right child *)
        match goal with X : occp H r _ c0 |- _ => rename X into Hor end.
        pose proof (occp_height H _ _ _ Hor) as Hh2.
        destruct (prune_occp H HO hs r _ c0 Hor c0' Hpr) as (r' & Pr & _).
        change (walk Y (true :: ?p)) with (walk (chd 1 Y) p). cbn [ppath].
        destruct (prune l) as [l'|] eqn:Pl.
        * change (walk Y (true :: ?p)) with (walk (chd 1 Y) p).
          rewrite (liftc_filter (chd 1 Y) D (walk (chd 1 Y) pi0)).
          -- refine (IHr (regular_r _ _ _ Hreg) (chd 1 Y) Hhr _ (SS_filter _ _ _ Hs) _ pi0 c0 c0' Hor Hpr).
             intros d. rewrite filter_In, Hp, in_app_iff, underb_spec. split.
             ++ intros [[Hd|Hd] Hu]; [|exact Hd]. exfalso. exact (under_chd_disj Y d HZ (dlist_under l _ d Hhl Hd) Hu).
             ++ intros Hd. split; [right; exact Hd|exact (dlist_under r _ d Hhr Hd)].
          -- apply under_walk. unfold chd. cbn [fst]. lia.
          -- intros d Hd Eu y Hy. apply Hp in Hd. apply in_app_or in Hd as [Hd|Hd].
             ++ exfalso. apply underb_spec in Eu. exact (under_chd_disj Y d HZ (dlist_under l _ d Hhl Hd) Eu).
             ++ destruct (dlist_walk r _ d Hhr Hd) as (tau & -> & Hlt & Hne).
                apply pm_region_closed; [apply Hne; rewrite Pr; discriminate|unfold chd; cbn [fst]; lia|exact Hy].
          -- intros d Hd Eu y Hy. apply Hp in Hd. apply in_app_or in Hd as [Hd|Hd].
             ++ destruct (dlist_walk l _ d Hhl Hd) as (tau & -> & Hlt & Hne).
                apply (pm_region_disj Y false tau y HZ); [apply Hne; rewrite Pl; discriminate|lia|exact Hy].
             ++ exfalso. assert (Ht : underb (chd 1 Y) d = true) by (apply underb_spec, (dlist_under r _ d Hhr Hd)). congruence.
        * destruct (Hreg [false] l ltac:(constructor; constructor) Pl) as (hl & ->).
          rewrite (prune_none_leaf _ hl eq_refl Pl) in Hp.
          assert (Hp2 : forall d, In d D <-> In d (dlist r (chd 1 Y)) \/ d = chd 0 Y).
          { intros d. rewrite Hp, in_app_iff. cbn [In]. split.
            - intros [[A|[]]|B]; [right; symmetry; exact A|left; exact B].
            - intros [A|B]; [right; exact A|left; left; symmetry; exact B]. }
          destruct (sorted_last D (dlist r (chd 1 Y)) (chd 0 Y) Hs Hp2) as (D' & -> & Hp' & Hs').
          { intros a Ha. left. pose proof (dlist_row r _ a Hhr ltac:(rewrite Pr; discriminate) Ha) as Hr.
            unfold chd in *. cbn [fst] in *. exact Hr. }
          rewrite liftc_app.
          rewrite (IHr (regular_r _ _ _ Hreg) (chd 1 Y) Hhr D' Hs' Hp' pi0 c0 c0' Hor Hpr).
          unfold liftc. cbn [fold_left].
          pose proof (ppath_length H HO hs r pi0) as Hpl.
          apply (lift1_sibling Y false (ppath r pi0)); lia.
  Qed.
End MultiTree.

Section MultiForest.
  Variable H : Type.
  Variable HO : ops H.
  Hypothesis HOK : ops_ok HO.
  Variable s : slots H.
  Variable hs : list H.
  Local Notation entry := (StumpAdd.entry H).
  Local Notation erow := (@StumpAdd.erow H).
  Local Notation ecoord := (@StumpAddData.ecoord H).
  Local Notation prune := (RefTheory.prune HO hs).
  Local Notation ppath := (ppath H HO hs).
  Local Notation s1 := (kill HO hs s).

  Lemma mf_ecoord_lo (e : entry) : In e (forest HO s) ->
    snd (ecoord e) * p2 (erow e) = StumpAddData.elo H e.
  Proof.
    intros He. destruct e as [[k lo] t]. apply forest_entry in He as (_ & _ & E & _).
    unfold StumpAddData.ecoord, StumpAdd.erow, StumpAddData.elo. cbn [fst snd].
    rewrite E at 1. fold (p2 k). rewrite N.div_mul by (apply N.neq_0_lt_0, p2_pos). symmetry. exact E.
  Qed.

  Lemma mf_trees_disj (e e' : entry) u x : In e (forest HO s) -> In e' (forest HO s) ->
    erow e <> erow e' -> under (ecoord e) u -> under (ecoord e') x -> under u x -> False.
  Proof.
    intros He He' Hne Hu Hx Hux. pose proof (under_trans _ _ _ Hu Hux) as Hex.
    apply under_lo in Hex as [A1 A2]. apply under_lo in Hx as [B1 B2].
    rewrite N.mul_add_distr_r, N.mul_1_l in A2, B2.
    change (fst (ecoord e)) with (erow e) in *. change (fst (ecoord e')) with (erow e') in *.
    rewrite (mf_ecoord_lo e He) in A1, A2. rewrite (mf_ecoord_lo e' He') in B1, B2.
    destruct e as [[k lo] t], e' as [[k' lo'] t'].
    unfold StumpAdd.erow, StumpAddData.elo in *. cbn [fst snd] in *.
    destruct (Nat.lt_trichotomy k k') as [Hlt|[Heq|Hgt]]; [|contradiction|].
    - pose proof (forest_entries_disjoint H HO s _ _ _ _ _ _ He' He Hlt). lia.
    - pose proof (forest_entries_disjoint H HO s _ _ _ _ _ _ He He' Hgt). lia.
  Qed.

  Lemma mf_same_row (e e' : entry) : In e (forest HO s) -> In e' (forest HO s) -> erow e = erow e' -> e = e'.
  Proof.
    intros He He' Er. destruct e as [[k lo] t], e' as [[k' lo'] t']. unfold StumpAdd.erow in Er. cbn [fst] in Er. subst k'.
    destruct (forest_entry_unique H HO s _ _ _ _ _ He He') as [-> ->]. reflexivity.
  Qed.

  Lemma mf_height (e : entry) ce : In e (forest HO s) -> snd e = Some ce -> (cheight H ce <= erow e)%nat.
  Proof.
    intros He Hs. destruct e as [[k lo] t]. cbn [snd] in Hs. subst t.
    apply forest_entry in He as (_ & _ & _ & _ & _ & Ht). symmetry in Ht.
    exact (proj2 (compress_wf H HO k _ ce Ht)).
  Qed.

  (** only leaves are deleted as a whole, and no tree is deleted as a whole *)
  Hypothesis REG : forall (e : entry) ce, In e (forest HO s) -> snd e = Some ce ->
    regular H HO hs ce /\ prune ce <> None.

  (** the coordinates of all the deleted leaves, in row-major order *)
  Variable D : list coord.
  Hypothesis HsD : StronglySorted clt D.
  Hypothesis HD : forall d, In d D <->
    exists (e : entry) ce, In e (forest HO s) /\ snd e = Some ce /\ In d (dlist H HO hs ce (ecoord e)).

  Lemma mf_in_tree (e : entry) ce d : In e (forest HO s) -> snd e = Some ce -> In d D ->
    under (ecoord e) d -> In d (dlist H HO hs ce (ecoord e)).
  Proof.
    intros He Hs Hd Hu. apply HD in Hd as (e' & ce' & He' & Hs' & Hd).
    pose proof (dlist_under H HO hs ce' (ecoord e') d (mf_height e' ce' He' Hs') Hd) as Hu'.
    destruct (Nat.eq_dec (erow e) (erow e')) as [Er|Er].
    - pose proof (mf_same_row e e' He He' Er) as <-. rewrite Hs in Hs'. injection Hs' as <-. exact Hd.
    - exfalso. exact (mf_trees_disj e e' d d He He' Er Hu Hu' (under_refl d)).
  Qed.

  Lemma mf_move (e : entry) ce pi c0 c0' : In e (forest HO s) -> snd e = Some ce ->
    occp H ce pi c0 -> prune c0 = Some c0' ->
    liftc D (walk (ecoord e) pi) = walk (ecoord e) (ppath ce pi).
  Proof.
    intros He Hs Hp Hpr. destruct (REG e ce He Hs) as [Hreg Hne].
    pose proof (mf_height e ce He Hs) as Hh. pose proof (occp_height H _ _ _ Hp) as Hl.
    rewrite (liftc_filter (ecoord e) D (walk (ecoord e) pi)).
    - apply (move_tree_multi H HO hs ce Hreg (ecoord e) Hh _ (SS_filter _ _ _ HsD)) with (c0 := c0) (c0' := c0');
        [|exact Hp|exact Hpr].
      intros d. rewrite filter_In, underb_spec. split.
      + intros [Hd Hu]. exact (mf_in_tree e ce d He Hs Hd Hu).
      + intros Hd. split; [apply HD; exists e, ce; auto|exact (dlist_under H HO hs ce (ecoord e) d Hh Hd)].
    - apply under_walk. change (fst (ecoord e)) with (erow e). lia.
    - intros d Hd Eu y Hy. apply underb_spec in Eu.
      pose proof (mf_in_tree e ce d He Hs Hd Eu) as Hd'.
      destruct (dlist_walk H HO hs ce (ecoord e) d Hh Hd') as (tau & -> & Hlt & Hne').
      apply pm_region_closed; [exact (Hne' Hne)|change (fst (ecoord e)) with (erow e); lia|exact Hy].
    - intros d Hd Eu y Hy. apply pd_lift1_id.
      destruct (anc (S (fst d), snd d / 2) y) eqn:Ea; [exfalso|reflexivity].
      apply anc_under in Ea as [_ Hu].
      apply HD in Hd as (e' & ce' & He' & Hs' & Hd).
      pose proof (mf_height e' ce' He' Hs') as Hh'.
      destruct (dlist_walk H HO hs ce' (ecoord e') d Hh' Hd) as (tau & Ed & Hlt & Hne').
      destruct (REG e' ce' He' Hs') as [_ Hne2]. specialize (Hne' Hne2).
      assert (HA : under (ecoord e') (S (fst d), snd d / 2)).
      { rewrite Ed. apply under_parent_walk; [exact Hne'|change (fst (ecoord e')) with (erow e'); lia]. }
      destruct (Nat.eq_dec (erow e') (erow e)) as [Er|Er].
      + pose proof (mf_same_row e' e He' He Er) as ->.
        assert (Ht : underb (ecoord e) d = true).
        { apply underb_spec. rewrite Ed. apply under_walk. change (fst (ecoord e)) with (erow e). lia. }
        congruence.
      + exact (mf_trees_disj e' e _ y He' He Er HA Hy Hu).
  Qed.

  (** A3 and A4 *)
  Lemma mf_up c0 r0 o0 c0' : locc H HO s c0 r0 o0 -> prune c0 = Some c0' ->
    locc H HO s1 c0' (fst (liftc D (r0, o0))) (snd (liftc D (r0, o0))).
  Proof.
    intros Hl Hp. apply locc_path in Hl as (e & ce & pi & He & Hs & Ho & Hw & _).
    rewrite <- Hw, (mf_move e ce pi c0 c0' He Hs Ho Hp).
    exact (locc_kill_up H HO hs s e ce pi c0 c0' He Hs Ho Hp).
  Qed.

  Lemma mf_down c0' r1 o1 : locc H HO s1 c0' r1 o1 ->
    exists c0 r0 o0, locc H HO s c0 r0 o0 /\ prune c0 = Some c0' /\ liftc D (r0, o0) = (r1, o1) /\
                     uncontracted H HO hs c0.
  Proof.
    intros Hl. apply locc_path in Hl as (e' & c' & pi' & He' & Hs' & Hp' & Hw & _).
    rewrite RefTheory.forest_kill in He'. apply in_map_iff in He' as (e & <- & He).
    unfold RefTheory.prune_entry in Hs'. cbn [snd] in Hs'.
    destruct (snd e) as [ce|] eqn:Ese; [|discriminate]. cbn [RefTheory.oprune] in Hs'.
    destruct (prune_occp_inv2 H HO hs ce c' Hs' pi' c0' Hp') as (pi & c0 & A & B & C & U).
    pose proof (sl_height H HO s e ce pi c0 He Ese A) as Hl.
    exists c0, (fst (walk (ecoord e) pi)), (snd (walk (ecoord e) pi)).
    split; [apply locc_path; exists e, ce, pi; repeat split; try assumption; apply surjective_pairing|].
    split; [exact B|]. split; [|exact U]. rewrite <- surjective_pairing.
    rewrite (mf_move e ce pi c0 c0' He Ese A B), C.
    change (ecoord (RefTheory.prune_entry HO hs e)) with (ecoord e) in Hw. exact Hw.
  Qed.
End MultiForest.

(** [deTwin] of positions without twins *)
Lemma deTwin_loop_id fr : forall fuel i l,
  (forall j a b, nth_error l j = Some a -> nth_error l (S j) = Some b -> rightSib a <> b) ->
  deTwin_loop fuel i l fr = l.
Proof.
  induction fuel as [|f IH]; intros i l Hno; [reflexivity|]. cbn [deTwin_loop].
  destruct (nth_error l i) as [a|] eqn:Ea; [|reflexivity].
  destruct (nth_error l (S i)) as [b|] eqn:Eb; [|reflexivity].
  destruct (N.eqb_spec (rightSib a) b) as [E|_]; [exfalso; exact (Hno i a b Ea Eb E)|].
  apply IH. exact Hno.
Qed.

Lemma deTwin_id l fr : NoDup l ->
  (forall a b, In a l -> In b l -> a <> b -> rightSib a <> b) -> deTwin l fr = l.
Proof.
  intros Hnd Hno. unfold deTwin. apply deTwin_loop_id. intros j a b Ha Hb.
  apply Hno; [exact (nth_error_In _ _ Ha)|exact (nth_error_In _ _ Hb)|].
  intros ->. pose proof (proj1 (NoDup_nth_error l) Hnd j (S j)) as Hinj.
  assert (Hlt : (j < length l)%nat) by (apply nth_error_Some; rewrite Ha; discriminate).
  specialize (Hinj Hlt ltac:(rewrite Ha, Hb; reflexivity)). lia.
Qed.

Section MultiFinal.
  Variable H : Type.
  Variable HO : ops H.
  Hypothesis HOK : ops_ok HO.
  Variable s : slots H.
  Hypothesis Hn63 : N.of_nat (length s) <= 2 ^ 63.
  Hypothesis Hnd : NoDup (live s).
  Variable hs : list H.
  Variable xds : list (node H).
  Local Notation lay := (layout HO s).
  Local Notation R := (rows_of (num_leaves s)).
  Local Notation n := (N.of_nat (length s)).
  Local Notation total := (TreeRows (N.of_nat (length s))).
  Hypothesis Hxds_lay : forall x, In x xds -> In x lay.
  Hypothesis Hxds_leaf : forall x, In x xds -> nleaf x = true.
  Hypothesis Hxds_nd : NoDup xds.
  Hypothesis Hxds_hash : map (@nhash H) xds = hs.
  Local Notation entry := (StumpAdd.entry H).
  Local Notation erow := (@StumpAdd.erow H).
  Local Notation ecoord := (@StumpAddData.ecoord H).
  Local Notation prune := (RefTheory.prune HO hs).
  Hypothesis REG : forall (e : entry) ce, In e (forest HO s) -> snd e = Some ce ->
    regular H HO hs ce /\ prune ce <> None.

  Local Notation sxd := (sort_nodes H s xds).
  Definition mdd : list coord := map (fun x : node H => (nrow x, noff x)) (sort_nodes H s xds).

  Lemma mfin_sxd x : In x sxd <-> In x xds.
  Proof. split; apply Permutation_in; [apply po_sort_nodes_perm|apply Permutation_sym, po_sort_nodes_perm]. Qed.

  Lemma mfin_pos : map (cpos R) mdd = sortN (map (npos R) xds).
  Proof.
    unfold mdd. rewrite map_map. rewrite <- (po_sort_nodes_pos H HO s xds Hxds_lay Hxds_nd).
    apply map_ext. intros x. reflexivity.
  Qed.

  (** the occurrence of a deleted leaf *)
  Lemma mfin_occ x : In x xds -> exists (e : entry) ce tau,
    In e (forest HO s) /\ snd e = Some ce /\ occp H ce tau (CLeaf (nhash x)) /\
    walk (ecoord e) tau = (nrow x, noff x) /\ tau <> [] /\ nroot x = false.
  Proof.
    intros Hx. destruct (node_locc H HO s x (Hxds_lay x Hx) (Hxds_leaf x Hx)) as (k & lo & c & He & Ho & _).
    destruct (occ_path H _ _ _ _ _ _ Ho) as (tau & Hp & Hw & Hl).
    destruct (REG (k, lo, Some c) c He eq_refl) as [_ Hne].
    assert (Htau : tau <> []).
    { intros ->. assert (Ec : c = CLeaf (nhash x)) by (inversion Hp; reflexivity). rewrite Ec in Hne.
      apply Hne. cbn [RefTheory.prune]. rewrite <- Hxds_hash.
      rewrite (proj2 (memH_In H HO HOK (nhash x) (map (@nhash H) xds))); [reflexivity|apply in_map, Hx]. }
    exists (k, lo, Some c), c, tau. repeat split; try assumption.
    destruct (locc_entry_node H HO s _ _ _ _ _ _ He Ho) as (y & _ & Hy & Yr & Yo & _ & _ & _ & Hnr).
    assert (E : y = x).
    { apply (RefTheory.layout_coord_inj H HO s y x Hy (Hxds_lay x Hx)). unfold RefTheory.coord. rewrite Yr, Yo. reflexivity. }
    subst y. apply Hnr. destruct (walk_coord tau (k, lo / 2 ^ N.of_nat k) Hl) as [W1 _].
    rewrite Hw in W1. cbn [fst] in W1. destruct tau; [contradiction|cbn [length] in *; lia].
  Qed.

  Lemma dlist_occp_gen (c : ctree H) tau lf : occp H c tau lf -> forall h, lf = CLeaf h -> In h hs ->
    forall Y, In (walk Y tau) (dlist H HO hs c Y).
  Proof.
    induction 1 as [c|x l r pi c0 _ IH|x l r pi c0 _ IH]; intros h E Hh Y.
    - rewrite E. cbn [dlist walk fold_left]. rewrite (proj2 (memH_In H HO HOK h hs) Hh). left. reflexivity.
    - cbn [dlist]. apply in_or_app. left. change (walk Y (false :: pi)) with (walk (chd 0 Y) pi). exact (IH h E Hh _).
    - cbn [dlist]. apply in_or_app. right. change (walk Y (true :: pi)) with (walk (chd 1 Y) pi). exact (IH h E Hh _).
  Qed.
  Lemma dlist_occp (c : ctree H) tau h Y : occp H c tau (CLeaf h) -> In h hs ->
    In (walk Y tau) (dlist H HO hs c Y).
  Proof. intros Ho Hh. exact (dlist_occp_gen c tau _ Ho h eq_refl Hh Y). Qed.

  Lemma dlist_occp_inv (c : ctree H) : forall Y d, In d (dlist H HO hs c Y) ->
    exists tau h, occp H c tau (CLeaf h) /\ In h hs /\ d = walk Y tau.
  Proof.
    induction c as [x|x l IHl r IHr]; intros Y d Hd; cbn [dlist] in Hd.
    - destruct (memH HO x hs) eqn:Em; [|destruct Hd]. destruct Hd as [<-|[]].
      exists [], x. split; [constructor|]. split; [apply (memH_In H HO HOK), Em|reflexivity].
    - apply in_app_or in Hd as [Hd|Hd].
      + destruct (IHl _ _ Hd) as (tau & h & A & B & ->). exists (false :: tau), h. split; [constructor; exact A|auto].
      + destruct (IHr _ _ Hd) as (tau & h & A & B & ->). exists (true :: tau), h. split; [constructor; exact A|auto].
  Qed.

  Lemma mfin_HD d : In d mdd <->
    exists (e : entry) ce, In e (forest HO s) /\ snd e = Some ce /\ In d (dlist H HO hs ce (ecoord e)).
  Proof.
    unfold mdd. rewrite in_map_iff. split.
    - intros (x & <- & Hx). apply mfin_sxd in Hx.
      destruct (mfin_occ x Hx) as (e & ce & tau & He & Hs & Hp & Hw & _).
      exists e, ce. split; [exact He|]. split; [exact Hs|]. rewrite <- Hw.
      apply (dlist_occp ce tau (nhash x)); [exact Hp|]. rewrite <- Hxds_hash. apply in_map, Hx.
    - intros (e & ce & He & Hs & Hd). destruct (dlist_occp_inv ce _ d Hd) as (tau & h & Hp & Hh & ->).
      pose proof (sl_height H HO s e ce tau _ He Hs Hp) as Hl.
      destruct e as [[k lo] t]. cbn [snd] in Hs. rewrite Hs in *.
      pose proof (path_occ H ce tau _ Hp (ecoord (k, lo, Some ce)) Hl) as Ho.
      destruct (locc_entry_node H HO s _ _ _ _ _ _ He Ho) as (y & _ & Hy & Yr & Yo & Yh & Yl & _).
      cbn [chash cleafb] in Yh, Yl. exists y. split; [rewrite Yr, Yo; symmetry; apply surjective_pairing|].
      apply mfin_sxd. rewrite <- Hxds_hash in Hh. apply in_map_iff in Hh as (x & Ex & Hx).
      rewrite (live_leaf_unique H HO s y x Hnd Hy (Hxds_lay x Hx) Yl (Hxds_leaf x Hx) ltac:(congruence)). exact Hx.
  Qed.

  Lemma mfin_sorted : StronglySorted clt mdd.
  Proof.
    pose proof (po_sort_nodes_pos H HO s xds Hxds_lay Hxds_nd) as Ep.
    assert (Hs : SSlt (map (npos R) sxd)).
    { rewrite Ep. apply pps_sortN_NoDup_SSlt, (po_targets_NoDup H HO s xds Hxds_lay Hxds_nd). }
    assert (Hl : forall x, In x sxd -> In x lay) by (intros x Hx; apply Hxds_lay, mfin_sxd, Hx).
    unfold mdd. clear Ep. induction (sort_nodes H s xds) as [|x l IH]; [constructor|].
    cbn [map] in *. destruct (po_SS_inv _ _ _ Hs) as [Hs' Hx]. constructor.
    - apply IH; [exact Hs'|]. intros y Hy. apply Hl. right. exact Hy.
    - apply Forall_forall. intros c Hc. apply in_map_iff in Hc as (y & <- & Hy).
      specialize (Hx (npos R y) (in_map _ _ _ Hy)). rewrite !(rf_npos H s) in Hx.
      pose proof (rf_node_vld H HO s x (Hl x (or_introl eq_refl))) as Vx.
      pose proof (rf_node_vld H HO s y (Hl y (or_intror Hy))) as Vy.
      apply (pu_g_lex _ _ _ (TreeRows_le_63 _ Hn63) Vx Vy) in Hx. unfold ncrd, cN in Hx. cbn [fst snd] in Hx.
      unfold clt. cbn [fst snd]. lia.
  Qed.

  Lemma mfin_dok d : In d mdd -> dok R n d.
  Proof.
    unfold mdd. intros Hd. apply in_map_iff in Hd as (x & <- & Hx). apply mfin_sxd in Hx.
    destruct (mfin_occ x Hx) as (_ & _ & _ & _ & _ & _ & _ & _ & Hnr).
    exact (dl_dok H HO s Hn63 x (Hxds_lay x Hx) (Hxds_leaf x Hx) Hnr).
  Qed.

  (** no two deleted leaves are siblings *)
  Lemma mfin_no_twins a b : In a (map (npos R) xds) -> In b (map (npos R) xds) -> a <> b -> rightSib a <> b.
  Proof.
    intros Ha Hb Hne Hrs. apply in_map_iff in Ha as (xa & <- & Hxa). apply in_map_iff in Hb as (xb & <- & Hxb).
    destruct (mfin_occ xa Hxa) as (e & ce & tau & He & Hs & Hp & Hw & Htau & Hnr).
    pose proof (Hxds_lay xa Hxa) as La. pose proof (Hxds_lay xb Hxb) as Lb.
    destruct (node_sibling H HO s _ _ xa (tnode_in H HO s xa La) Hnr) as (p & sb & _ & Hsb & _).
    apply tnode_some in Hsb as (Lsb & Sr & So).
    pose proof (rf_node_vld H HO s xa La) as [Va1 Va2].
    rewrite (rf_npos H s xa) in Hrs. unfold ProofPosSpec.g, ncrd, cN in Hrs. cbn [fst snd] in *.
    rewrite rightSib_gpos in Hrs by exact Va1. rewrite lor_1 in Hrs.
    destruct (N.even (noff xa)) eqn:Ev.
    - (* [xb] is the sibling node *)
      assert (Exb : xb = sb).
      { apply (RefTheory.layout_npos_inj H HO s xb sb Lb Lsb). rewrite <- Hrs.
        rewrite (rf_npos H s sb). unfold ProofPosSpec.g, ncrd, cN. cbn [fst snd]. rewrite Sr, So, lxor_1, Ev. reflexivity. }
      subst sb. rewrite lxor_1, Ev in So.
      destruct e as [[k lo] t]. cbn [snd] in Hs. rewrite Hs in *.
      pose proof (sl_height H HO s _ ce tau _ He eq_refl Hp) as Hl.
      pose proof (path_occ H ce tau _ Hp (ecoord (k, lo, Some ce)) Hl) as Ho. rewrite Hw in Ho. cbn [fst snd] in Ho.
      destruct (occ_parent H _ _ _ _ _ _ Ho) as [(_ & Er & _)|(h & l & rr & o1 & Hop & Hc)].
      { destruct (walk_coord tau (ecoord (k, lo, Some ce)) Hl) as [W1 _]. rewrite Hw in W1. cbn [fst] in *.
        destruct tau; [contradiction|]. cbn [length] in *. unfold StumpAddData.ecoord in *. unfold StumpAdd.erow in *. cbn [fst] in *. lia. }
      assert (Lpar : locc H HO s (CNode h l rr) (S (nrow xa)) o1) by (exists k, lo, ce; auto).
      destruct (locc_child H HO s _ _ _ Lpar h l rr eq_refl) as (r1 & Er1 & Ll & Lr). injection Er1 as <-.
      destruct Hc as [[El Eo]|[_ Eo]].
      2:{ rewrite Eo, N.even_add, N.even_mul in Ev. cbn in Ev. discriminate. }
      destruct (node_locc H HO s xb Lb (Hxds_leaf xb Hxb)) as (kb & lob & cb & Heb & Hob & _).
      assert (Lxb : locc H HO s (CLeaf (nhash xb)) (nrow xa) (2 * o1 + 1)).
      { exists kb, lob, cb. split; [exact Heb|]. rewrite <- Sr, <- Eo, <- So. exact Hob. }
      pose proof (locc_uniq H HO s _ _ _ _ Lr Lxb) as Err.
      destruct (occ_path H _ _ _ _ _ _ Hop) as (pip & Hpp & _).
      destruct (REG (k, lo, Some ce) ce He eq_refl) as [Hreg _].
      destruct (Hreg pip (CNode h l rr) Hpp) as (hh & Ehh); [|discriminate].
      rewrite <- El, Err. cbn [RefTheory.prune].
      rewrite (proj2 (memH_In H HO HOK (nhash xa) hs)) by (rewrite <- Hxds_hash; apply in_map, Hxa).
      rewrite (proj2 (memH_In H HO HOK (nhash xb) hs)) by (rewrite <- Hxds_hash; apply in_map, Hxb).
      reflexivity.
    - apply Hne. rewrite (rf_npos H s xa). unfold ProofPosSpec.g, ncrd, cN. cbn [fst snd]. exact Hrs.
  Qed.

  Lemma mfin_deTwin : deTwin (sortN (map (npos R) xds)) (TreeRows (num_leaves s)) = map (cpos R) mdd.
  Proof.
    rewrite mfin_pos. apply deTwin_id.
    - apply pps_SSlt_NoDup, pps_sortN_NoDup_SSlt, (po_targets_NoDup H HO s xds Hxds_lay Hxds_nd).
    - intros a b Ha Hb. apply mfin_no_twins; apply RefTheory.sortN_In; assumption.
  Qed.
End MultiFinal.

(** G2 and G3 for blocks that delete no subtree as a whole except single leaves, and no tree as a
    whole: pairwise non-sibling leaves none of which is alone in its tree *)
Theorem proof_update_regular_deletions {H} (HO : ops H) :
  ops_ok HO -> (forall a b, NZ HO (op_hash2 HO a b)) ->
  forall (s : slots H) (hs adds C : list H) (rem : list N),
  (forall h, In (Some h) s -> NZ HO h) ->
  N.of_nat (length s + length adds) <= 2 ^ 63 ->
  NoDup (live s) -> NoDup hs ->
  (forall (e : StumpAdd.entry H) ce, In e (forest HO s) -> snd e = Some ce ->
     regular H HO hs ce /\ RefTheory.prune HO hs ce <> None) ->
  NoDup (live (kill HO hs s ++ map Some adds)) ->
  NoDup C -> SSlt rem ->
  (forall x, In x (layout HO (kill HO hs s ++ map Some adds)) -> nleaf x = false ->
             ~ In (nhash x) (pick adds rem)) ->
  forall hC tC pC bt pfd,
  exp_cached HO (mk_ctx HO s) C = Some (hC, tC, pC) ->
  exp_prove HO (mk_ctx HO s) hs = Some (bt, pfd) ->
  proof_update HO tC pC hC adds bt rem (ud_of_spec (spec_update_data HO s hs adds))
  = exp_cached HO (mk_ctx HO (apply_block HO s hs adds)) (cached_after HO C hs (pick adds rem)) /\
  exp_cached HO (mk_ctx HO (apply_block HO s hs adds)) (cached_after HO C hs (pick adds rem)) <> None.
Proof.
  intros HOK Hnz s hs adds C rem Hl Hb Hnd Hhs REG Hnd2 HC Hrem Hcol hC tC pC bt pfd E Ep.
  assert (Hn63 : N.of_nat (length s) <= 2 ^ 63) by lia.
  unfold exp_prove in Ep. cbn [mk_ctx clay crows] in Ep.
  destruct (find_leaves HO (layout HO s) hs) as [xds|] eqn:Fx; [|discriminate]. injection Ep as <- _.
  destruct (cc_find_leaves_facts HO s hs xds HOK Hhs Fx) as (Lx & Flx & Ntx & Ehx & _).
  pose proof (mfin_sorted H HO s Hn63 xds Lx Flx Ntx) as HsD.
  pose proof (mfin_HD H HO HOK s Hn63 Hnd hs xds Lx Flx Ehx REG) as HD.
  apply (dg_block H HO HOK Hnz s Hl Hn63 Hnd hs xds Lx Flx Ehx (mdd H s xds)
           (mfin_deTwin H HO HOK s Hn63 hs xds Lx Flx Ntx Ehx REG)
           (mfin_dok H HO HOK s Hn63 hs xds Lx Flx Ehx REG)
           (mf_up H HO s hs REG (mdd H s xds) HsD HD)
           (mf_down H HO s hs REG (mdd H s xds) HsD HD)
           C HC hC tC pC E adds rem Hb Hnd2 Hrem Hcol).
Qed.
Print Assumptions proof_update_regular_deletions.


(** a decidable form of the hypothesis *)
Section RegularB.
  Variable H : Type.
  Variable HO : ops H.
  Variable hs : list H.
  Local Notation prune := (RefTheory.prune HO hs).
  Definition survives (c : ctree H) : bool := match prune c with Some _ => true | None => false end.
  Fixpoint regularb (c : ctree H) : bool :=
    match c with
    | CLeaf _ => true
    | CNode _ l r => survives c && regularb l && regularb r
    end.
  Lemma regularb_sub c pi c0 : occp H c pi c0 -> regularb c = true -> regularb c0 = true.
  Proof.
    induction 1 as [c|h l r pi c0 _ IH|h l r pi c0 _ IH]; intros Hb; [exact Hb| |];
      cbn [regularb] in Hb; apply andb_true_iff in Hb as [Hb1 Hb2]; apply andb_true_iff in Hb1 as [_ Hb1];
      apply IH; assumption.
  Qed.
  Lemma regularb_ok c : regularb c = true -> regular H HO hs c.
  Proof.
    intros Hb pi c0 Ho Hp. pose proof (regularb_sub c pi c0 Ho Hb) as Hb0.
    destruct c0 as [h|h l r]; [exists h; reflexivity|]. cbn [regularb] in Hb0.
    apply andb_true_iff in Hb0 as [Hb0 _]. apply andb_true_iff in Hb0 as [Hb0 _].
    unfold survives in Hb0. rewrite Hp in Hb0. discriminate.
  Qed.
  Definition regular_forestb (s : slots H) : bool :=
    forallb (fun e : StumpAdd.entry H => match snd e with Some ce => regularb ce && survives ce | None => true end)
            (forest HO s).
  Lemma regular_forestb_ok s : regular_forestb s = true ->
    forall (e : StumpAdd.entry H) ce, In e (forest HO s) -> snd e = Some ce ->
      regular H HO hs ce /\ prune ce <> None.
  Proof.
    intros Hb e ce He Hs. unfold regular_forestb in Hb. rewrite forallb_forall in Hb. specialize (Hb e He).
    rewrite Hs in Hb. apply andb_true_iff in Hb as [B1 B2]. split; [exact (regularb_ok ce B1)|].
    unfold survives in B2. destruct (prune ce); [discriminate|discriminate].
  Qed.
End RegularB.

Theorem proof_update_regular_deletions_term (s : slots term) (hs adds C : list term) (rem : list N)
        (hC : list term) (tC : list N) (pC : list term) (bt : list N) (pfd : list term) :
  (forall h, In (Some h) s -> h <> Zero) ->
  N.of_nat (length s + length adds) <= 2 ^ 63 ->
  NoDup (live s) -> NoDup hs ->
  regular_forestb term term_ops hs s = true ->
  NoDup (live (kill term_ops hs s ++ map Some adds)) ->
  (forall a, In a adds -> exists i, a = Atom i) ->
  NoDup C -> SSlt rem ->
  exp_cached term_ops (mk_ctx term_ops s) C = Some (hC, tC, pC) ->
  exp_prove term_ops (mk_ctx term_ops s) hs = Some (bt, pfd) ->
  proof_update term_ops tC pC hC adds bt rem (ud_of_spec (spec_update_data term_ops s hs adds))
  = exp_cached term_ops (mk_ctx term_ops (apply_block term_ops s hs adds))
               (cached_after term_ops C hs (pick adds rem)) /\
  exp_cached term_ops (mk_ctx term_ops (apply_block term_ops s hs adds))
             (cached_after term_ops C hs (pick adds rem)) <> None.
Proof.
  intros Hl Hb Hnd Hhs Hreg Hnd2 Hatoms HC Hrem E Ep.
  apply (proof_update_regular_deletions term_ops term_ops_ok cs_term_hash_nz s hs adds C rem
           (fun h Hh => term_nonzero_eqb h (Hl h Hh)) Hb Hnd Hhs
           (regular_forestb_ok term term_ops hs s Hreg) Hnd2 HC Hrem) with (pfd := pfd);
    [|exact E|exact Ep].
  intros x Hx Hlf Hin. destruct (Hatoms _ (pick_In adds rem _ Hin)) as [i Ei].
  destruct (pu_term_inner _ x Hx Hlf) as [E0|(l & r & E0)]; congruence.
Qed.

(** non-vacuity: eight leaves; the block deletes [Atom 2], [Atom 5] and [Atom 8] (no two of them
    siblings; the cached [Atom 1] and [Atom 6] move up) and adds one leaf, which is remembered *)
Definition pu_ex_s8 : slots term := map (fun i => Some (Atom i)) [1; 2; 3; 4; 5; 6; 7; 8].

Example pu_ex_three_deletions :
  exists hC tC pC bt pfd,
    exp_cached term_ops (mk_ctx term_ops pu_ex_s8) [Atom 1; Atom 6; Atom 3; Atom 5] = Some (hC, tC, pC) /\
    exp_prove term_ops (mk_ctx term_ops pu_ex_s8) [Atom 5; Atom 2; Atom 8] = Some (bt, pfd) /\
    proof_update term_ops tC pC hC [Atom 9] bt [0]
                 (ud_of_spec (spec_update_data term_ops pu_ex_s8 [Atom 5; Atom 2; Atom 8] [Atom 9]))
    = exp_cached term_ops (mk_ctx term_ops (apply_block term_ops pu_ex_s8 [Atom 5; Atom 2; Atom 8] [Atom 9]))
                 (cached_after term_ops [Atom 1; Atom 6; Atom 3; Atom 5] [Atom 5; Atom 2; Atom 8]
                               (pick [Atom 9] [0])) /\
    bt = [4; 1; 7].
Proof.
  eexists _, _, _, _, _. split; [vm_compute; reflexivity|]. split; [vm_compute; reflexivity|].
  split; [|reflexivity].
  eapply (proof_update_regular_deletions_term pu_ex_s8 [Atom 5; Atom 2; Atom 8] [Atom 9]
            [Atom 1; Atom 6; Atom 3; Atom 5] [0]).
  - intros h Hh. cbn in Hh. repeat (destruct Hh as [Hh|Hh]; [try discriminate; injection Hh as <-; discriminate|]). destruct Hh.
  - vm_compute. discriminate.
  - apply po_ex_nodup; reflexivity.
  - apply po_ex_nodup; reflexivity.
  - vm_compute. reflexivity.
  - apply po_ex_nodup; reflexivity.
  - intros a Ha. cbn in Ha. repeat (destruct Ha as [<-|Ha]; [eexists; reflexivity|]). destruct Ha.
  - apply po_ex_nodup; reflexivity.
  - repeat constructor; lia.
  - vm_compute. reflexivity.
  - vm_compute. reflexivity.
Qed.

Print Assumptions proof_update_regular_deletions_term.
