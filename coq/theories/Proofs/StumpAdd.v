(** [Stump.add] refines the reference forest.

    The mirror [stump_add] (Model/Verify.v) keeps only the root hashes and the leaf count.  Adding a
    leaf is a binary-counter increment: while bit [h] of the leaf count is set, the lowest root is
    popped and hashed with the carried hash (an empty root is skipped).  We prove that, started on
    the reference roots of a slot list [s], the result is the reference roots of
    [s ++ map Some adds].

    Structure:
    - Part 1 (reference only): [trees] facts; the counter step [carry] on the reversed forest and
      [trees_snoc]: [rev (trees k lo (s ++ [x]))] is [carry] applied to [rev (trees k lo s)].
    - Part 2: the rows of [rev (trees k lo s)] are the set bits of [length s], ascending.
    - Part 3: hashes: every compressed tree over non-empty leaves has a non-empty hash.
    - Part 4: [add_chain] computes the hashes of [carry].
    - Part 5: [add_loop], [stump_add], the theorem, the [term_ops] corollary, examples. *)
From Utreexo Require Import Spec.Forest Model.Verify Spec.Term.
From Coq Require Import List Arith PeanoNat NArith Lia ZifyNat ZifyN ZifyBool.
Import ListNotations.
Local Open Scope nat_scope.

Section StumpAdd.
  Variable H : Type.
  Variable HO : ops H.
  Hypothesis HOK : ops_ok HO.
  Notation hash2 := (op_hash2 HO).
  Notation empty := (op_empty HO).
  Notation Heqb := (op_eqb HO).
  (** the collision-type idealisation: the node hash is never the all-zero hash *)
  Hypothesis Hh2 : forall a b, Heqb (hash2 a b) empty = false.

  Definition entry := (nat * N * option (ctree H))%type.
  Definition erow (e : entry) : nat := fst (fst e).
  Definition ehash (e : entry) : H := root_hash HO (snd e).

  (** * Part 1: the reference forest under appending one slot *)

  Lemma pow2_pos k : 0 < 2 ^ k.
  Proof. pose proof (Nat.pow_nonzero 2 k). lia. Qed.

  Lemma compress_S k seg :
    compress HO (S k) seg =
    join HO (compress HO k (firstn (2 ^ k) seg)) (compress HO k (skipn (2 ^ k) seg)).
  Proof. reflexivity. Qed.

  Lemma trees_0 lo s :
    trees HO 0 lo s = if 1 <=? length s then [(0, lo, compress HO 0 (firstn 1 s))] else [].
  Proof. reflexivity. Qed.

  Lemma trees_S k lo s :
    trees HO (S k) lo s =
    if 2 ^ S k <=? length s
    then (S k, lo, compress HO (S k) (firstn (2 ^ S k) s))
           :: trees HO k (lo + N.of_nat (2 ^ S k))%N (skipn (2 ^ S k) s)
    else trees HO k lo s.
  Proof. cbn [trees]. destruct (2 ^ S k <=? length s); reflexivity. Qed.

  Lemma trees_nil k lo : trees HO k lo [] = [].
  Proof.
    revert lo. induction k as [|k IH]; intros lo; [reflexivity|].
    rewrite trees_S. pose proof (pow2_pos (S k)) as Hp.
    destruct (Nat.leb_spec (2 ^ S k) (length (@nil (option H)))) as [Hle|Hlt]; cbn [length] in *;
      [lia|apply IH].
  Qed.

  Lemma trees_skip k lo s : length s < 2 ^ S k -> trees HO (S k) lo s = trees HO k lo s.
  Proof.
    intros Hlt. rewrite trees_S.
    destruct (Nat.leb_spec (2 ^ S k) (length s)) as [Hle|_]; [lia|reflexivity].
  Qed.

  (** start-level independence *)
  Lemma forest_trees k s : length s < 2 ^ S k -> forest HO s = trees HO k 0 s.
  Proof.
    unfold forest. induction k as [|k IH]; intros Hlt.
    - destruct s as [|x [|y s]]; cbn [length] in *; [reflexivity|reflexivity|].
      change (2 ^ 1) with 2 in Hlt. lia.
    - destruct (Nat.lt_ge_cases (length s) (2 ^ S k)) as [Hs|Hs].
      + rewrite trees_skip by exact Hs. apply IH, Hs.
      + rewrite (Nat.log2_unique (length s) (S k)); [reflexivity|lia|split; assumption].
  Qed.

  (** the binary-counter step on the reversed forest (lowest tree first): carry the tree
      [(r, lo, t)] into [rts]; returns the untouched rest and the final carried tree *)
  Fixpoint carry (rts : list entry) (r : nat) (lo : N) (t : option (ctree H))
    : list entry * entry :=
    match rts with
    | [] => ([], (r, lo, t))
    | (r', lo', t') :: rest =>
        if Nat.eqb r' r then carry rest (S r) lo' (join HO t' t) else (rts, (r, lo, t))
    end.

  Lemma carry_app A B : forall r lo t,
    carry (A ++ B) r lo t =
    match fst (carry A r lo t) with
    | [] => let e := snd (carry A r lo t) in carry B (erow e) (snd (fst e)) (snd e)
    | _ :: _ => (fst (carry A r lo t) ++ B, snd (carry A r lo t))
    end.
  Proof.
    induction A as [|[[r' lo'] t'] A IH]; intros r lo t; [reflexivity|].
    cbn [app carry]. destruct (Nat.eqb r' r); [apply IH|reflexivity].
  Qed.

  Lemma trees_snoc k : forall lo s x, length s < 2 ^ S k ->
    let r := carry (rev (trees HO k lo s)) 0 (lo + N.of_nat (length s))%N (compress HO 0 [x]) in
    if length s + 1 <? 2 ^ S k
    then rev (trees HO k lo (s ++ [x])) = snd r :: fst r /\ erow (snd r) <= k
    else r = ([], (S k, lo, compress HO (S k) (s ++ [x]))).
  Proof.
    induction k as [|k IH]; intros lo s x Hlt.
    - change (2 ^ 1) with 2 in *.
      destruct s as [|y [|z s]]; cbn [length] in Hlt; [| |lia].
      + cbn. rewrite N.add_0_r. split; [reflexivity|lia].
      + cbn. destruct y, x; reflexivity.
    - cbv zeta. pose proof (pow2_pos (S k)) as Hp.
      assert (Hpow : 2 ^ S (S k) = 2 * 2 ^ S k) by apply Nat.pow_succ_r'.
      rewrite Hpow in *. remember (2 ^ S k) as sz eqn:Hsz.
      rewrite (trees_S k lo s), (trees_S k lo (s ++ [x])), <- Hsz.
      rewrite app_length. cbn [length].
      destruct (Nat.leb_spec sz (length s)) as [Hge|Hsmall].
      + (* the row-(S k) tree is present *)
        destruct (Nat.leb_spec sz (length s + 1)) as [_|Hc]; [|lia].
        rewrite firstn_app, skipn_app.
        replace (sz - length s) with 0 by lia. cbn [firstn skipn]. rewrite app_nil_r.
        set (s' := skipn sz s).
        assert (Hl' : length s' = length s - sz) by (unfold s'; apply skipn_length).
        set (lo' := (lo + N.of_nat sz)%N).
        assert (Hlo : (lo + N.of_nat (length s))%N = (lo' + N.of_nat (length s'))%N)
          by (unfold lo'; lia).
        rewrite Hlo. cbn [rev]. rewrite carry_app.
        specialize (IH lo' s' x).
        assert (Hlt' : length s' < sz) by lia. specialize (IH Hlt'). cbv zeta in IH.
        destruct (Nat.ltb_spec (length s + 1) (2 * sz)) as [Hnf|Hfull].
        * destruct (Nat.ltb_spec (length s' + 1) sz) as [_|Hc]; [|lia].
          destruct IH as [IHe IHr]. rewrite IHe.
          destruct (carry (rev (trees HO k lo' s')) 0 (lo' + N.of_nat (length s'))%N
                          (compress HO 0 [x])) as [rem e'] eqn:Ec.
          cbn [fst snd] in *. destruct rem as [|e1 rem].
          -- cbv zeta. destruct e' as [[r' l'] t']. unfold erow in *. cbn [fst snd] in *.
             cbn [carry]. destruct (Nat.eqb_spec (S k) r') as [Heq|_]; [lia|].
             cbn [fst snd app]. split; [reflexivity|lia].
          -- cbn [fst snd app]. split; [reflexivity|lia].
        * destruct (Nat.ltb_spec (length s' + 1) sz) as [Hc|_]; [lia|].
          rewrite IH. cbn [fst snd]. cbv zeta. unfold erow. cbn [fst snd carry].
          rewrite Nat.eqb_refl. rewrite (compress_S (S k) (s ++ [x])), <- Hsz.
          rewrite firstn_app, skipn_app.
          replace (sz - length s) with 0 by lia. cbn [firstn skipn]. rewrite app_nil_r.
          reflexivity.
      + (* no row-(S k) tree yet *)
        specialize (IH lo s x Hsmall). cbv zeta in IH.
        destruct (Nat.ltb_spec (length s + 1) (2 * sz)) as [_|Hc]; [|lia].
        destruct (Nat.ltb_spec (length s + 1) sz) as [Hnf|Hfull].
        * destruct (Nat.leb_spec sz (length s + 1)) as [Hc|_]; [lia|].
          destruct IH as [IHe IHr]. split; [exact IHe|lia].
        * destruct (Nat.leb_spec sz (length s + 1)) as [_|Hc]; [|lia].
          rewrite IH. cbn [fst snd]. unfold erow. cbn [fst snd].
          rewrite firstn_all2 by (rewrite app_length; cbn [length]; lia).
          rewrite skipn_all2 by (rewrite app_length; cbn [length]; lia).
          rewrite trees_nil. split; [reflexivity|lia].
  Qed.

  (** * Part 2: the rows of the forest are the set bits of the leaf count *)

  Definition bit (n : N) (r : nat) : bool := N.testbit n (N.of_nat r).

  Lemma pow2_N k : N.of_nat (2 ^ k) = (2 ^ N.of_nat k)%N.
  Proof. rewrite Nat2N.inj_pow. reflexivity. Qed.

  Lemma bit_split n k :
    (n mod 2 ^ N.of_nat (S k) = n mod 2 ^ N.of_nat k + 2 ^ N.of_nat k * N.b2n (bit n k))%N.
  Proof.
    unfold bit. rewrite N.testbit_spec', Nat2N.inj_succ, N.pow_succ_r', (N.mul_comm 2).
    apply N.mod_mul_r; [apply N.pow_nonzero; lia|lia].
  Qed.

  Lemma trees_rows k : forall lo s n, length s < 2 ^ S k ->
    (n mod 2 ^ N.of_nat (S k))%N = N.of_nat (length s) ->
    map erow (rev (trees HO k lo s)) = filter (bit n) (seq 0 (S k)).
  Proof.
    induction k as [|k IH]; intros lo s n Hlt Hn.
    - rewrite trees_0. cbn [seq filter].
      pose proof (bit_split n 0) as Hb. change (N.of_nat 0) with 0%N in Hb.
      rewrite N.pow_0_r, N.mod_1_r, Hn in Hb.
      destruct (bit n 0); cbn [N.b2n] in Hb; destruct (Nat.leb_spec 1 (length s)); try lia;
        reflexivity.
    - rewrite seq_S, filter_app, trees_S. cbn [filter]. rewrite Nat.add_0_l.
      pose proof (bit_split n (S k)) as Hb. rewrite Hn in Hb.
      assert (Hm : (n mod 2 ^ N.of_nat (S k) < 2 ^ N.of_nat (S k))%N)
        by (apply N.mod_lt, N.pow_nonzero; lia).
      assert (Hpow : 2 ^ S (S k) = 2 * 2 ^ S k) by apply Nat.pow_succ_r'.
      rewrite Hpow in Hlt. rewrite <- pow2_N in Hb, Hm.
      specialize (IH (lo + N.of_nat (2 ^ S k))%N (skipn (2 ^ S k) s) n) as IH1.
      specialize (IH lo s n) as IH2.
      rewrite <- pow2_N in IH1, IH2. rewrite skipn_length in IH1.
      remember (2 ^ S k) as sz eqn:Hsz. clear Hn Hsz Hpow IH.
      remember (n mod N.of_nat sz)%N as q eqn:Hq. clear Hq.
      destruct (bit n (S k)); cbn [N.b2n] in Hb.
      + destruct (Nat.leb_spec sz (length s)) as [Hge|Hc]; [|lia].
        cbn [rev]. rewrite map_app. cbn [map]. unfold erow at 2. cbn [fst].
        f_equal. apply IH1; lia.
      + destruct (Nat.leb_spec sz (length s)) as [Hc|Hsmall]; [lia|].
        rewrite app_nil_r. apply IH2; lia.
  Qed.

  (** * Part 3: hashes of compressed trees over non-empty leaves are non-empty *)

  Definition nonemp (h : H) : Prop := Heqb h empty = false.
  Definition live_ok (s : slots H) : Prop := forall h, In (Some h) s -> nonemp h.
  Definition good (e : entry) : Prop := forall c, snd e = Some c -> nonemp (chash c).

  Lemma live_ok_firstn n s : live_ok s -> live_ok (firstn n s).
  Proof.
    intros Hl h Hin. apply Hl. rewrite <- (firstn_skipn n s). apply in_or_app. left. exact Hin.
  Qed.
  Lemma live_ok_skipn n s : live_ok s -> live_ok (skipn n s).
  Proof.
    intros Hl h Hin. apply Hl. rewrite <- (firstn_skipn n s). apply in_or_app. right. exact Hin.
  Qed.
  Lemma live_ok_snoc s a : live_ok s -> nonemp a -> live_ok (s ++ [Some a]).
  Proof.
    intros Hl Ha h Hin. apply in_app_or in Hin as [Hin|[Hin|[]]]; [apply Hl, Hin|].
    injection Hin as <-. exact Ha.
  Qed.

  Lemma compress_nonemp k : forall seg c,
    live_ok seg -> compress HO k seg = Some c -> nonemp (chash c).
  Proof.
    induction k as [|k IH]; intros seg c Hl Hc.
    - cbn [compress] in Hc. destruct seg as [|[h|] seg]; try discriminate.
      injection Hc as <-. cbn [chash]. apply Hl. left. reflexivity.
    - rewrite compress_S in Hc.
      destruct (compress HO k (firstn (2 ^ k) seg)) as [c1|] eqn:E1;
        destruct (compress HO k (skipn (2 ^ k) seg)) as [c2|] eqn:E2; cbn [join] in Hc;
        try discriminate; injection Hc as <-.
      + cbn [chash]. apply Hh2.
      + exact (IH _ _ (live_ok_firstn _ _ Hl) E1).
      + exact (IH _ _ (live_ok_skipn _ _ Hl) E2).
  Qed.

  Lemma trees_good k : forall lo s, live_ok s -> Forall good (trees HO k lo s).
  Proof.
    induction k as [|k IH]; intros lo s Hl.
    - rewrite trees_0. destruct (1 <=? length s); constructor; [|constructor].
      intros c Hc. cbn [snd] in Hc. exact (compress_nonemp _ _ _ (live_ok_firstn _ _ Hl) Hc).
    - rewrite trees_S. destruct (2 ^ S k <=? length s); [constructor|apply IH, Hl].
      + intros c Hc. cbn [snd] in Hc. exact (compress_nonemp _ _ _ (live_ok_firstn _ _ Hl) Hc).
      + apply IH, live_ok_skipn, Hl.
  Qed.

  (** * Part 4: [add_chain] computes the hashes of [carry] *)

  Lemma bit_test n h : (and64 (shr n h) 1 =? 1)%N = N.testbit n h.
  Proof.
    unfold and64, shr. change (N.land (N.shiftr n h) 1) with (N.land (N.shiftr n h) (N.ones 1)).
    rewrite N.land_ones, N.pow_1_r, <- N.bit0_mod, N.shiftr_spec by lia. rewrite N.add_0_l.
    destruct (N.testbit n h); reflexivity.
  Qed.

  Lemma add8_succ h : h < 255 -> add8 (N.of_nat h) 1 = N.of_nat (S h).
  Proof. intros Hh. unfold add8. rewrite u8_mod, N.mod_small; lia. Qed.

  Lemma Heqb_empty_refl : Heqb empty empty = true.
  Proof. apply HOK. reflexivity. Qed.

  Lemma add_chain_carry (n aR : N) : forall d h (l : list entry) lo c fuel p m,
    d < fuel -> h + d <= 64 -> (n < 2 ^ N.of_nat (h + d))%N ->
    map erow l = filter (bit n) (seq h d) ->
    Forall good l -> nonemp (chash c) ->
    exists m', add_chain HO fuel n (N.of_nat h) aR (map ehash l) (chash c) p m
       = (map ehash (fst (carry l h lo (Some c))), ehash (snd (carry l h lo (Some c))), m').
  Proof.
    induction d as [|d IH]; intros h l lo c fuel p m Hf Hh Hn Hrows Hgood Hc.
    - cbn [seq filter] in Hrows. apply map_eq_nil in Hrows. subst l.
      destruct fuel as [|f]; [lia|]. cbn [add_chain map]. rewrite bit_test.
      rewrite Nat.add_0_r in Hn.
      assert (N.testbit n (N.of_nat h) = false) as ->.
      { rewrite <- (N.mod_small n (2 ^ N.of_nat h)) by exact Hn.
        apply N.mod_pow2_bits_high. lia. }
      exists m. reflexivity.
    - destruct fuel as [|f]; [lia|]. cbn [seq filter] in Hrows. cbn [add_chain].
      rewrite bit_test. fold (bit n h). destruct (bit n h) eqn:Hb.
      + destruct l as [|[[r1 lo1] t1] l]; [discriminate|]. cbn [map] in Hrows.
        injection Hrows as Hr1 Hrows. unfold erow in Hr1. cbn [fst] in Hr1. subst r1.
        inversion Hgood as [|e0 l0 Hg1 Hgl]; subst e0 l0. cbn [map carry].
        rewrite Nat.eqb_refl, add8_succ by lia.
        replace (h + S d) with (S h + d) in Hn by lia.
        destruct t1 as [c1|].
        * unfold ehash at 1. cbn [snd root_hash]. rewrite (Hg1 c1 eq_refl). cbn [join].
          apply (IH (S h) l lo1 (CNode (hash2 (chash c1) (chash c)) c1 c)); try lia;
            try assumption.
          cbn [chash]. apply Hh2.
        * unfold ehash at 1. cbn [snd root_hash]. rewrite Heqb_empty_refl. cbn [join].
          apply (IH (S h) l lo1 c); try lia; assumption.
      + exists m. destruct l as [|[[r1 lo1] t1] l]; [reflexivity|]. cbn [carry].
        assert (Hne : r1 <> h).
        { assert (Hin : In r1 (filter (bit n) (seq (S h) d)))
            by (rewrite <- Hrows; left; reflexivity).
          apply filter_In in Hin as [Hin _]. apply in_seq in Hin. lia. }
        destruct (Nat.eqb_spec r1 h) as [Heq|_]; [contradiction|]. reflexivity.
  Qed.

  (** * Part 5: one addition, the loop, [Stump.add] *)

  Lemma rev_roots_trees k s :
    length s < 2 ^ S k -> rev (roots HO s) = map ehash (rev (trees HO k 0 s)).
  Proof.
    intros Hlt. unfold roots. rewrite (forest_trees k s Hlt), <- map_rev. reflexivity.
  Qed.

  (** the reversed reference forest after appending one slot: the counter step *)
  Theorem forest_snoc s x :
    let r := carry (rev (forest HO s)) 0 (N.of_nat (length s)) (compress HO 0 [x]) in
    rev (forest HO (s ++ [x])) = snd r :: fst r.
  Proof.
    cbv zeta. assert (Hpos : 0 < length s + 1) by lia.
    pose proof (Nat.log2_spec (length s + 1) Hpos) as [_ Hlog].
    set (k := Nat.log2 (length s + 1)) in *.
    assert (Hs : length s < 2 ^ S k) by lia.
    rewrite (forest_trees k s Hs), (forest_trees k (s ++ [x])).
    2:{ rewrite app_length. cbn [length]. exact Hlog. }
    pose proof (trees_snoc k 0%N s x Hs) as Hsn. cbv zeta in Hsn. rewrite N.add_0_l in Hsn.
    destruct (Nat.ltb_spec (length s + 1) (2 ^ S k)) as [_|Hc]; [|lia].
    exact (proj1 Hsn).
  Qed.

  (** the rows of the reference forest, lowest tree first, are the set bits of the leaf count *)
  Theorem forest_rows s :
    map erow (rev (forest HO s)) =
    filter (bit (N.of_nat (length s))) (seq 0 (S (Nat.log2 (length s)))).
  Proof.
    assert (Hs : length s < 2 ^ S (Nat.log2 (length s))).
    { destruct (Nat.eq_dec (length s) 0) as [E|E].
      - rewrite E. change (Nat.log2 0) with 0. change (2 ^ 1) with 2. lia.
      - apply Nat.log2_spec. lia. }
    unfold forest. apply trees_rows; [exact Hs|].
    apply N.mod_small. rewrite <- pow2_N. lia.
  Qed.

  (** one iteration of the loop of [Stump.add]: the hash-level counter step *)
  Lemma add_step k s a : k <= 63 -> length s + 1 < 2 ^ S k -> live_ok s -> nonemp a ->
    forall aR p m, exists rr acc m',
      add_chain HO 65 (N.of_nat (length s)) 0 aR (rev (roots HO s)) a p m = (rr, acc, m') /\
      acc :: rr = rev (roots HO (s ++ [Some a])).
  Proof.
    intros Hk Hlt Hl Ha aR p m.
    assert (Hs : length s < 2 ^ S k) by lia.
    assert (HsN : (N.of_nat (length s) < 2 ^ N.of_nat (S k))%N) by (rewrite <- pow2_N; lia).
    rewrite (rev_roots_trees k s Hs).
    rewrite (rev_roots_trees k (s ++ [Some a])) by (rewrite app_length; cbn [length]; exact Hlt).
    destruct (add_chain_carry (N.of_nat (length s)) aR (S k) 0 (rev (trees HO k 0 s))
                (0 + N.of_nat (length s))%N (CLeaf a) 65 p m) as [m' Hm'].
    - lia.
    - lia.
    - exact HsN.
    - apply trees_rows; [exact Hs|]. apply N.mod_small. exact HsN.
    - apply Forall_rev, trees_good, Hl.
    - exact Ha.
    - change (N.of_nat 0) with 0%N in Hm'. cbn [chash] in Hm'.
      pose proof (trees_snoc k 0%N s (Some a) Hs) as Hsn. cbv zeta in Hsn.
      destruct (Nat.ltb_spec (length s + 1) (2 ^ S k)) as [_|Hc]; [|lia].
      destruct Hsn as [Hsn _]. change (compress HO 0 [Some a]) with (Some (CLeaf a)) in Hsn.
      eexists _, _, _. split; [exact Hm'|]. rewrite Hsn. reflexivity.
  Qed.

  Lemma add_loop_refines k strict filler aR : k <= 63 -> forall adds s m,
    (N.of_nat (length s + length adds) < 2 ^ N.of_nat (S k))%N ->
    live_ok s -> (forall h, In h adds -> nonemp h) ->
    exists m', add_loop HO strict filler adds (N.of_nat (length s)) aR (rev (roots HO s)) m
      = (rev (roots HO (s ++ map Some adds)), N.of_nat (length s + length adds), m').
  Proof.
    intros Hk. induction adds as [|a adds IH]; intros s m Hb Hl Ha.
    - cbn [add_loop map length]. rewrite app_nil_r, Nat.add_0_r. exists m. reflexivity.
    - cbn [add_loop]. rewrite <- pow2_N in Hb. cbn [length] in Hb.
      set (p := lift_pos _ _ _). set (m0 := if strict then _ else m).
      destruct (add_step k s a Hk ltac:(lia) Hl (Ha a (or_introl eq_refl)) aR p m0)
        as (rr & acc & m1 & Hch & Hrr).
      rewrite Hch, Hrr.
      replace (N.of_nat (length s) + 1)%N with (N.of_nat (length (s ++ [Some a])))
        by (rewrite app_length; cbn [length]; lia).
      destruct (IH (s ++ [Some a]) m1) as [m' Hm'].
      + rewrite <- pow2_N, app_length. cbn [length]. lia.
      + apply live_ok_snoc; [exact Hl|]. apply Ha. left. reflexivity.
      + intros h Hh. apply Ha. right. exact Hh.
      + rewrite Hm'. exists m'. rewrite <- app_assoc, app_length. cbn [app map length].
        replace (length s + 1 + length adds) with (length s + S (length adds)) by lia.
        reflexivity.
  Qed.

  Theorem stump_add_refines_64 strict filler (s : slots H) (adds : list H) :
    (forall h, In (Some h) s -> Heqb h empty = false) ->
    (forall h, In h adds -> Heqb h empty = false) ->
    (N.of_nat (length s + length adds) < 2 ^ 64)%N ->
    let '(st', _, _) := stump_add HO strict filler (mkStump (roots HO s) (num_leaves s)) adds in
    st_roots st' = roots HO (s ++ map Some adds) /\
    st_n st' = num_leaves (s ++ map Some adds).
  Proof.
    intros Hl Ha Hb. unfold stump_add. cbn [st_roots st_n]. unfold num_leaves.
    change (2 ^ 64)%N with (2 ^ N.of_nat (S 63))%N in Hb.
    destruct (add_loop_refines 63 strict filler
                (TreeRows (N.of_nat (length s) + N.of_nat (length adds))) (le_n 63)
                adds s [] Hb Hl Ha) as [m' Hm'].
    rewrite Hm'. cbn [st_roots st_n]. rewrite rev_involutive, app_length, map_length.
    split; reflexivity.
  Qed.

End StumpAdd.

(** * The theorem in the form used by Properties/C01 *)

Theorem stump_add_refines :
  forall (H : Type) (HO : ops H), ops_ok HO ->
    (forall a b, op_eqb HO (op_hash2 HO a b) (op_empty HO) = false) ->
    forall strict filler (s : slots H) (adds : list H),
      (forall h, In (Some h) s -> op_eqb HO h (op_empty HO) = false) ->
      (forall h, In h adds -> op_eqb HO h (op_empty HO) = false) ->
      (N.of_nat (length s + length adds) <= 2 ^ 63)%N ->
      let '(st', _, _) :=
        stump_add HO strict filler (mkStump (roots HO s) (num_leaves s)) adds in
      st_roots st' = roots HO (s ++ map Some adds) /\
      st_n st' = num_leaves (s ++ map Some adds).
Proof.
  intros H HO HOK Hh2 strict filler s adds Hl Ha Hb.
  apply (stump_add_refines_64 H HO HOK Hh2 strict filler s adds Hl Ha).
  eapply N.le_lt_trans; [exact Hb|]. reflexivity.
Qed.

(** In the free algebra the idealisation is a theorem: [Node a b <> Zero]. *)
Lemma term_node_nonzero : forall a b,
  op_eqb term_ops (op_hash2 term_ops a b) (op_empty term_ops) = false.
Proof. intros a b. reflexivity. Qed.

Lemma term_nonzero_eqb h : h <> Zero -> op_eqb term_ops h (op_empty term_ops) = false.
Proof.
  intros Hne. cbn [op_eqb op_empty term_ops].
  destruct (term_eqb h Zero) eqn:E; [|reflexivity].
  apply term_eqb_spec in E. contradiction.
Qed.

Theorem stump_add_refines_term :
  forall strict filler (s : slots term) (adds : list term),
    (forall h, In (Some h) s -> h <> Zero) ->
    (forall h, In h adds -> h <> Zero) ->
    (N.of_nat (length s + length adds) < 2 ^ 64)%N ->
    let '(st', _, _) :=
      stump_add term_ops strict filler (mkStump (roots term_ops s) (num_leaves s)) adds in
    st_roots st' = roots term_ops (s ++ map Some adds) /\
    st_n st' = num_leaves (s ++ map Some adds).
Proof.
  intros strict filler s adds Hl Ha Hb.
  apply (stump_add_refines_64 term term_ops term_ops_ok term_node_nonzero strict filler s adds).
  - intros h Hh. apply term_nonzero_eqb, Hl, Hh.
  - intros h Hh. apply term_nonzero_eqb, Ha, Hh.
  - exact Hb.
Qed.

(** * Non-vacuity: a concrete state with dead slots and an empty root *)

Definition ex_s : slots term :=
  [Some (Atom 1); Some (Atom 2); Some (Atom 3); Some (Atom 4); None; None; Some (Atom 7)].
Definition ex_adds : list term := [Atom 8; Atom 9; Atom 10].

(** the hypotheses of the theorem hold for [ex_s]/[ex_adds]; [ex_s] has dead slots and its
    row-1 root is empty *)
Example ex_live_ok : forall h, In (Some h) ex_s -> h <> Zero.
Proof.
  intros h Hin. cbn in Hin.
  repeat (destruct Hin as [Hin|Hin]; [try discriminate; injection Hin as <-; discriminate|]).
  destruct Hin.
Qed.
Example ex_adds_ok : forall h, In h ex_adds -> h <> Zero.
Proof.
  intros h Hin. cbn in Hin.
  repeat (destruct Hin as [Hin|Hin]; [subst h; discriminate|]). destruct Hin.
Qed.
Example ex_bound : (N.of_nat (length ex_s + length ex_adds) < 2 ^ 64)%N.
Proof. reflexivity. Qed.
Example ex_dead_and_empty_root :
  In None ex_s /\
  roots term_ops ex_s = [Node (Node (Atom 1) (Atom 2)) (Node (Atom 3) (Atom 4)); Zero; Atom 7].
Proof. split; [cbn; tauto|vm_compute; reflexivity]. Qed.

(** the theorem instantiated, and the same fact by computation *)
Example ex_refines :
  let '(st', _, _) :=
    stump_add term_ops true (Atom 99) (mkStump (roots term_ops ex_s) (num_leaves ex_s)) ex_adds in
  st_roots st' = roots term_ops (ex_s ++ map Some ex_adds) /\
  st_n st' = num_leaves (ex_s ++ map Some ex_adds).
Proof.
  exact (stump_add_refines_term true (Atom 99) ex_s ex_adds ex_live_ok ex_adds_ok ex_bound).
Qed.

Example ex_run :
  stump_add term_ops true (Atom 99) (mkStump (roots term_ops ex_s) (num_leaves ex_s)) ex_adds =
  (mkStump [Node (Node (Node (Atom 1) (Atom 2)) (Node (Atom 3) (Atom 4)))
                 (Node (Atom 7) (Atom 8));
            Node (Atom 9) (Atom 10)] 10,
   [(8%N, Atom 9); (9%N, Atom 10); (18%N, Atom 7); (19%N, Atom 8);
    (24%N, Node (Node (Atom 1) (Atom 2)) (Node (Atom 3) (Atom 4)));
    (25%N, Node (Atom 7) (Atom 8))],
   [18%N]).
Proof. vm_compute. reflexivity. Qed.
Example ex_run_spec :
  roots term_ops (ex_s ++ map Some ex_adds) =
  [Node (Node (Node (Atom 1) (Atom 2)) (Node (Atom 3) (Atom 4))) (Node (Atom 7) (Atom 8));
   Node (Atom 9) (Atom 10)].
Proof. vm_compute. reflexivity. Qed.

(** the non-emptiness hypothesis on live leaves is necessary: a live leaf whose hash is the
    all-zero hash is indistinguishable from an empty root for [Stump.add] *)
Example ex_empty_live_leaf_breaks :
  let s := [Some Zero] in
  let adds := [Atom 2] in
  st_roots (fst (fst (stump_add term_ops true (Atom 99)
                        (mkStump (roots term_ops s) (num_leaves s)) adds))) = [Atom 2] /\
  roots term_ops (s ++ map Some adds) = [Node Zero (Atom 2)].
Proof. split; vm_compute; reflexivity. Qed.

Print Assumptions forest_snoc.
Print Assumptions stump_add_refines_64.
Print Assumptions stump_add_refines.
Print Assumptions stump_add_refines_term.
