(** The read side of the map-based forest ([Model.MapRead], mirror of [MapPollard] in
    mappollard.go) answers exactly what the reference forest says, provided the stored maps are
    CONSISTENT with the reference forest (properties C09, C10 and the MapPollard part of C02).

    [consistent s R m]: the forest [m] was allocated with [T = ms_total m] rows,
    [TreeRows n <= T <= 63], [n = ms_n m = num_leaves s <= 2^63], and
    (i)   every binding [(p, (h, _))] of [ms_nodes m] has [p = gpos T r o] for a coordinate [(r, o)]
          whose node in the reference layout has hash [h];
    (ii)  [ms_cached m] binds exactly the hashes of [R] (live leaves), each to [gpos T r o] of its
          leaf node (association lists: the first binding of a key wins; since EVERY binding is
          required to be true, distinctness of the keys is not needed);
    (iii) every root is stored; every leaf node of [R] is stored; the sibling of every non-root
          member of [known_set] (the leaves of [R] and their ancestors) is stored.

    Theorems (all axiom-free, for every [H], [HO] with a correct [op_eqb]):
    - M1 [map_getroots]      : [getRoots m = roots HO s];
    - M2 [map_leafpos_iff]   : [GetLeafPosition m h = exp_leafpos (mk_ctx s) (memH h R) h];
    - M3 [map_gethash_dual]  : [chk_gethash_dual (mk_ctx s) false T p (GetHash m p) = true],
         [map_gethash_spec], [map_gethash_stored]: the converse for stored nodes;
    - M4 [map_prove_canonical]: [Prove m hs = exp_prove (mk_ctx s) hs] for [hs] within [R], no
         duplicates, any order, any [T];
    - M5 [map_missing_spec], [map_missing_oracle]: [GetMissingPositions] = the canonical proof
         positions that are not stored;
    - [pp_canon]: [ProofPositions] on the sorted positions (any height [TreeRows n <= h <= 63]) of
      distinct leaf nodes returns the canonical proof positions, in canonical order;
    - [consistent_needed_stored], [consistent_intro_needed]: clause (iii) is equivalent to "the
      roots and the reference's [needed_pos] are stored";
    - [consistentb], [consistentb_sound]: a sound decision procedure, used on a worked example
      ([mrs_ex_consistent]: the hypotheses are satisfiable). *)
From Utreexo Require Import Base.Hash Model.Utils Model.UtilsFast Model.Verify Model.MapRead
  Spec.Forest Spec.Oracle Spec.Geometry
  Proofs.UtilsGeom Proofs.UtilsGeom2 Proofs.SpecBasics Proofs.StumpAdd Proofs.LayoutStruct
  Proofs.ProofPosSpec.
From Utreexo Require Proofs.RefTheory.
From Coq Require Import List Arith PeanoNat NArith Lia ZifyNat ZifyN ZifyBool Sorted Permutation.
Import ListNotations.
Open Scope N_scope.

Local Notation gpos := UtilsGeom.gpos.

(** position of the coordinate [(r, o)] ([r] a [nat] row as in [Spec.Forest]) in [T] rows *)
Definition gp (T : N) (r : nat) (o : N) : N := gpos T (N.of_nat r) o.

Set Implicit Arguments.
Section Consistent.
  Variable H : Type.
  Variable HO : ops H.

  Definition stored (m : mstate H) (p : N) : Prop := nodes_get (ms_nodes m) p <> None.

  Record consistent (s : slots H) (R : list H) (m : mstate H) : Prop := mkConsistent {
    cs_n : ms_n m = num_leaves s;
    cs_n63 : ms_n m <= 2 ^ 63;
    cs_rows : TreeRows (ms_n m) <= ms_total m;
    cs_T63 : ms_total m <= 63;
    (* (i) stored hashes are true *)
    cs_true : forall p h b, In (p, (h, b)) (ms_nodes m) ->
      exists r o, p = gp (ms_total m) r o /\ thash HO s r o = Some h;
    (* (ii) the cached leaves are exactly R, at their true positions *)
    cs_R_live : forall h, In h R -> In (Some h) s;
    cs_cached_R : forall h, In h R <-> In h (map fst (ms_cached m));
    cs_cached_pos : forall h p, In (h, p) (ms_cached m) ->
      exists x, find_leaf HO (layout HO s) h = Some x /\
                p = gp (ms_total m) (nrow x) (noff x);
    (* (iii) what must be stored is stored *)
    cs_roots : forall x, In x (layout HO s) -> nroot x = true ->
      stored m (gp (ms_total m) (nrow x) (noff x));
    cs_targets : forall ts, find_leaves HO (layout HO s) R = Some ts ->
      forall x, In x ts -> stored m (gp (ms_total m) (nrow x) (noff x));
    cs_sibs : forall ts, find_leaves HO (layout HO s) R = Some ts ->
      forall c, In c (known_set (layout HO s) ts) -> is_root_coord (layout HO s) c = false ->
      stored m (gp (ms_total m) (fst (sib_coord c)) (snd (sib_coord c)))
  }.
End Consistent.
Unset Implicit Arguments.

(** * 0. Association lists *)
Section Assoc.
  Variable H : Type.
  Variable HO : ops H.
  Hypothesis HOK : ops_ok HO.

  Lemma nodes_get_In (l : list (N * (H * bool))) p v : nodes_get l p = Some v -> In (p, v) l.
  Proof.
    induction l as [|[k w] l IH]; cbn [nodes_get]; [discriminate|].
    destruct (N.eqb_spec k p) as [->|Hne].
    - intros [= ->]. left. reflexivity.
    - intros E. right. exact (IH E).
  Qed.

  Lemma nodes_get_None (l : list (N * (H * bool))) p :
    nodes_get l p = None -> ~ In p (map fst l).
  Proof.
    induction l as [|[k w] l IH]; cbn [nodes_get map fst In]; [tauto|].
    destruct (N.eqb_spec k p) as [->|Hne]; [discriminate|].
    intros E [E'|Hin]; [exact (Hne E')|exact (IH E Hin)].
  Qed.

  Lemma cached_get_In (l : list (H * N)) h p : cached_get HO l h = Some p -> In (h, p) l.
  Proof.
    induction l as [|[k w] l IH]; cbn [cached_get]; [discriminate|].
    destruct (op_eqb HO k h) eqn:E.
    - apply HOK in E. subst k. intros [= ->]. left. reflexivity.
    - intros E'. right. exact (IH E').
  Qed.

  Lemma cached_get_None (l : list (H * N)) h : cached_get HO l h = None -> ~ In h (map fst l).
  Proof.
    induction l as [|[k w] l IH]; cbn [cached_get map fst In]; [tauto|].
    destruct (op_eqb HO k h) eqn:E; [discriminate|].
    intros E' [E''|Hin]; [|exact (IH E' Hin)].
    subst k. assert (Ht : op_eqb HO h h = true) by (apply HOK; reflexivity). congruence.
  Qed.

  Lemma cached_get_some_of_key (l : list (H * N)) h :
    In h (map fst l) -> exists p, cached_get HO l h = Some p.
  Proof.
    intros Hin. destruct (cached_get HO l h) as [p|] eqn:E; [exists p; reflexivity|].
    exfalso. exact (cached_get_None l h E Hin).
  Qed.

  Lemma all_some_map {A B} (f : A -> option B) (g : A -> B) (l : list A) :
    (forall x, In x l -> f x = Some (g x)) -> all_some (map f l) = Some (map g l).
  Proof.
    induction l as [|x l IH]; intros Hf; [reflexivity|].
    cbn [map all_some]. rewrite (Hf x (or_introl eq_refl)), IH; [reflexivity|].
    intros y Hy. apply Hf. right. exact Hy.
  Qed.
End Assoc.
(** * 1. Basic consequences of consistency *)
Section Basic.
  Variable H : Type.
  Variable HO : ops H.
  Hypothesis HOK : ops_ok HO.
  Variables (s : slots H) (R : list H) (m : mstate H).
  Hypothesis Hc : consistent HO s R m.

  Lemma cs_len : N.of_nat (length s) = ms_n m.
  Proof. rewrite (cs_n Hc). reflexivity. Qed.

  Lemma cs_nT : ms_n m <= 2 ^ ms_total m.
  Proof. apply TreeRows_le_iff. exact (cs_rows Hc). Qed.

  Lemma rows_of_TreeRows k : N.of_nat (rows_of k) = TreeRows k.
  Proof. unfold rows_of, TreeRows, len64. apply N2Nat.id. Qed.

  Lemma cs_rows_of : N.of_nat (rows_of (num_leaves s)) = TreeRows (ms_n m).
  Proof. rewrite rows_of_TreeRows, (cs_n Hc). reflexivity. Qed.

  (** the coordinates of a node are coordinates of the [T]-row geometry *)
  Lemma node_valid_T x : In x (layout HO s) ->
    N.of_nat (nrow x) <= ms_total m /\ noff x < 2 ^ (ms_total m - N.of_nat (nrow x)).
  Proof.
    intros Hx.
    destruct (layout_coords_rows H HO s x (N.to_nat (ms_total m)) Hx) as [Hr Ho].
    - rewrite N2Nat.id, cs_len. exact cs_nT.
    - rewrite N2Nat.id in Ho. split; [lia|exact Ho].
  Qed.

  Lemma node_valid_rows x : In x (layout HO s) ->
    N.of_nat (nrow x) <= TreeRows (ms_n m) /\
    noff x < 2 ^ (TreeRows (ms_n m) - N.of_nat (nrow x)).
  Proof.
    intros Hx. destruct (layout_coords_rows_of H HO s x Hx) as [Hr Ho].
    rewrite cs_rows_of in Ho. pose proof cs_rows_of. split; [lia|exact Ho].
  Qed.

  Lemma cs_TreeRows_63 : TreeRows (ms_n m) <= 63.
  Proof. pose proof (cs_rows Hc). pose proof (cs_T63 Hc). lia. Qed.

  (** nodes are identified by their coordinates *)
  Lemma node_coord_eq x y : In x (layout HO s) -> In y (layout HO s) ->
    nrow x = nrow y -> noff x = noff y -> x = y.
  Proof.
    intros Hx Hy Er Eo. pose proof (tnode_in H HO s x Hx) as Ex.
    pose proof (tnode_in H HO s y Hy) as Ey. rewrite Er, Eo in Ex. congruence.
  Qed.

  (** ... hence by their positions in [T] rows *)
  Lemma node_gp_eq x y : In x (layout HO s) -> In y (layout HO s) ->
    gp (ms_total m) (nrow x) (noff x) = gp (ms_total m) (nrow y) (noff y) -> x = y.
  Proof.
    intros Hx Hy E. destruct (node_valid_T x Hx) as [A B]. destruct (node_valid_T y Hy) as [C D].
    unfold gp in E. destruct (gpos_inj _ _ _ _ _ A B C D E) as [Er Eo].
    apply node_coord_eq; [assumption|assumption|lia|assumption].
  Qed.

  (** every stored binding is the hash of a node of the layout, at its [T]-row position *)
  Lemma lookup_true p h b : nodes_get (ms_nodes m) p = Some (h, b) ->
    exists x, In x (layout HO s) /\ p = gp (ms_total m) (nrow x) (noff x) /\ nhash x = h.
  Proof.
    intros E. apply nodes_get_In in E. destruct (cs_true Hc _ _ _ E) as (r & o & -> & Hh).
    apply thash_some in Hh as (x & Hx & <-). apply tnode_some in Hx as (Hin & <- & <-).
    exists x. auto.
  Qed.

  Lemma lookup_node x h b : In x (layout HO s) ->
    nodes_get (ms_nodes m) (gp (ms_total m) (nrow x) (noff x)) = Some (h, b) -> h = nhash x.
  Proof.
    intros Hx E. destruct (lookup_true _ _ _ E) as (y & Hy & Ep & <-).
    rewrite (node_gp_eq x y Hx Hy Ep). reflexivity.
  Qed.

  (** a stored node returns its true hash *)
  Lemma stored_node x : In x (layout HO s) -> stored m (gp (ms_total m) (nrow x) (noff x)) ->
    exists b, nodes_get (ms_nodes m) (gp (ms_total m) (nrow x) (noff x)) = Some (nhash x, b).
  Proof.
    intros Hx Hs. unfold stored in Hs.
    destruct (nodes_get (ms_nodes m) (gp (ms_total m) (nrow x) (noff x))) as [[h b]|] eqn:E;
      [|congruence].
    exists b. rewrite (lookup_node x h b Hx E). reflexivity.
  Qed.

  (** the cached map *)
  Lemma cached_tracked h : In h R ->
    exists x, find_leaf HO (layout HO s) h = Some x /\
      cached_get HO (ms_cached m) h = Some (gp (ms_total m) (nrow x) (noff x)).
  Proof.
    intros Hh. apply (cs_cached_R Hc) in Hh.
    destruct (cached_get_some_of_key H HO HOK _ _ Hh) as [p Ep].
    destruct (cs_cached_pos Hc _ _ (cached_get_In H HO HOK _ _ _ Ep)) as (x & Hx & ->).
    exists x. auto.
  Qed.

  Lemma cached_untracked h : ~ In h R -> cached_get HO (ms_cached m) h = None.
  Proof.
    intros Hh. destruct (cached_get HO (ms_cached m) h) as [p|] eqn:E; [|reflexivity].
    exfalso. apply Hh, (cs_cached_R Hc). apply cached_get_In in E; [|exact HOK].
    apply in_map_iff. exists (h, p). auto.
  Qed.

  (** translation of the position of a node to the minimal geometry *)
  Lemma translate_node x : In x (layout HO s) ->
    (if ms_total m =? TreeRows (ms_n m) then gp (ms_total m) (nrow x) (noff x)
     else translatePos (gp (ms_total m) (nrow x) (noff x)) (ms_total m) (TreeRows (ms_n m)))
    = npos (rows_of (num_leaves s)) x.
  Proof.
    intros Hx. destruct (node_valid_T x Hx) as [A B]. destruct (node_valid_rows x Hx) as [C D].
    unfold npos. rewrite LayoutStruct.pos_gpos, cs_rows_of.
    destruct (N.eqb_spec (ms_total m) (TreeRows (ms_n m))) as [E|E].
    - unfold gp. rewrite E. reflexivity.
    - unfold gp. apply translatePos_gpos; try assumption; [exact (cs_T63 Hc)|exact cs_TreeRows_63].
  Qed.
End Basic.
(** * 2. M2: looking up a hash *)
Section LeafPos.
  Variable H : Type.
  Variable HO : ops H.
  Hypothesis HOK : ops_ok HO.
  Variables (s : slots H) (R : list H) (m : mstate H).
  Hypothesis Hc : consistent HO s R m.

  Theorem map_leafpos_iff h :
    GetLeafPosition HO m h = exp_leafpos HO (mk_ctx HO s) (memH HO h R) h.
  Proof.
    unfold GetLeafPosition, exp_leafpos, leaf_pos. cbn [mk_ctx crows clay].
    destruct (memH HO h R) eqn:Em.
    - apply (memH_In H HO HOK) in Em.
      destruct (cached_tracked H HO HOK s R m Hc h Em) as (x & Hx & ->). rewrite Hx.
      f_equal. apply (translate_node H HO s R m Hc).
      exact (proj1 (find_leaf_spec H HO HOK _ _ _ Hx)).
    - rewrite (cached_untracked H HO HOK s R m Hc h); [reflexivity|].
      intros Hin. apply (memH_In H HO HOK) in Hin. congruence.
  Qed.

  (** found iff tracked, and then the true current position in the minimal geometry *)
  Corollary map_leafpos_some h p :
    GetLeafPosition HO m h = Some p <->
    In h R /\ exists x, find_leaf HO (layout HO s) h = Some x /\
                        p = npos (rows_of (num_leaves s)) x.
  Proof.
    rewrite map_leafpos_iff. unfold exp_leafpos, leaf_pos. cbn [mk_ctx crows clay].
    destruct (memH HO h R) eqn:Em.
    - apply (memH_In H HO HOK) in Em. destruct (find_leaf HO (layout HO s) h) as [x|].
      + split; [intros [= <-]; split; [exact Em|exists x; auto]|].
        intros (_ & y & [= <-] & ->). reflexivity.
      + split; [discriminate|]. intros (_ & y & E & _). discriminate.
    - split; [discriminate|]. intros (Hin & _). apply (memH_In H HO HOK) in Hin. congruence.
  Qed.

  Corollary map_leafpos_none h : GetLeafPosition HO m h = None <-> ~ In h R.
  Proof.
    rewrite map_leafpos_iff. unfold exp_leafpos, leaf_pos. cbn [mk_ctx crows clay].
    destruct (memH HO h R) eqn:Em.
    - apply (memH_In H HO HOK) in Em.
      destruct (cached_tracked H HO HOK s R m Hc h Em) as (x & -> & _).
      split; [discriminate|tauto].
    - split; [|reflexivity]. intros _ Hin. apply (memH_In H HO HOK) in Hin. congruence.
  Qed.

  (** [GetLeafHashPositions]: the positions of tracked leaves (0 for the others) *)
  Corollary map_leafhashpositions hs :
    GetLeafHashPositions HO m hs =
    map (fun h => match exp_leafpos HO (mk_ctx HO s) (memH HO h R) h with
                  | Some p => p | None => 0 end) hs.
  Proof.
    unfold GetLeafHashPositions. apply map_ext. intros h. rewrite map_leafpos_iff. reflexivity.
  Qed.
End LeafPos.

(** * 3. M1: the roots *)
Lemma filter_map_comm {A B} (f : B -> bool) (g : A -> B) l :
  filter f (map g l) = map g (filter (fun x => f (g x)) l).
Proof.
  induction l as [|x l IH]; [reflexivity|]. cbn [map filter].
  destruct (f (g x)); cbn [map]; rewrite IH; reflexivity.
Qed.

Lemma filter_rev_comm {A} (f : A -> bool) l : filter f (rev l) = rev (filter f l).
Proof.
  induction l as [|x l IH]; [reflexivity|]. cbn [rev filter].
  rewrite filter_app, IH. cbn [filter]. destruct (f x); cbn [rev]; [reflexivity|].
  rewrite app_nil_r. reflexivity.
Qed.

Lemma filter_nil_of {A} (f : A -> bool) l : (forall x, In x l -> f x = false) -> filter f l = [].
Proof.
  induction l as [|x l IH]; intros Hf; [reflexivity|]. cbn [filter].
  rewrite (Hf x (or_introl eq_refl)). apply IH. intros y Hy. apply Hf. right. exact Hy.
Qed.

Section Roots.
  Variable H : Type.
  Variable HO : ops H.
  Hypothesis HOK : ops_ok HO.
  Variables (s : slots H) (R : list H) (m : mstate H).
  Hypothesis Hc : consistent HO s R m.

  (** the rows of the trees, highest first, are the set bits of the leaf count below any bound *)
  Lemma forest_rows_upto (K : nat) : (length s < 2 ^ S K)%nat ->
    map (fun e : nat * N * option (ctree H) => N.of_nat (fst (fst e))) (forest HO s) =
    filter (N.testbit (N.of_nat (length s))) (map N.of_nat (rev (seq 0 (S K)))).
  Proof.
    intros HK. pose proof (forest_rows H HO s) as Hr.
    pose proof (forest_len H s) as Hlen. set (L := Nat.log2 (length s)) in *.
    assert (HLK : (L <= K)%nat).
    { destruct (Nat.eq_dec (length s) 0) as [E|E].
      - unfold L. rewrite E. change (Nat.log2 0) with 0%nat. lia.
      - assert (Hlt : (L < S K)%nat) by (apply Nat.log2_lt_pow2; lia). lia. }
    rewrite filter_map_comm, filter_rev_comm.
    replace (S K) with (S L + (K - L))%nat by lia. rewrite seq_app, filter_app.
    rewrite (filter_nil_of _ (seq (0 + S L) (K - L))), app_nil_r.
    2:{ intros k Hk. apply in_seq in Hk. apply testbit_small with (n := N.of_nat (S L)); [|lia].
        fold (p2 (S L)). rewrite <- p2_nat. lia. }
    change (fun x : nat => N.testbit (N.of_nat (length s)) (N.of_nat x))
      with (bit (N.of_nat (length s))).
    rewrite <- Hr, <- map_rev, rev_involutive, map_map. reflexivity.
  Qed.

  Theorem map_getroots : getRoots HO m = roots HO s.
  Proof.
    unfold getRoots, roots.
    rewrite (RootPositions_spec _ _ (cs_T63 Hc) (cs_nT H HO s R m Hc)).
    rewrite <- (cs_len H HO s R m Hc).
    rewrite <- (forest_rows_upto (N.to_nat (ms_total m))).
    2:{ pose proof (cs_nT H HO s R m Hc) as HnT. rewrite <- (cs_len H HO s R m Hc) in HnT.
        assert (Hlt : N.of_nat (length s) < N.of_nat (2 ^ S (N.to_nat (ms_total m)))).
        { rewrite p2_nat, p2_S. unfold p2. rewrite N2Nat.id.
          pose proof (UtilsGeom.pow2_pos (ms_total m)). lia. }
        lia. }
    rewrite !map_map. apply map_ext_in. intros [[k lo] t] He. cbn [fst snd].
    destruct (root_node H HO s k lo t He) as (_ & _ & Ediv & x & Hx & Hroot & Hh & _).
    apply tnode_some in Hx as (Hin & Er & Eo).
    rewrite <- Ediv, <- Eo, <- Er. fold (gp (ms_total m) (nrow x) (noff x)).
    destruct (stored_node H HO s R m Hc x Hin (cs_roots Hc x Hin Hroot)) as [b ->].
    exact Hh.
  Qed.
End Roots.
(** * 4. The known set: targets and their ancestors, as nodes of the layout *)
Definition cN (c : nat * N) : N * N := (N.of_nat (fst c), snd c).
Definition par_coord (c : nat * N) : nat * N := (S (fst c), snd c / 2).

Lemma cN_inj c d : cN c = cN d -> c = d.
Proof.
  destruct c as [r o], d as [r' o']. unfold cN. cbn [fst snd]. intros [= E ->].
  apply Nat2N.inj in E. subst. reflexivity.
Qed.
Lemma cN_par c : cN (par_coord c) = par (cN c).
Proof.
  destruct c as [r o]. unfold cN, par_coord, par. cbn [fst snd].
  rewrite Nat2N.inj_succ, N.add_1_r. reflexivity.
Qed.
Lemma cN_sib c : cN (sib_coord c) = sib (cN c).
Proof. reflexivity. Qed.
Lemma g_cN T c : g T (cN c) = gp T (fst c) (snd c).
Proof. reflexivity. Qed.
Lemma in_map_cN c l : In (cN c) (map cN l) <-> In c l.
Proof.
  split; [|apply in_map]. intros Hin. apply in_map_iff in Hin as (d & E & Hd).
  apply cN_inj in E. subst. exact Hd.
Qed.

Section Known.
  Variable H : Type.
  Variable HO : ops H.
  Variable s : slots H.
  Hypothesis Hn63 : N.of_nat (length s) <= 2 ^ 63.
  Notation lay := (layout HO s).

  Lemma node_row_le_tree x : In x lay -> (nrow x <= ntree x)%nat.
  Proof. intros Hx. destruct (layout_node_tree H HO s x Hx) as (lo & t & _ & _ & Hr & _). exact Hr. Qed.

  Lemma node_tree_63 x : In x lay -> (ntree x <= 63)%nat.
  Proof.
    intros Hx. destruct (layout_node_tree H HO s x Hx) as (lo & t & He & _).
    destruct (forest_entry H HO s _ _ _ He) as (Hb & _).
    destruct (root_coord_valid _ _ 63 Hn63 Hb) as [Hk _]. lia.
  Qed.

  Lemma root_iff_row x : In x lay -> (nroot x = true <-> nrow x = ntree x).
  Proof.
    intros Hx. split.
    - intros Hr. destruct (root_node_conv H HO s x Hx Hr) as (k & lo & t & _ & Er & _ & _ & Et).
      congruence.
    - intros E. destruct (node_root H HO s x Hx) as (rt & Hrt & Hroot & _).
      rewrite <- E, Nat.sub_diag in Hrt. change (2 ^ N.of_nat 0) with 1 in Hrt.
      rewrite N.div_1_r, (tnode_in H HO s x Hx) in Hrt. congruence.
  Qed.

  Lemma nonroot_iff_row x : In x lay -> (nroot x = false <-> (nrow x < ntree x)%nat).
  Proof.
    intros Hx. pose proof (node_row_le_tree x Hx) as Hle. pose proof (root_iff_row x Hx) as Hr.
    destruct (nroot x); split; intros E; try discriminate; try reflexivity.
    - assert (nrow x = ntree x) by (apply Hr; reflexivity). lia.
    - destruct (Nat.eq_dec (nrow x) (ntree x)) as [E'|E']; [|lia].
      apply Hr in E'. discriminate.
  Qed.

  (** every coordinate on the path is a node of the same tree *)
  Lemma path_nodes : forall f x c, In x lay ->
    In c (path_up f lay (nrow x) (noff x) (ntree x)) ->
    exists y, tnode HO s (fst c) (snd c) = Some y /\ ntree y = ntree x.
  Proof.
    induction f as [|f IH]; intros x c Hx Hc.
    - destruct Hc as [<-|[]]. exists x. split; [apply tnode_in, Hx|reflexivity].
    - cbn [path_up] in Hc. destruct Hc as [<-|Hc]; [exists x; split; [apply tnode_in, Hx|reflexivity]|].
      destruct (Nat.ltb_spec (nrow x) (ntree x)) as [Hlt|_]; [|destruct Hc].
      apply (nonroot_iff_row x Hx) in Hlt.
      destruct (node_parent H HO s _ _ x (tnode_in H HO s x Hx) Hlt) as (p & Hp & _ & Ept & _).
      apply tnode_some in Hp as (Hpin & Epr & Epo).
      rewrite <- Epr, <- Epo, <- Ept in Hc. destruct (IH p c Hpin Hc) as (y & Hy & Ey).
      exists y. split; [exact Hy|congruence].
  Qed.

  Lemma path_up_closed (l : list (node H)) : forall f r o tr c,
    In c (path_up f l r o tr) -> (fst c < tr)%nat -> (tr - r <= f)%nat ->
    In (par_coord c) (path_up f l r o tr).
  Proof.
    induction f as [|f IH]; intros r o tr c Hc Hlt Hf.
    - destruct Hc as [<-|[]]. cbn [fst] in Hlt. lia.
    - cbn [path_up] in Hc |- *. destruct Hc as [<-|Hc].
      + cbn [fst] in Hlt. right. destruct (Nat.ltb_spec r tr) as [_|Hge]; [|lia].
        unfold par_coord. cbn [fst snd]. apply RefTheory.path_up_head.
      + right. destruct (Nat.ltb_spec r tr) as [Hr|_]; [|destruct Hc].
        apply IH; [exact Hc|exact Hlt|lia].
  Qed.

  Lemma path_up_src (l : list (node H)) : forall f r o tr d,
    In d (path_up f l r o tr) ->
    d = (r, o) \/ exists c, In c (path_up f l r o tr) /\ (fst c < tr)%nat /\ d = par_coord c.
  Proof.
    induction f as [|f IH]; intros r o tr d Hd.
    - destruct Hd as [<-|[]]. left. reflexivity.
    - cbn [path_up] in Hd |- *. destruct Hd as [<-|Hd]; [left; reflexivity|]. right.
      destruct (Nat.ltb_spec r tr) as [Hr|_]; [|destruct Hd].
      destruct (IH _ _ _ _ Hd) as [->|(c & Hc & Hlt & ->)].
      + exists (r, o). split; [left; reflexivity|]. split; [exact Hr|reflexivity].
      + exists c. split; [right; exact Hc|]. split; [exact Hlt|reflexivity].
  Qed.

  Variable ts : list (node H).
  Hypothesis Hts : forall x, In x ts -> In x lay.
  Notation K := (known_set lay ts).

  Lemma known_node c : In c K -> exists y, tnode HO s (fst c) (snd c) = Some y.
  Proof.
    intros Hc. apply RefTheory.known_set_In in Hc as (x & Hx & Hc).
    destruct (path_nodes 64 x c (Hts x Hx) Hc) as (y & Hy & _). exists y. exact Hy.
  Qed.

  Lemma is_root_coord_node c y : tnode HO s (fst c) (snd c) = Some y ->
    is_root_coord lay c = nroot y.
  Proof. intros Hy. unfold is_root_coord. unfold tnode in Hy. rewrite Hy. reflexivity. Qed.

  (** the parent of a non-root member is a member, and an inner node *)
  Lemma known_closed c : In c K -> is_root_coord lay c = false ->
    In (par_coord c) K /\
    exists p, tnode HO s (fst (par_coord c)) (snd (par_coord c)) = Some p /\ nleaf p = false.
  Proof.
    intros Hc Hr. apply RefTheory.known_set_In in Hc as (x & Hx & Hc).
    destruct (path_nodes 64 x c (Hts x Hx) Hc) as (y & Hy & Ety).
    rewrite (is_root_coord_node c y Hy) in Hr.
    pose proof Hy as Hy'. apply tnode_some in Hy' as (Hyin & Eyr & Eyo).
    pose proof (proj1 (nonroot_iff_row y Hyin) Hr) as Hlt.
    split.
    - apply RefTheory.known_set_In. exists x. split; [exact Hx|].
      apply path_up_closed; [exact Hc|lia|]. pose proof (node_tree_63 x (Hts x Hx)). lia.
    - destruct (node_parent H HO s _ _ y Hy Hr) as (p & Hp & Hpl & _). exists p. auto.
  Qed.

  (** every member is a target or the parent of a non-root member *)
  Lemma known_src d : In d K ->
    (exists x, In x ts /\ d = (nrow x, noff x)) \/
    exists c, In c K /\ is_root_coord lay c = false /\ d = par_coord c.
  Proof.
    intros Hd. apply RefTheory.known_set_In in Hd as (x & Hx & Hd).
    destruct (path_up_src _ _ _ _ _ _ Hd) as [->|(c & Hc & Hlt & ->)]; [left; exists x; auto|right].
    exists c. split; [apply RefTheory.known_set_In; exists x; auto|]. split; [|reflexivity].
    destruct (path_nodes 64 x c (Hts x Hx) Hc) as (y & Hy & Ety).
    rewrite (is_root_coord_node c y Hy).
    pose proof Hy as Hy'. apply tnode_some in Hy' as (Hyin & Eyr & Eyo).
    apply (nonroot_iff_row y Hyin). lia.
  Qed.
End Known.

(** * 5. Roots and membership in the forest, geometrically *)
Section RootGeom.
  Variable H : Type.
  Variable HO : ops H.
  Variable s : slots H.
  Notation lay := (layout HO s).
  Notation n := (N.of_nat (length s)).

  Lemma node_in_forest y : In y lay -> in_forest n (N.of_nat (nrow y)) (noff y) = true.
  Proof. intros Hy. unfold in_forest. apply N.leb_le. exact (layout_coords_valid H HO s y Hy). Qed.

  Lemma node_is_root_c y : In y lay -> is_root_c n (N.of_nat (nrow y), noff y) = nroot y.
  Proof.
    intros Hy. unfold is_root_c. cbn [fst snd].
    destruct (nroot y) eqn:Er.
    - destruct (root_node_conv H HO s y Hy Er) as (k & lo & t & He & Ek & Eo & _).
      destruct (root_node H HO s k lo t He) as (Hb & _ & Ediv & _).
      rewrite Ek, Hb, Eo, Ediv, N.eqb_refl. reflexivity.
    - destruct (N.testbit n (N.of_nat (nrow y))) eqn:Hb; [|reflexivity]. cbn [andb].
      apply N.eqb_neq. intros Eo.
      destruct (forest_bit_entry H HO s (nrow y) Hb) as (lo & t & Hnth).
      apply nth_error_In in Hnth.
      destruct (root_node H HO s _ lo t Hnth) as (_ & _ & Ediv & x & Hx & Hroot & _).
      rewrite Ediv, <- Eo, (tnode_in H HO s y Hy) in Hx. congruence.
  Qed.
End RootGeom.
(** * 6. Row-major order of the positions does not depend on the height *)
Lemma gpos_lt_lex h r o r' o' : r <= h -> o < 2 ^ (h - r) -> r' <= h -> o' < 2 ^ (h - r') ->
  (gpos h r o < gpos h r' o' <-> r < r' \/ (r = r' /\ o < o')).
Proof.
  intros Hr Ho Hr' Ho'. split.
  - intros Hlt. destruct (N.lt_trichotomy r r') as [L|[E|G]]; [left; exact L| |].
    + subst r'. right. split; [reflexivity|]. unfold UtilsGeom.gpos in Hlt. lia.
    + pose proof (gpos_row_mono h r' o' r o G Hr Ho'). lia.
  - intros [L|[<- L]]; [apply gpos_row_mono; assumption|]. unfold UtilsGeom.gpos. lia.
Qed.

Lemma valid_mono h1 h2 r o : r <= h1 -> o < 2 ^ (h1 - r) -> h1 <= h2 -> o < 2 ^ (h2 - r).
Proof.
  intros Hr Ho Hh. assert (2 ^ (h1 - r) <= 2 ^ (h2 - r)) by (apply UtilsGeom.pow2_le; lia). lia.
Qed.

Lemma gpos_lt_transfer h1 h2 r o r' o' : h1 <= h2 ->
  r <= h1 -> o < 2 ^ (h1 - r) -> r' <= h1 -> o' < 2 ^ (h1 - r') ->
  gpos h1 r o < gpos h1 r' o' -> gpos h2 r o < gpos h2 r' o'.
Proof.
  intros Hh Hr Ho Hr' Ho' Hlt. apply gpos_lt_lex in Hlt; try assumption.
  apply gpos_lt_lex; try lia; try (eapply valid_mono; eassumption).
Qed.

Lemma NoDup_map_on {A B} (f : A -> B) (l : list A) :
  NoDup l -> (forall x y, In x l -> In y l -> f x = f y -> x = y) -> NoDup (map f l).
Proof.
  induction l as [|a l IH]; intros Hn Hi; cbn [map]; [constructor|].
  inversion Hn as [|a' l' Hnin Hnd]; subst. constructor.
  - intros Hin. apply in_map_iff in Hin as (y & Hy & Hyl).
    apply Hnin. rewrite (Hi a y); [exact Hyl|left; reflexivity|right; exact Hyl|symmetry; exact Hy].
  - apply IH; [exact Hnd|]. intros x y Hx Hy. apply Hi; right; assumption.
Qed.

(** * 7. [ProofPositions] at any height computes the canonical proof positions *)
Section PPCanon.
  Variable H : Type.
  Variable HO : ops H.
  Variable s : slots H.
  Variable h : N.
  Notation lay := (layout HO s).
  Notation n := (N.of_nat (length s)).
  Notation rows := (rows_of (num_leaves s)).
  Notation tr := (TreeRows (N.of_nat (length s))).
  Hypothesis Hn63 : n <= 2 ^ 63.
  Hypothesis Hh_lo : tr <= h.
  Hypothesis Hh63 : h <= 63.
  Variable ts : list (node H).
  Hypothesis ts_lay : forall x, In x ts -> In x lay.
  Hypothesis ts_leaf : forall x, In x ts -> nleaf x = true.
  Hypothesis ts_nd : NoDup ts.
  Notation gph := (fun x : node H => gp h (nrow x) (noff x)).
  Notation K := (known_set lay ts).
  Notation tc := (map (fun x : node H => (nrow x, noff x)) ts).
  Notation orig := (map gph ts).

  Lemma pc_nh : n <= 2 ^ h.
  Proof. apply TreeRows_le_iff. exact Hh_lo. Qed.

  Lemma pc_rows_of : N.of_nat rows = tr.
  Proof. unfold rows_of, TreeRows, len64, num_leaves. apply N2Nat.id. Qed.

  Lemma nodeh_valid x : In x lay ->
    N.of_nat (nrow x) <= h /\ noff x < 2 ^ (h - N.of_nat (nrow x)).
  Proof.
    intros Hx. destruct (layout_coords_rows H HO s x (N.to_nat h) Hx) as [Hr Ho].
    - rewrite N2Nat.id. exact pc_nh.
    - rewrite N2Nat.id in Ho. split; [lia|exact Ho].
  Qed.

  Lemma nodeh_gp_eq x y : In x lay -> In y lay -> gph x = gph y -> x = y.
  Proof.
    intros Hx Hy E. destruct (nodeh_valid x Hx) as [A B]. destruct (nodeh_valid y Hy) as [C D].
    unfold gp in E. destruct (gpos_inj _ _ _ _ _ A B C D E) as [Er Eo].
    pose proof (tnode_in H HO s x Hx) as Ex. pose proof (tnode_in H HO s y Hy) as Ey.
    apply Nat2N.inj in Er. rewrite Er, Eo in Ex. congruence.
  Qed.

  Lemma orig_NoDup : NoDup orig.
  Proof.
    apply NoDup_map_on; [exact ts_nd|].
    intros x y Hx Hy E. apply nodeh_gp_eq; [apply ts_lay, Hx|apply ts_lay, Hy|exact E].
  Qed.

  Lemma known_node_is_root d y : tnode HO s (fst d) (snd d) = Some y ->
    is_root_c n (cN d) = is_root_coord lay d.
  Proof.
    intros Hy. rewrite (is_root_coord_node H HO s d y Hy).
    pose proof Hy as Hy'. apply tnode_some in Hy' as (Hin & Er & Eo).
    rewrite <- (node_is_root_c H HO s y Hin).
    unfold cN. rewrite Er, Eo. reflexivity.
  Qed.

  (** [ProofPositions] on the sorted [h]-row targets: the siblings of the known set *)
  Lemma pp_known :
    exists bs ds,
      ProofPositions (sortN orig) n h = (map (g h) bs, ds) /\
      StronglySorted N.lt (map (g h) bs) /\
      (forall x, In x bs <-> exists d, In d K /\ is_root_coord lay d = false /\
                                       ~ In (sib_coord d) K /\ x = cN (sib_coord d)).
  Proof.
    assert (Eorig : orig = map (g h) (map cN tc)) by (rewrite !map_map; reflexivity).
    destruct (@Permutation_map_inv _ _ (g h) (sortN orig) (map cN tc)) as (Tl & ETl & PTl).
    { rewrite <- Eorig. apply pps_sortN_perm. }
    set (anc := map cN (filter (fun c => negb (mem_coord c tc)) K)).
    assert (HTl : forall c, In c Tl <-> exists d, In d tc /\ c = cN d).
    { intros c. split.
      - intros Hin. apply (Permutation_in _ (Permutation_sym PTl)) in Hin.
        apply in_map_iff in Hin as (d & <- & Hd). exists d. auto.
      - intros (d & Hd & ->). apply (Permutation_in _ PTl). apply in_map, Hd. }
    assert (Htc : forall d, In d tc -> In d K).
    { intros d Hd. apply in_map_iff in Hd as (x & <- & Hx). apply RefTheory.known_set_target, Hx. }
    assert (InK : forall c, In c (Tl ++ anc) <-> exists d, In d K /\ c = cN d).
    { intros c. rewrite in_app_iff. split.
      - intros [Hin|Hin].
        + apply HTl in Hin as (d & Hd & ->). exists d. split; [apply Htc, Hd|reflexivity].
        + apply in_map_iff in Hin as (d & <- & Hd). apply filter_In in Hd as [Hd _]. exists d. auto.
      - intros (d & Hd & ->). destruct (mem_coord d tc) eqn:Em.
        + left. apply HTl. exists d. split; [apply RefTheory.mem_coord_In, Em|reflexivity].
        + right. apply in_map, filter_In. split; [exact Hd|]. rewrite Em. reflexivity. }
    assert (Hnode : forall d, In d K -> exists y, tnode HO s (fst d) (snd d) = Some y).
    { intros d Hd. exact (known_node H HO s Hn63 ts ts_lay d Hd). }
    assert (Hroot : forall d, In d K -> is_root_c n (cN d) = is_root_coord lay d).
    { intros d Hd. destruct (Hnode d Hd) as [y Hy]. exact (known_node_is_root d y Hy). }
    destruct (proof_positions_members n h Tl anc Hh63 pc_nh)
      as (bs & ds & Epp & Sbs & _ & Hbs & _).
    - (* in the forest *)
      intros c Hin. apply InK in Hin as (d & Hd & ->). destruct (Hnode d Hd) as [y Hy].
      apply tnode_some in Hy as (Hin & Er & Eo). unfold cN. cbn [fst snd].
      rewrite <- Er, <- Eo. exact (node_in_forest H HO s y Hin).
    - (* closed under parents *)
      intros c Hin Hr. apply InK in Hin as (d & Hd & ->). rewrite (Hroot d Hd) in Hr.
      destruct (known_closed H HO s Hn63 ts ts_lay d Hd Hr) as (Hp & p & Hpn & Hpl).
      rewrite <- cN_par. apply in_map, filter_In. split; [exact Hp|].
      destruct (mem_coord (par_coord d) tc) eqn:Em; [exfalso|reflexivity].
      apply RefTheory.mem_coord_In in Em. apply in_map_iff in Em as (x & Ex & Hx).
      rewrite <- Ex in Hpn. cbn [fst snd] in Hpn.
      rewrite (tnode_in H HO s x (ts_lay x Hx)) in Hpn. injection Hpn as <-.
      rewrite (ts_leaf x Hx) in Hpl. discriminate.
    - (* generated by parents *)
      intros c Hin. apply in_map_iff in Hin as (d & <- & Hd). apply filter_In in Hd as [Hd Hm].
      destruct (known_src H HO s Hn63 ts ts_lay d Hd) as [(x & Hx & ->)|(c0 & Hc0 & Hr0 & ->)].
      + exfalso. apply Bool.negb_true_iff, RefTheory.mem_coord_false in Hm. apply Hm.
        apply in_map_iff. exists x. auto.
      + exists (cN c0). split; [apply InK; exists c0; auto|]. split; [|apply cN_par].
        rewrite (Hroot c0 Hc0). exact Hr0.
    - (* targets are no ancestors *)
      intros c Hin Hanc. apply HTl in Hin as (d & Hd & ->). apply in_map_cN in Hanc.
      apply filter_In in Hanc as [_ Hm].
      apply Bool.negb_true_iff, RefTheory.mem_coord_false in Hm. exact (Hm Hd).
    - rewrite <- ETl. apply pps_sortN_NoDup_SSlt, orig_NoDup.
    - exists bs, (map (g h) ds). rewrite ETl. split; [exact Epp|]. split; [exact Sbs|].
      intros x. rewrite Hbs. split.
      + intros (c & Hin & Hr & Hns & ->). apply InK in Hin as (d & Hd & ->). exists d.
        split; [exact Hd|]. split; [rewrite <- (Hroot d Hd); exact Hr|]. split; [|reflexivity].
        intros Hs. apply Hns. apply InK. exists (sib_coord d). auto.
      + intros (d & Hd & Hr & Hns & ->). exists (cN d). split; [apply InK; exists d; auto|].
        split; [rewrite (Hroot d Hd); exact Hr|]. split; [|reflexivity].
        intros Hs. apply InK in Hs as (d' & Hd' & E). rewrite <- cN_sib in E.
        apply cN_inj in E. subst d'. exact (Hns Hd').
  Qed.

  Notation PC := (proof_coords lay ts).
  Notation SC := (sort_coords rows PC).

  Lemma pc_bounds c : In c PC ->
    N.of_nat (fst c) <= tr /\ snd c < 2 ^ (tr - N.of_nat (fst c)).
  Proof.
    clear Hn63 Hh_lo Hh63 ts_leaf ts_nd.
    intros Hin. destruct (RefTheory.proof_coords_in_bounds H HO s ts ts_lay c Hin) as [A B].
    unfold RefTheory.P2 in B. rewrite Nat2N.inj_sub, pc_rows_of in B.
    pose proof pc_rows_of. split; [lia|exact B].
  Qed.

  Lemma sc_entry e : In e SC ->
    In (snd e) PC /\ fst e = gpos tr (N.of_nat (fst (snd e))) (snd (snd e)).
  Proof.
    intros He. apply RefTheory.sort_coords_In in He as (c & Hin & ->). cbn [fst snd].
    split; [exact Hin|]. rewrite LayoutStruct.pos_gpos, pc_rows_of. reflexivity.
  Qed.

  Lemma sc_keys_NoDup : NoDup (map fst SC).
  Proof.
    unfold sort_coords.
    eapply Permutation_NoDup; [apply Permutation_map, Permutation_sym, RefTheory.sortK_perm|].
    rewrite map_map. cbn [fst]. apply NoDup_map_on; [apply RefTheory.proof_coords_NoDup|].
    exact (RefTheory.proof_coords_pos_inj H HO s ts ts_lay).
  Qed.

  (** the canonical order (positions of the minimal geometry) is the order in [h] rows *)
  Lemma sc_sorted_gen (l : list (N * (nat * N))) : RefTheory.sascK l ->
    (forall e, In e l -> In e SC) ->
    StronglySorted N.lt (map (fun e => g h (cN (snd e))) l).
  Proof.
    intros Hl. induction Hl as [|x l Hx Hl IH]; intros Hall; cbn [map]; [constructor|].
    constructor; [apply IH; intros e He; apply Hall; right; exact He|].
    rewrite Forall_forall. intros p Hp. apply in_map_iff in Hp as (y & <- & Hy).
    destruct (sc_entry x (Hall x (or_introl eq_refl))) as [Px Ex].
    destruct (sc_entry y (Hall y (or_intror Hy))) as [Py Ey].
    destruct (pc_bounds _ Px) as [A B]. destruct (pc_bounds _ Py) as [C D].
    pose proof (Hx y Hy) as Hlt. rewrite Ex, Ey in Hlt.
    unfold g, cN. cbn [fst snd].
    exact (gpos_lt_transfer tr h _ _ _ _ Hh_lo A B C D Hlt).
  Qed.

  Lemma sc_sorted : StronglySorted N.lt (map (fun e => g h (cN (snd e))) SC).
  Proof.
    apply sc_sorted_gen; [|auto].
    exact (RefTheory.asc_nodup_sasc SC (sortK_asc _) sc_keys_NoDup).
  Qed.

  (** the proof positions computed in [h] rows are the canonical ones, in the same order *)
  Theorem pp_canon :
    exists ds, ProofPositions (sortN orig) n h =
               (map (fun e => gp h (fst (snd e)) (snd (snd e))) SC, ds).
  Proof.
    destruct pp_known as (bs & ds & Epp & Sbs & Hbs). exists ds. rewrite Epp. f_equal.
    apply pps_SSlt_ext; [exact Sbs|exact sc_sorted|].
    intros x. rewrite !in_map_iff. split.
    - intros (b & <- & Hb). apply Hbs in Hb as (d & Hd & Hr & Hns & ->).
      exists (pos rows (fst (sib_coord d)) (snd (sib_coord d)), sib_coord d).
      split; [reflexivity|]. apply RefTheory.sort_coords_In. exists (sib_coord d).
      split; [|reflexivity]. apply RefTheory.proof_coords_In. exists d. auto.
    - intros (e & <- & He). apply RefTheory.sort_coords_In in He as (c & Hin & ->).
      cbn [snd]. exists (cN c). split; [reflexivity|]. apply Hbs.
      apply RefTheory.proof_coords_In in Hin as (d & Hd & Hr & Hns & ->). exists d. auto.
  Qed.

  (** every proof coordinate is a node of the layout *)
  Lemma pc_node c : In c PC -> exists sb, tnode HO s (fst c) (snd c) = Some sb.
  Proof.
    intros Hin. apply RefTheory.proof_coords_In in Hin as (d & Hd & Hr & _ & ->).
    destruct (known_node H HO s Hn63 ts ts_lay d Hd) as [y Hy].
    rewrite (is_root_coord_node H HO s d y Hy) in Hr.
    destruct (node_sibling H HO s _ _ y Hy Hr) as (p & sb & _ & Hsb & _).
    exists sb. exact Hsb.
  Qed.
End PPCanon.

(** * 8. M4: [Prove] returns the canonical proof *)
Section Prove.
  Variable H : Type.
  Variable HO : ops H.
  Hypothesis HOK : ops_ok HO.
  Variables (s : slots H) (R : list H) (m : mstate H).
  Hypothesis Hc : consistent HO s R m.
  Notation lay := (layout HO s).
  Notation T := (ms_total m).
  Notation rows := (rows_of (num_leaves s)).
  Notation gpx := (fun x : node H => gp (ms_total m) (nrow x) (noff x)).

  Lemma cs_len63 : N.of_nat (length s) <= 2 ^ 63.
  Proof. rewrite (cs_len H HO s R m Hc). exact (cs_n63 Hc). Qed.

  (** the leaves of a tracked list: found by the reference and cached at their positions *)
  Lemma tracked_leaves : forall hs, (forall h, In h hs -> In h R) ->
    exists ts, find_leaves HO lay hs = Some ts /\
               all_some (map (cached_get HO (ms_cached m)) hs) = Some (map gpx ts).
  Proof.
    induction hs as [|h hs IH]; intros Hsub; [exists []; split; reflexivity|].
    destruct (IH (fun h' Hh' => Hsub h' (or_intror Hh'))) as (ts & Hts & Ha).
    destruct (cached_tracked H HO HOK s R m Hc h (Hsub h (or_introl eq_refl))) as (x & Hx & Ex).
    exists (x :: ts). cbn [find_leaves map all_some]. rewrite Hx, Hts, Ex, Ha. split; reflexivity.
  Qed.

  Lemma leaves_nodes hs ts : find_leaves HO lay hs = Some ts ->
    forall x, In x ts -> In x lay /\ nleaf x = true.
  Proof.
    intros Hf x Hx. apply (RefTheory.find_leaves_In H HO _ _ _ Hf) in Hx as (h & _ & Hx).
    destruct (find_leaf_spec H HO HOK _ _ _ Hx) as (A & B & _). auto.
  Qed.

  Section Targets.
    Variables (hs : list H) (ts : list (node H)).
    Hypothesis Hsub : forall h, In h hs -> In h R.
    Hypothesis Hnd : NoDup hs.
    Hypothesis Hts : find_leaves HO lay hs = Some ts.
    Notation PC := (proof_coords lay ts).
    Notation SC := (sort_coords rows PC).
    Notation tr := (TreeRows (ms_n m)).

    Lemma ts_lay x : In x ts -> In x lay.
    Proof. intros Hx. exact (proj1 (leaves_nodes hs ts Hts x Hx)). Qed.
    Lemma ts_leaf x : In x ts -> nleaf x = true.
    Proof. intros Hx. exact (proj2 (leaves_nodes hs ts Hts x Hx)). Qed.

    (** every canonical proof position is stored, with the true hash *)
    Hypothesis HR : exists tsR, find_leaves HO lay R = Some tsR.

    Lemma pc_lookup c : In c PC ->
      exists b, nodes_get (ms_nodes m) (gp T (fst c) (snd c)) =
                Some (match find_coord lay (fst c) (snd c) with
                      | Some x => nhash x | None => op_empty HO end, b).
    Proof.
      intros Hin. destruct HR as [tsR HtsR].
      apply RefTheory.proof_coords_In in Hin as (d & Hd & Hr & _ & ->).
      assert (HdR : In d (known_set lay tsR)).
      { apply (RefTheory.known_set_mono H lay ts tsR); [|exact Hd].
        intros x Hx. apply (RefTheory.find_leaves_In H HO _ _ _ Hts) in Hx as (h & Hh & Hx).
        apply (RefTheory.find_leaves_In H HO _ _ _ HtsR). exists h. split; [apply Hsub, Hh|exact Hx]. }
      pose proof (cs_sibs Hc HtsR d HdR Hr) as Hst.
      destruct (known_node H HO s cs_len63 ts ts_lay d Hd) as [y Hy].
      rewrite (is_root_coord_node H HO s d y Hy) in Hr.
      destruct (node_sibling H HO s _ _ y Hy Hr) as (p & sb & _ & Hsb & _).
      unfold sib_coord in *. cbn [fst snd] in *. unfold tnode in Hsb. rewrite Hsb.
      fold (tnode HO s (fst d) (N.lxor (snd d) 1)) in Hsb.
      apply tnode_some in Hsb as (Hsin & Er & Eo). rewrite <- Er, <- Eo in Hst |- *.
      exact (stored_node H HO s R m Hc sb Hsin Hst).
    Qed.

    Theorem prove_targets : Prove HO m hs = exp_prove HO (mk_ctx HO s) hs.
    Proof.
      destruct (tracked_leaves hs Hsub) as (ts' & Hts' & Ha). rewrite Hts in Hts'.
      injection Hts' as <-.
      unfold Prove, exp_prove. cbn [mk_ctx clay crows]. rewrite Ha, Hts, ProofPositions_fast_eq.
      destruct (pp_canon H HO s T cs_len63
                  ltac:(rewrite (cs_len H HO s R m Hc); exact (cs_rows Hc)) (cs_T63 Hc)
                  ts ts_lay ts_leaf (RefTheory.find_leaves_NoDup H HO HOK _ _ _ Hnd Hts))
        as (ds & Epp).
      rewrite (cs_len H HO s R m Hc) in Epp. rewrite Epp.
      rewrite map_map.
      rewrite (all_some_map
                 (fun e : N * (nat * N) =>
                    match nodes_get (ms_nodes m) (gp T (fst (snd e)) (snd (snd e))) with
                    | Some (h, _) => Some h | None => None end)
                 (fun e => match find_coord lay (fst (snd e)) (snd (snd e)) with
                           | Some x => nhash x | None => op_empty HO end)).
      2:{ intros e He. apply RefTheory.sort_coords_In in He as (c & Hin & ->). cbn [snd].
          destruct (pc_lookup c Hin) as [b ->]. reflexivity. }
      f_equal. f_equal.
      destruct (N.eqb_spec T tr) as [E|E].
      - apply map_ext_in. intros x Hx. pose proof (translate_node H HO s R m Hc x (ts_lay x Hx)) as Ht.
        rewrite E, N.eqb_refl in Ht. rewrite E. exact Ht.
      - rewrite map_map. apply map_ext_in. intros x Hx.
        pose proof (translate_node H HO s R m Hc x (ts_lay x Hx)) as Ht.
        apply N.eqb_neq in E. rewrite E in Ht. exact Ht.
    Qed.
  End Targets.

  (** all of [R] is found by the reference *)
  Lemma R_leaves : exists tsR, find_leaves HO lay R = Some tsR.
  Proof.
    destruct (tracked_leaves R (fun h Hh => Hh)) as (tsR & HtsR & _). exists tsR. exact HtsR.
  Qed.

  (** M4: for any tracked leaves, in any order, without repetition *)
  Theorem map_prove_canonical hs : (forall h, In h hs -> In h R) -> NoDup hs ->
    Prove HO m hs = exp_prove HO (mk_ctx HO s) hs.
  Proof.
    intros Hsub Hnd. destruct (tracked_leaves hs Hsub) as (ts & Hts & _).
    exact (prove_targets hs ts Hsub Hnd Hts R_leaves).
  Qed.

  (** an untracked hash makes [Prove] fail *)
  Theorem map_prove_untracked hs : (exists h, In h hs /\ ~ In h R) -> Prove HO m hs = None.
  Proof.
    intros (h & Hh & Hn). unfold Prove.
    assert (E : all_some (map (cached_get HO (ms_cached m)) hs) = None).
    { induction hs as [|a hs IH]; [destruct Hh|]. cbn [map all_some].
      destruct Hh as [->|Hh].
      - rewrite (cached_untracked H HO HOK s R m Hc h Hn). reflexivity.
      - rewrite (IH Hh). destruct (cached_get HO (ms_cached m) a); reflexivity. }
    rewrite E. reflexivity.
  Qed.
End Prove.
(** * 8b. Geometry: the rows partition the positions of the frame (local copies, so that this
    file does not depend on [Proofs.Soundness]) *)
Lemma mrs_gstart_0 h : gstart h 0 = 0.
Proof. unfold UtilsGeom.gstart. rewrite N.sub_0_r. lia. Qed.

Lemma mrs_gstart_succ h r : r <= h -> gstart h (r + 1) = gstart h r + 2 ^ (h - r).
Proof.
  intros Hr. unfold UtilsGeom.gstart.
  replace (h + 1 - r) with (h - r + 1) by lia.
  replace (h + 1 - (r + 1)) with (h - r) by lia.
  rewrite (UtilsGeom.pow2_S (h - r)).
  assert (Hle : 2 * 2 ^ (h - r) <= 2 ^ (h + 1)).
  { rewrite <- UtilsGeom.pow2_S. apply UtilsGeom.pow2_le. lia. }
  lia.
Qed.

Lemma mrs_gstart_top h : gstart h (h + 1) = 2 ^ (h + 1) - 1.
Proof. unfold UtilsGeom.gstart. replace (h + 1 - (h + 1)) with 0 by lia. reflexivity. Qed.

Lemma mrs_gpos_surj_below h p : forall k : nat,
  N.of_nat k <= h + 1 -> p < gstart h (N.of_nat k) ->
  exists r o, r < N.of_nat k /\ o < 2 ^ (h - r) /\ p = gpos h r o.
Proof.
  induction k as [|k IH]; intros Hk Hp.
  - change (N.of_nat 0) with 0 in Hp. rewrite mrs_gstart_0 in Hp. lia.
  - rewrite Nat2N.inj_succ in *. replace (N.succ (N.of_nat k)) with (N.of_nat k + 1) in * by lia.
    assert (Hkh : N.of_nat k <= h) by lia.
    rewrite (mrs_gstart_succ h (N.of_nat k) Hkh) in Hp.
    destruct (N.lt_ge_cases p (gstart h (N.of_nat k))) as [Hlt|Hge].
    + destruct (IH ltac:(lia) Hlt) as (r & o & Hr & Ho & E).
      exists r, o. split; [lia|]. split; assumption.
    + exists (N.of_nat k), (p - gstart h (N.of_nat k)). split; [lia|]. split; [lia|].
      unfold UtilsGeom.gpos. lia.
Qed.

(** every position of the frame of height [h] is the position of a valid coordinate *)
Lemma mrs_gpos_surj h p : p <= 2 ^ (h + 1) - 2 ->
  exists r o, r <= h /\ o < 2 ^ (h - r) /\ p = gpos h r o.
Proof.
  intros Hp.
  destruct (mrs_gpos_surj_below h p (N.to_nat (h + 1))) as (r & o & Hr & Ho & E).
  - rewrite N2Nat.id. lia.
  - rewrite N2Nat.id, mrs_gstart_top. pose proof (UtilsGeom.pow2_S h).
    pose proof (UtilsGeom.pow2_pos h). lia.
  - rewrite N2Nat.id in Hr. exists r, o. split; [lia|]. split; assumption.
Qed.

(** * 9. M3: reading a position *)

(** [decode_pos] inverts [pos] on valid coordinates *)
Lemma decode_pos_pos rows : forall fuel r0 r o, (r0 <= r)%nat -> (r <= rows)%nat ->
  o < 2 ^ (N.of_nat rows - N.of_nat r) -> (r - r0 < fuel)%nat ->
  decode_pos fuel rows r0 (pos rows r o) = Some (r, o).
Proof.
  induction fuel as [|f IH]; intros r0 r o H0 Hr Ho Hf; [lia|].
  cbn [decode_pos]. rewrite !LayoutStruct.pos_gpos. unfold UtilsGeom.gpos.
  rewrite N.add_0_r.
  set (h := N.of_nat rows) in *.
  destruct (Nat.eq_dec r0 r) as [->|Hne].
  - destruct (N.ltb_spec (gstart h (N.of_nat r) + o) (gstart h (N.of_nat r))) as [L|_]; [lia|].
    destruct (N.ltb_spec (gstart h (N.of_nat r) + o)
                         (gstart h (N.of_nat r) + 2 ^ N.of_nat (rows - r))) as [_|G].
    + f_equal. f_equal. lia.
    + rewrite Nat2N.inj_sub in G. fold h in G. lia.
  - assert (Hlt : (r0 < r)%nat) by lia.
    assert (Hs : gstart h (N.of_nat r0) + 2 ^ N.of_nat (rows - r0) <= gstart h (N.of_nat r)).
    { rewrite Nat2N.inj_sub. fold h. rewrite <- mrs_gstart_succ by lia.
      assert (Hm : forall a b, a <= b -> b <= h -> gstart h a <= gstart h b).
      { intros a b Hab Hb. unfold UtilsGeom.gstart.
        assert (2 ^ (h + 1 - b) <= 2 ^ (h + 1 - a)) by (apply UtilsGeom.pow2_le; lia).
        assert (2 ^ (h + 1 - a) <= 2 ^ (h + 1)) by (apply UtilsGeom.pow2_le; lia). lia. }
      apply Hm; lia. }
    pose proof (UtilsGeom.pow2_pos (N.of_nat (rows - r0))) as Hp.
    destruct (N.ltb_spec (gstart h (N.of_nat r) + o) (gstart h (N.of_nat r0))) as [L|_]; [lia|].
    destruct (N.ltb_spec (gstart h (N.of_nat r) + o)
                         (gstart h (N.of_nat r0) + 2 ^ N.of_nat (rows - r0))) as [L|_]; [lia|].
    destruct (Nat.ltb_spec r0 rows) as [_|G]; [|lia].
    rewrite <- (IH (S r0) r o); [|lia|exact Hr|exact Ho|lia].
    rewrite LayoutStruct.pos_gpos. reflexivity.
Qed.

(** the one position of the minimal frame that is no coordinate: its translation *)
Lemma translate_top_all :
  forallb (fun tr => forallb (fun T => if tr <? T
                                       then translatePos (2 ^ (tr + 1) - 1) tr T =?
                                            gpos T tr (2 ^ (T - tr) - 1)
                                       else true)
                             (map N.of_nat (seq 0 64)))
          (map N.of_nat (seq 0 64)) = true.
Proof. vm_compute. reflexivity. Qed.

Lemma translate_top tr T : tr < T -> T <= 63 ->
  translatePos (2 ^ (tr + 1) - 1) tr T = gpos T tr (2 ^ (T - tr) - 1).
Proof.
  intros Hlt HT. pose proof translate_top_all as Hall. rewrite forallb_forall in Hall.
  assert (Hin : forall k, k <= 63 -> In k (map N.of_nat (seq 0 64))).
  { intros k Hk. apply in_map_iff. exists (N.to_nat k). split; [lia|]. apply in_seq. lia. }
  specialize (Hall tr (Hin tr ltac:(lia))). rewrite forallb_forall in Hall.
  specialize (Hall T (Hin T HT)). apply N.ltb_lt in Hlt. rewrite Hlt in Hall.
  apply N.eqb_eq in Hall. exact Hall.
Qed.

Lemma maxPosition_spec tr : tr < 63 -> maxPosition tr = 2 ^ (tr + 1) - 1.
Proof.
  intros Htr. unfold maxPosition. rewrite shl_2 by exact Htr.
  pose proof (UtilsGeom.pow2_pos (tr + 1)). apply sub64_small; [lia|].
  apply UtilsGeom.pow2_lt_W. lia.
Qed.

Section GetHash.
  Variable H : Type.
  Variable HO : ops H.
  Hypothesis HOK : ops_ok HO.
  Variables (s : slots H) (R : list H) (m : mstate H).
  Hypothesis Hc : consistent HO s R m.
  Notation lay := (layout HO s).
  Notation T := (ms_total m).
  Notation tr := (TreeRows (ms_n m)).
  Notation rows := (rows_of (num_leaves s)).

  (** the position actually looked up *)
  Definition lookup_pos (m : mstate H) (p : N) : N :=
    if negb (ms_total m =? TreeRows (ms_n m)) && (p <=? maxPosition (TreeRows (ms_n m)))
    then translatePos p (TreeRows (ms_n m)) (ms_total m) else p.

  Lemma GetHash_lookup p :
    GetHash HO m p = match nodes_get (ms_nodes m) (lookup_pos m p) with
                     | Some (h, _) => h | None => op_empty HO end.
  Proof. reflexivity. Qed.

  (** which node a position denotes: a position of the minimal geometry denotes the node there; a
      position beyond the minimal geometry denotes the node at that position of the [T]-row
      geometry *)
  Definition denotes (p : N) (x : node H) : Prop :=
    (p <= 2 ^ (tr + 1) - 2 /\ p = npos rows x) \/
    (tr < T /\ 2 ^ (tr + 1) - 1 < p /\ p = gp T (nrow x) (noff x)).

  Lemma npos_gpos (x : node H) : npos rows x = gpos tr (N.of_nat (nrow x)) (noff x).
  Proof. unfold npos. rewrite LayoutStruct.pos_gpos, (cs_rows_of H HO s R m Hc). reflexivity. Qed.

  Lemma npos_range x : In x lay -> npos rows x <= 2 ^ (tr + 1) - 2.
  Proof.
    intros Hx. destruct (node_valid_rows H HO s R m Hc x Hx) as [A B].
    rewrite npos_gpos. apply gpos_range; assumption.
  Qed.

  (** whatever is found at the looked-up position is the hash of the node the position denotes *)
  Lemma lookup_denotes p h b : nodes_get (ms_nodes m) (lookup_pos m p) = Some (h, b) ->
    exists x, In x lay /\ nhash x = h /\ denotes p x /\
              lookup_pos m p = gp T (nrow x) (noff x).
  Proof.
    intros E. destruct (lookup_true H HO s R m Hc _ _ _ E) as (x & Hx & Ep & Eh).
    exists x. split; [exact Hx|]. split; [exact Eh|]. split; [|exact Ep].
    destruct (node_valid_T H HO s R m Hc x Hx) as [A B].
    destruct (node_valid_rows H HO s R m Hc x Hx) as [C D].
    pose proof (cs_rows Hc) as Hrows. pose proof (cs_T63 Hc) as HT.
    unfold lookup_pos in Ep.
    destruct (N.eqb_spec T tr) as [ET|ET]; cbn [negb andb] in Ep.
    - (* minimal allocation *)
      left. assert (Ep' : p = npos rows x) by (rewrite npos_gpos, <- ET; exact Ep).
      split; [|exact Ep']. rewrite Ep'. apply npos_range, Hx.
    - assert (Hlt : tr < T) by lia. rewrite (maxPosition_spec tr ltac:(lia)) in Ep.
      destruct (N.leb_spec p (2 ^ (tr + 1) - 1)) as [Hle|Hgt].
      + destruct (N.eq_dec p (2 ^ (tr + 1) - 1)) as [Etop|Hne].
        * (* the top of the minimal frame: translated to a position that holds no node *)
          exfalso. rewrite Etop, (translate_top tr T Hlt HT) in Ep. unfold gp in Ep.
          assert (Hv : 2 ^ (T - tr) - 1 < 2 ^ (T - tr)) by (pose proof (UtilsGeom.pow2_pos (T - tr)); lia).
          destruct (gpos_inj T _ _ _ _ Hrows Hv A B Ep) as [Er Eo].
          rewrite <- Er, N.sub_diag in D. change (2 ^ 0) with 1 in D.
          assert (2 ^ 1 <= 2 ^ (T - tr)) by (apply UtilsGeom.pow2_le; lia).
          change (2 ^ 1) with 2 in *. lia.
        * left. assert (Hp : p <= 2 ^ (tr + 1) - 2) by lia. split; [exact Hp|].
          destruct (mrs_gpos_surj tr p Hp) as (r & o & Hr & Ho & ->).
          rewrite translatePos_gpos in Ep; try assumption; try lia;
            [|apply (valid_mono tr T); [exact Hr|exact Ho|lia]].
          unfold gp in Ep.
          assert (HrT : r <= T) by lia.
          assert (HoT : o < 2 ^ (T - r)) by (apply (valid_mono tr T); [exact Hr|exact Ho|lia]).
          destruct (gpos_inj T _ _ _ _ HrT HoT A B Ep) as [-> ->].
          symmetry. apply npos_gpos.
      + right. split; [exact Hlt|]. split; [lia|exact Ep].
  Qed.

  (** [denotes] is what the oracle's [dual_node] computes *)
  Lemma denotes_dual p x : In x lay -> denotes p x ->
    dual_node (mk_ctx HO s) (N.to_nat T) p = Some x.
  Proof.
    intros Hx Hd. unfold dual_node. cbn [mk_ctx crows clay].
    rewrite (cs_rows_of H HO s R m Hc).
    destruct Hd as [[Hp Ep]|(Hlt & Hp & Ep)].
    - destruct (N.ltb_spec (2 ^ (tr + 1) - 2) p) as [L|_]; [lia|]. rewrite Bool.andb_false_r.
      destruct (find_pos rows lay p) as [y|] eqn:Ef.
      + apply find_pos_some in Ef as [Hy Ey]. f_equal.
        apply (RefTheory.layout_npos_inj H HO s); [exact Hy|exact Hx|congruence].
      + exfalso. exact (proj1 (find_pos_none H rows lay p) Ef x Hx (eq_sym Ep)).
    - destruct (N.ltb_spec (2 ^ (tr + 1) - 2) p) as [_|G]; [|lia].
      destruct (Nat.ltb_spec rows (N.to_nat T)) as [_|G].
      2:{ pose proof (cs_rows_of H HO s R m Hc). lia. }
      cbn [andb]. destruct (node_valid_T H HO s R m Hc x Hx) as [A B].
      assert (Epos : p = pos (N.to_nat T) (nrow x) (noff x))
        by (rewrite LayoutStruct.pos_gpos, N2Nat.id; exact Ep).
      rewrite Epos.
      rewrite decode_pos_pos; [apply (tnode_in H HO s x Hx)|lia|lia|rewrite N2Nat.id; exact B|].
      pose proof (cs_T63 Hc). lia.
  Qed.

  (** M3 as judged by the oracle: the hash read is the hash of the denoted node, or empty *)
  Theorem map_gethash_dual p :
    chk_gethash_dual HO (mk_ctx HO s) false (N.to_nat T) p (GetHash HO m p) = true.
  Proof.
    unfold chk_gethash_dual. rewrite GetHash_lookup.
    destruct (nodes_get (ms_nodes m) (lookup_pos m p)) as [[h b]|] eqn:E.
    - destruct (lookup_denotes p h b E) as (x & Hx & Eh & Hd & _).
      rewrite (denotes_dual p x Hx Hd), Eh.
      assert (Ht : op_eqb HO h h = true) by (apply HOK; reflexivity). rewrite Ht. reflexivity.
    - assert (Ht : op_eqb HO (op_empty HO) (op_empty HO) = true) by (apply HOK; reflexivity).
      rewrite Ht. cbn [negb andb]. apply Bool.orb_true_r.
  Qed.

  (** M3, explicitly *)
  Theorem map_gethash_spec p h : GetHash HO m p = h ->
    h = op_empty HO \/
    exists x, In x lay /\ nhash x = h /\ denotes p x /\ stored m (gp T (nrow x) (noff x)).
  Proof.
    rewrite GetHash_lookup.
    destruct (nodes_get (ms_nodes m) (lookup_pos m p)) as [[h' b]|] eqn:E.
    - intros <-. right. destruct (lookup_denotes p h' b E) as (x & Hx & Eh & Hd & Ep).
      exists x. repeat split; try assumption. unfold stored. rewrite <- Ep, E. discriminate.
    - intros <-. left. reflexivity.
  Qed.

  (** conversely: a stored node is read at the position(s) that denote it *)
  Theorem map_gethash_stored p x : In x lay -> denotes p x ->
    stored m (gp T (nrow x) (noff x)) -> GetHash HO m p = nhash x.
  Proof.
    intros Hx Hd Hst. rewrite GetHash_lookup.
    assert (Ep : lookup_pos m p = gp T (nrow x) (noff x)).
    { unfold lookup_pos. destruct (node_valid_T H HO s R m Hc x Hx) as [A B].
      destruct (node_valid_rows H HO s R m Hc x Hx) as [C D].
      pose proof (cs_rows Hc) as Hrows. pose proof (cs_T63 Hc) as HT.
      destruct Hd as [[Hp Ep]|(Hlt & Hp & Ep)].
      - rewrite npos_gpos in Ep. destruct (N.eqb_spec T tr) as [ET|ET]; cbn [negb andb].
        + unfold gp. rewrite ET. exact Ep.
        + rewrite (maxPosition_spec tr ltac:(lia)).
          destruct (N.leb_spec p (2 ^ (tr + 1) - 1)) as [_|G]; [|lia].
          rewrite Ep. unfold gp. apply translatePos_gpos; try assumption. lia.
      - destruct (N.eqb_spec T tr) as [ET|ET]; [lia|]. cbn [negb andb].
        rewrite (maxPosition_spec tr ltac:(lia)).
        destruct (N.leb_spec p (2 ^ (tr + 1) - 1)) as [L|_]; [lia|]. exact Ep. }
    rewrite Ep. destruct (stored_node H HO s R m Hc x Hx Hst) as [b ->]. reflexivity.
  Qed.

  (** a position that denotes no stored node reads as the empty hash *)
  Corollary map_gethash_unstored p :
    (forall x, In x lay -> denotes p x -> ~ stored m (gp T (nrow x) (noff x))) ->
    GetHash HO m p = op_empty HO.
  Proof.
    intros Hno. destruct (map_gethash_spec p _ eq_refl) as [E|(x & Hx & _ & Hd & Hst)]; [exact E|].
    exfalso. exact (Hno x Hx Hd Hst).
  Qed.
End GetHash.
Arguments lookup_pos {H} m p.
Arguments denotes {H} s m p x.
(** * 10. M5: [GetMissingPositions] *)
Lemma trimProofPos_all n rows l :
  (forall p, In p l -> inForest p n rows = true) -> trimProofPos n rows l = l.
Proof.
  induction l as [|p l IH]; intros Hall; [reflexivity|]. cbn [trimProofPos].
  rewrite (Hall p (or_introl eq_refl)), IH; [reflexivity|].
  intros q Hq. apply Hall. right. exact Hq.
Qed.

Section Missing.
  Variable H : Type.
  Variable HO : ops H.
  Hypothesis HOK : ops_ok HO.
  Variables (s : slots H) (R : list H) (m : mstate H).
  Hypothesis Hc : consistent HO s R m.
  Notation lay := (layout HO s).
  Notation T := (ms_total m).
  Notation tr := (TreeRows (ms_n m)).
  Notation rows := (rows_of (num_leaves s)).

  Definition unstored (m : mstate H) (p : N) : bool :=
    match nodes_get (ms_nodes m) p with Some _ => false | None => true end.

  (** the canonical proof positions (minimal geometry) of live leaves [hs] whose [T]-row
      position is not stored, ascending *)
  Theorem map_missing_spec hs ts : NoDup hs -> find_leaves HO lay hs = Some ts ->
    GetMissingPositions m (map (npos rows) ts) =
    map fst (filter (fun e : N * (nat * N) => unstored m (gp T (fst (snd e)) (snd (snd e))))
                    (sort_coords rows (proof_coords lay ts))).
  Proof.
    intros Hnd Hts.
    destruct ts as [|x0 ts0] eqn:Ets; [reflexivity|]. rewrite <- Ets in *.
    assert (Hne : map (npos rows) ts <> []) by (rewrite Ets; discriminate).
    unfold GetMissingPositions. destruct (map (npos rows) ts) as [|a l] eqn:Eo; [congruence|].
    rewrite <- Eo. clear a l Eo Hne x0 ts0 Ets.
    pose proof (cs_len63 H HO s R m Hc) as Hn63.
    pose proof (cs_len H HO s R m Hc) as Hlen.
    pose proof (cs_rows_of H HO s R m Hc) as Hrows.
    assert (Hlay : forall x, In x ts -> In x lay)
      by (intros x Hx; exact (proj1 (leaves_nodes H HO HOK s hs ts Hts x Hx))).
    assert (Hleaf : forall x, In x ts -> nleaf x = true)
      by (intros x Hx; exact (proj2 (leaves_nodes H HO HOK s hs ts Hts x Hx))).
    assert (Ntr : NoDup ts) by exact (RefTheory.find_leaves_NoDup H HO HOK _ _ _ Hnd Hts).
    assert (Eorig : map (npos rows) ts = map (fun x : node H => gp tr (nrow x) (noff x)) ts).
    { apply map_ext. intros x. unfold npos. rewrite LayoutStruct.pos_gpos, Hrows. reflexivity. }
    rewrite Eorig, ProofPositions_fast_eq.
    destruct (pp_canon H HO s tr Hn63 ltac:(rewrite Hlen; lia)
                (cs_TreeRows_63 H HO s R m Hc) ts Hlay Hleaf Ntr) as (ds & Epp).
    rewrite Hlen in Epp. rewrite Epp. clear Epp.
    set (SC := sort_coords rows (proof_coords lay ts)).
    assert (Hb : forall e, In e SC ->
              N.of_nat (fst (snd e)) <= tr /\ snd (snd e) < 2 ^ (tr - N.of_nat (fst (snd e))) /\
              fst e = gp tr (fst (snd e)) (snd (snd e))).
    { intros e He. destruct (sc_entry H HO s ts e He) as [Hp Ee]. rewrite Hlen in Ee.
      destruct (pc_bounds H HO s ts Hlay _ Hp) as [A B]. rewrite Hlen in A, B. auto. }
    pose proof (cs_rows Hc) as Hlo. pose proof (cs_T63 Hc) as HT.
    pose proof (cs_TreeRows_63 H HO s R m Hc) as Htr63.
    (* the proof positions in [T] rows *)
    assert (Epp' : (if tr =? T then map (fun e : N * (nat * N) => gp tr (fst (snd e)) (snd (snd e))) SC
                    else translatePositions
                           (map (fun e : N * (nat * N) => gp tr (fst (snd e)) (snd (snd e))) SC) tr T)
                   = map (fun e : N * (nat * N) => gp T (fst (snd e)) (snd (snd e))) SC).
    { destruct (N.eqb_spec tr T) as [E|E]; [rewrite E; reflexivity|].
      unfold translatePositions. rewrite map_map. apply map_ext_in. intros e He.
      destruct (Hb e He) as (A & B & _). unfold gp. apply translatePos_gpos; try assumption; [lia|].
      apply (valid_mono tr T); [exact A|exact B|exact Hlo]. }
    rewrite Epp'. clear Epp'.
    set (F := filter (fun e : N * (nat * N) => unstored m (gp T (fst (snd e)) (snd (snd e)))) SC).
    rewrite (filter_map_comm
               (fun p => match nodes_get (ms_nodes m) p with Some _ => false | None => true end)).
    change (filter (fun x : N * (nat * N) =>
                      match nodes_get (ms_nodes m) (gp T (fst (snd x)) (snd (snd x))) with
                      | Some _ => false | None => true end) SC) with F.
    assert (HF : forall e, In e F -> In e SC) by (intros e He; apply filter_In in He; apply He).
    destruct (N.eqb_spec tr T) as [E|E].
    - apply map_ext_in. intros e He. destruct (Hb e (HF e He)) as (_ & _ & ->). rewrite E. reflexivity.
    - unfold translatePositions. rewrite map_map.
      assert (Etr : map (fun e : N * (nat * N) =>
                           translatePos (gp T (fst (snd e)) (snd (snd e))) T tr) F = map fst F).
      { apply map_ext_in. intros e He. destruct (Hb e (HF e He)) as (A & B & ->).
        unfold gp. apply translatePos_gpos; try assumption; [lia|].
        apply (valid_mono tr T); [exact A|exact B|exact Hlo]. }
      rewrite Etr. apply trimProofPos_all. intros p Hp. apply in_map_iff in Hp as (e & <- & He).
      destruct (Hb e (HF e He)) as (A & B & ->).
      destruct (sc_entry H HO s ts e (HF e He)) as [Hpc _].
      destruct (pc_node H HO s Hn63 ts Hlay _ Hpc) as [sb Hsb].
      apply tnode_some in Hsb as (Hsin & Er & Eo).
      unfold gp. apply inForest_spec; try assumption.
      rewrite <- Er, <- Eo, <- Hlen. exact (layout_coords_valid H HO s sb Hsin).
  Qed.
End Missing.
Arguments unstored {H} m p.

(** M5 as judged by the oracle ([exp_missing_stored]): [stored] is the list of the keys of the
    position map translated to the minimal geometry, as the harness dumps them *)
Section MissingOracle.
  Variable H : Type.
  Variable HO : ops H.
  Hypothesis HOK : ops_ok HO.
  Variables (s : slots H) (R : list H) (m : mstate H).
  Hypothesis Hc : consistent HO s R m.
  Notation lay := (layout HO s).
  Notation T := (ms_total m).
  Notation tr := (TreeRows (ms_n m)).
  Notation rows := (rows_of (num_leaves s)).

  Definition stored_min (m : mstate H) : list N :=
    map (fun k => if ms_total m =? TreeRows (ms_n m) then k
                  else translatePos k (ms_total m) (TreeRows (ms_n m)))
        (map fst (ms_nodes m)).

  Lemma nodes_get_key p : In p (map fst (ms_nodes m)) -> nodes_get (ms_nodes m) p <> None.
  Proof. intros Hin E. exact (nodes_get_None H _ _ E Hin). Qed.

  Theorem map_missing_oracle hs ts : NoDup hs -> find_leaves HO lay hs = Some ts ->
    exp_missing_stored HO (mk_ctx HO s) hs (stored_min m) =
    Some (GetMissingPositions m (map (npos rows) ts)).
  Proof.
    intros Hnd Hts. unfold exp_missing_stored. cbn [mk_ctx clay crows]. rewrite Hts. f_equal.
    rewrite (map_missing_spec H HO HOK s R m Hc hs ts Hnd Hts).
    unfold canon_proof_pos. rewrite filter_map_comm. f_equal.
    apply filter_ext_in. intros e He.
    pose proof (cs_len H HO s R m Hc) as Hlen.
    assert (Hlay : forall x, In x ts -> In x lay)
      by (intros x Hx; exact (proj1 (leaves_nodes H HO HOK s hs ts Hts x Hx))).
    destruct (sc_entry H HO s ts e He) as [Hp Ee]. rewrite Hlen in Ee.
    destruct (pc_bounds H HO s ts Hlay _ Hp) as [A B]. rewrite Hlen in A, B.
    pose proof (cs_rows Hc) as Hlo. pose proof (cs_T63 Hc) as HT.
    pose proof (cs_TreeRows_63 H HO s R m Hc) as Htr63.
    assert (BT : snd (snd e) < 2 ^ (T - N.of_nat (fst (snd e))))
      by (apply (valid_mono tr T); [exact A|exact B|exact Hlo]).
    unfold unstored.
    destruct (nodes_get (ms_nodes m) (gp T (fst (snd e)) (snd (snd e)))) as [[h b]|] eqn:E.
    - (* stored: its translation is in the list *)
      apply Bool.negb_false_iff, RefTheory.memN_In. unfold stored_min.
      apply in_map_iff. exists (gp T (fst (snd e)) (snd (snd e))). split.
      + rewrite Ee. unfold gp. destruct (N.eqb_spec T tr) as [->|_]; [reflexivity|].
        apply translatePos_gpos; try assumption. lia.
      + apply nodes_get_In in E. apply in_map_iff. exists (gp T (fst (snd e)) (snd (snd e)), (h, b)). auto.
    - (* not stored: no key translates to it *)
      apply Bool.negb_true_iff. destruct (memN (fst e) (stored_min m)) eqn:Em; [exfalso|reflexivity].
      apply RefTheory.memN_In in Em. unfold stored_min in Em.
      apply in_map_iff in Em as (k & Ek & Hk). pose proof (nodes_get_key k Hk) as Hst.
      destruct (nodes_get (ms_nodes m) k) as [[h b]|] eqn:Eg; [|congruence].
      destruct (lookup_true H HO s R m Hc k h b Eg) as (x & Hx & -> & _).
      rewrite (translate_node H HO s R m Hc x Hx) in Ek.
      unfold npos in Ek. rewrite LayoutStruct.pos_gpos, (cs_rows_of H HO s R m Hc), Ee in Ek.
      destruct (node_valid_rows H HO s R m Hc x Hx) as [C D].
      destruct (gpos_inj tr _ _ _ _ C D A B Ek) as [Er Eo].
      unfold gp in Eg. rewrite Er, Eo in Eg. unfold gp in E. congruence.
  Qed.
End MissingOracle.
Arguments stored_min {H} m.

(** * 11. Clause (iii) of consistency is "the reference's [needed_pos] is stored" *)
Section Needed.
  Variable H : Type.
  Variable HO : ops H.
  Hypothesis HOK : ops_ok HO.
  Variables (s : slots H) (R : list H) (m : mstate H).
  Notation lay := (layout HO s).
  Notation T := (ms_total m).
  Notation tr := (TreeRows (ms_n m)).
  Notation rows := (rows_of (num_leaves s)).

  (** the sibling of a non-root member of the known set is a node *)
  Lemma known_sib_node ts d : N.of_nat (length s) <= 2 ^ 63 ->
    (forall x, In x ts -> In x lay) ->
    In d (known_set lay ts) -> is_root_coord lay d = false ->
    exists sb, In sb lay /\ (nrow sb, noff sb) = sib_coord d.
  Proof.
    intros Hn63 Hts Hd Hr. destruct (known_node H HO s Hn63 ts Hts d Hd) as [y Hy].
    rewrite (is_root_coord_node H HO s d y Hy) in Hr.
    destruct (node_sibling H HO s _ _ y Hy Hr) as (p & sb & _ & Hsb & _).
    apply tnode_some in Hsb as (Hin & Er & Eo). exists sb. split; [exact Hin|].
    unfold sib_coord. cbn [fst snd]. congruence.
  Qed.

  Section Forward.
    Hypothesis Hc : consistent HO s R m.

    Lemma stored_in_min x : In x lay -> stored m (gp T (nrow x) (noff x)) ->
      In (npos rows x) (stored_min m).
    Proof.
      intros Hx Hst. destruct (stored_node H HO s R m Hc x Hx Hst) as [b E].
      apply nodes_get_In in E. unfold stored_min. apply in_map_iff.
      exists (gp T (nrow x) (noff x)). split; [exact (translate_node H HO s R m Hc x Hx)|].
      apply in_map_iff. eexists. split; [|exact E]. reflexivity.
    Qed.

    (** every position the reference says a partial forest needs is stored *)
    Theorem consistent_needed_stored nd : needed_pos HO s R = Some nd ->
      forall p, In p nd -> In p (stored_min m).
    Proof.
      unfold needed_pos. destruct (find_leaves HO lay R) as [ts|] eqn:Hts; [|discriminate].
      intros [= <-] p. rewrite RefTheory.sortN_In, RefTheory.dedupN_In, !in_app_iff.
      pose proof (cs_len63 H HO s R m Hc) as Hn63.
      assert (Hlay : forall x, In x ts -> In x lay)
        by (intros x Hx; exact (proj1 (leaves_nodes H HO HOK s R ts Hts x Hx))).
      assert (Hsib : forall d, In d (known_set lay ts) -> is_root_coord lay d = false ->
                In (pos rows (fst (sib_coord d)) (snd (sib_coord d))) (stored_min m)).
      { intros d Hd Hr. destruct (known_sib_node ts d Hn63 Hlay Hd Hr) as (sb & Hsb & Ec).
        pose proof (cs_sibs Hc Hts d Hd Hr) as Hst. rewrite <- Ec in Hst |- *. cbn [fst snd] in *.
        exact (stored_in_min sb Hsb Hst). }
      intros [Hp|[Hp|Hp]].
      - apply in_map_iff in Hp as (x & <- & Hx).
        exact (stored_in_min x (Hlay x Hx) (cs_targets Hc Hts x Hx)).
      - apply RefTheory.canon_proof_pos_In in Hp as (c & Hc' & ->).
        apply RefTheory.proof_coords_In in Hc' as (d & Hd & Hr & _ & ->). exact (Hsib d Hd Hr).
      - apply in_map_iff in Hp as (c & <- & Hc'). apply in_flat_map in Hc' as (d & Hd & Hc').
        destruct (is_root_coord lay d) eqn:Hr; [destruct Hc'|]. destruct Hc' as [<-|[]].
        exact (Hsib d Hd Hr).
    Qed.
  End Forward.

  (** conversely: clause (iii) follows from the roots and the needed positions being stored *)
  Theorem consistent_intro_needed :
    ms_n m = num_leaves s -> ms_n m <= 2 ^ 63 -> tr <= T -> T <= 63 ->
    (forall p h b, In (p, (h, b)) (ms_nodes m) ->
       exists r o, p = gp T r o /\ thash HO s r o = Some h) ->
    (forall h, In h R -> In (Some h) s) ->
    (forall h, In h R <-> In h (map fst (ms_cached m))) ->
    (forall h p, In (h, p) (ms_cached m) ->
       exists x, find_leaf HO lay h = Some x /\ p = gp T (nrow x) (noff x)) ->
    (forall x, In x lay -> nroot x = true -> stored m (gp T (nrow x) (noff x))) ->
    (forall nd, needed_pos HO s R = Some nd -> forall p, In p nd -> In p (stored_min m)) ->
    consistent HO s R m.
  Proof.
    intros En En63 Hlo HT Htrue Hlive HR Hpos Hroots Hneed.
    (* first a forest that stores nothing beyond (i), (ii) and the roots: R = [] is consistent
       in the clauses we need below *)
    assert (Hc0 : consistent HO s [] (mkM (ms_nodes m) [] (ms_n m) T (ms_full m))).
    { constructor; cbn [ms_n ms_total ms_nodes ms_cached]; try assumption.
      - intros h [].
      - intros h. split; intros [].
      - intros h p [].
      - intros ts [= <-] x [].
      - intros ts [= <-] c []. }
    assert (Hmin : forall x, In x lay -> In (npos rows x) (stored_min m) ->
              stored m (gp T (nrow x) (noff x))).
    { intros x Hx Hin. unfold stored_min in Hin. apply in_map_iff in Hin as (k & Ek & Hk).
      apply in_map_iff in Hk as ([k' [h b]] & Ek' & Hk). cbn [fst] in Ek'. subst k'.
      destruct (Htrue _ _ _ Hk) as (r & o & -> & Hh).
      apply thash_some in Hh as (y & Hy & _). apply tnode_some in Hy as (Hyin & <- & <-).
      pose proof (translate_node H HO s [] _ Hc0 y Hyin) as Ety.
      cbn [ms_n ms_total] in Ety. rewrite Ety in Ek.
      rewrite <- (RefTheory.layout_npos_inj H HO s y x Hyin Hx Ek).
      unfold stored. intros E. apply (nodes_get_None H _ _ E).
      apply in_map_iff. eexists. split; [|exact Hk]. reflexivity. }
    assert (Hn63 : N.of_nat (length s) <= 2 ^ 63) by (rewrite (cs_len H HO s [] _ Hc0); exact En63).
    constructor; try assumption.
    - intros ts Hts x Hx.
      assert (Hxl : In x lay) by exact (proj1 (leaves_nodes H HO HOK s R ts Hts x Hx)).
      apply (Hmin x Hxl). apply (Hneed _ ltac:(unfold needed_pos; rewrite Hts; reflexivity)).
      rewrite RefTheory.sortN_In, RefTheory.dedupN_In, !in_app_iff. left. apply in_map, Hx.
    - intros ts Hts d Hd Hr.
      assert (Hlay : forall x, In x ts -> In x lay)
        by (intros x Hx; exact (proj1 (leaves_nodes H HO HOK s R ts Hts x Hx))).
      destruct (known_sib_node ts d Hn63 Hlay Hd Hr) as (sb & Hsb & Ec).
      rewrite <- Ec. cbn [fst snd]. apply (Hmin sb Hsb).
      apply (Hneed _ ltac:(unfold needed_pos; rewrite Hts; reflexivity)).
      rewrite RefTheory.sortN_In, RefTheory.dedupN_In, !in_app_iff. right. right.
      apply in_map_iff. exists (sib_coord d). split; [rewrite <- Ec; reflexivity|].
      apply in_flat_map. exists d. split; [exact Hd|]. rewrite Hr. left. reflexivity.
  Qed.
End Needed.

(** * 12. A decision procedure for consistency (sound), and a worked example *)
Section Decide.
  Variable H : Type.
  Variable HO : ops H.
  Hypothesis HOK : ops_ok HO.

  Definition storedb (m : mstate H) (p : N) : bool :=
    match nodes_get (ms_nodes m) p with Some _ => true | None => false end.

  Definition consistentb (s : slots H) (R : list H) (m : mstate H) : bool :=
    let lay := layout HO s in
    let T := ms_total m in
    (ms_n m =? num_leaves s) && (ms_n m <=? 2 ^ 63) && (TreeRows (ms_n m) <=? T) && (T <=? 63)
    && forallb (fun e : N * (H * bool) =>
                  existsb (fun x => (fst e =? gp T (nrow x) (noff x)) &&
                                    op_eqb HO (nhash x) (fst (snd e))) lay) (ms_nodes m)
    && forallb (fun h => existsb (fun o => match o with Some h' => op_eqb HO h' h | None => false end) s) R
    && forallb (fun h => memH HO h (map fst (ms_cached m))) R
    && forallb (fun e : H * N => memH HO (fst e) R) (ms_cached m)
    && forallb (fun e : H * N => match find_leaf HO lay (fst e) with
                                 | Some x => snd e =? gp T (nrow x) (noff x)
                                 | None => false end) (ms_cached m)
    && forallb (fun x => negb (nroot x) || storedb m (gp T (nrow x) (noff x))) lay
    && match find_leaves HO lay R with
       | None => true
       | Some ts =>
           forallb (fun x => storedb m (gp T (nrow x) (noff x))) ts &&
           forallb (fun c => is_root_coord lay c ||
                             storedb m (gp T (fst (sib_coord c)) (snd (sib_coord c))))
                   (known_set lay ts)
       end.

  Lemma storedb_stored m p : storedb m p = true -> stored m p.
  Proof. unfold storedb, stored. destruct (nodes_get (ms_nodes m) p); [discriminate|discriminate]. Qed.

  Theorem consistentb_sound s R m : consistentb s R m = true -> consistent HO s R m.
  Proof.
    unfold consistentb. cbv zeta. rewrite !Bool.andb_true_iff.
    intros ((((((((((En & En63) & Erows) & ET) & Etrue) & Elive) & ER1) & ER2) & Epos) & Eroots) & Eiii).
    rewrite forallb_forall in Etrue, Elive, ER1, ER2, Epos, Eroots.
    constructor.
    - apply N.eqb_eq, En.
    - apply N.leb_le, En63.
    - apply N.leb_le, Erows.
    - apply N.leb_le, ET.
    - intros p h b Hin. specialize (Etrue _ Hin). cbn [fst snd] in Etrue.
      apply existsb_exists in Etrue as (x & Hx & E). apply Bool.andb_true_iff in E as [E1 E2].
      apply N.eqb_eq in E1. apply HOK in E2. exists (nrow x), (noff x). split; [exact E1|].
      unfold thash. fold (tnode HO s (nrow x) (noff x)). rewrite (tnode_in H HO s x Hx).
      cbn [option_map]. congruence.
    - intros h Hh. specialize (Elive _ Hh). apply existsb_exists in Elive as ([h'|] & Hin & E);
        [|discriminate]. apply HOK in E. subst h'. exact Hin.
    - intros h. split.
      + intros Hh. apply (memH_In H HO HOK). exact (ER1 _ Hh).
      + intros Hh. apply in_map_iff in Hh as ([h' p] & <- & Hin).
        apply (memH_In H HO HOK). exact (ER2 _ Hin).
    - intros h p Hin. specialize (Epos _ Hin). cbn [fst snd] in Epos.
      destruct (find_leaf HO (layout HO s) h) as [x|]; [|discriminate].
      exists x. split; [reflexivity|]. apply N.eqb_eq, Epos.
    - intros x Hx Hr. specialize (Eroots _ Hx). rewrite Hr in Eroots. cbn [negb orb] in Eroots.
      apply storedb_stored, Eroots.
    - intros ts Hts x Hx. rewrite Hts in Eiii. apply Bool.andb_true_iff in Eiii as [E _].
      rewrite forallb_forall in E. apply storedb_stored, E, Hx.
    - intros ts Hts c Hc Hr. rewrite Hts in Eiii. apply Bool.andb_true_iff in Eiii as [_ E].
      rewrite forallb_forall in E. specialize (E _ Hc). rewrite Hr in E. apply storedb_stored, E.
  Qed.
End Decide.
Arguments storedb {H} m p.
Arguments consistentb {H} HO s R m.

(** Example: 7 slots (dead slots, an empty root), the forest allocated with 4 rows (minimum: 3),
    remembering the leaves [Atom 3] and [Atom 7]: the hypotheses of the theorems are satisfiable,
    and the theorems compute. *)
From Utreexo Require Import Spec.Term.

Definition mrs_ex_s : slots term :=
  [Some (Atom 1); None; Some (Atom 3); Some (Atom 4); None; None; Some (Atom 7)].
Definition mrs_ex_R : list term := [Atom 3; Atom 7].
Definition mrs_ex_m : mstate term :=
  mkM [(24, (Node (Atom 1) (Node (Atom 3) (Atom 4)), false)); (18, (Zero, false));
       (2, (Atom 3, true)); (6, (Atom 7, true)); (3, (Atom 4, false)); (16, (Atom 1, false))]
      [(Atom 3, 2); (Atom 7, 6)] 7 4 false.

Example mrs_ex_consistent : consistent term_ops mrs_ex_s mrs_ex_R mrs_ex_m.
Proof. apply (consistentb_sound term term_ops term_ops_ok). vm_compute. reflexivity. Qed.

(** dropping a needed sibling ([Atom 4] at position 3) breaks consistency, as does a wrong hash *)
Example mrs_ex_inconsistent :
  consistentb term_ops mrs_ex_s mrs_ex_R
    (mkM [(24, (Node (Atom 1) (Node (Atom 3) (Atom 4)), false)); (18, (Zero, false));
          (2, (Atom 3, true)); (6, (Atom 7, true)); (16, (Atom 1, false))]
         [(Atom 3, 2); (Atom 7, 6)] 7 4 false) = false /\
  consistentb term_ops mrs_ex_s mrs_ex_R
    (mkM [(24, (Node (Atom 1) (Node (Atom 3) (Atom 4)), false)); (18, (Zero, false));
          (2, (Atom 3, true)); (6, (Atom 7, true)); (3, (Atom 5, false)); (16, (Atom 1, false))]
         [(Atom 3, 2); (Atom 7, 6)] 7 4 false) = false.
Proof. split; vm_compute; reflexivity. Qed.

Example mrs_ex_roots : getRoots term_ops mrs_ex_m = roots term_ops mrs_ex_s.
Proof. exact (map_getroots term term_ops _ _ _ mrs_ex_consistent). Qed.

Example mrs_ex_prove :
  Prove term_ops mrs_ex_m [Atom 7; Atom 3] = Some ([6; 2], [Atom 4; Atom 1]) /\
  Prove term_ops mrs_ex_m [Atom 7; Atom 3] =
    exp_prove term_ops (mk_ctx term_ops mrs_ex_s) [Atom 7; Atom 3].
Proof.
  split; [vm_compute; reflexivity|].
  apply (map_prove_canonical term term_ops term_ops_ok _ _ _ mrs_ex_consistent).
  - intros h [<-|[<-|[]]]; cbn; auto.
  - repeat constructor; cbn; intuition discriminate.
Qed.

(** position 16 = (row 1, offset 0) in 4 rows is beyond the minimal geometry (positions 0..14):
    read in 4-row coordinates; position 8 = (1, 0) in 3 rows denotes the same node *)
Example mrs_ex_gethash :
  GetHash term_ops mrs_ex_m 16 = Atom 1 /\ GetHash term_ops mrs_ex_m 8 = Atom 1 /\
  GetHash term_ops mrs_ex_m 15 = Zero /\ GetHash term_ops mrs_ex_m 0 = Zero.
Proof. vm_compute. auto. Qed.

(** ([Properties/C09c.v] and [Properties/C10c.v] print the assumptions of every theorem) *)
Print Assumptions map_prove_canonical.
Print Assumptions map_gethash_dual.
Print Assumptions map_missing_oracle.
Print Assumptions consistent_intro_needed.
