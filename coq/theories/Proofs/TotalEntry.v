(** Totality of the verifier ENTRY POINTS (corollaries of Proofs/CalcTotal.v): for arbitrary untrusted
    (hashes, targets, proof) against any state with at most 2^63 leaves, the mirrors of Stump.Verify,
    Pollard.Verify, Stump.Update, MapPollard.verify and MapPollard.VerifyPartialProof return [Ok] or
    [Err] - never an index panic, never out of the loop's fuel (i.e. they terminate within the proved
    iteration bound). *)
From Utreexo Require Import Model.Verify Model.MapRead Proofs.CalcTotal.
From Coq Require Import Lia.
Open Scope N_scope.

Definition decided {A} (o : outcome A) : Prop := (exists v, o = Ok v) \/ o = Err.

Section TotalEntry.
  Variable H : Type.
  Variable HO : ops H.

  Theorem Verify_decided (s : stump H) hs ts pf : st_n s <= 2 ^ 63 ->
    decided (Verify HO true s hs ts pf).
  Proof.
    intros Hn. pose proof (Verify_no_panic H HO s hs ts pf) as Hp.
    pose proof (calc_no_out_of_fuel_gen H HO (st_n s) (Some hs) ts pf Hn) as Hf.
    unfold Verify in *.
    destruct (negb (Nat.eqb (length hs) (length ts))); [right; reflexivity|].
    destruct (true && (has_empty HO hs || has_empty HO pf))%bool; [right; reflexivity|].
    destruct (calculateHashes HO true (st_n s) (Some hs) ts pf) as [[[i c] r]| | |];
      [|right; reflexivity|contradiction|contradiction].
    destruct (Nat.eqb _ _); [left; eexists; reflexivity|right; reflexivity].
  Qed.

  Theorem PollardVerify_decided (s : stump H) hs ts pf : st_n s <= 2 ^ 63 ->
    decided (PollardVerify HO true s hs ts pf).
  Proof.
    intros Hn. pose proof (PollardVerify_no_panic H HO s hs ts pf) as Hp.
    pose proof (calc_no_out_of_fuel_gen H HO (st_n s) (Some hs) ts pf Hn) as Hf.
    unfold PollardVerify in *.
    destruct hs as [|h hs']; [left; eexists; reflexivity|].
    destruct (negb (Nat.eqb (length (h :: hs')) (length ts))); [right; reflexivity|].
    destruct (true && (has_empty HO (h :: hs') || has_empty HO pf))%bool; [right; reflexivity|].
    destruct (calculateHashes HO true (st_n s) (Some (h :: hs')) ts pf) as [[[i c] r]| | |];
      [|right; reflexivity|contradiction|contradiction].
    destruct c as [|c0 c']; [right; reflexivity|].
    cbv zeta. destruct (Nat.eqb _ _); [left; eexists; reflexivity|right; reflexivity].
  Qed.

  Theorem map_verify_decided (m : mstate H) hs ts pf : ms_n m <= 2 ^ 63 ->
    decided (map_verify HO m hs ts pf).
  Proof.
    intros Hn. unfold map_verify.
    assert (Hs : st_n (getStump HO m) <= 2 ^ 63) by exact Hn.
    destruct (TreeRows (ms_n m) =? ms_total m); [apply Verify_decided; exact Hs|].
    destruct (forallb _ ts); [apply Verify_decided; exact Hs|right; reflexivity].
  Qed.

  Theorem VerifyPartialProof_decided (m : mstate H) ts hs pf : ms_n m <= 2 ^ 63 ->
    decided (VerifyPartialProof HO m ts hs pf).
  Proof.
    intros Hn. unfold VerifyPartialProof.
    destruct (ProofPositions_fast _ _ _) as [pp c].
    destruct (fill_proof _ _ _); [apply map_verify_decided; exact Hn|right; reflexivity].
  Qed.
  Theorem stump_update_decided filler (s : stump H) dels adds ts pf : st_n s <= 2 ^ 63 ->
    decided (snd (stump_update HO true filler s dels adds ts pf)).
  Proof.
    intros Hn. pose proof (stump_update_no_panic H HO filler s dels adds ts pf) as Hp.
    pose proof (calc_no_out_of_fuel_gen H HO (st_n s) None ts pf Hn) as Hf2.
    destruct (Verify_decided s dels ts pf Hn) as [[idx Ev]|Ev];
      unfold stump_update, stump_del in *; rewrite Ev in *; [|right; reflexivity].
    destruct (calculateHashes HO true (st_n s) None ts pf) as [[[i c] r]| | |];
      [|right; reflexivity|exfalso; apply Hp; reflexivity|contradiction].
    destruct (negb (Nat.eqb (length c) (length idx))); [right; reflexivity|].
    destruct (write_roots (st_roots s) idx c); [|exfalso; apply Hp; reflexivity].
    destruct (stump_add HO true filler _ adds) as [[s2 added] destroyed].
    left. eexists. reflexivity.
  Qed.
End TotalEntry.
