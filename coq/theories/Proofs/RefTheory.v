(** Theory of the declarative reference forest (no implementation involved):
    - C09: what a partial forest must store lies within what it may store;
    - C06: observational equivalence of slot lists is a bisimulation for blocks;
    - C14: canonical proofs depend only on the SET of targets. *)
From Utreexo Require Import Spec.Forest Spec.Oracle Spec.Term Proofs.SpecBasics
  Proofs.AbstractModels Proofs.StumpAdd.
From Coq Require Import List Arith PeanoNat NArith Lia ZifyNat ZifyN ZifyBool Permutation.
Import ListNotations.
Local Open Scope nat_scope.

(** * Part 0: list utilities (sorting, de-duplication, coordinates) *)

Lemma memN_In x l : memN x l = true <-> In x l.
Proof.
  induction l as [|y l IH]; cbn [memN In]; [split; [discriminate|tauto]|].
  rewrite orb_true_iff, IH, N.eqb_eq. split; intros [E|E]; auto.
Qed.

Lemma dedupN_In x l : In x (dedupN l) <-> In x l.
Proof.
  induction l as [|y l IH]; cbn [dedupN In]; [tauto|].
  destruct (memN y l) eqn:E.
  - rewrite IH. apply memN_In in E. split; [tauto|]. intros [<-|Hx]; assumption.
  - cbn [In]. rewrite IH. tauto.
Qed.

Lemma insertN_In x y l : In x (insertN y l) <-> x = y \/ In x l.
Proof.
  induction l as [|z l IH]; cbn [insertN In]; [intuition|].
  destruct (N.leb y z); cbn [In]; [intuition|]. rewrite IH. intuition.
Qed.

Lemma sortN_In x l : In x (sortN l) <-> In x l.
Proof.
  unfold sortN. induction l as [|y l IH]; cbn [fold_right In]; [tauto|].
  rewrite insertN_In, IH. intuition.
Qed.

Section SortK.
  Context {A : Type}.

  Lemma insertK_perm (x : N * A) l : Permutation (insertK x l) (x :: l).
  Proof.
    induction l as [|y l IH]; cbn [insertK]; [apply Permutation_refl|].
    destruct (N.leb (fst x) (fst y)); [apply Permutation_refl|].
    eapply Permutation_trans; [apply perm_skip, IH|apply perm_swap].
  Qed.

  Lemma sortK_perm (l : list (N * A)) : Permutation (sortK l) l.
  Proof.
    unfold sortK. induction l as [|x l IH]; cbn [fold_right]; [apply Permutation_refl|].
    eapply Permutation_trans; [apply insertK_perm|apply perm_skip, IH].
  Qed.

  Lemma sortK_In (x : N * A) l : In x (sortK l) <-> In x l.
  Proof.
    split; apply Permutation_in; [apply sortK_perm|apply Permutation_sym, sortK_perm].
  Qed.

  (** strictly ascending keys *)
  Inductive sascK : list (N * A) -> Prop :=
  | sascK_nil : sascK []
  | sascK_cons x l : (forall y, In y l -> (fst x < fst y)%N) -> sascK l -> sascK (x :: l).

  Lemma ascK_tail (x : N * A) l : ascK (x :: l) -> ascK l.
  Proof. intros Ha. inversion Ha; subst; [constructor|assumption]. Qed.

  Lemma ascK_head_le (x : N * A) l : ascK (x :: l) -> forall y, In y l -> (fst x <= fst y)%N.
  Proof.
    revert x. induction l as [|z l IH]; intros x Ha y Hy; [destruct Hy|].
    inversion Ha as [| |x' z' l' Hxz Hzl]; subst.
    destruct Hy as [<-|Hy]; [exact Hxz|].
    pose proof (IH z Hzl y Hy). lia.
  Qed.

  Lemma asc_nodup_sasc (l : list (N * A)) : ascK l -> NoDup (map fst l) -> sascK l.
  Proof.
    induction l as [|x l IH]; intros Ha Hn; [constructor|].
    cbn [map] in Hn. inversion Hn as [|k ks Hnin Hnd]; subst.
    constructor; [|apply IH; [exact (ascK_tail _ _ Ha)|exact Hnd]].
    intros y Hy. pose proof (ascK_head_le _ _ Ha y Hy) as Hle.
    assert (fst x <> fst y); [|lia].
    intros E. apply Hnin. rewrite E. apply in_map, Hy.
  Qed.

  (** a strictly ascending list is determined by its set of elements *)
  Lemma sascK_ext (l1 : list (N * A)) : forall l2,
    sascK l1 -> sascK l2 -> (forall x, In x l1 <-> In x l2) -> l1 = l2.
  Proof.
    induction l1 as [|x l1 IH]; intros l2 H1 H2 Hs.
    - destruct l2 as [|y l2]; [reflexivity|]. exfalso. apply (Hs y). left. reflexivity.
    - destruct l2 as [|y l2]; [exfalso; apply (Hs x); left; reflexivity|].
      inversion H1 as [|x' l1' Hx1 Hl1]; subst. inversion H2 as [|y' l2' Hy2 Hl2]; subst.
      assert (Exy : x = y).
      { destruct (proj1 (Hs x) (or_introl eq_refl)) as [E|Hin]; [symmetry; exact E|].
        destruct (proj2 (Hs y) (or_introl eq_refl)) as [E|Hin']; [exact E|].
        pose proof (Hy2 x Hin). pose proof (Hx1 y Hin'). lia. }
      subst y. f_equal. apply IH; [assumption|assumption|].
      intros z. split; intros Hz.
      + destruct (proj1 (Hs z) (or_intror Hz)) as [E|Hin]; [|exact Hin].
        subst z. pose proof (Hx1 x Hz). lia.
      + destruct (proj2 (Hs z) (or_intror Hz)) as [E|Hin]; [|exact Hin].
        subst z. pose proof (Hy2 x Hz). lia.
  Qed.

  (** sorting two lists with the same elements and pairwise distinct keys gives EQUAL results *)
  Theorem sortK_set_unique (l1 l2 : list (N * A)) :
    NoDup (map fst l1) -> NoDup (map fst l2) -> (forall x, In x l1 <-> In x l2) ->
    sortK l1 = sortK l2.
  Proof.
    intros N1 N2 Hs. apply sascK_ext.
    - apply asc_nodup_sasc; [apply sortK_asc|].
      eapply Permutation_NoDup; [|exact N1]. apply Permutation_map, Permutation_sym, sortK_perm.
    - apply asc_nodup_sasc; [apply sortK_asc|].
      eapply Permutation_NoDup; [|exact N2]. apply Permutation_map, Permutation_sym, sortK_perm.
    - intros x. rewrite !sortK_In. apply Hs.
  Qed.
End SortK.

Section Coords.
  Variable H : Type.

  Lemma coord_eqb_eq (a b : nat * N) : coord_eqb a b = true <-> a = b.
  Proof.
    destruct a as [r o], b as [r' o']. unfold coord_eqb. cbn [fst snd].
    rewrite andb_true_iff, Nat.eqb_eq, N.eqb_eq. split; [intros [-> ->]; reflexivity|].
    intros [= -> ->]. split; reflexivity.
  Qed.

  Lemma mem_coord_In c l : mem_coord c l = true <-> In c l.
  Proof.
    induction l as [|x l IH]; cbn [mem_coord In]; [split; [discriminate|tauto]|].
    rewrite orb_true_iff, IH, coord_eqb_eq. split; intros [E|E]; auto.
  Qed.

  Lemma mem_coord_false c l : mem_coord c l = false <-> ~ In c l.
  Proof.
    rewrite <- mem_coord_In. destruct (mem_coord c l); split; try congruence; tauto.
  Qed.

  Lemma dedup_coord_In c l : In c (dedup_coord l) <-> In c l.
  Proof.
    induction l as [|x l IH]; cbn [dedup_coord In]; [tauto|].
    destruct (mem_coord x l) eqn:E.
    - rewrite IH. apply mem_coord_In in E. split; [tauto|]. intros [<-|Hx]; assumption.
    - cbn [In]. rewrite IH. tauto.
  Qed.

  Lemma dedup_coord_NoDup l : NoDup (dedup_coord l).
  Proof.
    induction l as [|x l IH]; cbn [dedup_coord]; [constructor|].
    destruct (mem_coord x l) eqn:E; [exact IH|].
    constructor; [|exact IH]. rewrite dedup_coord_In. apply mem_coord_false, E.
  Qed.

  Lemma path_up_head fuel (lay : list (node H)) r o tr : In (r, o) (path_up fuel lay r o tr).
  Proof. destruct fuel; left; reflexivity. Qed.

  (** [path_up] does not read the layout at all *)
  Lemma path_up_lay fuel (lay lay' : list (node H)) : forall r o tr,
    path_up fuel lay r o tr = path_up fuel lay' r o tr.
  Proof.
    induction fuel as [|f IH]; intros r o tr; cbn [path_up]; [reflexivity|].
    destruct (r <? tr); [rewrite IH|]; reflexivity.
  Qed.

  Lemma known_set_In (lay ts : list (node H)) c :
    In c (known_set lay ts) <->
    exists x, In x ts /\ In c (path_up 64 lay (nrow x) (noff x) (ntree x)).
  Proof. unfold known_set. rewrite dedup_coord_In, in_flat_map. tauto. Qed.

  Lemma known_set_target (lay ts : list (node H)) x :
    In x ts -> In (nrow x, noff x) (known_set lay ts).
  Proof. intros Hx. apply known_set_In. exists x. split; [exact Hx|apply path_up_head]. Qed.

  (** the proof coordinates: siblings of non-root known coordinates that are not known *)
  Lemma proof_coords_In (lay ts : list (node H)) c :
    In c (proof_coords lay ts) <->
    exists d, In d (known_set lay ts) /\ is_root_coord lay d = false /\
              ~ In (sib_coord d) (known_set lay ts) /\ c = sib_coord d.
  Proof.
    unfold proof_coords. rewrite dedup_coord_In, in_flat_map. split.
    - intros (d & Hd & Hc). exists d. split; [exact Hd|].
      destruct (is_root_coord lay d); [destruct Hc|].
      destruct (mem_coord (sib_coord d) (known_set lay ts)) eqn:E; [destruct Hc|].
      destruct Hc as [<-|[]]. split; [reflexivity|]. split; [|reflexivity].
      apply mem_coord_false, E.
    - intros (d & Hd & Hr & Hn & ->). exists d. split; [exact Hd|]. rewrite Hr.
      apply mem_coord_false in Hn. rewrite Hn. left. reflexivity.
  Qed.

  Lemma proof_coords_NoDup (lay ts : list (node H)) : NoDup (proof_coords lay ts).
  Proof. apply dedup_coord_NoDup. Qed.

  Lemma sort_coords_In rows (l : list (nat * N)) e :
    In e (sort_coords rows l) <-> exists c, In c l /\ e = (pos rows (fst c) (snd c), c).
  Proof.
    unfold sort_coords. rewrite sortK_In, in_map_iff. split; intros (c & A & B); exists c; auto.
  Qed.

  Lemma canon_proof_pos_In rows (lay ts : list (node H)) p :
    In p (canon_proof_pos rows lay ts) <->
    exists c, In c (proof_coords lay ts) /\ p = pos rows (fst c) (snd c).
  Proof.
    unfold canon_proof_pos. rewrite in_map_iff. split.
    - intros (e & <- & He). apply sort_coords_In in He as (c & Hc & ->). exists c. auto.
    - intros (c & Hc & ->). exists (pos rows (fst c) (snd c), c). split; [reflexivity|].
      apply sort_coords_In. exists c. auto.
  Qed.
End Coords.

(** * Part 1 (C09): needed positions lie within allowed positions *)
Section Needed.
  Variable H : Type.
  Variable HO : ops H.

  Theorem needed_sub_allowed (s : slots H) (R : list H) nd al :
    needed_pos HO s R = Some nd -> allowed_pos HO s R = Some al ->
    forall p, In p nd -> In p al.
  Proof.
    unfold needed_pos, allowed_pos.
    destruct (find_leaves HO (layout HO s) R) as [ts|]; [|discriminate].
    intros [= <-] [= <-] p. rewrite !sortN_In, !dedupN_In, !in_app_iff.
    set (rows := rows_of (num_leaves s)). set (lay := layout HO s).
    intros [Hp|[Hp|Hp]].
    - (* a target *)
      right. left. apply in_map_iff in Hp as (x & <- & Hx).
      apply in_map_iff. exists (nrow x, noff x). split; [reflexivity|].
      apply known_set_target, Hx.
    - (* a proof position *)
      right. right. apply canon_proof_pos_In in Hp as (c & Hc & ->).
      apply in_map_iff. exists c. split; [reflexivity|].
      apply proof_coords_In in Hc as (d & Hd & Hr & _ & ->).
      apply in_flat_map. exists d. split; [exact Hd|]. rewrite Hr. left. reflexivity.
    - right. right. exact Hp.
  Qed.
End Needed.

(** * Part 2 (C06): observational equivalence is a bisimulation *)
Section Equiv.
  Variable H : Type.
  Variable HO : ops H.
  Notation entry := (nat * N * option (ctree H))%type.

  (** same leaf count and the same compressed trees *)
  Definition equiv (s s' : slots H) : Prop :=
    length s = length s' /\ forest HO s = forest HO s'.

  Lemma equiv_refl s : equiv s s.
  Proof. split; reflexivity. Qed.
  Lemma equiv_sym s s' : equiv s s' -> equiv s' s.
  Proof. intros [A B]. split; symmetry; assumption. Qed.
  Lemma equiv_trans s1 s2 s3 : equiv s1 s2 -> equiv s2 s3 -> equiv s1 s3.
  Proof. intros [A B] [C D]. split; etransitivity; eassumption. Qed.

  (** ** 1a: everything observable is a function of the equivalence class *)
  Theorem equiv_num_leaves s s' : equiv s s' -> num_leaves s = num_leaves s'.
  Proof. intros [A _]. unfold num_leaves. rewrite A. reflexivity. Qed.
  Theorem equiv_roots s s' : equiv s s' -> roots HO s = roots HO s'.
  Proof. intros [_ B]. unfold roots. rewrite B. reflexivity. Qed.
  Theorem equiv_layout s s' : equiv s s' -> layout HO s = layout HO s'.
  Proof. intros [_ B]. unfold layout. rewrite B. reflexivity. Qed.
  Theorem equiv_prove s s' hs : equiv s s' -> prove HO s hs = prove HO s' hs.
  Proof.
    intros E. unfold prove. rewrite (equiv_layout _ _ E), (equiv_num_leaves _ _ E). reflexivity.
  Qed.
  Theorem equiv_leaf_pos s s' h : equiv s s' ->
    leaf_pos HO (rows_of (num_leaves s)) (layout HO s) h =
    leaf_pos HO (rows_of (num_leaves s')) (layout HO s') h.
  Proof. intros E. rewrite (equiv_layout _ _ E), (equiv_num_leaves _ _ E). reflexivity. Qed.
  Theorem equiv_hash_at s s' p : equiv s s' ->
    hash_at HO (rows_of (num_leaves s)) (layout HO s) p =
    hash_at HO (rows_of (num_leaves s')) (layout HO s') p.
  Proof. intros E. rewrite (equiv_layout _ _ E), (equiv_num_leaves _ _ E). reflexivity. Qed.
  Theorem equiv_needed s s' R : equiv s s' -> needed_pos HO s R = needed_pos HO s' R.
  Proof.
    intros E. unfold needed_pos. rewrite (equiv_layout _ _ E), (equiv_num_leaves _ _ E). reflexivity.
  Qed.
  Theorem equiv_allowed s s' R : equiv s s' -> allowed_pos HO s R = allowed_pos HO s' R.
  Proof.
    intros E. unfold allowed_pos. rewrite (equiv_layout _ _ E), (equiv_num_leaves _ _ E). reflexivity.
  Qed.
  Theorem equiv_new_del s s' dels : equiv s s' -> new_del HO s dels = new_del HO s' dels.
  Proof.
    intros E. unfold new_del. rewrite (proj2 E), (equiv_num_leaves _ _ E). reflexivity.
  Qed.

  (** the live leaves are the leaves of the compressed trees, in order *)
  Fixpoint leaves_of (t : ctree H) : list H :=
    match t with CLeaf h => [h] | CNode _ l r => leaves_of l ++ leaves_of r end.
  Definition oleaves (t : option (ctree H)) : list H :=
    match t with None => [] | Some c => leaves_of c end.
  Definition entry_leaves (e : entry) : list H := oleaves (snd e).

  Lemma oleaves_join a b : oleaves (join HO a b) = oleaves a ++ oleaves b.
  Proof.
    destruct a as [l|], b as [r|]; cbn [join oleaves leaves_of app]; try reflexivity.
    symmetry. apply app_nil_r.
  Qed.

  Lemma live_app (a b : slots H) : live (a ++ b) = live a ++ live b.
  Proof. unfold live. apply flat_map_app. Qed.

  Lemma firstn_add {A} a b (l : list A) : firstn (a + b) l = firstn a l ++ firstn b (skipn a l).
  Proof.
    revert l. induction a as [|a IH]; intros l; [reflexivity|].
    destruct l as [|x l]; cbn [Nat.add firstn skipn app]; [rewrite firstn_nil; reflexivity|].
    rewrite IH. reflexivity.
  Qed.

  Lemma pow2_S k : 2 ^ S k = 2 ^ k + 2 ^ k.
  Proof. rewrite Nat.pow_succ_r'. lia. Qed.

  Lemma compress_leaves k : forall seg, oleaves (compress HO k seg) = live (firstn (2 ^ k) seg).
  Proof.
    induction k as [|k IH]; intros seg.
    - change (2 ^ 0) with 1. destruct seg as [|[h|] seg]; reflexivity.
    - rewrite compress_S, oleaves_join, !IH, firstn_firstn, Nat.min_id, pow2_S, firstn_add, live_app.
      reflexivity.
  Qed.

  Lemma trees_leaves k : forall lo s, length s < 2 ^ S k ->
    flat_map entry_leaves (trees HO k lo s) = live s.
  Proof.
    induction k as [|k IH]; intros lo s Hlt.
    - change (2 ^ 1) with 2 in Hlt. rewrite trees_0.
      destruct s as [|x [|y s]]; cbn [length] in Hlt; [reflexivity| |lia].
      cbn [length Nat.leb flat_map]. unfold entry_leaves. cbn [snd]. rewrite compress_leaves.
      rewrite app_nil_r. reflexivity.
    - rewrite trees_S. destruct (Nat.leb_spec (2 ^ S k) (length s)) as [Hge|Hsmall].
      + cbn [flat_map]. unfold entry_leaves at 1. cbn [snd].
        rewrite compress_leaves, firstn_firstn, Nat.min_id, IH.
        * rewrite <- live_app, firstn_skipn. reflexivity.
        * rewrite skipn_length. rewrite (pow2_S (S k)) in Hlt. lia.
      + apply IH, Hsmall.
  Qed.

  Lemma length_lt_log2 (s : slots H) : length s < 2 ^ S (Nat.log2 (length s)).
  Proof.
    destruct (Nat.eq_dec (length s) 0) as [E|E].
    - rewrite E. change (Nat.log2 0) with 0. change (2 ^ 1) with 2. lia.
    - apply Nat.log2_spec. lia.
  Qed.

  Theorem forest_leaves s : flat_map entry_leaves (forest HO s) = live s.
  Proof. unfold forest. apply trees_leaves, length_lt_log2. Qed.

  Theorem equiv_live_eq s s' : equiv s s' -> live s = live s'.
  Proof. intros [_ B]. rewrite <- !forest_leaves, B. reflexivity. Qed.
  Theorem equiv_live s s' : equiv s s' -> Permutation (live s) (live s').
  Proof. intros E. rewrite (equiv_live_eq _ _ E). apply Permutation_refl. Qed.

  (** ** 1b (i): deleting commutes with compression *)
  Fixpoint prune (dels : list H) (t : ctree H) : option (ctree H) :=
    match t with
    | CLeaf h => if memH HO h dels then None else Some (CLeaf h)
    | CNode _ l r => join HO (prune dels l) (prune dels r)
    end.
  Definition oprune (dels : list H) (t : option (ctree H)) : option (ctree H) :=
    match t with None => None | Some c => prune dels c end.
  Definition prune_entry (dels : list H) (e : entry) : entry :=
    (fst (fst e), snd (fst e), oprune dels (snd e)).

  Lemma oprune_join dels a b :
    oprune dels (join HO a b) = join HO (oprune dels a) (oprune dels b).
  Proof.
    destruct a as [l|], b as [r|]; cbn [join oprune prune]; try reflexivity.
    destruct (prune dels l); reflexivity.
  Qed.

  Lemma firstn_kill dels n (s : slots H) : firstn n (kill HO dels s) = kill HO dels (firstn n s).
  Proof. unfold kill. apply firstn_map. Qed.
  Lemma skipn_kill dels n (s : slots H) : skipn n (kill HO dels s) = kill HO dels (skipn n s).
  Proof. unfold kill. apply skipn_map. Qed.

  Theorem compress_kill dels k : forall seg,
    compress HO k (kill HO dels seg) = oprune dels (compress HO k seg).
  Proof.
    induction k as [|k IH]; intros seg.
    - destruct seg as [|[h|] seg]; cbn [kill map compress oprune prune]; try reflexivity.
      destruct (memH HO h dels); reflexivity.
    - rewrite !compress_S, firstn_kill, skipn_kill, !IH, oprune_join. reflexivity.
  Qed.

  Lemma trees_kill dels k : forall lo s,
    trees HO k lo (kill HO dels s) = map (prune_entry dels) (trees HO k lo s).
  Proof.
    induction k as [|k IH]; intros lo s.
    - rewrite !trees_0, length_kill. destruct (1 <=? length s); [|reflexivity].
      cbn [map]. unfold prune_entry. cbn [fst snd]. rewrite firstn_kill, compress_kill. reflexivity.
    - rewrite !trees_S, length_kill. destruct (2 ^ S k <=? length s); [|apply IH].
      cbn [map]. unfold prune_entry at 1. cbn [fst snd].
      rewrite firstn_kill, compress_kill, skipn_kill, IH. reflexivity.
  Qed.

  (** the forest after deletions is a function of the forest before *)
  Theorem forest_kill dels s : forest HO (kill HO dels s) = map (prune_entry dels) (forest HO s).
  Proof. unfold forest. rewrite length_kill. apply trees_kill. Qed.

  Theorem equiv_kill dels s s' : equiv s s' -> equiv (kill HO dels s) (kill HO dels s').
  Proof.
    intros [A B]. split; [rewrite !length_kill; exact A|]. rewrite !forest_kill, B. reflexivity.
  Qed.

  (** ** 1b (ii): appending reads only the forest and the leaf count *)
  Theorem equiv_snoc s s' x : equiv s s' -> equiv (s ++ [x]) (s' ++ [x]).
  Proof.
    intros [A B]. split; [rewrite !app_length, A; reflexivity|].
    pose proof (forest_snoc H HO s x) as F1. pose proof (forest_snoc H HO s' x) as F2.
    cbv zeta in F1, F2. rewrite A, B in F1. rewrite <- F2 in F1.
    apply (f_equal (@rev _)) in F1. rewrite !rev_involutive in F1. exact F1.
  Qed.

  Theorem equiv_app l : forall s s', equiv s s' -> equiv (s ++ l) (s' ++ l).
  Proof.
    induction l as [|x l IH]; intros s s' E; [rewrite !app_nil_r; exact E|].
    change (x :: l) with ([x] ++ l). rewrite !app_assoc. apply IH, equiv_snoc, E.
  Qed.

  (** ** 1b: the bisimulation *)
  Theorem equiv_bisim s s' dels adds :
    equiv s s' -> equiv (apply_block HO s dels adds) (apply_block HO s' dels adds).
  Proof. intros E. unfold apply_block. apply equiv_app, equiv_kill, E. Qed.

  (** ** 1c: equivalent states stay equivalent under every further list of blocks *)
  Theorem equiv_blocks bs : forall s s',
    equiv s s' -> equiv (apply_blocks HO s bs) (apply_blocks HO s' bs).
  Proof.
    induction bs as [|[d a] bs IH]; intros s s' E; cbn [apply_blocks]; [exact E|].
    apply IH, equiv_bisim, E.
  Qed.

  (** whatever state [s0] an undo of the block [(dels, adds)] produces, as long as it is
      equivalent to what the exact reference undo produces (which is the pre-block state), every
      further list of blocks - the same or different ones - behaves exactly as if the undone block
      had never been applied *)
  Theorem undo_equiv s dels adds s0 bs :
    equiv s0 (spec_undo (apply_block HO s dels adds) (length adds) (dead_slots HO 0 dels s)) ->
    equiv (apply_blocks HO s0 bs) (apply_blocks HO s bs).
  Proof. rewrite spec_undo_inverse. apply equiv_blocks. Qed.

  (** to any depth *)
  Theorem undo_equiv_depth s ubs s0 bs :
    equiv s0 (undo_blocks HO s ubs (apply_blocks HO s ubs)) ->
    equiv (apply_blocks HO s0 bs) (apply_blocks HO s bs).
  Proof. rewrite spec_undo_depth. apply equiv_blocks. Qed.
End Equiv.

(** * Part 3 (C14): canonical proofs depend only on the set of targets *)
Section Canon.
  Variable H : Type.
  Variable HO : ops H.
  Notation node := (node H).

  Definition same_set {A} (l l' : list A) : Prop := forall x, In x l <-> In x l'.

  Lemma perm_same_set {A} (l l' : list A) : Permutation l l' -> same_set l l'.
  Proof.
    intros P x. split; apply Permutation_in; [exact P|apply Permutation_sym, P].
  Qed.

  Lemma known_set_ext (lay ts ts' : list node) :
    same_set ts ts' -> same_set (known_set lay ts) (known_set lay ts').
  Proof.
    intros Hs c. rewrite !known_set_In.
    split; intros (x & Hx & Hc); exists x; (split; [apply Hs, Hx|exact Hc]).
  Qed.

  Theorem proof_coords_ext (lay ts ts' : list node) :
    same_set ts ts' -> same_set (proof_coords lay ts) (proof_coords lay ts').
  Proof.
    intros Hs c. rewrite !proof_coords_In. pose proof (known_set_ext lay ts ts' Hs) as HK.
    split; intros (d & Hd & Hr & Hn & Hc); exists d;
      (split; [apply HK, Hd|]; split; [exact Hr|]; split; [|exact Hc]);
      intros Hin; apply Hn, HK, Hin.
  Qed.

  Theorem proof_coords_perm (lay ts ts' : list node) :
    Permutation ts ts' -> forall c, In c (proof_coords lay ts) <-> In c (proof_coords lay ts').
  Proof. intros P. apply proof_coords_ext, perm_same_set, P. Qed.

  Lemma NoDup_map_inj_on {A B} (f : A -> B) (l : list A) :
    NoDup l -> (forall x y, In x l -> In y l -> f x = f y -> x = y) -> NoDup (map f l).
  Proof.
    induction l as [|a l IH]; intros Hn Hi; cbn [map]; [constructor|].
    inversion Hn as [|a' l' Hnin Hnd]; subst. constructor.
    - intros Hin. apply in_map_iff in Hin as (y & Hy & Hyl).
      apply Hnin. rewrite (Hi a y); [exact Hyl|left; reflexivity|right; exact Hyl|symmetry; exact Hy].
    - apply IH; [exact Hnd|]. intros x y Hx Hy. apply Hi; right; assumption.
  Qed.

  (** positions of a coordinate list pairwise distinct *)
  Definition pos_inj_on (rows : nat) (l : list (nat * N)) : Prop :=
    forall c d, In c l -> In d l ->
                pos rows (fst c) (snd c) = pos rows (fst d) (snd d) -> c = d.

  Theorem sort_coords_ext rows (l l' : list (nat * N)) :
    NoDup l -> NoDup l' -> pos_inj_on rows l -> same_set l l' ->
    sort_coords rows l = sort_coords rows l'.
  Proof.
    intros N1 N2 Hi Hs. unfold sort_coords. apply sortK_set_unique.
    - rewrite map_map. cbn [fst]. apply NoDup_map_inj_on; assumption.
    - rewrite map_map. cbn [fst]. apply NoDup_map_inj_on; [exact N2|].
      intros c d Hc Hd. apply Hi; apply Hs; assumption.
    - intros e. rewrite !in_map_iff.
      split; intros (c & Hc & Hin); exists c; (split; [exact Hc|apply Hs, Hin]).
  Qed.

  (** the canonical proof is a function of the target SET *)
  Theorem canon_unique_set rows (lay ts ts' : list node) :
    same_set ts ts' -> pos_inj_on rows (proof_coords lay ts) ->
    canon_proof_pos rows lay ts = canon_proof_pos rows lay ts' /\
    canon_proof_hashes HO rows lay ts = canon_proof_hashes HO rows lay ts'.
  Proof.
    intros Hs Hi. unfold canon_proof_pos, canon_proof_hashes.
    rewrite (sort_coords_ext rows (proof_coords lay ts) (proof_coords lay ts')).
    - split; reflexivity.
    - apply proof_coords_NoDup.
    - apply proof_coords_NoDup.
    - exact Hi.
    - apply proof_coords_ext, Hs.
  Qed.

  Theorem canon_unique rows (lay ts ts' : list node) :
    Permutation ts ts' -> pos_inj_on rows (proof_coords lay ts) ->
    canon_proof_pos rows lay ts = canon_proof_pos rows lay ts' /\
    canon_proof_hashes HO rows lay ts = canon_proof_hashes HO rows lay ts'.
  Proof. intros P. apply canon_unique_set, perm_same_set, P. Qed.

  (** ** cached proofs *)
  Hypothesis HOK : ops_ok HO.

  Lemma find_leaves_cons lay h t ts :
    find_leaves HO lay (h :: t) = Some ts <->
    exists x xs, find_leaf HO lay h = Some x /\ find_leaves HO lay t = Some xs /\ ts = x :: xs.
  Proof.
    cbn [find_leaves]. destruct (find_leaf HO lay h) as [x|]; [|split; [discriminate|]].
    - destruct (find_leaves HO lay t) as [xs|]; [|split; [discriminate|]].
      + split; [intros [= <-]; eauto|]. intros (x' & xs' & [= <-] & [= <-] & ->). reflexivity.
      + intros (x' & xs' & _ & E & _). discriminate.
    - intros (x' & xs' & E & _). discriminate.
  Qed.

  Lemma find_leaves_hashes lay : forall hs ts,
    find_leaves HO lay hs = Some ts -> map (@nhash H) ts = hs.
  Proof.
    induction hs as [|h hs IH]; intros ts Hf; [injection Hf as <-; reflexivity|].
    apply find_leaves_cons in Hf as (x & xs & Hx & Hxs & ->). cbn [map].
    rewrite (IH xs Hxs). destruct (find_leaf_spec H HO HOK _ _ _ Hx) as (_ & _ & ->). reflexivity.
  Qed.

  Lemma find_leaves_In lay : forall hs ts, find_leaves HO lay hs = Some ts ->
    forall x, In x ts <-> exists h, In h hs /\ find_leaf HO lay h = Some x.
  Proof.
    induction hs as [|h hs IH]; intros ts Hf x.
    - injection Hf as <-. split; [intros []|intros (h & [] & _)].
    - apply find_leaves_cons in Hf as (y & ys & Hy & Hys & ->). cbn [In]. rewrite (IH ys Hys).
      split.
      + intros [<-|(h' & Hh' & Hx)]; [exists h; auto|exists h'; auto].
      + intros (h' & [<-|Hh'] & Hx); [left; congruence|right; exists h'; auto].
  Qed.

  Lemma find_leaves_perm lay hs hs' : Permutation hs hs' -> forall ts,
    find_leaves HO lay hs = Some ts ->
    exists ts', find_leaves HO lay hs' = Some ts' /\ Permutation ts ts'.
  Proof.
    induction 1 as [|h l l' P IH|a b l|l1 l2 l3 P1 IH1 P2 IH2]; intros ts Hf.
    - exists ts. split; [exact Hf|apply Permutation_refl].
    - apply find_leaves_cons in Hf as (x & xs & Hx & Hxs & ->).
      destruct (IH xs Hxs) as (xs' & Hxs' & Pxs). exists (x :: xs'). split.
      + apply find_leaves_cons. eauto.
      + apply perm_skip, Pxs.
    - apply find_leaves_cons in Hf as (x & xs & Hx & Hxs & ->).
      apply find_leaves_cons in Hxs as (y & ys & Hy & Hys & ->).
      exists (y :: x :: ys). split; [|apply perm_swap].
      apply find_leaves_cons. exists y, (x :: ys). split; [exact Hy|]. split; [|reflexivity].
      apply find_leaves_cons. eauto.
    - destruct (IH1 ts Hf) as (ts2 & H2 & Q1). destruct (IH2 ts2 H2) as (ts3 & H3 & Q2).
      exists ts3. split; [exact H3|]. eapply Permutation_trans; eassumption.
  Qed.

  Lemma find_leaves_NoDup lay hs ts :
    NoDup hs -> find_leaves HO lay hs = Some ts -> NoDup ts.
  Proof.
    intros Hn Hf. apply (NoDup_map_inv (@nhash H)). rewrite (find_leaves_hashes _ _ _ Hf). exact Hn.
  Qed.

  (** targets sorted by position: a function of the target set when positions are distinct *)
  Definition npos_inj_on (rows : nat) (l : list node) : Prop :=
    forall x y, In x l -> In y l -> npos rows x = npos rows y -> x = y.

  Lemma sort_targets_perm rows (ts ts' : list node) :
    NoDup ts -> Permutation ts ts' -> npos_inj_on rows ts ->
    sortK (map (fun x => (npos rows x, x)) ts) = sortK (map (fun x => (npos rows x, x)) ts').
  Proof.
    intros Hn P Hi. apply sortK_set_unique.
    - rewrite map_map. cbn [fst]. apply NoDup_map_inj_on; assumption.
    - rewrite map_map. cbn [fst]. apply NoDup_map_inj_on.
      + eapply Permutation_NoDup; eassumption.
      + intros x y Hx Hy. apply Hi; (eapply Permutation_in; [apply Permutation_sym, P|]); assumption.
    - intros e. rewrite !in_map_iff. pose proof (perm_same_set _ _ P) as Hs.
      split; intros (c & Hc & Hin); exists c; (split; [exact Hc|apply Hs, Hin]).
  Qed.

  (** the cached proof of a leaf set does not depend on the order the set is given in:
      leaf hashes pairwise distinct, positions of the (leaf) nodes of the layout pairwise distinct *)
  Theorem exp_cached_perm (c : ctx H) (set set' : list H) :
    Permutation set set' -> NoDup set ->
    (forall x y, In x (clay c) -> In y (clay c) -> nleaf x = true -> nleaf y = true ->
                 npos (crows c) x = npos (crows c) y -> x = y) ->
    exp_cached HO c set = exp_cached HO c set'.
  Proof.
    intros P Hn Hi. unfold exp_cached.
    destruct (find_leaves HO (clay c) set) as [ts|] eqn:E.
    - destruct (find_leaves_perm (clay c) _ _ P ts E) as (ts' & E' & Pt). rewrite E'.
      rewrite (sort_targets_perm (crows c) ts ts'); [reflexivity| |exact Pt|].
      + exact (find_leaves_NoDup _ _ _ Hn E).
      + intros x y Hx Hy.
        apply (find_leaves_In _ _ _ E) in Hx as (hx & _ & Hx).
        apply (find_leaves_In _ _ _ E) in Hy as (hy & _ & Hy).
        destruct (find_leaf_spec H HO HOK _ _ _ Hx) as (Ax & Bx & _).
        destruct (find_leaf_spec H HO HOK _ _ _ Hy) as (Ay & By & _).
        apply Hi; assumption.
    - destruct (find_leaves HO (clay c) set') as [ts'|] eqn:E'; [|reflexivity].
      destruct (find_leaves_perm (clay c) _ _ (Permutation_sym P) ts' E') as (ts & Ets & _).
      congruence.
  Qed.
End Canon.
