(** Theory of the declarative reference forest (no implementation involved):
    - Part 1 (C09): what a partial forest must store lies within what it may store
      ([needed_sub_allowed]); Part 4: remembering more never needs less ([needed_mono]);
    - Part 2 (C06): observational equivalence [equiv] of slot lists (same leaf count, same
      compressed trees) is a bisimulation for blocks ([equiv_bisim], [equiv_blocks], [undo_equiv]);
      every observable is a function of the class;
    - Part 3 (C14): canonical proofs depend only on the SET of targets ([canon_unique],
      [exp_cached_perm]);
    - Parts 5, 6: geometry of the layout of a state: coordinates and positions identify nodes
      ([layout_coord_inj], [layout_npos_inj], [proof_coords_pos_inj]), hence Part 3 without
      distinctness hypotheses for actual states ([canon_unique_state], [exp_cached_perm_state],
      [prove_perm]);
    - Parts 7, 8 (C06): the class-level undo.  The compressed forest before a block is a function
      of the forest after it, the number of additions, the rows and emptiness of the roots after
      the deletions and the coordinates and hashes of the deleted leaves ([forest_graft],
      [unsadd_sadd], [class_undo_spec], [block_class_injective]). *)
From Utreexo Require Import Spec.Forest Spec.Oracle Spec.Term Proofs.SpecBasics
  Proofs.AbstractModels Proofs.StumpAdd.
From Utreexo Require Proofs.UtilsGeom Proofs.UtilsGeom2.
From Coq Require Import List Arith PeanoNat NArith Lia ZifyNat ZifyN ZifyBool Permutation.
Import ListNotations.
Local Open Scope nat_scope.

(** * Part 0: list utilities (sorting, de-duplication, coordinates) *)

Lemma memN_In x l : memN x l = true <-> In x l.
Proof.
  induction l as [|y l IH]; cbn [memN In]; [split; [discriminate|tauto]|].
  rewrite orb_true_iff, IH, N.eqb_eq. split; intros [E|E]; auto.
Qed.

Lemma dedupN_In x l : In x (dedupN l) <-> In x l.
Proof.
  induction l as [|y l IH]; cbn [dedupN In]; [tauto|].
  destruct (memN y l) eqn:E.
  - rewrite IH. apply memN_In in E. split; [tauto|]. intros [<-|Hx]; assumption.
  - cbn [In]. rewrite IH. tauto.
Qed.

Lemma insertN_In x y l : In x (insertN y l) <-> x = y \/ In x l.
Proof.
  induction l as [|z l IH]; cbn [insertN In]; [intuition|].
  destruct (N.leb y z); cbn [In]; [intuition|]. rewrite IH. intuition.
Qed.

Lemma sortN_In x l : In x (sortN l) <-> In x l.
Proof.
  unfold sortN. induction l as [|y l IH]; cbn [fold_right In]; [tauto|].
  rewrite insertN_In, IH. intuition.
Qed.

Section SortK.
  Context {A : Type}.

  Lemma insertK_perm (x : N * A) l : Permutation (insertK x l) (x :: l).
  Proof.
    induction l as [|y l IH]; cbn [insertK]; [apply Permutation_refl|].
    destruct (N.leb (fst x) (fst y)); [apply Permutation_refl|].
    eapply Permutation_trans; [apply perm_skip, IH|apply perm_swap].
  Qed.

  Lemma sortK_perm (l : list (N * A)) : Permutation (sortK l) l.
  Proof.
    unfold sortK. induction l as [|x l IH]; cbn [fold_right]; [apply Permutation_refl|].
    eapply Permutation_trans; [apply insertK_perm|apply perm_skip, IH].
  Qed.

  Lemma sortK_In (x : N * A) l : In x (sortK l) <-> In x l.
  Proof.
    split; apply Permutation_in; [apply sortK_perm|apply Permutation_sym, sortK_perm].
  Qed.

  (** strictly ascending keys *)
  Inductive sascK : list (N * A) -> Prop :=
  | sascK_nil : sascK []
  | sascK_cons x l : (forall y, In y l -> (fst x < fst y)%N) -> sascK l -> sascK (x :: l).

  Lemma ascK_tail (x : N * A) l : ascK (x :: l) -> ascK l.
  Proof. intros Ha. inversion Ha; subst; [constructor|assumption]. Qed.

  Lemma ascK_head_le (x : N * A) l : ascK (x :: l) -> forall y, In y l -> (fst x <= fst y)%N.
  Proof.
    revert x. induction l as [|z l IH]; intros x Ha y Hy; [destruct Hy|].
    inversion Ha as [| |x' z' l' Hxz Hzl]; subst.
    destruct Hy as [<-|Hy]; [exact Hxz|].
    pose proof (IH z Hzl y Hy). lia.
  Qed.

  Lemma asc_nodup_sasc (l : list (N * A)) : ascK l -> NoDup (map fst l) -> sascK l.
  Proof.
    induction l as [|x l IH]; intros Ha Hn; [constructor|].
    cbn [map] in Hn. inversion Hn as [|k ks Hnin Hnd]; subst.
    constructor; [|apply IH; [exact (ascK_tail _ _ Ha)|exact Hnd]].
    intros y Hy. pose proof (ascK_head_le _ _ Ha y Hy) as Hle.
    assert (fst x <> fst y); [|lia].
    intros E. apply Hnin. rewrite E. apply in_map, Hy.
  Qed.

  (** a strictly ascending list is determined by its set of elements *)
  Lemma sascK_ext (l1 : list (N * A)) : forall l2,
    sascK l1 -> sascK l2 -> (forall x, In x l1 <-> In x l2) -> l1 = l2.
  Proof.
    induction l1 as [|x l1 IH]; intros l2 H1 H2 Hs.
    - destruct l2 as [|y l2]; [reflexivity|]. exfalso. apply (Hs y). left. reflexivity.
    - destruct l2 as [|y l2]; [exfalso; apply (Hs x); left; reflexivity|].
      inversion H1 as [|x' l1' Hx1 Hl1]; subst. inversion H2 as [|y' l2' Hy2 Hl2]; subst.
      assert (Exy : x = y).
      { destruct (proj1 (Hs x) (or_introl eq_refl)) as [E|Hin]; [symmetry; exact E|].
        destruct (proj2 (Hs y) (or_introl eq_refl)) as [E|Hin']; [exact E|].
        pose proof (Hy2 x Hin). pose proof (Hx1 y Hin'). lia. }
      subst y. f_equal. apply IH; [assumption|assumption|].
      intros z. split; intros Hz.
      + destruct (proj1 (Hs z) (or_intror Hz)) as [E|Hin]; [|exact Hin].
        subst z. pose proof (Hx1 x Hz). lia.
      + destruct (proj2 (Hs z) (or_intror Hz)) as [E|Hin]; [|exact Hin].
        subst z. pose proof (Hy2 x Hz). lia.
  Qed.

  (** sorting two lists with the same elements and pairwise distinct keys gives EQUAL results *)
  Theorem sortK_set_unique (l1 l2 : list (N * A)) :
    NoDup (map fst l1) -> NoDup (map fst l2) -> (forall x, In x l1 <-> In x l2) ->
    sortK l1 = sortK l2.
  Proof.
    intros N1 N2 Hs. apply sascK_ext.
    - apply asc_nodup_sasc; [apply sortK_asc|].
      eapply Permutation_NoDup; [|exact N1]. apply Permutation_map, Permutation_sym, sortK_perm.
    - apply asc_nodup_sasc; [apply sortK_asc|].
      eapply Permutation_NoDup; [|exact N2]. apply Permutation_map, Permutation_sym, sortK_perm.
    - intros x. rewrite !sortK_In. apply Hs.
  Qed.
End SortK.

Section Coords.
  Variable H : Type.

  Lemma coord_eqb_eq (a b : nat * N) : coord_eqb a b = true <-> a = b.
  Proof.
    destruct a as [r o], b as [r' o']. unfold coord_eqb. cbn [fst snd].
    rewrite andb_true_iff, Nat.eqb_eq, N.eqb_eq. split; [intros [-> ->]; reflexivity|].
    intros [= -> ->]. split; reflexivity.
  Qed.

  Lemma mem_coord_In c l : mem_coord c l = true <-> In c l.
  Proof.
    induction l as [|x l IH]; cbn [mem_coord In]; [split; [discriminate|tauto]|].
    rewrite orb_true_iff, IH, coord_eqb_eq. split; intros [E|E]; auto.
  Qed.

  Lemma mem_coord_false c l : mem_coord c l = false <-> ~ In c l.
  Proof.
    rewrite <- mem_coord_In. destruct (mem_coord c l); split; try congruence; tauto.
  Qed.

  Lemma dedup_coord_In c l : In c (dedup_coord l) <-> In c l.
  Proof.
    induction l as [|x l IH]; cbn [dedup_coord In]; [tauto|].
    destruct (mem_coord x l) eqn:E.
    - rewrite IH. apply mem_coord_In in E. split; [tauto|]. intros [<-|Hx]; assumption.
    - cbn [In]. rewrite IH. tauto.
  Qed.

  Lemma dedup_coord_NoDup l : NoDup (dedup_coord l).
  Proof.
    induction l as [|x l IH]; cbn [dedup_coord]; [constructor|].
    destruct (mem_coord x l) eqn:E; [exact IH|].
    constructor; [|exact IH]. rewrite dedup_coord_In. apply mem_coord_false, E.
  Qed.

  Lemma path_up_head fuel (lay : list (node H)) r o tr : In (r, o) (path_up fuel lay r o tr).
  Proof. destruct fuel; left; reflexivity. Qed.

  (** [path_up] does not read the layout at all *)
  Lemma path_up_lay fuel (lay lay' : list (node H)) : forall r o tr,
    path_up fuel lay r o tr = path_up fuel lay' r o tr.
  Proof.
    induction fuel as [|f IH]; intros r o tr; cbn [path_up]; [reflexivity|].
    destruct (r <? tr); [rewrite IH|]; reflexivity.
  Qed.

  Lemma known_set_In (lay ts : list (node H)) c :
    In c (known_set lay ts) <->
    exists x, In x ts /\ In c (path_up 64 lay (nrow x) (noff x) (ntree x)).
  Proof. unfold known_set. rewrite dedup_coord_In, in_flat_map. tauto. Qed.

  Lemma known_set_target (lay ts : list (node H)) x :
    In x ts -> In (nrow x, noff x) (known_set lay ts).
  Proof. intros Hx. apply known_set_In. exists x. split; [exact Hx|apply path_up_head]. Qed.

  (** the proof coordinates: siblings of non-root known coordinates that are not known *)
  Lemma proof_coords_In (lay ts : list (node H)) c :
    In c (proof_coords lay ts) <->
    exists d, In d (known_set lay ts) /\ is_root_coord lay d = false /\
              ~ In (sib_coord d) (known_set lay ts) /\ c = sib_coord d.
  Proof.
    unfold proof_coords. rewrite dedup_coord_In, in_flat_map. split.
    - intros (d & Hd & Hc). exists d. split; [exact Hd|].
      destruct (is_root_coord lay d); [destruct Hc|].
      destruct (mem_coord (sib_coord d) (known_set lay ts)) eqn:E; [destruct Hc|].
      destruct Hc as [<-|[]]. split; [reflexivity|]. split; [|reflexivity].
      apply mem_coord_false, E.
    - intros (d & Hd & Hr & Hn & ->). exists d. split; [exact Hd|]. rewrite Hr.
      apply mem_coord_false in Hn. rewrite Hn. left. reflexivity.
  Qed.

  Lemma proof_coords_NoDup (lay ts : list (node H)) : NoDup (proof_coords lay ts).
  Proof. apply dedup_coord_NoDup. Qed.

  Lemma sort_coords_In rows (l : list (nat * N)) e :
    In e (sort_coords rows l) <-> exists c, In c l /\ e = (pos rows (fst c) (snd c), c).
  Proof.
    unfold sort_coords. rewrite sortK_In, in_map_iff. split; intros (c & A & B); exists c; auto.
  Qed.

  Lemma canon_proof_pos_In rows (lay ts : list (node H)) p :
    In p (canon_proof_pos rows lay ts) <->
    exists c, In c (proof_coords lay ts) /\ p = pos rows (fst c) (snd c).
  Proof.
    unfold canon_proof_pos. rewrite in_map_iff. split.
    - intros (e & <- & He). apply sort_coords_In in He as (c & Hc & ->). exists c. auto.
    - intros (c & Hc & ->). exists (pos rows (fst c) (snd c), c). split; [reflexivity|].
      apply sort_coords_In. exists c. auto.
  Qed.
End Coords.

(** * Part 1 (C09): needed positions lie within allowed positions *)
Section Needed.
  Variable H : Type.
  Variable HO : ops H.

  Theorem needed_sub_allowed (s : slots H) (R : list H) nd al :
    needed_pos HO s R = Some nd -> allowed_pos HO s R = Some al ->
    forall p, In p nd -> In p al.
  Proof.
    unfold needed_pos, allowed_pos.
    destruct (find_leaves HO (layout HO s) R) as [ts|]; [|discriminate].
    intros [= <-] [= <-] p. rewrite !sortN_In, !dedupN_In, !in_app_iff.
    set (rows := rows_of (num_leaves s)). set (lay := layout HO s).
    intros [Hp|[Hp|Hp]].
    - (* a target *)
      right. left. apply in_map_iff in Hp as (x & <- & Hx).
      apply in_map_iff. exists (nrow x, noff x). split; [reflexivity|].
      apply known_set_target, Hx.
    - (* a proof position *)
      right. right. apply canon_proof_pos_In in Hp as (c & Hc & ->).
      apply in_map_iff. exists c. split; [reflexivity|].
      apply proof_coords_In in Hc as (d & Hd & Hr & _ & ->).
      apply in_flat_map. exists d. split; [exact Hd|]. rewrite Hr. left. reflexivity.
    - right. right. exact Hp.
  Qed.
End Needed.

(** * Part 2 (C06): observational equivalence is a bisimulation *)
Section Equiv.
  Variable H : Type.
  Variable HO : ops H.
  Notation entry := (nat * N * option (ctree H))%type.

  (** same leaf count and the same compressed trees *)
  Definition equiv (s s' : slots H) : Prop :=
    length s = length s' /\ forest HO s = forest HO s'.

  Lemma equiv_refl s : equiv s s.
  Proof. split; reflexivity. Qed.
  Lemma equiv_sym s s' : equiv s s' -> equiv s' s.
  Proof. intros [A B]. split; symmetry; assumption. Qed.
  Lemma equiv_trans s1 s2 s3 : equiv s1 s2 -> equiv s2 s3 -> equiv s1 s3.
  Proof. intros [A B] [C D]. split; etransitivity; eassumption. Qed.

  (** ** 1a: everything observable is a function of the equivalence class *)
  Theorem equiv_num_leaves s s' : equiv s s' -> num_leaves s = num_leaves s'.
  Proof. intros [A _]. unfold num_leaves. rewrite A. reflexivity. Qed.
  Theorem equiv_roots s s' : equiv s s' -> roots HO s = roots HO s'.
  Proof. intros [_ B]. unfold roots. rewrite B. reflexivity. Qed.
  Theorem equiv_layout s s' : equiv s s' -> layout HO s = layout HO s'.
  Proof. intros [_ B]. unfold layout. rewrite B. reflexivity. Qed.
  Theorem equiv_prove s s' hs : equiv s s' -> prove HO s hs = prove HO s' hs.
  Proof.
    intros E. unfold prove. rewrite (equiv_layout _ _ E), (equiv_num_leaves _ _ E). reflexivity.
  Qed.
  Theorem equiv_leaf_pos s s' h : equiv s s' ->
    leaf_pos HO (rows_of (num_leaves s)) (layout HO s) h =
    leaf_pos HO (rows_of (num_leaves s')) (layout HO s') h.
  Proof. intros E. rewrite (equiv_layout _ _ E), (equiv_num_leaves _ _ E). reflexivity. Qed.
  Theorem equiv_hash_at s s' p : equiv s s' ->
    hash_at HO (rows_of (num_leaves s)) (layout HO s) p =
    hash_at HO (rows_of (num_leaves s')) (layout HO s') p.
  Proof. intros E. rewrite (equiv_layout _ _ E), (equiv_num_leaves _ _ E). reflexivity. Qed.
  Theorem equiv_needed s s' R : equiv s s' -> needed_pos HO s R = needed_pos HO s' R.
  Proof.
    intros E. unfold needed_pos. rewrite (equiv_layout _ _ E), (equiv_num_leaves _ _ E). reflexivity.
  Qed.
  Theorem equiv_allowed s s' R : equiv s s' -> allowed_pos HO s R = allowed_pos HO s' R.
  Proof.
    intros E. unfold allowed_pos. rewrite (equiv_layout _ _ E), (equiv_num_leaves _ _ E). reflexivity.
  Qed.
  Theorem equiv_new_del s s' dels : equiv s s' -> new_del HO s dels = new_del HO s' dels.
  Proof.
    intros E. unfold new_del. rewrite (proj2 E), (equiv_num_leaves _ _ E). reflexivity.
  Qed.

  (** the live leaves are the leaves of the compressed trees, in order *)
  Fixpoint leaves_of (t : ctree H) : list H :=
    match t with CLeaf h => [h] | CNode _ l r => leaves_of l ++ leaves_of r end.
  Definition oleaves (t : option (ctree H)) : list H :=
    match t with None => [] | Some c => leaves_of c end.
  Definition entry_leaves (e : entry) : list H := oleaves (snd e).

  Lemma oleaves_join a b : oleaves (join HO a b) = oleaves a ++ oleaves b.
  Proof.
    destruct a as [l|], b as [r|]; cbn [join oleaves leaves_of app]; try reflexivity.
    symmetry. apply app_nil_r.
  Qed.

  Lemma live_app (a b : slots H) : live (a ++ b) = live a ++ live b.
  Proof. unfold live. apply flat_map_app. Qed.

  Lemma firstn_add {A} a b (l : list A) : firstn (a + b) l = firstn a l ++ firstn b (skipn a l).
  Proof.
    revert l. induction a as [|a IH]; intros l; [reflexivity|].
    destruct l as [|x l]; cbn [Nat.add firstn skipn app]; [rewrite firstn_nil; reflexivity|].
    rewrite IH. reflexivity.
  Qed.

  Lemma pow2_S k : 2 ^ S k = 2 ^ k + 2 ^ k.
  Proof. rewrite Nat.pow_succ_r'. lia. Qed.

  Lemma compress_leaves k : forall seg, oleaves (compress HO k seg) = live (firstn (2 ^ k) seg).
  Proof.
    induction k as [|k IH]; intros seg.
    - change (2 ^ 0) with 1. destruct seg as [|[h|] seg]; reflexivity.
    - rewrite compress_S, oleaves_join, !IH, firstn_firstn, Nat.min_id, pow2_S, firstn_add, live_app.
      reflexivity.
  Qed.

  Lemma trees_leaves k : forall lo s, length s < 2 ^ S k ->
    flat_map entry_leaves (trees HO k lo s) = live s.
  Proof.
    induction k as [|k IH]; intros lo s Hlt.
    - change (2 ^ 1) with 2 in Hlt. rewrite trees_0.
      destruct s as [|x [|y s]]; cbn [length] in Hlt; [reflexivity| |lia].
      cbn [length Nat.leb flat_map]. unfold entry_leaves. cbn [snd]. rewrite compress_leaves.
      rewrite app_nil_r. reflexivity.
    - rewrite trees_S. destruct (Nat.leb_spec (2 ^ S k) (length s)) as [Hge|Hsmall].
      + cbn [flat_map]. unfold entry_leaves at 1. cbn [snd].
        rewrite compress_leaves, firstn_firstn, Nat.min_id, IH.
        * rewrite <- live_app, firstn_skipn. reflexivity.
        * rewrite skipn_length. rewrite (pow2_S (S k)) in Hlt. lia.
      + apply IH, Hsmall.
  Qed.

  Lemma length_lt_log2 (s : slots H) : length s < 2 ^ S (Nat.log2 (length s)).
  Proof.
    destruct (Nat.eq_dec (length s) 0) as [E|E].
    - rewrite E. change (Nat.log2 0) with 0. change (2 ^ 1) with 2. lia.
    - apply Nat.log2_spec. lia.
  Qed.

  Theorem forest_leaves s : flat_map entry_leaves (forest HO s) = live s.
  Proof. unfold forest. apply trees_leaves, length_lt_log2. Qed.

  Theorem equiv_live_eq s s' : equiv s s' -> live s = live s'.
  Proof. intros [_ B]. rewrite <- !forest_leaves, B. reflexivity. Qed.
  Theorem equiv_live s s' : equiv s s' -> Permutation (live s) (live s').
  Proof. intros E. rewrite (equiv_live_eq _ _ E). apply Permutation_refl. Qed.

  (** ** 1b (i): deleting commutes with compression *)
  Fixpoint prune (dels : list H) (t : ctree H) : option (ctree H) :=
    match t with
    | CLeaf h => if memH HO h dels then None else Some (CLeaf h)
    | CNode _ l r => join HO (prune dels l) (prune dels r)
    end.
  Definition oprune (dels : list H) (t : option (ctree H)) : option (ctree H) :=
    match t with None => None | Some c => prune dels c end.
  Definition prune_entry (dels : list H) (e : entry) : entry :=
    (fst (fst e), snd (fst e), oprune dels (snd e)).

  Lemma oprune_join dels a b :
    oprune dels (join HO a b) = join HO (oprune dels a) (oprune dels b).
  Proof.
    destruct a as [l|], b as [r|]; cbn [join oprune prune]; try reflexivity.
    destruct (prune dels l); reflexivity.
  Qed.

  Lemma firstn_kill dels n (s : slots H) : firstn n (kill HO dels s) = kill HO dels (firstn n s).
  Proof. unfold kill. apply firstn_map. Qed.
  Lemma skipn_kill dels n (s : slots H) : skipn n (kill HO dels s) = kill HO dels (skipn n s).
  Proof. unfold kill. apply skipn_map. Qed.

  Theorem compress_kill dels k : forall seg,
    compress HO k (kill HO dels seg) = oprune dels (compress HO k seg).
  Proof.
    induction k as [|k IH]; intros seg.
    - destruct seg as [|[h|] seg]; cbn [kill map compress oprune prune]; try reflexivity.
      destruct (memH HO h dels); reflexivity.
    - rewrite !compress_S, firstn_kill, skipn_kill, !IH, oprune_join. reflexivity.
  Qed.

  Lemma trees_kill dels k : forall lo s,
    trees HO k lo (kill HO dels s) = map (prune_entry dels) (trees HO k lo s).
  Proof.
    induction k as [|k IH]; intros lo s.
    - rewrite !trees_0, length_kill. destruct (1 <=? length s); [|reflexivity].
      cbn [map]. unfold prune_entry. cbn [fst snd]. rewrite firstn_kill, compress_kill. reflexivity.
    - rewrite !trees_S, length_kill. destruct (2 ^ S k <=? length s); [|apply IH].
      cbn [map]. unfold prune_entry at 1. cbn [fst snd].
      rewrite firstn_kill, compress_kill, skipn_kill, IH. reflexivity.
  Qed.

  (** the forest after deletions is a function of the forest before *)
  Theorem forest_kill dels s : forest HO (kill HO dels s) = map (prune_entry dels) (forest HO s).
  Proof. unfold forest. rewrite length_kill. apply trees_kill. Qed.

  Theorem equiv_kill dels s s' : equiv s s' -> equiv (kill HO dels s) (kill HO dels s').
  Proof.
    intros [A B]. split; [rewrite !length_kill; exact A|]. rewrite !forest_kill, B. reflexivity.
  Qed.

  (** ** 1b (ii): appending reads only the forest and the leaf count *)
  Theorem equiv_snoc s s' x : equiv s s' -> equiv (s ++ [x]) (s' ++ [x]).
  Proof.
    intros [A B]. split; [rewrite !app_length, A; reflexivity|].
    pose proof (forest_snoc H HO s x) as F1. pose proof (forest_snoc H HO s' x) as F2.
    cbv zeta in F1, F2. rewrite A, B in F1. rewrite <- F2 in F1.
    apply (f_equal (@rev _)) in F1. rewrite !rev_involutive in F1. exact F1.
  Qed.

  Theorem equiv_app l : forall s s', equiv s s' -> equiv (s ++ l) (s' ++ l).
  Proof.
    induction l as [|x l IH]; intros s s' E; [rewrite !app_nil_r; exact E|].
    change (x :: l) with ([x] ++ l). rewrite !app_assoc. apply IH, equiv_snoc, E.
  Qed.

  (** ** 1b: the bisimulation *)
  Theorem equiv_bisim s s' dels adds :
    equiv s s' -> equiv (apply_block HO s dels adds) (apply_block HO s' dels adds).
  Proof. intros E. unfold apply_block. apply equiv_app, equiv_kill, E. Qed.

  (** ** 1c: equivalent states stay equivalent under every further list of blocks *)
  Theorem equiv_blocks bs : forall s s',
    equiv s s' -> equiv (apply_blocks HO s bs) (apply_blocks HO s' bs).
  Proof.
    induction bs as [|[d a] bs IH]; intros s s' E; cbn [apply_blocks]; [exact E|].
    apply IH, equiv_bisim, E.
  Qed.

  (** whatever state [s0] an undo of the block [(dels, adds)] produces, as long as it is
      equivalent to what the exact reference undo produces (which is the pre-block state), every
      further list of blocks - the same or different ones - behaves exactly as if the undone block
      had never been applied *)
  Theorem undo_equiv s dels adds s0 bs :
    equiv s0 (spec_undo (apply_block HO s dels adds) (length adds) (dead_slots HO 0 dels s)) ->
    equiv (apply_blocks HO s0 bs) (apply_blocks HO s bs).
  Proof. rewrite spec_undo_inverse. apply equiv_blocks. Qed.

  (** to any depth *)
  Theorem undo_equiv_depth s ubs s0 bs :
    equiv s0 (undo_blocks HO s ubs (apply_blocks HO s ubs)) ->
    equiv (apply_blocks HO s0 bs) (apply_blocks HO s bs).
  Proof. rewrite spec_undo_depth. apply equiv_blocks. Qed.
End Equiv.

(** * Part 3 (C14): canonical proofs depend only on the set of targets *)
Section Canon.
  Variable H : Type.
  Variable HO : ops H.
  Notation node := (node H).

  Definition same_set {A} (l l' : list A) : Prop := forall x, In x l <-> In x l'.

  Lemma perm_same_set {A} (l l' : list A) : Permutation l l' -> same_set l l'.
  Proof.
    intros P x. split; apply Permutation_in; [exact P|apply Permutation_sym, P].
  Qed.

  Lemma known_set_ext (lay ts ts' : list node) :
    same_set ts ts' -> same_set (known_set lay ts) (known_set lay ts').
  Proof.
    intros Hs c. rewrite !known_set_In.
    split; intros (x & Hx & Hc); exists x; (split; [apply Hs, Hx|exact Hc]).
  Qed.

  Theorem proof_coords_ext (lay ts ts' : list node) :
    same_set ts ts' -> same_set (proof_coords lay ts) (proof_coords lay ts').
  Proof.
    intros Hs c. rewrite !proof_coords_In. pose proof (known_set_ext lay ts ts' Hs) as HK.
    split; intros (d & Hd & Hr & Hn & Hc); exists d;
      (split; [apply HK, Hd|]; split; [exact Hr|]; split; [|exact Hc]);
      intros Hin; apply Hn, HK, Hin.
  Qed.

  Theorem proof_coords_perm (lay ts ts' : list node) :
    Permutation ts ts' -> forall c, In c (proof_coords lay ts) <-> In c (proof_coords lay ts').
  Proof. intros P. apply proof_coords_ext, perm_same_set, P. Qed.

  Lemma NoDup_map_inj_on {A B} (f : A -> B) (l : list A) :
    NoDup l -> (forall x y, In x l -> In y l -> f x = f y -> x = y) -> NoDup (map f l).
  Proof.
    induction l as [|a l IH]; intros Hn Hi; cbn [map]; [constructor|].
    inversion Hn as [|a' l' Hnin Hnd]; subst. constructor.
    - intros Hin. apply in_map_iff in Hin as (y & Hy & Hyl).
      apply Hnin. rewrite (Hi a y); [exact Hyl|left; reflexivity|right; exact Hyl|symmetry; exact Hy].
    - apply IH; [exact Hnd|]. intros x y Hx Hy. apply Hi; right; assumption.
  Qed.

  (** positions of a coordinate list pairwise distinct *)
  Definition pos_inj_on (rows : nat) (l : list (nat * N)) : Prop :=
    forall c d, In c l -> In d l ->
                pos rows (fst c) (snd c) = pos rows (fst d) (snd d) -> c = d.

  Theorem sort_coords_ext rows (l l' : list (nat * N)) :
    NoDup l -> NoDup l' -> pos_inj_on rows l -> same_set l l' ->
    sort_coords rows l = sort_coords rows l'.
  Proof.
    intros N1 N2 Hi Hs. unfold sort_coords. apply sortK_set_unique.
    - rewrite map_map. cbn [fst]. apply NoDup_map_inj_on; assumption.
    - rewrite map_map. cbn [fst]. apply NoDup_map_inj_on; [exact N2|].
      intros c d Hc Hd. apply Hi; apply Hs; assumption.
    - intros e. rewrite !in_map_iff.
      split; intros (c & Hc & Hin); exists c; (split; [exact Hc|apply Hs, Hin]).
  Qed.

  (** the canonical proof is a function of the target SET *)
  Theorem canon_unique_set rows (lay ts ts' : list node) :
    same_set ts ts' -> pos_inj_on rows (proof_coords lay ts) ->
    canon_proof_pos rows lay ts = canon_proof_pos rows lay ts' /\
    canon_proof_hashes HO rows lay ts = canon_proof_hashes HO rows lay ts'.
  Proof.
    intros Hs Hi. unfold canon_proof_pos, canon_proof_hashes.
    rewrite (sort_coords_ext rows (proof_coords lay ts) (proof_coords lay ts')).
    - split; reflexivity.
    - apply proof_coords_NoDup.
    - apply proof_coords_NoDup.
    - exact Hi.
    - apply proof_coords_ext, Hs.
  Qed.

  Theorem canon_unique rows (lay ts ts' : list node) :
    Permutation ts ts' -> pos_inj_on rows (proof_coords lay ts) ->
    canon_proof_pos rows lay ts = canon_proof_pos rows lay ts' /\
    canon_proof_hashes HO rows lay ts = canon_proof_hashes HO rows lay ts'.
  Proof. intros P. apply canon_unique_set, perm_same_set, P. Qed.

  (** ** cached proofs *)
  Hypothesis HOK : ops_ok HO.

  Lemma find_leaves_cons lay h t ts :
    find_leaves HO lay (h :: t) = Some ts <->
    exists x xs, find_leaf HO lay h = Some x /\ find_leaves HO lay t = Some xs /\ ts = x :: xs.
  Proof.
    cbn [find_leaves]. destruct (find_leaf HO lay h) as [x|]; [|split; [discriminate|]].
    - destruct (find_leaves HO lay t) as [xs|]; [|split; [discriminate|]].
      + split; [intros [= <-]; eauto|]. intros (x' & xs' & [= <-] & [= <-] & ->). reflexivity.
      + intros (x' & xs' & _ & E & _). discriminate.
    - intros (x' & xs' & E & _). discriminate.
  Qed.

  Lemma find_leaves_hashes lay : forall hs ts,
    find_leaves HO lay hs = Some ts -> map (@nhash H) ts = hs.
  Proof.
    induction hs as [|h hs IH]; intros ts Hf; [injection Hf as <-; reflexivity|].
    apply find_leaves_cons in Hf as (x & xs & Hx & Hxs & ->). cbn [map].
    rewrite (IH xs Hxs). destruct (find_leaf_spec H HO HOK _ _ _ Hx) as (_ & _ & ->). reflexivity.
  Qed.

  Lemma find_leaves_In lay : forall hs ts, find_leaves HO lay hs = Some ts ->
    forall x, In x ts <-> exists h, In h hs /\ find_leaf HO lay h = Some x.
  Proof.
    induction hs as [|h hs IH]; intros ts Hf x.
    - injection Hf as <-. split; [intros []|intros (h & [] & _)].
    - apply find_leaves_cons in Hf as (y & ys & Hy & Hys & ->). cbn [In]. rewrite (IH ys Hys).
      split.
      + intros [<-|(h' & Hh' & Hx)]; [exists h; auto|exists h'; auto].
      + intros (h' & [<-|Hh'] & Hx); [left; congruence|right; exists h'; auto].
  Qed.

  Lemma find_leaves_perm lay hs hs' : Permutation hs hs' -> forall ts,
    find_leaves HO lay hs = Some ts ->
    exists ts', find_leaves HO lay hs' = Some ts' /\ Permutation ts ts'.
  Proof.
    induction 1 as [|h l l' P IH|a b l|l1 l2 l3 P1 IH1 P2 IH2]; intros ts Hf.
    - exists ts. split; [exact Hf|apply Permutation_refl].
    - apply find_leaves_cons in Hf as (x & xs & Hx & Hxs & ->).
      destruct (IH xs Hxs) as (xs' & Hxs' & Pxs). exists (x :: xs'). split.
      + apply find_leaves_cons. eauto.
      + apply perm_skip, Pxs.
    - apply find_leaves_cons in Hf as (x & xs & Hx & Hxs & ->).
      apply find_leaves_cons in Hxs as (y & ys & Hy & Hys & ->).
      exists (y :: x :: ys). split; [|apply perm_swap].
      apply find_leaves_cons. exists y, (x :: ys). split; [exact Hy|]. split; [|reflexivity].
      apply find_leaves_cons. eauto.
    - destruct (IH1 ts Hf) as (ts2 & H2 & Q1). destruct (IH2 ts2 H2) as (ts3 & H3 & Q2).
      exists ts3. split; [exact H3|]. eapply Permutation_trans; eassumption.
  Qed.

  Lemma find_leaves_NoDup lay hs ts :
    NoDup hs -> find_leaves HO lay hs = Some ts -> NoDup ts.
  Proof.
    intros Hn Hf. apply (NoDup_map_inv (@nhash H)). rewrite (find_leaves_hashes _ _ _ Hf). exact Hn.
  Qed.

  (** targets sorted by position: a function of the target set when positions are distinct *)
  Definition npos_inj_on (rows : nat) (l : list node) : Prop :=
    forall x y, In x l -> In y l -> npos rows x = npos rows y -> x = y.

  Lemma sort_targets_perm rows (ts ts' : list node) :
    NoDup ts -> Permutation ts ts' -> npos_inj_on rows ts ->
    sortK (map (fun x => (npos rows x, x)) ts) = sortK (map (fun x => (npos rows x, x)) ts').
  Proof.
    intros Hn P Hi. apply sortK_set_unique.
    - rewrite map_map. cbn [fst]. apply NoDup_map_inj_on; assumption.
    - rewrite map_map. cbn [fst]. apply NoDup_map_inj_on.
      + eapply Permutation_NoDup; eassumption.
      + intros x y Hx Hy. apply Hi; (eapply Permutation_in; [apply Permutation_sym, P|]); assumption.
    - intros e. rewrite !in_map_iff. pose proof (perm_same_set _ _ P) as Hs.
      split; intros (c & Hc & Hin); exists c; (split; [exact Hc|apply Hs, Hin]).
  Qed.

  (** the cached proof of a leaf set does not depend on the order the set is given in:
      leaf hashes pairwise distinct, positions of the (leaf) nodes of the layout pairwise distinct *)
  Theorem exp_cached_perm (c : ctx H) (set set' : list H) :
    Permutation set set' -> NoDup set ->
    (forall x y, In x (clay c) -> In y (clay c) -> nleaf x = true -> nleaf y = true ->
                 npos (crows c) x = npos (crows c) y -> x = y) ->
    exp_cached HO c set = exp_cached HO c set'.
  Proof.
    intros P Hn Hi. unfold exp_cached.
    destruct (find_leaves HO (clay c) set) as [ts|] eqn:E.
    - destruct (find_leaves_perm (clay c) _ _ P ts E) as (ts' & E' & Pt). rewrite E'.
      rewrite (sort_targets_perm (crows c) ts ts'); [reflexivity| |exact Pt|].
      + exact (find_leaves_NoDup _ _ _ Hn E).
      + intros x y Hx Hy.
        apply (find_leaves_In _ _ _ E) in Hx as (hx & _ & Hx).
        apply (find_leaves_In _ _ _ E) in Hy as (hy & _ & Hy).
        destruct (find_leaf_spec H HO HOK _ _ _ Hx) as (Ax & Bx & _).
        destruct (find_leaf_spec H HO HOK _ _ _ Hy) as (Ay & By & _).
        apply Hi; assumption.
    - destruct (find_leaves HO (clay c) set') as [ts'|] eqn:E'; [|reflexivity].
      destruct (find_leaves_perm (clay c) _ _ (Permutation_sym P) ts' E') as (ts & Ets & _).
      congruence.
  Qed.
End Canon.

Arguments equiv {H} HO s s'.
Arguments leaves_of {H} t.
Arguments oleaves {H} t.
Arguments entry_leaves {H} e.
Arguments prune {H} HO dels t.
Arguments oprune {H} HO dels t.
Arguments prune_entry {H} HO dels e.
Arguments same_set {A} l l'.
Arguments npos_inj_on {H} rows l.

(** * Part 4 (C09): remembering more leaves never needs less *)
Section NeededMono.
  Variable H : Type.
  Variable HO : ops H.

  Lemma known_set_mono (lay ts ts' : list (node H)) :
    (forall x, In x ts -> In x ts') ->
    forall c, In c (known_set lay ts) -> In c (known_set lay ts').
  Proof.
    intros Hs c. rewrite !known_set_In. intros (x & Hx & Hc). exists x. split; [apply Hs, Hx|exact Hc].
  Qed.

  Theorem needed_mono (s : slots H) (R R' : list H) nd nd' :
    (forall h, In h R -> In h R') ->
    needed_pos HO s R = Some nd -> needed_pos HO s R' = Some nd' ->
    forall p, In p nd -> In p nd'.
  Proof.
    unfold needed_pos. intros Hsub.
    destruct (find_leaves HO (layout HO s) R) as [ts|] eqn:E; [|discriminate].
    destruct (find_leaves HO (layout HO s) R') as [ts'|] eqn:E'; [|discriminate].
    assert (Hts : forall x, In x ts -> In x ts').
    { intros x Hx. apply (find_leaves_In H HO _ _ _ E) in Hx as (h & Hh & Hx).
      apply (find_leaves_In H HO _ _ _ E'). exists h. split; [apply Hsub, Hh|exact Hx]. }
    pose proof (known_set_mono (layout HO s) ts ts' Hts) as HK.
    intros [= <-] [= <-] p. rewrite !sortN_In, !dedupN_In, !in_app_iff.
    intros [Hp|[Hp|Hp]].
    - left. apply in_map_iff in Hp as (x & <- & Hx). apply in_map, Hts, Hx.
    - right. right. apply canon_proof_pos_In in Hp as (c & Hc & ->).
      apply in_map_iff. exists c. split; [reflexivity|].
      apply proof_coords_In in Hc as (d & Hd & Hr & _ & ->).
      apply in_flat_map. exists d. split; [apply HK, Hd|]. rewrite Hr. left. reflexivity.
    - right. right. apply in_map_iff in Hp as (c & <- & Hc).
      apply in_map_iff. exists c. split; [reflexivity|].
      apply in_flat_map in Hc as (d & Hd & Hc). apply in_flat_map. exists d. split; [apply HK, Hd|exact Hc].
  Qed.
End NeededMono.

(** * Part 5: geometry of the layout of a state.  Every node of [layout HO s] covers the slot range
    [noff * 2^nrow, (noff + 1) * 2^nrow), ranges of distinct nodes of one row are disjoint, all
    ranges lie below the leaf count.  Hence coordinates (and positions) identify nodes, and the
    distinctness hypotheses of Part 3 hold for the layouts of actual states. *)
Section LayoutGeom.
  Variable H : Type.
  Variable HO : ops H.
  Notation node := (node H).
  Notation entry := (nat * N * option (ctree H))%type.
  Local Open Scope N_scope.

  Definition P2 (r : nat) : N := 2 ^ N.of_nat r.
  Lemma P2_0 : P2 0 = 1.
  Proof. reflexivity. Qed.
  Lemma P2_S r : P2 (S r) = 2 * P2 r.
  Proof. unfold P2. rewrite Nat2N.inj_succ, N.pow_succ_r'. reflexivity. Qed.
  Lemma P2_pos r : 0 < P2 r.
  Proof. unfold P2. apply N.neq_0_lt_0, N.pow_nonzero. lia. Qed.
  Lemma P2_nz r : P2 r <> 0.
  Proof. pose proof (P2_pos r). lia. Qed.
  Lemma P2_add a b : P2 (a + b) = P2 a * P2 b.
  Proof. unfold P2. rewrite Nat2N.inj_add, N.pow_add_r. reflexivity. Qed.
  Lemma P2_nat k : N.of_nat (2 ^ k) = P2 k.
  Proof. apply pow2_N. Qed.
  Lemma P2_lt a b : (a < b)%nat -> P2 a < P2 b.
  Proof. intros Hab. unfold P2. apply N.pow_lt_mono_r; lia. Qed.

  Definition coord (x : node) : nat * N := (nrow x, noff x).
  Definition nlo (x : node) : N := noff x * P2 (nrow x).
  Definition nhi (x : node) : N := (noff x + 1) * P2 (nrow x).

  Lemma nlo_lt_nhi x : nlo x < nhi x.
  Proof. unfold nlo, nhi. pose proof (P2_pos (nrow x)). lia. Qed.

  Lemma range_disjoint_coord x y : nhi x <= nlo y -> coord x <> coord y.
  Proof.
    intros Hd E. pose proof (nlo_lt_nhi x) as Hx. unfold nlo, nhi, coord in *.
    injection E as Er Eo. rewrite Er, Eo in *. lia.
  Qed.

  Lemma NoDup_app_disj {A} (l1 l2 : list A) :
    NoDup l1 -> NoDup l2 -> (forall a, In a l1 -> ~ In a l2) -> NoDup (l1 ++ l2).
  Proof.
    induction l1 as [|a l1 IH]; intros N1 N2 Hd; [exact N2|]. cbn [app].
    inversion N1 as [|a' l' Hnin Hnd]; subst. constructor.
    - rewrite in_app_iff. intros [Hin|Hin]; [exact (Hnin Hin)|]. exact (Hd a (or_introl eq_refl) Hin).
    - apply IH; [exact Hnd|exact N2|]. intros b Hb. apply Hd. right. exact Hb.
  Qed.

  Lemma NoDup_map_eq {A B} (f : A -> B) (l : list A) x y :
    NoDup (map f l) -> In x l -> In y l -> f x = f y -> x = y.
  Proof.
    induction l as [|a l IH]; intros Hn Hx Hy E; [destruct Hx|].
    cbn [map] in Hn. inversion Hn as [|b bs Hnin Hnd]; subst.
    destruct Hx as [<-|Hx], Hy as [<-|Hy]; [reflexivity| | |apply IH; assumption].
    - exfalso. apply Hnin. rewrite E. apply in_map, Hy.
    - exfalso. apply Hnin. rewrite <- E. apply in_map, Hx.
  Qed.

  (** ** one tree *)
  Lemma place_tree_range t : forall r o isroot tr x,
    In x (place_tree t r o isroot tr) ->
    (nrow x <= r)%nat /\ o * P2 r <= nlo x /\ nhi x <= (o + 1) * P2 r /\ ntree x = tr.
  Proof.
    induction t as [h|h l IHl rr IHr]; intros r o isroot tr x Hx.
    - destruct Hx as [<-|[]]. unfold nlo, nhi. cbn [nrow noff ntree]. repeat split; lia.
    - destruct Hx as [<-|Hx]; [unfold nlo, nhi; cbn [nrow noff ntree]; repeat split; lia|].
      destruct r as [|r']; [destruct Hx|]. rewrite P2_S.
      apply in_app_or in Hx as [Hx|Hx].
      + destruct (IHl _ _ _ _ _ Hx) as (A & B & C & D). repeat split; [lia|lia|lia|exact D].
      + destruct (IHr _ _ _ _ _ Hx) as (A & B & C & D). repeat split; [lia|lia|lia|exact D].
  Qed.

  Lemma place_tree_NoDup t : forall r o isroot tr,
    NoDup (map coord (place_tree t r o isroot tr)).
  Proof.
    induction t as [h|h l IHl rr IHr]; intros r o isroot tr.
    - cbn [place_tree map]. constructor; [intros []|constructor].
    - cbn [place_tree map]. constructor.
      + destruct r as [|r']; [intros []|]. intros Hin.
        apply in_map_iff in Hin as (x & E & Hx).
        assert (Hr : (nrow x <= r')%nat).
        { apply in_app_or in Hx as [Hx|Hx]; [apply (place_tree_range l _ _ _ _ _ Hx)|
                                              apply (place_tree_range rr _ _ _ _ _ Hx)]. }
        unfold coord in E. cbn [nrow noff] in E. injection E as E _. lia.
      + destruct r as [|r']; [constructor|]. rewrite map_app. apply NoDup_app_disj; [apply IHl|apply IHr|].
        intros c Hc1 Hc2. apply in_map_iff in Hc1 as (x & Ex & Hx). apply in_map_iff in Hc2 as (y & Ey & Hy).
        destruct (place_tree_range l _ _ _ _ _ Hx) as (_ & _ & C & _).
        destruct (place_tree_range rr _ _ _ _ _ Hy) as (_ & B & _ & _).
        apply (range_disjoint_coord x y); [lia|congruence].
  Qed.

  Lemma place_tree_head (t : ctree H) r o isroot tr :
    exists y, In y (place_tree t r o isroot tr) /\ nrow y = r /\ noff y = o /\ nroot y = isroot.
  Proof. destruct t; eexists; (split; [left; reflexivity|]); cbn; auto. Qed.

  (** ** one entry *)
  Lemma place_entry_geom k lo t m : lo = m * P2 k ->
    let L := place_entry HO (k, lo, t) in
    NoDup (map coord L) /\
    (forall x, In x L -> (nrow x <= k)%nat /\ lo <= nlo x /\ nhi x <= lo + P2 k /\ ntree x = k) /\
    (exists y, In y L /\ nrow y = k /\ noff y = m /\ nroot y = true).
  Proof.
    intros Hlo. cbv zeta. unfold place_entry. fold (P2 k).
    assert (Hm : lo / P2 k = m) by (rewrite Hlo; apply N.div_mul, P2_nz). rewrite Hm.
    destruct t as [c|].
    - split; [apply place_tree_NoDup|]. split; [|apply place_tree_head].
      intros x Hx. destruct (place_tree_range c _ _ _ _ _ Hx) as (A & B & C & D).
      repeat split; [exact A|lia|lia|exact D].
    - split; [cbn [map]; constructor; [intros []|constructor]|]. split.
      + intros x [<-|[]]. unfold nlo, nhi. cbn [nrow noff ntree]. repeat split; lia.
      + eexists. split; [left; reflexivity|]. cbn. auto.
  Qed.

  (** ** the trees of a state *)
  Definition tree_ok (L : list node) (x : node) : Prop :=
    exists m, (nrow x <= ntree x)%nat /\ m * P2 (ntree x) <= nlo x /\
              nhi x <= (m + 1) * P2 (ntree x) /\
              exists y, In y L /\ nrow y = ntree x /\ noff y = m /\ nroot y = true.

  Lemma tree_ok_incl (L L' : list node) x : (forall y, In y L -> In y L') -> tree_ok L x -> tree_ok L' x.
  Proof.
    intros Hs (m & A & B & C & y & Hy & D). exists m. repeat split; try assumption.
    exists y. split; [apply Hs, Hy|exact D].
  Qed.

  Lemma entry_tree_ok k lo t m : lo = m * P2 k ->
    forall x, In x (place_entry HO (k, lo, t)) -> tree_ok (place_entry HO (k, lo, t)) x.
  Proof.
    intros Hlo x Hx. destruct (place_entry_geom k lo t m Hlo) as (_ & Hr & Hy). cbv zeta in *.
    destruct (Hr x Hx) as (A & B & C & D). exists m. rewrite D. repeat split; [exact A|lia|lia|exact Hy].
  Qed.

  Lemma trees_geom k : forall lo (s : slots H) m,
    lo = m * P2 (S k) -> (length s < 2 ^ S k)%nat ->
    let L := flat_map (place_entry HO) (trees HO k lo s) in
    NoDup (map coord L) /\
    (forall x, In x L -> lo <= nlo x /\ nhi x <= lo + N.of_nat (length s)) /\
    (forall x, In x L -> tree_ok L x).
  Proof.
    induction k as [|k IH]; intros lo s m Hlo Hlt; cbv zeta.
    - rewrite trees_0. change (2 ^ 1)%nat with 2%nat in Hlt.
      destruct (Nat.leb_spec 1 (length s)) as [Hge|Hsmall].
      + cbn [flat_map]. rewrite app_nil_r.
        assert (Hlo0 : lo = lo * P2 0) by (rewrite P2_0; lia).
        destruct (place_entry_geom 0 lo (compress HO 0 (firstn 1 s)) lo Hlo0) as (A & B & C).
        cbv zeta in *. split; [exact A|]. split.
        * intros x Hx. destruct (B x Hx) as (_ & B1 & B2 & _). rewrite P2_0 in B2. lia.
        * apply (entry_tree_ok 0 lo _ lo Hlo0).
      + cbn [flat_map map]. split; [constructor|]. split; intros x [].
    - rewrite trees_S. rewrite P2_S in Hlo.
      assert (Hpow : (2 ^ S (S k) = 2 * 2 ^ S k)%nat) by apply Nat.pow_succ_r'.
      destruct (Nat.leb_spec (2 ^ S k) (length s)) as [Hge|Hsmall].
      + cbn [flat_map].
        set (t0 := compress HO (S k) (firstn (2 ^ S k) s)).
        set (lo' := lo + N.of_nat (2 ^ S k)). set (s' := skipn (2 ^ S k) s).
        assert (Hlo0 : lo = (2 * m) * P2 (S k)) by lia.
        pose proof (P2_nat (S k)) as HP.
        assert (Hlo' : lo' = (2 * m + 1) * P2 (S k)) by (unfold lo'; lia).
        assert (Hl' : length s' = (length s - 2 ^ S k)%nat) by apply skipn_length.
        assert (Hlt' : (length s' < 2 ^ S k)%nat) by lia.
        destruct (place_entry_geom (S k) lo t0 (2 * m) Hlo0) as (A0 & B0 & C0).
        destruct (IH lo' s' (2 * m + 1) Hlo' Hlt') as (A1 & B1 & C1). cbv zeta in *.
        assert (Hsz : P2 (S k) <= N.of_nat (length s)) by lia.
        split; [|split].
        * rewrite map_app. apply NoDup_app_disj; [exact A0|exact A1|].
          intros c Hc0 Hc1. apply in_map_iff in Hc0 as (x & Ex & Hx).
          apply in_map_iff in Hc1 as (y & Ey & Hy).
          destruct (B0 x Hx) as (_ & _ & X & _). destruct (B1 y Hy) as (Y & _).
          apply (range_disjoint_coord x y); [|congruence]. unfold lo' in Y. lia.
        * intros x Hx. apply in_app_or in Hx as [Hx|Hx].
          -- destruct (B0 x Hx) as (_ & X1 & X2 & _). lia.
          -- destruct (B1 x Hx) as (X1 & X2). unfold lo' in X1, X2. lia.
        * intros x Hx. apply in_app_or in Hx as [Hx|Hx].
          -- eapply tree_ok_incl; [|apply (entry_tree_ok (S k) lo t0 (2 * m) Hlo0 x Hx)].
             intros y Hy. apply in_or_app. left. exact Hy.
          -- eapply tree_ok_incl; [|apply (C1 x Hx)].
             intros y Hy. apply in_or_app. right. exact Hy.
      + apply (IH lo s (2 * m)); [lia|exact Hsmall].
  Qed.

  (** ** the layout of a state *)
  Theorem layout_geom (s : slots H) :
    NoDup (map coord (layout HO s)) /\
    (forall x, In x (layout HO s) -> nhi x <= num_leaves s) /\
    (forall x, In x (layout HO s) -> tree_ok (layout HO s) x).
  Proof.
    unfold layout, forest.
    destruct (trees_geom (Nat.log2 (length s)) 0 s 0 eq_refl (length_lt_log2 H s)) as (A & B & C).
    cbv zeta in *. split; [exact A|]. split; [|exact C].
    intros x Hx. destruct (B x Hx) as (_ & B2). unfold num_leaves. lia.
  Qed.

  Theorem layout_coord_inj (s : slots H) x y :
    In x (layout HO s) -> In y (layout HO s) -> coord x = coord y -> x = y.
  Proof. apply NoDup_map_eq, layout_geom. Qed.
End LayoutGeom.

Arguments P2 r : simpl never.
Arguments coord {H} x.
Arguments nlo {H} x.
Arguments nhi {H} x.
Arguments tree_ok {H} L x.

(** * Part 6: positions identify nodes and proof coordinates in the layout of a state *)
Section LayoutInj.
  Variable H : Type.
  Variable HO : ops H.
  Notation node := (node H).
  Local Open Scope N_scope.

  Lemma pos_gpos rows r o : pos rows r o = UtilsGeom.gpos (N.of_nat rows) (N.of_nat r) o.
  Proof. reflexivity. Qed.

  (** a coordinate of the [rows]-row geometry *)
  Definition in_bounds (rows : nat) (c : nat * N) : Prop :=
    (fst c <= rows)%nat /\ snd c < P2 (rows - fst c).

  Theorem pos_inj_bounded rows c d :
    in_bounds rows c -> in_bounds rows d ->
    pos rows (fst c) (snd c) = pos rows (fst d) (snd d) -> c = d.
  Proof.
    destruct c as [r o], d as [r' o']. unfold in_bounds. cbn [fst snd]. intros [A B] [C D] E.
    rewrite !pos_gpos in E. unfold P2 in B, D. rewrite Nat2N.inj_sub in B, D.
    destruct (UtilsGeom2.gpos_inj (N.of_nat rows) (N.of_nat r) o (N.of_nat r') o') as [E1 E2];
      [lia|exact B|lia|exact D|exact E|].
    f_equal; lia.
  Qed.

  Lemma leaves_le_rows n : n <= P2 (rows_of n).
  Proof.
    unfold rows_of, P2. rewrite N2Nat.id. destruct (N.eqb_spec n 0) as [->|Hn].
    - cbn. lia.
    - pose proof (N.size_gt (n - 1)). lia.
  Qed.

  Lemma hi_bound rows r o : (o + 1) * P2 r <= P2 rows -> in_bounds rows (r, o).
  Proof.
    intros Hb. unfold in_bounds. cbn [fst snd].
    assert (Hge : P2 r <= (o + 1) * P2 r) by (pose proof (P2_pos r); nia).
    assert (Hr : (r <= rows)%nat).
    { destruct (Nat.le_gt_cases r rows) as [Hle|Hgt]; [exact Hle|].
      pose proof (P2_lt rows r Hgt). lia. }
    split; [exact Hr|].
    replace rows with ((rows - r) + r)%nat in Hb by lia. rewrite P2_add in Hb.
    apply N.mul_le_mono_pos_r in Hb; [lia|apply P2_pos].
  Qed.

  Theorem layout_in_bounds (s : slots H) x :
    In x (layout HO s) -> in_bounds (rows_of (num_leaves s)) (coord x).
  Proof.
    intros Hx. destruct (layout_geom H HO s) as (_ & B & _).
    apply hi_bound. pose proof (B x Hx) as Hh. unfold nhi in Hh.
    pose proof (leaves_le_rows (num_leaves s)). lia.
  Qed.

  (** positions identify the nodes of a layout *)
  Theorem layout_npos_inj (s : slots H) x y :
    In x (layout HO s) -> In y (layout HO s) ->
    npos (rows_of (num_leaves s)) x = npos (rows_of (num_leaves s)) y -> x = y.
  Proof.
    intros Hx Hy E. apply (layout_coord_inj H HO s x y Hx Hy).
    apply (pos_inj_bounded (rows_of (num_leaves s)) (coord x) (coord y));
      [apply layout_in_bounds, Hx|apply layout_in_bounds, Hy|exact E].
  Qed.

  Lemma path_up_In fuel (lay : list node) : forall r o tr d, (r <= tr)%nat ->
    In d (path_up fuel lay r o tr) ->
    exists j, fst d = (r + j)%nat /\ (r + j <= tr)%nat /\ snd d = o / P2 j.
  Proof.
    induction fuel as [|f IH]; intros r o tr d Hr Hd.
    - destruct Hd as [<-|[]]. exists 0%nat. cbn [fst snd]. rewrite P2_0, N.div_1_r. split; [lia|]. split; [lia|reflexivity].
    - cbn [path_up] in Hd. destruct Hd as [<-|Hd].
      + exists 0%nat. cbn [fst snd]. rewrite P2_0, N.div_1_r. split; [lia|]. split; [lia|reflexivity].
      + destruct (Nat.ltb_spec r tr) as [Hlt|_]; [|destruct Hd].
        destruct (IH (S r) (o / 2) tr d Hlt Hd) as (j & A & B & C).
        exists (S j). split; [lia|]. split; [lia|].
        rewrite C, P2_S, N.div_div; [reflexivity|lia|apply P2_nz].
  Qed.

  Lemma find_coord_In (lay : list node) y : In y lay ->
    exists z, find_coord lay (nrow y) (noff y) = Some z /\ In z lay /\ coord z = coord y.
  Proof.
    induction lay as [|a lay IH]; intros Hy; [destruct Hy|]. cbn [find_coord].
    destruct (Nat.eqb_spec (nrow a) (nrow y)) as [Er|Er];
      [destruct (N.eqb_spec (noff a) (noff y)) as [Eo|Eo]|]; cbn [andb].
    - exists a. split; [reflexivity|]. split; [left; reflexivity|]. unfold coord. congruence.
    - destruct Hy as [->|Hy]; [congruence|]. destruct (IH Hy) as (z & A & B & C).
      exists z. split; [exact A|]. split; [right; exact B|exact C].
    - destruct Hy as [->|Hy]; [congruence|]. destruct (IH Hy) as (z & A & B & C).
      exists z. split; [exact A|]. split; [right; exact B|exact C].
  Qed.

  Lemma lxor1_lt_even o E : o < 2 * E -> N.lxor o 1 < 2 * E.
  Proof.
    intros Ho. rewrite UtilsGeom2.lxor_1. destruct (N.even o) eqn:Ev; [|lia].
    apply N.even_spec in Ev as [q ->]. lia.
  Qed.

  (** the proof coordinates of targets taken from the layout are coordinates of the geometry *)
  Theorem proof_coords_in_bounds (s : slots H) (ts : list node) :
    (forall x, In x ts -> In x (layout HO s)) ->
    forall c, In c (proof_coords (layout HO s) ts) -> in_bounds (rows_of (num_leaves s)) c.
  Proof.
    intros Hts c Hc. set (lay := layout HO s) in *. set (rows := rows_of (num_leaves s)).
    apply proof_coords_In in Hc as (d & Hd & Hroot & _ & ->).
    apply known_set_In in Hd as (x & Hx & Hd).
    destruct (layout_geom H HO s) as (_ & Hhi & Hok). fold lay in Hhi, Hok.
    destruct (Hok x (Hts x Hx)) as (m & A & B & C & y & Hy & Yr & Yo & Yroot).
    destruct (path_up_In 64 lay _ _ _ d A Hd) as (j & Dr & Dk & Do).
    set (k := ntree x) in *. set (r := nrow x) in *. set (o := noff x) in *.
    (* the tree of x fits below the leaf count *)
    pose proof (Hhi y Hy) as Yhi. unfold nhi in Yhi. rewrite Yr, Yo in Yhi.
    pose proof (leaves_le_rows (num_leaves s)) as Hn. fold rows in Hn.
    assert (Hkb : in_bounds rows (k, m)) by (apply hi_bound; lia).
    destruct Hkb as [Hk _]. cbn [fst] in Hk.
    (* the ancestor d lies inside the tree *)
    set (a := (k - (r + j))%nat).
    assert (Ek : P2 k = P2 a * P2 j * P2 r).
    { replace k with (a + (j + r))%nat by (unfold a; lia). rewrite !P2_add. lia. }
    unfold nlo, nhi in B, C. fold r o in B, C. rewrite Ek in B, C.
    pose proof (P2_pos r) as Pr. pose proof (P2_pos j) as Pj. pose proof (P2_pos a) as Pa.
    assert (B' : m * P2 a * P2 j <= o).
    { apply (N.mul_le_mono_pos_r _ _ (P2 r) Pr). lia. }
    assert (C' : o + 1 <= (m + 1) * P2 a * P2 j).
    { apply (N.mul_le_mono_pos_r _ _ (P2 r) Pr). lia. }
    assert (Lo : m * P2 a <= snd d).
    { rewrite Do. apply N.div_le_lower_bound; [apply P2_nz|lia]. }
    assert (Hi : snd d < (m + 1) * P2 a).
    { rewrite Do. apply N.div_lt_upper_bound; [apply P2_nz|lia]. }
    destruct a as [|a'] eqn:Ea.
    - (* d is the root of the tree: excluded *)
      exfalso. rewrite P2_0 in Lo, Hi.
      assert (Ed : d = coord y).
      { destruct d as [dr dc]. unfold coord. cbn [fst snd] in *. f_equal; lia. }
      unfold is_root_coord in Hroot. rewrite Ed in Hroot. unfold coord in Hroot. cbn [fst snd] in Hroot.
      destruct (find_coord_In lay y Hy) as (z & Fz & Hz & Ez). rewrite Fz in Hroot.
      rewrite (layout_coord_inj H HO s z y Hz Hy Ez) in Hroot. congruence.
    - (* below the root: the sibling is in the geometry *)
      unfold in_bounds, sib_coord. cbn [fst snd]. split; [lia|].
      assert (Hw : (m + 1) * P2 (S a') <= P2 (rows - fst d)).
      { apply (N.mul_le_mono_pos_r _ _ (P2 (fst d)) (P2_pos (fst d))).
        rewrite <- P2_add. replace (rows - fst d + fst d)%nat with rows by lia.
        rewrite Dr, P2_add. lia. }
      rewrite P2_S in Hw, Hi.
      assert (N.lxor (snd d) 1 < 2 * ((m + 1) * P2 a')); [apply lxor1_lt_even; lia|lia].
  Qed.

  Theorem proof_coords_pos_inj (s : slots H) (ts : list node) :
    (forall x, In x ts -> In x (layout HO s)) ->
    pos_inj_on (rows_of (num_leaves s)) (proof_coords (layout HO s) ts).
  Proof.
    intros Hts c d Hc Hd. apply pos_inj_bounded; apply (proof_coords_in_bounds s ts Hts); assumption.
  Qed.

  (** ** C14 for the layouts of actual states: no distinctness hypothesis left *)
  Theorem canon_unique_state (s : slots H) (ts ts' : list node) :
    Permutation ts ts' -> (forall x, In x ts -> In x (layout HO s)) ->
    canon_proof_pos (rows_of (num_leaves s)) (layout HO s) ts =
      canon_proof_pos (rows_of (num_leaves s)) (layout HO s) ts' /\
    canon_proof_hashes HO (rows_of (num_leaves s)) (layout HO s) ts =
      canon_proof_hashes HO (rows_of (num_leaves s)) (layout HO s) ts'.
  Proof. intros P Hts. apply canon_unique; [exact P|apply proof_coords_pos_inj, Hts]. Qed.

  Hypothesis HOK : ops_ok HO.

  Theorem exp_cached_perm_state (s : slots H) (set set' : list H) :
    Permutation set set' -> NoDup set ->
    exp_cached HO (mk_ctx HO s) set = exp_cached HO (mk_ctx HO s) set'.
  Proof.
    intros P Hn. apply (exp_cached_perm H HO HOK); [exact P|exact Hn|].
    cbn [clay crows mk_ctx]. intros x y Hx Hy _ _. apply layout_npos_inj; assumption.
  Qed.

  (** [prove]: the proof hashes do not depend on the request order (the targets come back in
      request order) *)
  Theorem prove_perm (s : slots H) (hs hs' : list H) t p :
    Permutation hs hs' -> prove HO s hs = Some (t, p) ->
    exists t', prove HO s hs' = Some (t', p) /\ Permutation t t'.
  Proof.
    intros P. unfold prove.
    destruct (find_leaves HO (layout HO s) hs) as [ts|] eqn:E; [|discriminate].
    intros [= <- <-].
    destruct (find_leaves_perm H HO _ _ _ P ts E) as (ts' & E' & Pt). rewrite E'.
    eexists. split; [|apply Permutation_map, Pt]. f_equal. f_equal.
    symmetry. apply canon_unique_state; [exact Pt|].
    intros x Hx. apply (find_leaves_In H HO _ _ _ E) in Hx as (h & _ & Hx).
    apply (find_leaf_spec H HO HOK _ _ _ Hx).
  Qed.
End LayoutInj.

(** * Examples in the free algebra: the statements are not vacuous *)

(** two different slot lists that are observationally equivalent *)
Example ex_equiv_distinct :
  let s := [Some (Atom 1); None; None; None; Some (Atom 2)] in
  let s' := [None; None; Some (Atom 1); None; Some (Atom 2)] in
  s <> s' /\ equiv term_ops s s' /\
  equiv term_ops (apply_block term_ops s [Atom 2] [Atom 3; Atom 4])
                 (apply_block term_ops s' [Atom 2] [Atom 3; Atom 4]).
Proof.
  cbv zeta. split; [discriminate|].
  assert (E : equiv term_ops [Some (Atom 1); None; None; None; Some (Atom 2)]
                             [None; None; Some (Atom 1); None; Some (Atom 2)])
    by (split; vm_compute; reflexivity).
  split; [exact E|apply equiv_bisim, E].
Qed.

(** equivalence is finer than "same roots": same roots and leaf count, different trees *)
Example ex_same_roots_not_equiv :
  let s := [Some (Node (Atom 1) (Atom 2)); None] in
  let s' := [Some (Atom 1); Some (Atom 2)] in
  roots term_ops s = roots term_ops s' /\ length s = length s' /\ ~ equiv term_ops s s'.
Proof.
  cbv zeta. split; [vm_compute; reflexivity|]. split; [reflexivity|].
  intros [_ E]. vm_compute in E. discriminate.
Qed.

(** A position names a slot only within the class: re-inserting a deleted leaf "at the leftmost
    slot of the segment named by its pre-block position" is NOT sound on arbitrary slot lists.
    [Atom 2] sits at (row 2, offset 1), i.e. slots 4..7, but the surviving [Atom 1] (slot 6,
    position (row 2, offset 0)) lives in that range too. *)
Example ex_leftmost_slot_unsound :
  let s := [None; None; None; None; None; None; Some (Atom 1); Some (Atom 2)] in
  let s0 := put_slot 4 (Atom 2) (kill term_ops [Atom 2] s) in
  In (mkNode 2 1 (Atom 2) true false 3) (layout term_ops s) /\
  In (mkNode 2 0 (Atom 1) true false 3) (layout term_ops s) /\
  ~ equiv term_ops s0 s.
Proof.
  cbv zeta. split; [vm_compute; tauto|]. split; [vm_compute; tauto|].
  intros [_ E]. vm_compute in E. discriminate.
Qed.

(** C09: a strict inclusion *)
Example ex_needed_allowed :
  needed_pos term_ops ex_s [Atom 1; Atom 7] = Some [0; 1; 6; 9]%N /\
  allowed_pos term_ops ex_s [Atom 1; Atom 7] = Some [0; 1; 6; 8; 9; 10; 12]%N.
Proof. split; vm_compute; reflexivity. Qed.

(** C14: the cached proof of a permuted set; [prove] keeps the request order of the targets *)
Example ex_cached_perm :
  exp_cached term_ops (mk_ctx term_ops ex_s) [Atom 7; Atom 1; Atom 3] =
    Some ([Atom 1; Atom 3; Atom 7], [0; 2; 6]%N, [Atom 2; Atom 4]) /\
  exp_cached term_ops (mk_ctx term_ops ex_s) [Atom 3; Atom 7; Atom 1] =
    Some ([Atom 1; Atom 3; Atom 7], [0; 2; 6]%N, [Atom 2; Atom 4]) /\
  prove term_ops ex_s [Atom 7; Atom 1; Atom 3] = Some ([6; 0; 2]%N, [Atom 2; Atom 4]) /\
  prove term_ops ex_s [Atom 3; Atom 7; Atom 1] = Some ([2; 6; 0]%N, [Atom 2; Atom 4]).
Proof. repeat split; vm_compute; reflexivity. Qed.

(** * Part 7 (C06): the class-level inverse of a deletion.  The compressed forest before a deletion
    is a function of the compressed forest after it and the (coordinate, hash) pairs of the deleted
    leaves - what [Undo] receives as positions and hashes. *)
Section Graft.
  Variable H : Type.
  Variable HO : ops H.
  Notation hash2 := (op_hash2 HO).
  Notation entry := (nat * N * option (ctree H))%type.
  Notation dcoord := (nat * N * H)%type.
  Local Open Scope N_scope.

  (** a compressed tree that fits below row [k], with consistent hashes *)
  Fixpoint wf (t : ctree H) (k : nat) : Prop :=
    match t with
    | CLeaf _ => True
    | CNode h l r =>
        match k with
        | O => False
        | S k' => h = hash2 (chash l) (chash r) /\ wf l k' /\ wf r k'
        end
    end.

  Lemma wf_S t : forall k, wf t k -> wf t (S k).
  Proof.
    induction t as [h|h l IHl r IHr]; intros k Hw; [exact I|].
    destruct k as [|k']; [destruct Hw|]. destruct Hw as (A & B & C).
    cbn [wf]. split; [exact A|]. split; [apply IHl, B|apply IHr, C].
  Qed.

  Lemma compress_wf k : forall seg t, compress HO k seg = Some t -> wf t k.
  Proof.
    induction k as [|k IH]; intros seg t Hc.
    - cbn [compress] in Hc. destruct seg as [|[h|] seg]; try discriminate. injection Hc as <-. exact I.
    - rewrite compress_S in Hc.
      destruct (compress HO k (firstn (2 ^ k) seg)) as [c1|] eqn:E1;
        destruct (compress HO k (skipn (2 ^ k) seg)) as [c2|] eqn:E2; cbn [join] in Hc;
        try discriminate; injection Hc as <-.
      + cbn [wf]. split; [reflexivity|]. split; [exact (IH _ _ E1)|exact (IH _ _ E2)].
      + apply wf_S. exact (IH _ _ E1).
      + apply wf_S. exact (IH _ _ E2).
  Qed.

  (** coordinates and hashes of the leaves a deletion removes from a placed tree *)
  Fixpoint del_coords (dels : list H) (t : ctree H) (r : nat) (o : N) : list dcoord :=
    match t with
    | CLeaf h => if memH HO h dels then [(r, o, h)] else []
    | CNode _ l rr =>
        match r with
        | S r' => del_coords dels l r' (2 * o) ++ del_coords dels rr r' (2 * o + 1)
        | O => []
        end
    end.

  Definition node_dcoord (x : node H) : dcoord := (nrow x, noff x, nhash x).
  Definition is_del (dels : list H) (x : node H) : bool := nleaf x && memH HO (nhash x) dels.

  (** they are the deleted leaf nodes of the layout *)
  Lemma del_coords_layout dels t : forall r o isroot tr,
    del_coords dels t r o = map node_dcoord (filter (is_del dels) (place_tree t r o isroot tr)).
  Proof.
    induction t as [h|h l IHl rr IHr]; intros r o isroot tr.
    - cbn [del_coords place_tree filter]. unfold is_del. cbn [nleaf nhash andb].
      destruct (memH HO h dels); reflexivity.
    - cbn [del_coords place_tree filter]. unfold is_del at 1. cbn [nleaf andb].
      destruct r as [|r']; [reflexivity|].
      rewrite filter_app, map_app, <- IHl, <- IHr. reflexivity.
  Qed.

  Definition drow (e : dcoord) : nat := fst (fst e).
  Definition doff (e : dcoord) : N := snd (fst e).
  Definition dlo (e : dcoord) : N := doff e * P2 (drow e).
  Definition dhi (e : dcoord) : N := (doff e + 1) * P2 (drow e).

  (** [e] lies in the subtree of the coordinate (R, O) *)
  Definition under (R : nat) (O : N) (e : dcoord) : bool :=
    (drow e <=? R)%nat && (O * P2 R <=? dlo e) && (dhi e <=? (O + 1) * P2 R).

  Definition weight (D : list dcoord) : N := fold_right (fun e acc => P2 (drow e) + acc) 0 D.
  Definition full (D : list dcoord) (R : nat) : bool := weight D =? P2 R.

  Lemma weight_app a b : weight (a ++ b) = weight a + weight b.
  Proof. induction a as [|e a IH]; cbn [app weight fold_right]; [reflexivity|]. fold (weight (a ++ b)). fold (weight a). lia. Qed.

  Lemma dlo_lt_dhi e : dlo e < dhi e.
  Proof. unfold dlo, dhi. pose proof (P2_pos (drow e)). lia. Qed.

  Lemma del_coords_under dels t : forall r o e,
    wf t r -> In e (del_coords dels t r o) -> under r o e = true.
  Proof.
    induction t as [h|h l IHl rr IHr]; intros r o e Hw He.
    - cbn [del_coords] in He. destruct (memH HO h dels); [|destruct He]. destruct He as [<-|[]].
      unfold under, dlo, dhi, drow, doff. cbn [fst snd]. lia.
    - destruct r as [|r']; [destruct Hw|]. destruct Hw as (_ & Wl & Wr). cbn [del_coords] in He.
      apply in_app_or in He as [He|He].
      + specialize (IHl r' (2 * o) e Wl He). unfold under in *. rewrite P2_S. lia.
      + specialize (IHr r' (2 * o + 1) e Wr He). unfold under in *. rewrite P2_S. lia.
  Qed.

  Lemma under_children_excl R O e : under R (2 * O) e = true -> under R (2 * O + 1) e = false.
  Proof. pose proof (dlo_lt_dhi e). unfold under. lia. Qed.

  Lemma filter_all {A} (f : A -> bool) l : (forall x, In x l -> f x = true) -> filter f l = l.
  Proof.
    induction l as [|a l IH]; intros Hf; [reflexivity|]. cbn [filter].
    rewrite (Hf a (or_introl eq_refl)), IH; [reflexivity|]. intros x Hx. apply Hf. right. exact Hx.
  Qed.
  Lemma filter_none {A} (f : A -> bool) l : (forall x, In x l -> f x = false) -> filter f l = [].
  Proof.
    induction l as [|a l IH]; intros Hf; [reflexivity|]. cbn [filter].
    rewrite (Hf a (or_introl eq_refl)), IH; [reflexivity|]. intros x Hx. apply Hf. right. exact Hx.
  Qed.

  (** no deleted leaf: pruning is the identity *)
  Lemma prune_no_del dels t : forall r o, wf t r -> del_coords dels t r o = [] -> prune HO dels t = Some t.
  Proof.
    induction t as [h|h l IHl rr IHr]; intros r o Hw Hd.
    - cbn [del_coords] in Hd. cbn [prune]. destruct (memH HO h dels); [discriminate|reflexivity].
    - destruct r as [|r']; [destruct Hw|]. destruct Hw as (Eh & Wl & Wr). cbn [del_coords] in Hd.
      apply app_eq_nil in Hd as [Dl Dr]. cbn [prune].
      rewrite (IHl _ _ Wl Dl), (IHr _ _ Wr Dr). cbn [join]. rewrite <- Eh. reflexivity.
  Qed.

  (** the deleted leaves fill the whole subtree exactly when nothing survives *)
  Lemma weight_del dels t : forall r o, wf t r ->
    match prune HO dels t with
    | None => weight (del_coords dels t r o) = P2 r
    | Some _ => weight (del_coords dels t r o) < P2 r
    end.
  Proof.
    induction t as [h|h l IHl rr IHr]; intros r o Hw.
    - cbn [prune del_coords]. pose proof (P2_pos r).
      destruct (memH HO h dels); cbn [weight fold_right drow fst]; lia.
    - destruct r as [|r']; [destruct Hw|]. destruct Hw as (_ & Wl & Wr).
      cbn [prune del_coords]. rewrite weight_app, P2_S.
      specialize (IHl r' (2 * o) Wl). specialize (IHr r' (2 * o + 1) Wr).
      destruct (prune HO dels l) as [a|], (prune HO dels rr) as [b|]; cbn [join]; lia.
  Qed.

  Lemma full_del dels t r o : wf t r ->
    full (del_coords dels t r o) r = match prune HO dels t with None => true | Some _ => false end.
  Proof.
    intros Hw. pose proof (weight_del dels t r o Hw) as Hd. unfold full.
    destruct (prune HO dels t); lia.
  Qed.

  (** put the deleted leaves [D] (all below (k, o)) back into the pruned tree [t'] *)
  Fixpoint graft (k : nat) (o : N) (t' : option (ctree H)) (D : list dcoord) : option (ctree H) :=
    match D with
    | [] => t'
    | e0 :: _ =>
        match k with
        | O => Some (CLeaf (snd e0))
        | S k' =>
            if Nat.eqb (drow e0) (S k') then Some (CLeaf (snd e0))
            else
              let DL := filter (under k' (2 * o)) D in
              let DR := filter (under k' (2 * o + 1)) D in
              let sp := match full DL k', full DR k' with
                        | true, true => (None, None)
                        | true, false => (None, t')
                        | false, true => (t', None)
                        | false, false =>
                            match t' with
                            | Some (CNode _ a b) => (Some a, Some b)
                            | _ => (None, None)
                            end
                        end in
              join HO (graft k' (2 * o) (fst sp) DL) (graft k' (2 * o + 1) (snd sp) DR)
        end
    end.

  Lemma graft_nil k o t' : graft k o t' [] = t'.
  Proof. destruct k; reflexivity. Qed.

  Theorem graft_prune dels t : forall k o, wf t k ->
    graft k o (prune HO dels t) (del_coords dels t k o) = Some t.
  Proof.
    induction t as [h|h l IHl rr IHr]; intros k o Hw.
    - cbn [prune del_coords]. destruct (memH HO h dels); [|apply graft_nil].
      destruct k as [|k']; cbn [graft snd drow fst]; [reflexivity|]. rewrite Nat.eqb_refl. reflexivity.
    - destruct k as [|k']; [destruct Hw|]. pose proof Hw as (Eh & Wl & Wr).
      destruct (del_coords dels (CNode h l rr) (S k') o) as [|e0 D'] eqn:ED.
      + rewrite graft_nil. apply (prune_no_del dels _ (S k') o Hw ED).
      + rewrite <- ED. cbn [graft]. rewrite ED at 1.
        assert (He0 : In e0 (del_coords dels (CNode h l rr) (S k') o)) by (rewrite ED; left; reflexivity).
        cbn [del_coords] in He0 |- *.
        set (DL0 := del_coords dels l k' (2 * o)) in *. set (DR0 := del_coords dels rr k' (2 * o + 1)) in *.
        assert (UL : forall e, In e DL0 -> under k' (2 * o) e = true) by (intros e; apply del_coords_under, Wl).
        assert (UR : forall e, In e DR0 -> under k' (2 * o + 1) e = true) by (intros e; apply del_coords_under, Wr).
        assert (Hrow : Nat.eqb (drow e0) (S k') = false).
        { apply Nat.eqb_neq. apply in_app_or in He0 as [He0|He0];
            [specialize (UL e0 He0)|specialize (UR e0 He0)]; unfold under in *; lia. }
        rewrite Hrow.
        assert (FL : filter (under k' (2 * o)) (DL0 ++ DR0) = DL0).
        { rewrite filter_app, (filter_all _ DL0 UL), (filter_none _ DR0), app_nil_r; [reflexivity|].
          intros e He. specialize (UR e He). pose proof (dlo_lt_dhi e). unfold under in *. lia. }
        assert (FR : filter (under k' (2 * o + 1)) (DL0 ++ DR0) = DR0).
        { rewrite filter_app, (filter_all _ DR0 UR), (filter_none _ DL0); [reflexivity|].
          intros e He. apply under_children_excl, UL, He. }
        rewrite FL, FR.
        assert (EL : full DL0 k' = match prune HO dels l with None => true | Some _ => false end)
          by apply full_del, Wl.
        assert (ER : full DR0 k' = match prune HO dels rr with None => true | Some _ => false end)
          by apply full_del, Wr.
        rewrite EL, ER.
        specialize (IHl k' (2 * o) Wl). specialize (IHr k' (2 * o + 1) Wr). fold DL0 in IHl. fold DR0 in IHr.
        cbn [prune].
        destruct (prune HO dels l) as [a|], (prune HO dels rr) as [b|]; cbn [join fst snd];
          rewrite IHl, IHr; cbn [join]; rewrite <- Eh; reflexivity.
  Qed.

  (** ** the whole forest *)
  Definition entry_dels (dels : list H) (e : entry) : list dcoord :=
    match snd e with
    | None => []
    | Some c => del_coords dels c (fst (fst e)) (snd (fst e) / P2 (fst (fst e)))
    end.
  Definition forest_dels (dels : list H) (f : list entry) : list dcoord :=
    flat_map (entry_dels dels) f.
  Definition graft_entry (D : list dcoord) (e : entry) : entry :=
    let k := fst (fst e) in
    let o := snd (fst e) / P2 k in
    (k, snd (fst e), graft k o (snd e) (filter (under k o) D)).

  (** what [Undo] is told about a deletion: coordinates (positions) and hashes of the deleted leaves *)
  Definition deleted_leaves (dels : list H) (s : slots H) : list dcoord :=
    map node_dcoord (filter (is_del dels) (layout HO s)).

  Lemma forest_dels_layout dels (f : list entry) :
    forest_dels dels f = map node_dcoord (filter (is_del dels) (flat_map (place_entry HO) f)).
  Proof.
    induction f as [|[[k lo] t] f IH]; [reflexivity|].
    cbn [forest_dels flat_map]. fold (forest_dels dels f). rewrite filter_app, map_app, <- IH. f_equal.
    unfold entry_dels, place_entry. cbn [fst snd]. fold (P2 k). destruct t as [c|].
    - apply del_coords_layout.
    - reflexivity.
  Qed.

  Theorem deleted_leaves_forest dels s : deleted_leaves dels s = forest_dels dels (forest HO s).
  Proof. unfold deleted_leaves, layout. symmetry. apply forest_dels_layout. Qed.

  Definition outside (lo hi : N) (e : dcoord) : Prop := dhi e <= lo \/ hi <= dlo e.

  Lemma graft_entry_prune dels k lo t m Dpre Dpost :
    lo = m * P2 k -> (forall c, t = Some c -> wf c k) ->
    (forall e, In e (Dpre ++ Dpost) -> outside lo (lo + P2 k) e) ->
    graft_entry (Dpre ++ entry_dels dels (k, lo, t) ++ Dpost) (prune_entry HO dels (k, lo, t)) = (k, lo, t).
  Proof.
    intros Hlo Hw Hout. unfold graft_entry, prune_entry. cbn [fst snd].
    assert (Hm : lo / P2 k = m) by (rewrite Hlo; apply N.div_mul, P2_nz). rewrite Hm.
    assert (Hno : forall e, outside lo (lo + P2 k) e -> under k m e = false).
    { intros e He. pose proof (dlo_lt_dhi e). unfold outside in He. unfold under. lia. }
    rewrite !filter_app.
    rewrite (filter_none _ Dpre) by (intros e He; apply Hno, Hout, in_or_app; left; exact He).
    rewrite (filter_none _ Dpost) by (intros e He; apply Hno, Hout, in_or_app; right; exact He).
    rewrite app_nil_r. cbn [app]. unfold entry_dels. cbn [fst snd]. rewrite Hm.
    destruct t as [c|]; cbn [oprune filter].
    - rewrite filter_all by (intros e He; exact (del_coords_under dels c k m e (Hw c eq_refl) He)).
      rewrite (graft_prune dels c k m (Hw c eq_refl)). reflexivity.
    - rewrite graft_nil. reflexivity.
  Qed.

  Lemma forest_dels_range dels k lo (s : slots H) m :
    lo = m * P2 (S k) -> (length s < 2 ^ S k)%nat ->
    forall e, In e (forest_dels dels (trees HO k lo s)) ->
              lo <= dlo e /\ dhi e <= lo + N.of_nat (length s).
  Proof.
    intros Hlo Hlt e He. rewrite forest_dels_layout in He.
    apply in_map_iff in He as (x & <- & Hx). apply filter_In in Hx as [Hx _].
    destruct (trees_geom H HO k lo s m Hlo Hlt) as (_ & B & _). exact (B x Hx).
  Qed.

  Lemma trees_graft dels k : forall lo (s : slots H) m Dpre Dpost,
    lo = m * P2 (S k) -> (length s < 2 ^ S k)%nat ->
    (forall e, In e (Dpre ++ Dpost) -> outside lo (lo + N.of_nat (length s)) e) ->
    map (graft_entry (Dpre ++ forest_dels dels (trees HO k lo s) ++ Dpost))
        (map (prune_entry HO dels) (trees HO k lo s)) = trees HO k lo s.
  Proof.
    induction k as [|k IH]; intros lo s m Dpre Dpost Hlo Hlt Hout.
    - rewrite trees_0. change (2 ^ 1)%nat with 2%nat in Hlt.
      destruct (Nat.leb_spec 1 (length s)) as [Hge|Hsmall]; [|reflexivity].
      cbn [map forest_dels flat_map]. rewrite app_nil_r. f_equal.
      apply (graft_entry_prune dels 0 lo _ lo).
      + rewrite P2_0. lia.
      + intros c Hc. exact (compress_wf _ _ _ Hc).
      + intros e He. specialize (Hout e He). unfold outside in *. rewrite P2_0. lia.
    - rewrite trees_S. rewrite P2_S in Hlo.
      assert (Hpow : (2 ^ S (S k) = 2 * 2 ^ S k)%nat) by apply Nat.pow_succ_r'.
      destruct (Nat.leb_spec (2 ^ S k) (length s)) as [Hge|Hsmall].
      + set (t0 := compress HO (S k) (firstn (2 ^ S k) s)).
        set (lo' := lo + N.of_nat (2 ^ S k)). set (s' := skipn (2 ^ S k) s).
        pose proof (P2_nat (S k)) as HP.
        assert (Hlo0 : lo = (2 * m) * P2 (S k)) by lia.
        assert (Hlo' : lo' = (2 * m + 1) * P2 (S k)) by (unfold lo'; lia).
        assert (Hl' : length s' = (length s - 2 ^ S k)%nat) by apply skipn_length.
        assert (Hlt' : (length s' < 2 ^ S k)%nat) by lia.
        cbn [map forest_dels flat_map]. fold (forest_dels dels (trees HO k lo' s')).
        set (D0 := entry_dels dels (S k, lo, t0)). set (D1 := forest_dels dels (trees HO k lo' s')).
        assert (R1 : forall e, In e D1 -> lo' <= dlo e /\ dhi e <= lo' + N.of_nat (length s'))
          by (apply (forest_dels_range dels k lo' s' (2 * m + 1) Hlo' Hlt')).
        assert (R0 : forall e, In e D0 -> lo <= dlo e /\ dhi e <= lo + P2 (S k)).
        { intros e He. unfold D0 in He. rewrite <- (app_nil_r (entry_dels _ _)) in He.
          change (entry_dels dels (S k, lo, t0) ++ []) with (forest_dels dels [(S k, lo, t0)]) in He.
          rewrite forest_dels_layout in He. apply in_map_iff in He as (x & <- & Hx).
          apply filter_In in Hx as [Hx _]. cbn [flat_map] in Hx. rewrite app_nil_r in Hx.
          destruct (place_entry_geom H HO (S k) lo t0 (2 * m) Hlo0) as (_ & B & _).
          destruct (B x Hx) as (_ & B1 & B2 & _). split; [exact B1|exact B2]. }
        f_equal.
        * rewrite <- app_assoc.
          apply (graft_entry_prune dels (S k) lo t0 (2 * m) Dpre (D1 ++ Dpost) Hlo0).
          -- intros c Hc. exact (compress_wf _ _ _ Hc).
          -- intros e He. apply in_app_or in He as [He|He];
               [|apply in_app_or in He as [He|He]].
             ++ specialize (Hout e (in_or_app _ _ _ (or_introl He))). unfold outside in *. lia.
             ++ destruct (R1 e He). unfold outside, lo' in *. lia.
             ++ specialize (Hout e (in_or_app _ _ _ (or_intror He))). unfold outside in *. lia.
        * rewrite <- app_assoc, app_assoc.
          apply (IH lo' s' (2 * m + 1) (Dpre ++ D0) Dpost Hlo' Hlt').
          intros e He. rewrite <- app_assoc in He. apply in_app_or in He as [He|He];
               [|apply in_app_or in He as [He|He]].
          -- specialize (Hout e (in_or_app _ _ _ (or_introl He))). unfold outside, lo' in *. lia.
          -- destruct (R0 e He). unfold outside, lo' in *. lia.
          -- specialize (Hout e (in_or_app _ _ _ (or_intror He))). unfold outside, lo' in *. lia.
      + apply (IH lo s (2 * m)); [lia|exact Hsmall|exact Hout].
  Qed.

  (** the forest before a deletion, from the forest after it and the deleted (coordinate, hash)s *)
  Theorem forest_graft dels (s : slots H) :
    map (graft_entry (deleted_leaves dels s)) (forest HO (kill HO dels s)) = forest HO s.
  Proof.
    rewrite forest_kill, deleted_leaves_forest. unfold forest.
    pose proof (trees_graft dels (Nat.log2 (length s)) 0 s 0 [] [] eq_refl (length_lt_log2 H s)) as G.
    cbn [app] in G. rewrite app_nil_r in G. apply G. intros e [].
  Qed.

  (** deletion is injective on classes, given what [Undo] is told *)
  Theorem kill_class_injective dels (s1 s2 : slots H) :
    equiv HO (kill HO dels s1) (kill HO dels s2) ->
    deleted_leaves dels s1 = deleted_leaves dels s2 -> equiv HO s1 s2.
  Proof.
    intros [A B] ED. split; [rewrite !length_kill in A; exact A|].
    rewrite <- (forest_graft dels s1), <- (forest_graft dels s2), B, ED. reflexivity.
  Qed.
End Graft.

Arguments wf {H} HO t k.
Arguments del_coords {H} HO dels t r o.
Arguments node_dcoord {H} x.
Arguments is_del {H} HO dels x.
Arguments drow {H} e.
Arguments doff {H} e.
Arguments dlo {H} e.
Arguments dhi {H} e.
Arguments under {H} R O e.
Arguments weight {H} D.
Arguments full {H} D R.
Arguments graft {H} HO k o t' D.
Arguments entry_dels {H} HO dels e.
Arguments forest_dels {H} HO dels f.
Arguments graft_entry {H} HO D e.
Arguments deleted_leaves {H} HO dels s.
Arguments outside {H} lo hi e.

(** * Part 8 (C06): the class-level inverse of the additions, and of a whole block *)
Section Uncarry.
  Variable H : Type.
  Variable HO : ops H.
  Notation entry := (nat * N * option (ctree H))%type.
  Notation sentry := (nat * option (ctree H))%type.

  Definition strip (e : entry) : sentry := (fst (fst e), snd e).
  Definition is_none {A} (o : option A) : bool := match o with None => true | Some _ => false end.

  (** [carry] without the slot offsets *)
  Fixpoint scarry (rts : list sentry) (r : nat) (t : option (ctree H)) : list sentry * sentry :=
    match rts with
    | [] => ([], (r, t))
    | (r', t') :: rest => if Nat.eqb r' r then scarry rest (S r) (join HO t' t) else (rts, (r, t))
    end.

  Lemma scarry_carry (F : list entry) : forall r lo t,
    scarry (map strip F) r t =
    (map strip (fst (carry H HO F r lo t)), strip (snd (carry H HO F r lo t))).
  Proof.
    induction F as [|[[r' lo'] t'] F IH]; intros r lo t; [reflexivity|].
    cbn [map carry]. unfold strip at 1. cbn [fst snd scarry].
    destruct (Nat.eqb r' r); [apply IH|reflexivity].
  Qed.

  (** the consumed prefix *)
  Lemma scarry_spec (rf : list sentry) : forall i X,
    exists cons rest, rf = cons ++ rest /\
      scarry rf i X = (rest, ((i + length cons)%nat, fold_left (fun Y e => join HO (snd e) Y) cons X)) /\
      map fst cons = seq i (length cons).
  Proof.
    induction rf as [|[r' t'] rf IH]; intros i X.
    - exists [], []. cbn. rewrite Nat.add_0_r. auto.
    - cbn [scarry]. destruct (Nat.eqb_spec r' i) as [->|Hne].
      + destruct (IH (S i) (join HO t' X)) as (cons & rest & E & C & R).
        exists ((i, t') :: cons), rest. split; [rewrite E; reflexivity|]. split.
        * rewrite C. cbn [length fold_left snd]. f_equal. f_equal. lia.
        * cbn [map length seq fst]. rewrite R. reflexivity.
      + exists [], ((r', t') :: rf). cbn. rewrite Nat.add_0_r. auto.
  Qed.

  (** peel the consumed trees off the carried tree; [rfl]: emptiness of the consumed trees, highest
      row first *)
  Fixpoint peel (rfl : list bool) (i : nat) (X : option (ctree H)) : list sentry :=
    match i, rfl with
    | S i', f :: rfl' =>
        let sp := if f then (None, X)
                  else match X with
                       | Some (CNode _ c x) => (Some c, Some x)
                       | _ => (None, X)
                       end in
        peel rfl' i' (snd sp) ++ [(i', fst sp)]
    | _, _ => []
    end.

  Lemma fold_join_some (cons : list sentry) : forall x,
    exists y, fold_left (fun Y e => join HO (snd e) Y) cons (Some x) = Some y.
  Proof.
    induction cons as [|[r t] cons IH]; intros x; [exists x; reflexivity|].
    cbn [fold_left snd]. destruct t as [c|]; cbn [join]; apply IH.
  Qed.

  Lemma peel_fold (cons : list sentry) : forall x,
    map fst cons = seq 0 (length cons) ->
    peel (rev (map (fun e => is_none (snd e)) cons)) (length cons)
         (fold_left (fun Y e => join HO (snd e) Y) cons (Some x)) = cons.
  Proof.
    induction cons as [|[r t] cons IH] using rev_ind; intros x Hrows; [reflexivity|].
    rewrite map_app, rev_app_distr, app_length, fold_left_app. cbn [map rev app length fold_left snd].
    rewrite Nat.add_1_r. rewrite map_app, app_length, Nat.add_1_r, seq_S in Hrows. cbn [map fst] in Hrows.
    apply app_inj_tail in Hrows as [Hrows Hr]. cbn [Nat.add] in Hr. subst r.
    destruct (fold_join_some cons x) as [y Ey]. rewrite Ey. cbn [peel].
    destruct t as [c|]; cbn [is_none join fst snd].
    - rewrite <- Ey, IH by exact Hrows. reflexivity.
    - rewrite <- Ey, IH by exact Hrows. reflexivity.
  Qed.

  (** one addition on the class, and its inverse *)
  Definition sadd (rf : list sentry) (x : option H) : list sentry :=
    let r := scarry rf 0 (compress HO 0 [x]) in snd r :: fst r.
  Definition flags (rf : list sentry) : list bool := map (fun e => is_none (snd e)) rf.
  Definition unsadd (fl : list bool) (rf' : list sentry) : list sentry :=
    match rf' with
    | [] => []
    | (j, T) :: rest => peel (rev (firstn j fl)) j T ++ rest
    end.

  Theorem unsadd_sadd rf a : unsadd (flags rf) (sadd rf (Some a)) = rf.
  Proof.
    unfold sadd. cbn [compress].
    destruct (scarry_spec rf 0 (Some (CLeaf a))) as (cons & rest & E & C & R).
    rewrite C. cbn [fst snd unsadd Nat.add]. subst rf. unfold flags. rewrite map_app.
    rewrite firstn_app, map_length, Nat.sub_diag, firstn_all2 by (rewrite map_length; lia).
    cbn [firstn]. rewrite app_nil_r, (peel_fold cons (CLeaf a) R). reflexivity.
  Qed.

  (** rows and emptiness of the roots: all an undo needs to know about the state before the adds *)
  Definition shape (rf : list sentry) : list (nat * bool) := map (fun e => (fst e, is_none (snd e))) rf.
  Fixpoint shcarry (sh : list (nat * bool)) (r : nat) : list (nat * bool) * nat :=
    match sh with
    | [] => ([], r)
    | (r', _) :: rest => if Nat.eqb r' r then shcarry rest (S r) else (sh, r)
    end.
  Definition shape_add (sh : list (nat * bool)) : list (nat * bool) :=
    let r := shcarry sh 0 in (snd r, false) :: fst r.

  Lemma shcarry_scarry (rf : list sentry) : forall r x,
    exists y, shcarry (shape rf) r = (shape (fst (scarry rf r (Some x))), fst (snd (scarry rf r (Some x)))) /\
              snd (snd (scarry rf r (Some x))) = Some y.
  Proof.
    induction rf as [|[r' t'] rf IH]; intros r x; [exists x; split; reflexivity|].
    cbn [shape map shcarry scarry fst snd]. fold (shape rf).
    destruct (Nat.eqb r' r).
    - destruct t' as [c|]; cbn [join]; apply IH.
    - exists x. split; reflexivity.
  Qed.

  Lemma shape_sadd rf a : shape (sadd rf (Some a)) = shape_add (shape rf).
  Proof.
    unfold sadd, shape_add. cbn [compress].
    destruct (shcarry_scarry rf 0 (CLeaf a)) as (y & E & Ey). rewrite E. cbn [fst snd].
    destruct (scarry rf 0 (Some (CLeaf a))) as [rest [j T]]. cbn [fst snd] in *. subst T. reflexivity.
  Qed.

  Fixpoint undo_sadds (sh : list (nat * bool)) (q : nat) (rf' : list sentry) : list sentry :=
    match q with
    | O => rf'
    | S q' => unsadd (map snd sh) (undo_sadds (shape_add sh) q' rf')
    end.

  Lemma flags_shape rf : map snd (shape rf) = flags rf.
  Proof. unfold shape, flags. rewrite map_map. reflexivity. Qed.

  (** the reversed stripped forest of a state *)
  Definition rforest (s : slots H) : list sentry := map strip (rev (forest HO s)).

  Lemma rforest_snoc s x : rforest (s ++ [x]) = sadd (rforest s) x.
  Proof.
    unfold rforest, sadd. pose proof (forest_snoc H HO s x) as F. cbv zeta in F. rewrite F.
    rewrite (scarry_carry (rev (forest HO s)) 0 (N.of_nat (length s))). reflexivity.
  Qed.

  Theorem undo_sadds_spec adds : forall s,
    undo_sadds (shape (rforest s)) (length adds) (rforest (s ++ map Some adds)) = rforest s.
  Proof.
    induction adds as [|a adds IH]; intros s; [cbn; rewrite app_nil_r; reflexivity|].
    cbn [length undo_sadds map]. change (Some a :: map Some adds) with ([Some a] ++ map Some adds).
    rewrite app_assoc, <- (shape_sadd (rforest s) a), <- (rforest_snoc s (Some a)), IH, flags_shape,
      rforest_snoc.
    apply unsadd_sadd.
  Qed.

  (** offsets are determined by the rows *)
  Fixpoint relo (lo : N) (l : list sentry) : list entry :=
    match l with
    | [] => []
    | (k, t) :: r => (k, lo, t) :: relo (lo + N.of_nat (2 ^ k)) r
    end.

  Lemma trees_relo k : forall lo (s : slots H), relo lo (map strip (trees HO k lo s)) = trees HO k lo s.
  Proof.
    induction k as [|k IH]; intros lo s.
    - rewrite trees_0. destruct (1 <=? length s); reflexivity.
    - rewrite trees_S. destruct (2 ^ S k <=? length s); [|apply IH].
      cbn [map relo]. unfold strip at 1. cbn [fst snd]. rewrite IH. reflexivity.
  Qed.

  Lemma forest_relo s : relo 0 (rev (rforest s)) = forest HO s.
  Proof. unfold rforest. rewrite <- map_rev, rev_involutive. apply trees_relo. Qed.

  (** ** the class-level undo of a block: from the forest after the block, the number of additions,
      the rows and emptiness of the roots after the deletions, and the coordinates and hashes of
      the deleted leaves *)
  Definition class_undo (F' : list entry) (sh : list (nat * bool)) (numAdds : nat)
             (D : list (nat * N * H)) : list entry :=
    map (graft_entry HO D) (relo 0 (rev (undo_sadds sh numAdds (map strip (rev F'))))).

  Theorem class_undo_spec (s : slots H) (dels adds : list H) :
    class_undo (forest HO (apply_block HO s dels adds)) (shape (rforest (kill HO dels s)))
               (length adds) (deleted_leaves HO dels s) = forest HO s.
  Proof.
    unfold class_undo, apply_block. fold (rforest (kill HO dels s ++ map Some adds)).
    rewrite undo_sadds_spec, forest_relo. apply forest_graft.
  Qed.

  (** a block is injective on classes given what [Undo] is told *)
  Theorem block_class_injective (s1 s2 : slots H) (d1 a1 d2 a2 : list H) :
    equiv HO (apply_block HO s1 d1 a1) (apply_block HO s2 d2 a2) ->
    length a1 = length a2 ->
    shape (rforest (kill HO d1 s1)) = shape (rforest (kill HO d2 s2)) ->
    deleted_leaves HO d1 s1 = deleted_leaves HO d2 s2 ->
    equiv HO s1 s2.
  Proof.
    intros [A B] La Sh De. split.
    - unfold apply_block in A. rewrite !app_length, !map_length, !length_kill in A. lia.
    - rewrite <- (class_undo_spec s1 d1 a1), <- (class_undo_spec s2 d2 a2), B, La, Sh, De. reflexivity.
  Qed.
End Uncarry.

Arguments strip {H} e.
Arguments scarry {H} HO rts r t.
Arguments peel {H} rfl i X.
Arguments sadd {H} HO rf x.
Arguments flags {H} rf.
Arguments unsadd {H} fl rf'.
Arguments shape {H} rf.
Arguments undo_sadds {H} sh q rf'.
Arguments rforest {H} HO s.
Arguments relo {H} lo l.
Arguments class_undo {H} HO F' sh numAdds D.

(** the shape after the deletions from what [Undo] is told: the rows are the set bits of the
    previous leaf count; a root is empty after the deletions iff it was empty before or the deleted
    leaves fill its whole tree *)
Section ShapeKnown.
  Variable H : Type.
  Variable HO : ops H.
  Notation entry := (nat * N * option (ctree H))%type.

  Lemma trees_wf k : forall lo (s : slots H) e c,
    In e (trees HO k lo s) -> snd e = Some c -> wf HO c (fst (fst e)).
  Proof.
    induction k as [|k IH]; intros lo s e c He Hc.
    - rewrite trees_0 in He. destruct (1 <=? length s); [|destruct He].
      destruct He as [<-|[]]. cbn [fst snd] in *. exact (compress_wf H HO _ _ _ Hc).
    - rewrite trees_S in He. destruct (2 ^ S k <=? length s); [|exact (IH _ _ _ _ He Hc)].
      destruct He as [<-|He]; [|exact (IH _ _ _ _ He Hc)].
      cbn [fst snd] in *. exact (compress_wf H HO _ _ _ Hc).
  Qed.

  Theorem shape_rows (s : slots H) :
    map fst (shape (rforest HO s)) =
    filter (bit (N.of_nat (length s))) (seq 0 (S (Nat.log2 (length s)))).
  Proof.
    unfold shape, rforest. rewrite !map_map. cbn [fst strip]. apply forest_rows.
  Qed.

  Theorem shape_kill dels (s : slots H) :
    shape (rforest HO (kill HO dels s)) =
    map (fun e : entry => (fst (fst e),
                           is_none (snd e) || full (entry_dels HO dels e) (fst (fst e))))
        (rev (forest HO s)).
  Proof.
    unfold shape, rforest. rewrite forest_kill, <- map_rev, !map_map.
    apply map_ext_in. intros [[k lo] t] He. apply in_rev in He.
    unfold strip, prune_entry, entry_dels. cbn [fst snd]. f_equal.
    destruct t as [c|]; [|reflexivity]. cbn [oprune is_none orb].
    assert (Hw : wf HO c k) by exact (trees_wf _ _ _ _ c He eq_refl).
    rewrite (full_del H HO dels c k _ Hw). destruct (prune HO dels c); reflexivity.
  Qed.
End ShapeKnown.

(** the class-level undo by computation *)
Example ex_class_undo :
  let dels := [Atom 3; Atom 7] in
  let adds := [Atom 8; Atom 9; Atom 10] in
  deleted_leaves term_ops dels ex_s = [(0%nat, 2%N, Atom 3); (0%nat, 6%N, Atom 7)] /\
  shape (rforest term_ops (kill term_ops dels ex_s)) = [(0%nat, true); (1%nat, true); (2%nat, false)] /\
  class_undo term_ops (forest term_ops (apply_block term_ops ex_s dels adds))
             [(0%nat, true); (1%nat, true); (2%nat, false)] 3
             [(0%nat, 2%N, Atom 3); (0%nat, 6%N, Atom 7)] = forest term_ops ex_s.
Proof. cbv zeta. repeat split; vm_compute; reflexivity. Qed.

(** [Undo] receives positions, not coordinates: on the layout of a state they carry the same
    information *)
Section DeletedPos.
  Variable H : Type.
  Variable HO : ops H.

  Definition dpos (rows : nat) (e : nat * N * H) : N * H := (pos rows (drow e) (doff e), snd e).

  Lemma map_inj_on2 {A B} (f : A -> B) (l1 : list A) : forall l2,
    (forall x y, In x l1 -> In y l2 -> f x = f y -> x = y) -> map f l1 = map f l2 -> l1 = l2.
  Proof.
    induction l1 as [|a l1 IH]; intros [|b l2] Hi E; try discriminate; [reflexivity|].
    cbn [map] in E. injection E as E1 E2.
    rewrite (Hi a b (or_introl eq_refl) (or_introl eq_refl) E1). f_equal.
    apply IH; [|exact E2]. intros x y Hx Hy. apply Hi; right; assumption.
  Qed.

  Lemma deleted_leaves_in_bounds dels (s : slots H) e :
    In e (deleted_leaves HO dels s) -> in_bounds (rows_of (num_leaves s)) (drow e, doff e).
  Proof.
    unfold deleted_leaves. intros He. apply in_map_iff in He as (x & <- & Hx).
    apply filter_In in Hx as [Hx _]. exact (layout_in_bounds H HO s x Hx).
  Qed.

  Theorem deleted_leaves_by_pos d1 d2 (s1 s2 : slots H) :
    num_leaves s1 = num_leaves s2 ->
    map (dpos (rows_of (num_leaves s1))) (deleted_leaves HO d1 s1) =
    map (dpos (rows_of (num_leaves s1))) (deleted_leaves HO d2 s2) ->
    deleted_leaves HO d1 s1 = deleted_leaves HO d2 s2.
  Proof.
    intros En. apply map_inj_on2. intros x y Hx Hy E.
    apply deleted_leaves_in_bounds in Hx, Hy. rewrite <- En in Hy.
    unfold dpos in E. injection E as Ep Eh.
    pose proof (pos_inj_bounded _ _ _ Hx Hy Ep) as Ec. injection Ec as Er Eo.
    destruct x as [[xr xo] xh], y as [[yr yo] yh]. unfold drow, doff in *. cbn [fst snd] in *.
    congruence.
  Qed.
End DeletedPos.
Arguments dpos {H} rows e.

Print Assumptions needed_sub_allowed.
Print Assumptions needed_mono.
Print Assumptions equiv_bisim.
Print Assumptions equiv_live_eq.
Print Assumptions undo_equiv.
Print Assumptions undo_equiv_depth.
Print Assumptions canon_unique.
Print Assumptions exp_cached_perm.
Print Assumptions layout_npos_inj.
Print Assumptions canon_unique_state.
Print Assumptions exp_cached_perm_state.
Print Assumptions prove_perm.
Print Assumptions forest_graft.
Print Assumptions kill_class_injective.
Print Assumptions unsadd_sadd.
Print Assumptions class_undo_spec.
Print Assumptions block_class_injective.
Print Assumptions shape_rows.
Print Assumptions shape_kill.
Print Assumptions deleted_leaves_by_pos.
