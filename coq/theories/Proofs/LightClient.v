(** C07 for a whole light client over whole histories.
    A light client holds a roots-only verifier state (Stump) and a cached proof for its leaves.  At every
    block it receives the block (deleted hashes with their proof, added hashes), feeds it to the mirror of
    [Stump.Update], and feeds the returned update data together with its remember choice to the mirror
    of [Proof.Update].  THEOREM: after every valid history the client's stump is the stump of the
    reference forest, its cached proof is exactly the expected (canonical) cached proof of "previous
    leaves minus deleted ones plus remembered additions", and the stump verifier accepts it.
    Composition of [stump_update_data] (StumpDelData.v), [proof_update_every_block]
    (ProofUpdateDel2.v) and [cached_verifies] (CachedVerifies.v). *)
From Utreexo Require Import Spec.Forest Spec.Oracle Model.Verify Model.ProofUpdate Proofs.SpecBasics
     Proofs.CalcSound Proofs.LayoutStruct Proofs.RefTheory Proofs.CalcComplete Proofs.StumpUpdate
     Proofs.CachedVerifies Proofs.AbstractModels Proofs.StumpDelData Proofs.ProofUpdateSpec
     Proofs.ProofUpdateDel2.
From Coq Require Import Lia Sorted Permutation.
Open Scope N_scope.

Section LightClient.
  Variable H : Type.
  Variable HO : ops H.
  Hypothesis HOK : ops_ok HO.
  Hypothesis Hnz : forall a b, NZ HO (op_hash2 HO a b).
  Variable filler : H.
  Hypothesis Hfill : NZ HO filler.

  Definition cproof : Type := (list H * list N * list H)%type.
  Definition client : Type := (stump H * cproof)%type.
  (** a block as the client sees it: deleted hashes, added hashes, indexes of the additions to remember *)
  Definition cblock : Type := (list H * list H * list N)%type.

  Definition client_step (s : slots H) (cl : client) (b : cblock) : option client :=
    let '(st, (hC, tC, pC)) := cl in
    let '(dels, adds, rem) := b in
    match exp_prove HO (mk_ctx HO s) dels with
    | None => None
    | Some (bt, pfd) =>
        match stump_update HO true filler st dels adds bt pfd with
        | (st', Ok ud) =>
            match proof_update HO tC pC hC adds bt rem ud with
            | Some c' => Some (st', c')
            | None => None
            end
        | _ => None
        end
    end.

  (** abstract state: the reference forest and the set of leaves the client holds *)
  Definition astep (s : slots H) (C : list H) (b : cblock) : slots H * list H :=
    let '(dels, adds, rem) := b in
    (apply_block HO s dels adds, cached_after HO C dels (pick adds rem)).

  Fixpoint run_client (s : slots H) (C : list H) (cl : client) (bs : list cblock)
    : option (slots H * list H * client) :=
    match bs with
    | [] => Some (s, C, cl)
    | b :: rest =>
        match client_step s cl b with
        | None => None
        | Some cl' => let '(s', C') := astep s C b in run_client s' C' cl' rest
        end
    end.

  (** a block is valid in state [s]: distinct live deletions; non-empty additions that are fresh and
      pairwise distinct; ascending remember indexes; and "barring collisions": no inner node of the new
      forest carries the hash of a remembered addition, the recorded addition hashes are distinct *)
  Definition cblock_ok (s : slots H) (b : cblock) : Prop :=
    let '(dels, adds, rem) := b in
    NoDup dels /\ (forall h, In h dels -> In (Some h) s) /\
    (forall a, In a adds -> NZ HO a) /\
    NoDup (live (kill HO dels s ++ map Some adds)) /\
    StronglySorted N.lt rem /\
    (forall x, In x (layout HO (kill HO dels s ++ map Some adds)) -> nleaf x = false ->
               ~ In (nhash x) (pick adds rem)) /\
    NoDup (map snd (ud_new_add (spec_update_data HO s dels adds))).
  Fixpoint chist_ok (s : slots H) (C : list H) (bs : list cblock) : Prop :=
    match bs with
    | [] => True
    | b :: rest => cblock_ok s b /\ let '(s', C') := astep s C b in chist_ok s' C' rest
    end.
  Fixpoint ctotal_adds (bs : list cblock) : nat :=
    match bs with [] => 0%nat | (_, adds, _) :: rest => (length adds + ctotal_adds rest)%nat end.

  (** the client is in step with the reference: its stump is the stump of [s], its cached proof the
      expected cached proof of [C] in [s] *)
  Definition in_step (s : slots H) (C : list H) (cl : client) : Prop :=
    fst cl = stump_of H HO s /\ exp_cached HO (mk_ctx HO s) C = Some (snd cl).

  Lemma NoDup_app_inv (A : Type) (l1 l2 : list A) : NoDup (l1 ++ l2) ->
    NoDup l1 /\ NoDup l2 /\ (forall x, In x l1 -> ~ In x l2).
  Proof.
    induction l1 as [|a l1 IH]; cbn [app]; intros Hn; [repeat split; [constructor|exact Hn|intros x []]|].
    inversion Hn as [|a' l' Hna Hnd]; subst. destruct (IH Hnd) as (A1 & A2 & A3).
    split; [constructor; [intros Hin; apply Hna, in_or_app; left; exact Hin|exact A1]|].
    split; [exact A2|]. intros x [<-|Hx] Hx2; [apply Hna, in_or_app; right; exact Hx2|exact (A3 x Hx Hx2)].
  Qed.

  Lemma kill_keeps dels (s : slots H) h : In (Some h) s -> ~ In h dels -> In (Some h) (kill HO dels s).
  Proof.
    intros Hin Hnd. induction s as [|[x|] s IH]; [destruct Hin| |].
    - cbn [kill map]. destruct Hin as [E|Hin].
      + injection E as ->. destruct (memH HO h dels) eqn:Em.
        * exfalso. apply Hnd. apply (proj1 (SpecBasics.memH_In H HO HOK h dels)). exact Em.
        * left. reflexivity.
      + destruct (memH HO x dels); right; apply IH; exact Hin.
    - destruct Hin as [E|Hin]; [discriminate|]. right. apply IH. exact Hin.
  Qed.

  Lemma exp_cached_live (s : slots H) C c : exp_cached HO (mk_ctx HO s) C = Some c ->
    forall h, In h C -> In (Some h) s.
  Proof.
    unfold exp_cached. change (clay (mk_ctx HO s)) with (layout HO s).
    destruct (find_leaves HO (layout HO s) C) as [ts|] eqn:E; [|discriminate]. intros _.
    revert ts E. induction C as [|h C IH]; intros ts E k Hk; [destruct Hk|].
    cbn [find_leaves] in E.
    destruct (find_leaf HO (layout HO s) h) as [x|] eqn:Ef; [|discriminate].
    destruct (find_leaves HO (layout HO s) C) as [xs|] eqn:Efs; [|discriminate].
    destruct Hk as [<-|Hk]; [|exact (IH xs eq_refl k Hk)].
    destruct (find_leaf_some H HO _ _ _ HOK Ef) as (Hin & Hl & <-).
    apply (layout_leaf_live H HO s x); assumption.
  Qed.

  Theorem client_step_in_step (s : slots H) (C : list H) (cl : client) (b : cblock) :
    (forall h, In (Some h) s -> NZ HO h) -> NoDup (live s) -> NoDup C ->
    N.of_nat (length s + length (snd (fst b))) <= 2 ^ 63 ->
    in_step s C cl -> cblock_ok s b ->
    exists cl', client_step s cl b = Some cl' /\
      in_step (fst (astep s C b)) (snd (astep s C b)) cl' /\
      (forall h, In (Some h) (fst (astep s C b)) -> NZ HO h) /\
      NoDup (live (fst (astep s C b))) /\ NoDup (snd (astep s C b)).
  Proof.
    destruct b as [[dels adds] rem]. destruct cl as [st [[hC tC] pC]].
    intros Hlive Hnd HC Hb [Est Ec] (V1 & V2 & V3 & V4 & V5 & V6 & V7).
    cbn [fst snd] in *. subst st.
    unfold client_step, astep. cbn [fst snd].
    pose proof (exp_prove_live H HO HOK s dels V2) as Hne.
    destruct (exp_prove HO (mk_ctx HO s) dels) as [[bt pfd]|] eqn:Ep; [|contradiction].
    assert (Hfresh : forall a, In a adds -> ~ In (Some a) (kill HO dels s)).
    { intros a Ha Hin. rewrite live_app, live_map_some in V4.
      apply NoDup_app_inv in V4. destruct V4 as (_ & _ & Hdis).
      apply (Hdis a); [apply live_In; exact Hin|exact Ha]. }
    pose proof (stump_update_data HO filler s dels adds bt pfd HOK Hnz Hfill Hlive V3 Hnd Hb V1 Ep Hfresh V7) as Eu.
    change (the_stump (mk_ctx HO s)) with (stump_of H HO s) in Eu. rewrite Eu.
    destruct (proof_update_every_block HO HOK Hnz s dels adds C rem Hlive Hb Hnd V1 V4 HC V5 V6
                hC tC pC bt pfd Ec Ep) as [Epu Hsome].
    rewrite Epu.
    destruct (exp_cached HO (mk_ctx HO (apply_block HO s dels adds)) (cached_after HO C dels (pick adds rem)))
      as [c'|] eqn:Ec'; [|contradiction].
    exists (stump_of H HO (apply_block HO s dels adds), c'). split; [reflexivity|].
    split; [split; [reflexivity|exact Ec']|].
    split; [|split].
    - intros h Hh. unfold apply_block in Hh. apply in_app_or in Hh as [Hh|Hh].
      + apply Hlive. eapply kill_live_sub; exact Hh.
      + apply in_map_iff in Hh as (a & [= <-] & Ha). exact (V3 a Ha).
    - exact V4.
    - unfold cached_after. apply NoDup_app_intro'.
      + unfold removeH. apply NoDup_filter. exact HC.
      + apply pick_from_NoDup. rewrite live_app, live_map_some in V4.
        apply NoDup_app_inv in V4. tauto.
      + intros x Hx Hp. apply (proj1 (removeH_In HOK C dels x)) in Hx. destruct Hx as [HxC Hxd].
        apply pick_In in Hp. apply (Hfresh x Hp).
        apply kill_keeps; [exact (exp_cached_live s C _ Ec x HxC)|exact Hxd].
  Qed.

  Theorem light_client_history :
    forall bs s C cl,
      (forall h, In (Some h) s -> NZ HO h) -> NoDup (live s) -> NoDup C ->
      N.of_nat (length s + ctotal_adds bs) <= 2 ^ 63 ->
      in_step s C cl -> chist_ok s C bs ->
      exists sF CF clF, run_client s C cl bs = Some (sF, CF, clF) /\ in_step sF CF clF /\
        (forall h, In (Some h) sF -> NZ HO h) /\ NoDup (live sF) /\ NoDup CF /\
        N.of_nat (length sF) <= 2 ^ 63.
  Proof.
    induction bs as [|b bs IH]; intros s C cl Hlive Hnd HC Hb Hin Hok.
    - exists s, C, cl. cbn [ctotal_adds] in Hb. repeat split; try assumption; try reflexivity; try apply Hin. lia.
    - cbn [chist_ok] in Hok. destruct Hok as [Hbk Hok].
      destruct b as [[dels adds] rem]. cbn [ctotal_adds] in Hb.
      destruct (client_step_in_step s C cl (dels, adds, rem) Hlive Hnd HC ltac:(cbn [fst snd]; lia) Hin Hbk)
        as (cl' & Es & Hin' & Hlive' & Hnd' & HC').
      cbn [run_client]. rewrite Es.
      cbn [astep fst snd] in *.
      apply IH; try assumption.
      unfold apply_block. rewrite app_length, length_kill, map_length. lia.
  Qed.

  (** from the empty accumulator with an empty cached proof; and the cached proof verifies *)
  Theorem light_client_from_genesis bs :
    N.of_nat (ctotal_adds bs) <= 2 ^ 63 -> chist_ok [] [] bs ->
    exists sF CF st hC tC pC,
      run_client [] [] (mkStump [] 0, ([], [], [])) bs = Some (sF, CF, (st, (hC, tC, pC))) /\
      st = stump_of H HO sF /\
      exp_cached HO (mk_ctx HO sF) CF = Some (hC, tC, pC) /\
      exp_prove HO (mk_ctx HO sF) hC = Some (tC, pC) /\ Permutation hC CF /\
      exists idx, Verify HO true st hC tC pC = Ok idx.
  Proof.
    intros Hb Hok.
    assert (Hin0 : in_step [] [] (mkStump [] 0, ([], [], []))).
    { split; vm_compute; reflexivity. }
    destruct (light_client_history bs [] [] _ (fun h (F : In (Some h) []) => match F with end)
                (NoDup_nil _) (NoDup_nil _) Hb Hin0 Hok)
      as (sF & CF & [st [[hC tC] pC]] & Er & [Est Ec] & Hlive & Hnd & HC & Hbf).
    cbn [fst snd] in Est, Ec.
    exists sF, CF, st, hC, tC, pC. split; [exact Er|]. split; [exact Est|]. split; [exact Ec|].
    destruct (cached_is_canonical H HO HOK sF CF hC tC pC Hnd HC Ec) as [Ep Hperm].
    split; [exact Ep|]. split; [exact Hperm|].
    destruct (cached_verifies H HO HOK sF CF hC tC pC Hnz Hlive Hbf Hnd HC Ec) as (idx & Ev & _).
    exists idx. rewrite Est. exact Ev.
  Qed.
End LightClient.
Print Assumptions light_client_from_genesis.

(** non-vacuity: a three-block history (5 additions, remembering the 2nd and 5th; a block deleting two
    leaves - one of them uncached - and remembering both of its additions; a block deleting a
    cached and an uncached leaf) satisfies every hypothesis, and the theorem applies *)
From Utreexo Require Import Spec.Term.
Definition lc_hist : list (cblock term) :=
  [ ([], [Atom 1; Atom 2; Atom 3; Atom 4; Atom 5], [1; 4]);
    ([Atom 2; Atom 3], [Atom 6; Atom 7], [0; 1]);
    ([Atom 5; Atom 6], [Atom 8], []) ].

Ltac lc_nodup := repeat (constructor; [cbn; intuition discriminate|]); constructor.
Ltac lc_forall := let x := fresh "x" in let Hx := fresh "Hx" in
  intros x Hx; cbn in Hx; repeat (destruct Hx as [<-|Hx]; [|]); try contradiction.

Example lc_hist_ok : chist_ok term term_ops [] [] lc_hist.
Proof.
  unfold lc_hist. cbn [chist_ok astep]. unfold cblock_ok.
  repeat match goal with |- _ /\ _ => split end; try exact I.
  all: try (match goal with |- NoDup _ => vm_compute; lc_nodup end).
  all: try (match goal with |- StronglySorted _ _ => repeat constructor; lia end).
  all: try (match goal with |- forall h, In h _ -> In (Some h) _ => lc_forall; vm_compute; tauto end).
  all: try (match goal with |- forall a, In a _ -> NZ _ a => lc_forall; reflexivity end).
  all: try (match goal with |- forall x, In x (layout _ _) -> _ =>
       let x := fresh "x" in let Hx := fresh "Hx" in intros x Hx; vm_compute in Hx;
       repeat (destruct Hx as [<-|Hx]; [vm_compute; intuition discriminate|]); destruct Hx end).
Qed.

Example lc_hist_by_theorem :
  exists sF CF st hC tC pC,
    run_client term term_ops (Atom 99) [] [] (mkStump [] 0, ([], [], [])) lc_hist
      = Some (sF, CF, (st, (hC, tC, pC))) /\
    st = stump_of term term_ops sF /\
    exp_cached term_ops (mk_ctx term_ops sF) CF = Some (hC, tC, pC) /\
    exp_prove term_ops (mk_ctx term_ops sF) hC = Some (tC, pC) /\ Permutation hC CF /\
    exists idx, Verify term_ops true st hC tC pC = Ok idx.
Proof.
  apply (light_client_from_genesis term term_ops term_ops_ok cs_term_hash_nz (Atom 99) eq_refl lc_hist);
    [vm_compute; discriminate|exact lc_hist_ok].
Qed.

(** ... and what it computes to: the client ends up holding the leaves 7 (remembered addition) - the
    other remembered leaves 2, 5 and 6 were deleted - with its true position and the canonical proof *)
Example lc_hist_computed :
  run_client term term_ops (Atom 99) [] [] (mkStump [] 0, ([], [], [])) lc_hist
  = Some (apply_block term_ops (apply_block term_ops (apply_block term_ops [] [] [Atom 1; Atom 2; Atom 3; Atom 4; Atom 5])
                                 [Atom 2; Atom 3] [Atom 6; Atom 7]) [Atom 5; Atom 6] [Atom 8],
          [Atom 7],
          (stump_of term term_ops
             (apply_block term_ops (apply_block term_ops (apply_block term_ops [] [] [Atom 1; Atom 2; Atom 3; Atom 4; Atom 5])
                                 [Atom 2; Atom 3] [Atom 6; Atom 7]) [Atom 5; Atom 6] [Atom 8]),
           ([Atom 7], [10], [Atom 8; Node (Atom 1) (Atom 4)]))).
Proof. vm_compute. reflexivity. Qed.
