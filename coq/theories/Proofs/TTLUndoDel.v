(** Component (C) of Proofs/TTLSpec.v: the position-only [undoDel] of the caching-schedule tracker
    ([Model.TTL.undoDelPos]: the function [undoDel] of prove.go, not the method on [Proof]) against the
    reference forest.

    [undo_del_spec_holds]: for ANY state [s] of at most 2^62 leaves, any duplicate-free list [dels] of
    live leaves and any duplicate-free list [L] of leaves that survive the deletion, the mirror, given
    the 63-row positions of [L] in [kill dels s] and the 63-row positions of [dels] in [s] (in any
    order), returns the 63-row positions of [L] in [s] - sibling leaves, whole subtrees and whole trees
    deleted included.

    Structure
    - D1  [deTwin] does the same in every coordinate system ([deTwin_recoord]): the tracker runs it
          on 63-row positions, [ProofUpdateDel2.tw_deTwin] characterises it in the forest's own rows
          (the result is the list of the tops of the fully deleted trees and of the roots of the
          maximal deleted subtrees of the other trees);
    - D2  [undoDelPos] as a fold of one step per detwinned target, last first ([undoDelPos_fold]); a
          target that is not the top of a tree moves a coordinate like [ProofUndoSpec.unlift1]
          whatever the [DetectOffset] test says ([ud_step_nontop]: when the coordinate lies below the
          parent of the target the test succeeds, [same_subtree_under]; otherwise both branches leave
          it alone); the top of a fully deleted tree moves nothing because the test fails
          ([ud_step_top], [ProofUpdateDel2.subtree_diff_trees]); the trajectory is the un-lift over
          the roots of the maximal deleted subtrees in reverse order, which undoes the contraction of
          [prune] ([ProofUndoDel2.ug_down]). *)
From Utreexo Require Import Base.Hash Base.Bits64 Model.Utils Model.ProofUpdate Model.TTL
  Spec.Forest Spec.Oracle Spec.Term Proofs.SpecBasics Proofs.UtilsGeom Proofs.UtilsGeom2
  Proofs.LayoutStruct Proofs.ProofPosSpec Proofs.CalcSound Proofs.CalcComplete Proofs.StumpAdd Proofs.StumpAddData
  Proofs.ProofOpsSpec Proofs.ProofUpdateSpec Proofs.ProofUpdateDel Proofs.ProofUpdateDel2 Proofs.ProofUndoSpec
  Proofs.ProofUndoDel Proofs.ProofUndoDel2 Proofs.CachedVerifies Proofs.StumpUpdate Proofs.RefTheory Proofs.TTLSpec
  Proofs.TTLUndoAdd.
From Coq Require Import List Arith PeanoNat NArith ZArith Lia ZifyNat ZifyN ZifyBool Bool Sorted Permutation.
Import ListNotations.
Open Scope N_scope.

(** * D1. [deTwin] does the same in every coordinate system *)

Definition sibc (x : StumpAddData.coord) : StumpAddData.coord := (fst x, N.lor (snd x) 1).

Lemma twin_test R xa xb : (R <= 63)%nat -> cvalid R xa -> cvalid R xb ->
  (rightSib (cpos R xa) =? cpos R xb) = true <-> xb = sibc xa.
Proof.
  intros HR [A1 A2] [B1 B2]. rewrite N.eqb_eq, !cpos_gpos.
  rewrite rightSib_gpos by lia. split.
  - intros E. destruct (Nat.eq_dec (fst xa) R) as [Er|Er].
    + exfalso. rewrite Er, N.sub_diag in A2. assert (Eo : snd xa = 0) by (cbn in A2; lia).
      rewrite Eo, Er in E. change (N.lor 0 1) with 1 in E.
      pose proof (gpos_lt (N.of_nat R) (N.of_nat (fst xb)) (snd xb) ltac:(lia) B2) as Hb.
      rewrite <- E in Hb. unfold gpos, gstart in Hb.
      replace (N.of_nat R + 1 - N.of_nat R) with 1 in Hb by lia.
      assert (1 <= 2 ^ (N.of_nat R - N.of_nat (fst xb))) by (pose proof (UtilsGeom.pow2_pos (N.of_nat R - N.of_nat (fst xb))); lia).
      assert (2 <= 2 ^ (N.of_nat R + 1)) by (rewrite UtilsGeom.pow2_S; pose proof (UtilsGeom.pow2_pos (N.of_nat R)); lia).
      change (2 ^ 1) with 2 in Hb. lia.
    + destruct (sib_offsets_lt (N.of_nat R) (N.of_nat (fst xa)) (snd xa) ltac:(lia) A2) as (_ & Hl & _).
      symmetry in E. apply gpos_inj in E as [Er' Eo]; [|lia|exact B2|lia|exact Hl].
      unfold sibc. destruct xb as [rb ob]. cbn [fst snd] in *. f_equal; [lia|exact Eo].
  - intros ->. reflexivity.
Qed.

Lemma insC_recoord R R' : forall (L : list StumpAddData.coord) p, (forall x, In x L -> cvalid R x) -> cvalid R p ->
  (R <= R')%nat -> insC R L p = insC R' L p.
Proof.
  intros L p HL Hp HR. induction L as [|y L IH]; [reflexivity|]. cbn [insC].
  assert (Hy : cvalid R y) by (apply HL; left; reflexivity).
  assert (E : (cpos R p <? cpos R y) = (cpos R' p <? cpos R' y)).
  { pose proof (cvalid_mono R R' p HR Hp) as Hp'. pose proof (cvalid_mono R R' y HR Hy) as Hy'.
    destruct (clt_total p y) as [Hc|[->|Hc]].
    - pose proof (cpos_lt_clt R _ _ Hp Hy Hc). pose proof (cpos_lt_clt R' _ _ Hp' Hy' Hc).
      destruct (N.ltb_spec (cpos R p) (cpos R y)), (N.ltb_spec (cpos R' p) (cpos R' y)); try reflexivity; lia.
    - rewrite !N.ltb_irrefl. reflexivity.
    - pose proof (cpos_lt_clt R _ _ Hy Hp Hc). pose proof (cpos_lt_clt R' _ _ Hy' Hp' Hc).
      destruct (N.ltb_spec (cpos R p) (cpos R y)), (N.ltb_spec (cpos R' p) (cpos R' y)); try reflexivity; lia. }
  rewrite <- E. destruct (cpos R p <? cpos R y); [reflexivity|]. f_equal. apply IH.
  intros x Hx. apply HL. right. exact Hx.
Qed.

Lemma deTwin_loop_recoord R R' : (R <= R')%nat -> (R' <= 63)%nat ->
  forall fuel i (L : list StumpAddData.coord), (forall x, In x L -> cvalid R x) ->
  exists Lf, deTwin_loop fuel i (map (cpos R) L) (N.of_nat R) = map (cpos R) Lf /\
             deTwin_loop fuel i (map (cpos R') L) (N.of_nat R') = map (cpos R') Lf /\
             (forall x, In x Lf -> cvalid R x).
Proof.
  intros HR HR'. induction fuel as [|f IH]; intros i L HL; [exists L; auto|].
  cbn [deTwin_loop]. rewrite !nth_error_map.
  destruct (nth_error L i) as [xa|] eqn:Ea; cbn [option_map]; [|exists L; auto].
  destruct (nth_error L (S i)) as [xb|] eqn:Eb; cbn [option_map]; [|exists L; auto].
  pose proof (HL xa (nth_error_In _ _ Ea)) as Va. pose proof (HL xb (nth_error_In _ _ Eb)) as Vb.
  pose proof (twin_test R xa xb ltac:(lia) Va Vb) as T1.
  pose proof (twin_test R' xa xb HR' (cvalid_mono R R' xa HR Va) (cvalid_mono R R' xb HR Vb)) as T2.
  destruct (rightSib (cpos R xa) =? cpos R xb) eqn:E1.
  - assert (Exb : xb = sibc xa) by (apply T1; reflexivity).
    rewrite (proj2 T2 Exb).
    assert (Hlt : (fst xa < R)%nat).
    { destruct Vb as [_ Vb2]. rewrite Exb in Vb2. unfold sibc in Vb2. cbn [fst snd] in Vb2.
      destruct (Nat.eq_dec (fst xa) R) as [Er|Er]; [exfalso|destruct Va; lia].
      destruct Va as [_ Va2]. rewrite Er, N.sub_diag in Va2, Vb2. assert (snd xa = 0) by (cbn in Va2; lia).
      rewrite H in Vb2. cbn in Vb2. lia. }
    set (L' := firstn i L ++ skipn (S (S i)) L).
    assert (HL' : forall x, In x L' -> cvalid R x).
    { intros x Hx. apply HL. unfold L' in Hx. apply in_app_or in Hx as [Hx|Hx].
      - rewrite <- (firstn_skipn i L). apply in_or_app. left. exact Hx.
      - rewrite <- (firstn_skipn (S (S i)) L). apply in_or_app. right. exact Hx. }
    assert (Vp : cvalid R (par xa)) by (apply par_valid; assumption).
    assert (E_R : insertInOrder (firstn i (map (cpos R) L) ++ skipn (S (S i)) (map (cpos R) L))
                    (Parent (cpos R xa) (N.of_nat R)) = map (cpos R) (insC R L' (par xa))).
    { rewrite firstn_map, skipn_map, <- map_app. fold L'.
      rewrite (Parent_cpos R xa ltac:(lia) Hlt Va). symmetry. apply insC_map. }
    assert (E_R' : insertInOrder (firstn i (map (cpos R') L) ++ skipn (S (S i)) (map (cpos R') L))
                    (Parent (cpos R' xa) (N.of_nat R')) = map (cpos R') (insC R L' (par xa))).
    { rewrite firstn_map, skipn_map, <- map_app. fold L'.
      rewrite (Parent_cpos R' xa HR' ltac:(lia) (cvalid_mono R R' xa HR Va)).
      rewrite (insC_recoord R R' L' (par xa) HL' Vp HR). symmetry. apply insC_map. }
    rewrite E_R, E_R'. apply IH.
    intros x Hx. apply insC_In in Hx as [->|Hx]; [exact Vp|exact (HL' x Hx)].
  - assert (E2 : (rightSib (cpos R' xa) =? cpos R' xb) = false).
    { destruct (rightSib (cpos R' xa) =? cpos R' xb) eqn:E2; [|reflexivity].
      pose proof (proj1 T2 eq_refl) as Ex. pose proof (proj2 T1 Ex). discriminate. }
    rewrite E2. apply IH. exact HL.
Qed.

Lemma deTwin_recoord R R' (L : list StumpAddData.coord) : (R <= R')%nat -> (R' <= 63)%nat ->
  (forall x, In x L -> cvalid R x) ->
  forall Lf, deTwin (map (cpos R) L) (N.of_nat R) = map (cpos R) Lf -> (forall x, In x Lf -> cvalid R x) ->
  deTwin (map (cpos R') L) (N.of_nat R') = map (cpos R') Lf.
Proof.
  intros HR HR' HL Lf E HLf. unfold deTwin in *. rewrite map_length in *.
  destruct (deTwin_loop_recoord R R' HR HR' (2 * length L + 2) 0 L HL) as (Lf' & E1 & E2 & V).
  rewrite E2. rewrite E1 in E.
  assert (Lf' = Lf).
  { clear - E V HLf HR HR'. revert Lf E HLf. induction Lf' as [|x l IH]; intros [|y l'] E HLf; try discriminate; [reflexivity|].
    cbn [map] in E. injection E as E0 E1.
    apply cpos_inj in E0; [|lia|apply V; left; reflexivity|apply HLf; left; reflexivity]. subst y. f_equal.
    apply IH; [intros z Hz; apply V; right; exact Hz|exact E1|intros z Hz; apply HLf; right; exact Hz]. }
  subst Lf'. reflexivity.
Qed.


(** * D2. [undoDel] on positions, on the reference forest *)

(** positions below the parent of [d] are in the tree of [d] *)
Lemma same_subtree_under R n d y : (R <= 63)%nat -> n <= 2 ^ 63 -> N.of_nat R = TreeRows n ->
  cvalid R d -> cvalid R y -> pf_ok n d -> ProofUpdateDel.under (par d) y ->
  subtree_of (cpos R d) n = subtree_of (cpos R y) n.
Proof.
  intros HR Hn ER [Hd1 Hd2] [Hy1 Hy2] Hpf [Hu1 Hu2]. unfold par in Hu1, Hu2. cbn [fst snd] in Hu1, Hu2.
  rewrite !cpos_gpos, ER. rewrite ER in Hd2, Hy2.
  apply (subtree_same_block n _ _ _ _ (N.of_nat (fst d) + 1) (snd d / 2) Hn); try lia; try assumption.
  - replace (N.of_nat (fst d) + 1) with (1 + N.of_nat (fst d)) by lia.
    rewrite N.pow_add_r, N.pow_1_r, N.mul_comm, (N.mul_comm 2), N.div_mul_cancel_l by (try apply pow2_nz; lia).
    reflexivity.
  - replace (N.of_nat (fst d) + 1) with (N.of_nat (S (fst d) - fst y) + N.of_nat (fst y)) by lia.
    rewrite N.pow_add_r, N.div_mul_cancel_r by apply pow2_nz. exact Hu2.
Qed.

Section FindLeaves.
  Variable H : Type.
  Variable HO : ops H.
  Hypothesis HOK : ops_ok HO.

  Lemma find_leaves_spec (s : slots H) : forall hs xds, find_leaves HO (layout HO s) hs = Some xds ->
    (forall x, In x xds -> In x (layout HO s) /\ nleaf x = true) /\ map (@nhash H) xds = hs /\
    map (lp H HO s) hs = map (npos 63) xds.
  Proof.
    induction hs as [|h hs IH]; intros xds E; cbn [find_leaves] in E.
    - injection E as <-. split; [intros x []|split; reflexivity].
    - destruct (find_leaf HO (layout HO s) h) as [x|] eqn:Ex; [|discriminate].
      destruct (find_leaves HO (layout HO s) hs) as [xs|]; [|discriminate]. injection E as <-.
      destruct (IH xs eq_refl) as (A & B & C).
      pose proof (find_leaf_some H HO _ _ _ HOK Ex) as (X1 & X2 & X3).
      split; [intros y [<-|Hy]; [split; assumption|exact (A y Hy)]|].
      split; [cbn [map]; rewrite B, X3; reflexivity|].
      cbn [map]. rewrite C. f_equal. unfold lp, leaf_pos. rewrite Ex. reflexivity.
  Qed.

  Lemma find_leaves_ex (s : slots H) hs : (forall h, In h hs -> In (Some h) s) ->
    exists xds, find_leaves HO (layout HO s) hs = Some xds.
  Proof.
    intros Hl. pose proof (exp_prove_live H HO HOK s hs Hl) as Hp. unfold exp_prove in Hp.
    change (clay (mk_ctx HO s)) with (layout HO s) in Hp.
    destruct (find_leaves HO (layout HO s) hs) as [xds|]; [eexists; reflexivity|contradiction].
  Qed.
End FindLeaves.

Lemma SS_clt_cpos R (L : list StumpAddData.coord) : (forall x, In x L -> cvalid R x) -> StronglySorted clt L ->
  StronglySorted N.lt (map (cpos R) L).
Proof.
  intros Hv Hs. induction Hs as [|x t Ht IH Hx]; cbn [map]; [constructor|].
  constructor; [apply IH; intros y Hy; apply Hv; right; exact Hy|].
  rewrite Forall_forall in *. intros z Hz. apply in_map_iff in Hz as (y & <- & Hy).
  apply cpos_lt_clt; [apply Hv; left; reflexivity|apply Hv; right; exact Hy|exact (Hx y Hy)].
Qed.

Lemma fold_left_maps {A B} (f : B -> A -> A) (ds : list B) : forall ps : list A,
  fold_left (fun ps d => map (f d) ps) ds ps = map (fun p => fold_left (fun p d => f d p) ds p) ps.
Proof.
  induction ds as [|d ds IH]; intros ps; cbn [fold_left]; [rewrite map_id; reflexivity|].
  rewrite IH, map_map. reflexivity.
Qed.

Lemma fold_left_map_arg {A B C} (g : C -> B) (f : A -> B -> A) (l : list C) : forall a,
  fold_left f (map g l) a = fold_left (fun a c => f a (g c)) l a.
Proof. induction l as [|c l IH]; intros a; [reflexivity|]. cbn [map fold_left]. apply IH. Qed.

(** one step of the loop of [undoDel] on a position *)
Definition ud_stepf (total n d pos : N) : N :=
  if negb (subtree_of (translatePos d total (TreeRows n)) n
           =? subtree_of (translatePos pos total (TreeRows n)) n) then pos
  else if isAncestor (Parent d total) pos total || (Parent d total =? pos)
       then calcPrevPosition pos d total
       else pos.

Lemma ud_stepf_move total n d pos :
  ud_stepf total n d pos =
  if subtree_of (translatePos d total (TreeRows n)) n =? subtree_of (translatePos pos total (TreeRows n)) n
  then moveDownPosition total (Parent d total) d pos else pos.
Proof.
  unfold ud_stepf, moveDownPosition. destruct (_ =? _); cbn [negb]; [|reflexivity].
  rewrite orb_comm, (N.eqb_sym pos). reflexivity.
Qed.

Lemma fold_left_ext2 {A B} (f g : A -> B -> A) : (forall a b, f a b = g a b) ->
  forall l a, fold_left f l a = fold_left g l a.
Proof. intros E. induction l as [|b l IH]; intros a; [reflexivity|]. cbn [fold_left]. rewrite E. apply IH. Qed.

Lemma undoDelPos_fold total positions deleted n : deleted <> [] ->
  undoDelPos total positions deleted n
  = map (fun p => fold_left (fun p d => ud_stepf total n d p) (rev (deTwin (sortN deleted) total)) p) positions.
Proof.
  intros Hne. unfold undoDelPos. destruct deleted as [|d0 dl]; [contradiction|].
  destruct positions as [|p0 pl]; [reflexivity|].
  erewrite (fold_left_ext2 _ (fun ps d => map (ud_stepf total n d) ps)).
  - apply fold_left_maps.
  - intros ps d. cbv zeta. apply map_ext. intros p. unfold ud_stepf. reflexivity.
Qed.

Lemma filter_cons_eq {A} (f : A -> bool) x l : filter f (x :: l) = if f x then x :: filter f l else filter f l.
Proof. reflexivity. Qed.
Lemma fold_left_cons_eq {A B} (f : A -> B -> A) x l a : fold_left f (x :: l) a = fold_left f l (f a x).
Proof. reflexivity. Qed.
Lemma unl_to_cons_eq d t y z : unl_to (d :: t) y z <-> (mv d y = true -> (1 <= fst y)%nat) /\ unl_to t (unlift1 d y) z.
Proof. reflexivity. Qed.
Lemma unl_to_nil_eq y z : unl_to [] y z <-> y = z.
Proof. reflexivity. Qed.

Section UndoDel.
  Variable H : Type.
  Variable HO : ops H.
  Hypothesis HOK : ops_ok HO.
  Variable s : slots H.
  Hypothesis Hnd : NoDup (live s).
  Hypothesis Hb : N.of_nat (length s) <= 2 ^ 62.
  Variable hs : list H.
  Hypothesis Hhs : NoDup hs.
  Variable xds : list (node H).
  Hypothesis Fx : find_leaves HO (layout HO s) hs = Some xds.
  Local Notation lay := (layout HO s).
  Local Notation R := (rows_of (num_leaves s)).
  Local Notation n := (N.of_nat (length s)).
  Local Notation s1 := (kill HO hs s).
  Local Notation entry := (StumpAdd.entry H).
  Local Notation erow := (@StumpAdd.erow H).
  Local Notation ecoord := (@StumpAddData.ecoord H).
  Local Notation prune := (RefTheory.prune HO hs).
  Local Notation lp := (lp H HO).
  Local Notation L0 := (mdd H s xds).
  Local Notation under := ProofUpdateDel.under.

  Lemma ud_n63 : n <= 2 ^ 63.
  Proof. assert (2 ^ 62 < 2 ^ 63) by (apply N.pow_lt_mono_r; lia). lia. Qed.
  Lemma ud_R63 : (R <= 63)%nat. Proof. apply rows_of_le_63. exact ud_n63. Qed.
  Lemma ud_ER : N.of_nat R = TreeRows n. Proof. exact (rf_R_total H s). Qed.

  Lemma ud_x : (forall x, In x xds -> In x lay) /\ (forall x, In x xds -> nleaf x = true) /\ NoDup xds /\
    map (@nhash H) xds = hs /\ map (lp s) hs = map (npos 63) xds.
  Proof.
    destruct (find_leaves_spec H HO HOK s hs xds Fx) as (A & B & C).
    split; [intros x Hx; exact (proj1 (A x Hx))|]. split; [intros x Hx; exact (proj2 (A x Hx))|].
    split; [|split; assumption]. apply (NoDup_map_inv (@nhash H)). rewrite B. exact Hhs.
  Qed.

  Variable Lf : list StumpAddData.coord.
  Hypothesis Ed : deTwin (map (cpos R) L0) (TreeRows n) = map (cpos R) Lf.
  Hypothesis Lfd : forall x, In x Lf -> fdc H HO s hs x.
  Hypothesis HsLf : StronglySorted N.lt (map (cpos R) Lf).
  Hypothesis Lac : antichain Lf.
  Hypothesis Lcov : covers H HO s hs Lf.
  Hypothesis Ltf : twinfreeC Lf.

  Definition nontop (d : StumpAddData.coord) : bool := negb (istop H HO s d).
  Local Notation D := (filter nontop Lf).

  Lemma ud_D_sorted : StronglySorted clt D.
  Proof.
    apply SS_filter. apply (SS_clt_of_pos R); [|exact HsLf].
    intros x Hx. exact (tw_fdc_valid H HO s hs x (Lfd x Hx)).
  Qed.

  Lemma ud_D_char d : In d D <->
    exists (e : entry) ce, In e (forest HO s) /\ snd e = Some ce /\ prune ce <> None /\
                          In d (glist H HO hs ce (ecoord e)).
  Proof.
    rewrite filter_In. unfold nontop. split.
    - intros [Hd Ht]. apply negb_true_iff in Ht.
      destruct (tw_char_fwd H HO HOK s ud_n63 hs Lf Lfd Lac Lcov Ltf d Hd) as (e & ce & He & Hse & _ & [[E _]|[Hne Hg]]).
      + exfalso. assert (istop H HO s d = true) by (apply istop_spec; exists e, ce; auto). congruence.
      + exists e, ce. auto.
    - intros (e & ce & He & Hse & Hne & Hg). split.
      + exact (tw_char_bwd H HO HOK s ud_n63 hs Lf Lfd Lac Lcov Ltf e ce d He Hse Hne Hg).
      + rewrite (af_glist_not_top H HO s ud_n63 hs e ce d He Hse Hne Hg). reflexivity.
  Qed.

  Lemma ud_top_char d : In d Lf -> nontop d = false ->
    exists (e : entry) ce, In e (forest HO s) /\ snd e = Some ce /\ prune ce = None /\ d = ecoord e.
  Proof.
    intros Hd Ht. unfold nontop in Ht. apply negb_false_iff in Ht.
    destruct (tw_char_fwd H HO HOK s ud_n63 hs Lf Lfd Lac Lcov Ltf d Hd) as (e & ce & He & Hse & _ & [[E Hn]|[Hne Hg]]).
    - exists e, ce. auto.
    - rewrite (af_glist_not_top H HO s ud_n63 hs e ce d He Hse Hne Hg) in Ht. discriminate.
  Qed.

  Lemma ud_dok d : In d D -> dok R n d.
  Proof.
    intros Hd. apply ud_D_char in Hd as (e & ce & He & Hse & Hne & Hg).
    destruct ud_x as (X1 & X2 & _). exact (af_dok H HO s ud_n63 hs xds X1 X2 e ce d He Hse Hne Hg).
  Qed.

  (** the targets of the mirror *)
  Lemma ud_L0_valid x : In x L0 -> cvalid R x.
  Proof.
    destruct ud_x as (X1 & X2 & X3 & X4 & _). intros Hx.
    destruct (af_L0_leaf H HO s hs xds X1 X2 X4 x Hx) as (h & Lh & _).
    pose proof (tw_cvalid H HO s _ _ _ Lh) as V. rewrite <- surjective_pairing in V. exact V.
  Qed.

  Lemma ud_sorted63 : sortN (map (lp s) hs) = map (cpos 63) L0.
  Proof.
    destruct ud_x as (X1 & X2 & X3 & X4 & X5). rewrite X5.
    pose proof (af_L0_sorted H HO s xds X1 X3) as Hs0.
    assert (Hc0 : StronglySorted clt L0) by (apply (SS_clt_of_pos R); [exact ud_L0_valid|exact Hs0]).
    assert (Hs63 : StronglySorted N.lt (map (cpos 63) L0)).
    { apply SS_clt_cpos; [|exact Hc0]. intros x Hx. apply (cvalid_mono R 63); [exact ud_R63|exact (ud_L0_valid x Hx)]. }
    assert (Eperm : Permutation (map (cpos 63) L0) (map (npos 63) xds)).
    { unfold mdd. rewrite map_map. apply (Permutation_map (fun x => cpos 63 (nrow x, noff x))).
      apply po_sort_nodes_perm. }
    apply pps_sortN_unique; [exact Hs63| |].
    - eapply Permutation_NoDup; [exact Eperm|]. apply pps_SSlt_NoDup. exact Hs63.
    - intros z. split; intros Hz.
      + eapply Permutation_in; [exact Eperm|exact Hz].
      + eapply Permutation_in; [apply Permutation_sym, Eperm|exact Hz].
  Qed.

  Lemma ud_dt63 : deTwin (sortN (map (lp s) hs)) 63 = map (cpos 63) Lf.
  Proof.
    rewrite ud_sorted63.
    pose proof (deTwin_recoord R 63 L0 ud_R63 (Nat.le_refl _) ud_L0_valid Lf) as E.
    change (N.of_nat 63) with 63 in E. apply E.
    - rewrite ud_ER. exact Ed.
    - intros x Hx. exact (tw_fdc_valid H HO s hs x (Lfd x Hx)).
  Qed.

  Lemma ud_tr y : cvalid R y -> translatePos (cpos 63 y) 63 (TreeRows n) = cpos R y.
  Proof.
    intros [V1 V2]. rewrite !cpos_gpos, <- ud_ER. change (N.of_nat 63) with 63.
    pose proof ud_R63 as HR.
    apply translatePos_gpos; try lia; try exact V2.
    eapply N.lt_le_trans; [exact V2|]. apply N.pow_le_mono_r; lia.
  Qed.

  Section OneTree.
    Variable e : entry.
    Variable ce : ctree H.
    Hypothesis He : In e (forest HO s).
    Hypothesis Hse : snd e = Some ce.
    Hypothesis Hne : prune ce <> None.
    Definition Good (y : StumpAddData.coord) : Prop := under (ecoord e) y /\ cvalid R y.

    Lemma ud_step_nontop d y : In d D -> Good y -> (mv d y = true -> (1 <= fst y)%nat) ->
      ud_stepf 63 n (cpos 63 d) (cpos 63 y) = cpos 63 (unlift1 d y) /\ Good (unlift1 d y).
    Proof.
      intros Hd [Uy Vy] Hsafe. destruct (ud_dok d Hd) as (Hdr & Vd & Hpf). pose proof ud_R63 as HR.
      assert (Vd63 : cvalid 63 d) by (apply (cvalid_mono R 63); assumption).
      assert (Vy63 : cvalid 63 y) by (apply (cvalid_mono R 63); assumption).
      pose proof (unlift1_bridge 63 d y (Nat.le_refl _) ltac:(lia) Vd63 Vy63 Hsafe) as Hbr.
      change (N.of_nat 63) with 63 in Hbr.
      split.
      - rewrite ud_stepf_move, (ud_tr d Vd), (ud_tr y Vy).
        destruct (mv d y) eqn:Em.
        + rewrite (same_subtree_under R n d y HR ud_n63 ud_ER Vd Vy Hpf (proj1 (mv_under d y) Em)).
          rewrite N.eqb_refl. exact Hbr.
        + rewrite (unlift1_id d y Em) in *. destruct (_ =? _); [exact Hbr|reflexivity].
      - split; [|apply unlift1_valid; assumption].
        destruct (underb (ecoord e) d) eqn:Eu.
        + exact (ug_same H HO s hs D ud_D_char e ce d y He Hse Hne Hd Eu Uy Hsafe).
        + rewrite (unlift1_id d y (ug_other H HO s hs D ud_D_char e d y He Hd Eu Uy)). exact Uy.
    Qed.

    Lemma ud_step_top d y : In d Lf -> nontop d = false -> Good y ->
      ud_stepf 63 n (cpos 63 d) (cpos 63 y) = cpos 63 y.
    Proof.
      intros Hd Ht [Uy Vy]. destruct (ud_top_char d Hd Ht) as (e' & ce' & He' & Hse' & Hn' & Ed').
      pose proof (tw_fdc_valid H HO s hs d (Lfd d Hd)) as Vd.
      rewrite ud_stepf_move, (ud_tr d Vd), (ud_tr y Vy).
      assert (Er : erow e' <> erow e).
      { intros Er. pose proof (gf_same_row H HO s e' e He' He Er) as Ee. subst e'. congruence. }
      assert (Hdiff : subtree_of (cpos R d) n <> subtree_of (cpos R y) n).
      { destruct Vd as [Vd1 Vd2]. destruct Vy as [Vy1 Vy2]. pose proof ud_ER as ER.
        rewrite !cpos_gpos. rewrite ER in *.
        apply subtree_diff_trees with (k1 := N.of_nat (erow e')) (k2 := N.of_nat (erow e));
          [exact ud_n63|rewrite <- ER; lia|exact Vd2|rewrite <- ER; lia|exact Vy2| | |lia].
        - apply (in_tree_of_under HO s e' d He'). rewrite Ed'. apply under_refl.
        - exact (in_tree_of_under HO s e y He Uy). }
      apply N.eqb_neq in Hdiff. rewrite Hdiff. reflexivity.
    Qed.

    Lemma ud_walk : forall (M : list StumpAddData.coord) y z, (forall d, In d M -> In d Lf) -> Good y ->
      unl_to (filter nontop M) y z ->
      fold_left (fun p d => ud_stepf 63 n (cpos 63 d) p) M (cpos 63 y) = cpos 63 z.
    Proof.
      induction M as [|d M IH]; intros y z HM Hg Hu.
      - cbn [filter unl_to] in Hu. rewrite <- Hu. reflexivity.
      - pose proof (HM d (or_introl eq_refl)) as Hd.
        assert (HM' : forall d', In d' M -> In d' Lf) by (intros d' Hd'; apply HM; right; exact Hd').
        rewrite filter_cons_eq in Hu. rewrite fold_left_cons_eq.
        destruct (nontop d) eqn:Et.
        + apply unl_to_cons_eq in Hu. destruct Hu as [Hsafe Hu].
          assert (HdD : In d D) by (apply filter_In; split; assumption).
          destruct (ud_step_nontop d y HdD Hg Hsafe) as [Es Hg'].
          rewrite Es. exact (IH _ z HM' Hg' Hu).
        + rewrite (ud_step_top d y Hd Et Hg). exact (IH y z HM' Hg Hu).
    Qed.
  End OneTree.

  (** a surviving leaf *)
  Lemma ud_leaf h : In (Some h) s1 ->
    fold_left (fun p q => ud_stepf 63 n q p) (rev (map (cpos 63) Lf)) (lp s1 h) = lp s h.
  Proof.
    intros Hin. destruct (live_locc H HO HOK s1 h Hin) as (r1 & o1 & L1).
    assert (Hnd1 : NoDup (live s1)) by (apply live_kill_NoDup; exact Hnd).
    rewrite (lp_locc H HO HOK s1 h r1 o1 Hnd1 L1).
    destruct (ug_down H HO s hs D ud_D_sorted ud_D_char _ _ _ L1) as (c0 & r0 & o0 & L0' & Hp & _ & Hun & Hu).
    assert (Ec0 : c0 = CLeaf h).
    { destruct c0 as [h'|hh l r].
      - cbn [RefTheory.prune] in Hp. destruct (memH HO h' hs); [discriminate|]. injection Hp as ->. reflexivity.
      - exfalso. destruct (Hun hh l r eq_refl) as [Hl Hr]. cbn [RefTheory.prune] in Hp.
        destruct (RefTheory.prune HO hs l) as [cl|]; [|contradiction].
        destruct (RefTheory.prune HO hs r) as [cr|]; [|contradiction]. cbn [join] in Hp. discriminate. }
    subst c0. rewrite (lp_locc H HO HOK s h r0 o0 Hnd L0').
    (* the tree of the leaf *)
    pose proof L1 as L1'. apply locc_path in L1' as (e1 & c1 & pi1 & He1 & Hs1 & Hp1 & Hw1 & Hl1).
    rewrite RefTheory.forest_kill in He1. apply in_map_iff in He1 as (e & <- & He).
    unfold RefTheory.prune_entry in Hs1. cbn [snd] in Hs1.
    destruct (snd e) as [ce|] eqn:Ese; [|discriminate]. cbn [RefTheory.oprune] in Hs1.
    assert (Hne : prune ce <> None) by (rewrite Hs1; discriminate).
    change (ecoord (RefTheory.prune_entry HO hs e)) with (ecoord e) in Hw1.
    change (erow (RefTheory.prune_entry HO hs e)) with (erow e) in Hl1.
    assert (Hg : Good e (r1, o1)).
    { split; [rewrite <- Hw1; apply under_walk; exact Hl1|].
      pose proof (tw_cvalid H HO s1 _ _ _ L1) as V. unfold num_leaves in V. rewrite length_kill in V. exact V. }
    rewrite <- map_rev, fold_left_map_arg.
    apply (ud_walk e ce He Ese Hne (rev Lf) (r1, o1) (r0, o0)).
    - intros d Hd. apply in_rev. exact Hd.
    - exact Hg.
    - rewrite filter_rev'. exact Hu.
  Qed.
End UndoDel.

Lemma kill_nil_eq {H} (HO : ops H) (s : slots H) : kill HO [] s = s.
Proof. unfold kill. rewrite <- (map_id s) at 2. apply map_ext. intros [h|]; reflexivity. Qed.

(** (C) holds *)
Theorem undo_del_spec_holds (H : Type) (HO : ops H) : ops_ok HO -> undo_del_spec H HO.
Proof.
  intros HOK s dels L [Hnd _] Hb Hd1 Hd2 HL Hlive.
  destruct dels as [|d0 dl].
  - cbn [map undoDelPos]. rewrite (kill_nil_eq HO s). destruct (map (lp H HO s) L); reflexivity.
  - set (hs := d0 :: dl) in *.
    rewrite undoDelPos_fold by (unfold hs; cbn [map]; discriminate).
    rewrite map_map. apply map_ext_in. intros h Hh.
    destruct (find_leaves_ex H HO HOK s hs Hd2) as [xds Fx].
    assert (Hn63 : N.of_nat (length s) <= 2 ^ 63).
    { assert (2 ^ 62 < 2 ^ 63) by (apply N.pow_lt_mono_r; lia). lia. }
    destruct (ud_x H HO HOK s hs Hd1 xds Fx) as (X1 & X2 & X3 & X4 & X5).
    destruct (tw_deTwin H HO HOK s Hn63 Hnd hs (mdd H s xds) (af_L0_sorted H HO s xds X1 X3)
                (af_L0_leaf H HO s hs xds X1 X2 X4) (af_L0_cov H HO s Hnd hs xds X1 X2 X4))
      as (Lf & Ed & HsLf & Lfd & Lac & Lcov & Ltf).
    rewrite (ud_dt63 H HO HOK s Hb hs Hd1 xds Fx Lf Ed Lfd).
    exact (ud_leaf H HO HOK s Hnd Hb hs Hd1 xds Fx Lf Lfd HsLf Lac Lcov Ltf h (Hlive h Hh)).
Qed.

Print Assumptions undo_del_spec_holds.
