(** Soundness of the slice-effect checker (property C17).

    [check_program p = true] implies that in every execution of the IR
    semantics of Spec/SliceHeap.v, no array is modified unless one of its tags
    is in the declared write set of the running function; moreover every array
    a variable references at any time carries a tag from the variable's
    claimed owner set. *)
From Coq Require Import List String Arith Bool Lia.
From Utreexo Require Import Spec.SliceHeap.
Import ListNotations.

Scheme step_mut := Minimality for step Sort Prop
  with run_mut := Minimality for run Sort Prop.

(* ------------------------------------------------------------------------- *)
(** * Boolean reflection helpers *)

Lemma owner_eqb_eq : forall a b, owner_eqb a b = true <-> a = b.
Proof.
  intros a b; destruct a as [i| |], b as [j| |]; simpl; split; intro H;
    try discriminate; try reflexivity.
  - apply Nat.eqb_eq in H; subst; reflexivity.
  - inversion H; subst; apply Nat.eqb_refl.
Qed.

Lemma mem_owner_In : forall o l, mem_owner o l = true <-> In o l.
Proof.
  intros o l; unfold mem_owner; rewrite existsb_exists; split.
  - intros [x [Hin Heq]]; apply owner_eqb_eq in Heq; subst; exact Hin.
  - intros Hin; exists o; split; [exact Hin | apply owner_eqb_eq; reflexivity].
Qed.

Lemma subset_o_In : forall a b, subset_o a b = true -> forall o, In o a -> In o b.
Proof.
  intros a b Hs o Hin; unfold subset_o in Hs; rewrite forallb_forall in Hs.
  apply mem_owner_In; apply Hs; exact Hin.
Qed.

Lemma forallb_i_nth : forall (A : Type) (f : nat -> A -> bool) l i,
  forallb_i f i l = true ->
  forall k x, nth_error l k = Some x -> f (i + k) x = true.
Proof.
  intros A f l; induction l as [|a t IH]; intros i Hf k x Hk.
  - destruct k; discriminate.
  - simpl in Hf; apply andb_true_iff in Hf; destruct Hf as [Ha Ht].
    destruct k as [|k]; simpl in Hk.
    + inversion Hk; subst; rewrite Nat.add_0_r; exact Ha.
    + replace (i + S k) with (S i + k) by lia; apply (IH (S i) Ht k x Hk).
Qed.

Lemma writable_spec : forall f V,
  writable f V = true -> forall o, In o V -> o = OFresh \/ In o (writes f).
Proof.
  intros f V Hw o Hin; unfold writable in Hw; rewrite forallb_forall in Hw.
  specialize (Hw o Hin); apply orb_true_iff in Hw; destruct Hw as [Hf | Hm].
  - left; destruct o; simpl in Hf; try discriminate; reflexivity.
  - right; apply mem_owner_In; exact Hm.
Qed.

Lemma check_program_fn : forall p fd,
  check_program p = true -> In fd p -> check_fn p fd = true.
Proof.
  intros p fd Hc Hin; unfold check_program in Hc; rewrite forallb_forall in Hc.
  apply Hc; exact Hin.
Qed.

Lemma check_fn_stmt : forall p fd st,
  check_fn p fd = true -> In st (body fd) -> check_stmt p fd st = true.
Proof.
  intros p fd st Hc Hin; unfold check_fn in Hc; apply andb_true_iff in Hc.
  destruct Hc as [_ Hb]; rewrite forallb_forall in Hb; apply Hb; exact Hin.
Qed.

Lemma check_fn_param : forall p fd i,
  check_fn p fd = true -> i < nparams fd -> In (OParam i) (value fd i).
Proof.
  intros p fd i Hc Hi; unfold check_fn in Hc; apply andb_true_iff in Hc.
  destruct Hc as [Hp _]; unfold check_params in Hp; rewrite forallb_forall in Hp.
  apply mem_owner_In; apply Hp; apply in_seq; lia.
Qed.

(* ------------------------------------------------------------------------- *)
(** * The invariant *)

(** Facts about the reference point (entry of the current activation). *)
Definition entry_facts (G : arr -> Prop) (n0 : nat) (e0 : var -> arr -> Prop) : Prop :=
  (forall a, G a -> a < n0) /\ (forall i a, e0 i a -> a < n0).

(** Every array referenced by a variable exists and carries a tag that the
    variable's claimed owner set contains. *)
Definition Inv (G : arr -> Prop) (n0 : nat) (e0 : var -> arr -> Prop) (fd : fn) (s : state) : Prop :=
  n0 <= next s
  /\ forall x a, env s x a -> a < next s /\ covered G n0 e0 a (value fd x).

Definition prot (G : arr -> Prop) (n0 : nat) (e0 : var -> arr -> Prop) (fd : fn) (a : arr) : Prop :=
  forall o, In o (writes fd) -> ~ has_tag G n0 e0 a o.

Lemma covered_mono : forall G n0 e0 a V W,
  covered G n0 e0 a V -> (forall o, In o V -> In o W) -> covered G n0 e0 a W.
Proof.
  intros G n0 e0 a V W [o [Hin Ht]] Hsub; exists o; split; [apply Hsub; exact Hin | exact Ht].
Qed.

Lemma set_cells_other : forall h a l b, b <> a -> set_cells h a l b = h b.
Proof.
  intros h a l b Hne; unfold set_cells; destruct (Nat.eqb b a) eqn:E.
  - apply Nat.eqb_eq in E; contradiction.
  - reflexivity.
Qed.

(** A write through a variable whose owner set is writable never touches a
    protected array that existed at entry. *)
Lemma write_protected : forall G n0 e0 fd s x a l b,
  Inv G n0 e0 fd s ->
  writable fd (value fd x) = true ->
  env s x a ->
  b < n0 -> prot G n0 e0 fd b ->
  set_cells (cells s) a l b = cells s b.
Proof.
  intros G n0 e0 fd s x a l b [Hn HI] Hw Hx Hb Hp.
  apply set_cells_other; intro Heq; subst b.
  destruct (HI x a Hx) as [_ [o [Hin Ht]]].
  destruct (writable_spec fd _ Hw o Hin) as [Hf | Hwr].
  - subst o; simpl in Ht; lia.
  - exact (Hp o Hwr Ht).
Qed.

Lemma Inv_same_env : forall G n0 e0 fd s c,
  Inv G n0 e0 fd s -> Inv G n0 e0 fd (mkState c (next s) (env s)).
Proof.
  intros G n0 e0 fd s c [Hn HI]; split; simpl; [exact Hn | exact HI].
Qed.

Lemma Inv_add_env : forall G n0 e0 fd s c x (S : arr -> Prop),
  Inv G n0 e0 fd s ->
  (forall a, S a -> a < next s /\ covered G n0 e0 a (value fd x)) ->
  Inv G n0 e0 fd (mkState c (next s) (add_env (env s) x S)).
Proof.
  intros G n0 e0 fd s c x S [Hn HI] HS; split; simpl; [exact Hn|].
  intros y a [Hy | [Heq Ha]].
  - exact (HI y a Hy).
  - subst y; exact (HS a Ha).
Qed.

Lemma Inv_alloc : forall G n0 e0 fd s c x,
  Inv G n0 e0 fd s ->
  In OFresh (value fd x) ->
  Inv G n0 e0 fd (mkState c (S (next s)) (add_env (env s) x (eq (next s)))).
Proof.
  intros G n0 e0 fd s c x [Hn HI] Hf; split; simpl; [lia|].
  intros y a [Hy | [Heq Ha]].
  - destruct (HI y a Hy) as [Hlt Hc]; split; [lia | exact Hc].
  - subst y a; split; [lia|]. exists OFresh; split; [exact Hf | simpl; exact Hn].
Qed.

(** Translation of callee tags into caller tags at a call site. *)
Lemma translate_tag : forall G n0 e0 fd s gd args a o,
  Inv G n0 e0 fd s ->
  has_tag G (next s) (bind_args (nparams gd) args (env s)) a o ->
  covered G n0 e0 a (sigma1 fd args o).
Proof.
  intros G n0 e0 fd s gd args a o [Hn HI] Ht; destruct o as [j| |]; simpl in *.
  - destruct Ht as [Hj [y [Hy He]]]; rewrite Hy.
    exact (proj2 (HI y a He)).
  - exists OFresh; split; [left; reflexivity | simpl; lia].
  - exists OGlobal; split; [left; reflexivity | simpl; exact Ht].
Qed.

Lemma translate_covered : forall G n0 e0 fd s gd args a V x,
  Inv G n0 e0 fd s ->
  covered G (next s) (bind_args (nparams gd) args (env s)) a V ->
  sigma_sub fd args V x = true ->
  covered G n0 e0 a (value fd x).
Proof.
  intros G n0 e0 fd s gd args a V x HI [o [Hin Ht]] Hs.
  unfold sigma_sub in Hs; rewrite forallb_forall in Hs; specialize (Hs o Hin).
  apply (covered_mono G n0 e0 a (sigma1 fd args o)).
  - exact (translate_tag G n0 e0 fd s gd args a o HI Ht).
  - exact (subset_o_In _ _ Hs).
Qed.

(* ------------------------------------------------------------------------- *)
(** * Main induction *)

Section Main.
  Variable p : program.
  Variable G : arr -> Prop.
  Hypothesis Hcheck : check_program p = true.

  Definition step_ok (st : stmt) (s s' : state) : Prop :=
    forall fd n0 e0,
      In fd p -> In st (body fd) ->
      entry_facts G n0 e0 ->
      Inv G n0 e0 fd s ->
      Inv G n0 e0 fd s'
      /\ forall b, b < n0 -> prot G n0 e0 fd b -> cells s' b = cells s b.

  Definition run_ok (f : fid) (s s' : state) : Prop :=
    forall fd n0 e0,
      nth_error p f = Some fd ->
      entry_facts G n0 e0 ->
      Inv G n0 e0 fd s ->
      Inv G n0 e0 fd s'
      /\ forall b, b < n0 -> prot G n0 e0 fd b -> cells s' b = cells s b.

  Lemma stmt_checked : forall fd st,
    In fd p -> In st (body fd) -> check_stmt p fd st = true.
  Proof.
    intros fd st Hfd Hst.
    exact (check_fn_stmt p fd st (check_program_fn p fd Hcheck Hfd) Hst).
  Qed.

  Lemma main_mut : forall f s s', run p G f s s' -> run_ok f s s'.
  Proof.
    apply (run_mut p G step_ok run_ok).
    - (* make *)
      intros x s l fd n0 e0 Hfd Hst HE HI.
      pose proof (stmt_checked fd _ Hfd Hst) as Hc; simpl in Hc.
      apply mem_owner_In in Hc; split.
      + apply Inv_alloc; assumption.
      + intros b Hb _; simpl; apply set_cells_other; destruct HI as [Hn _]; lia.
    - (* alias *)
      intros x ys s S HS fd n0 e0 Hfd Hst HE HI.
      pose proof (stmt_checked fd _ Hfd Hst) as Hc; simpl in Hc.
      rewrite forallb_forall in Hc; split.
      + apply Inv_add_env; [exact HI|].
        intros a Ha; destruct (HS a Ha) as [y [Hy Hya]].
        destruct HI as [Hn HI]; destruct (HI y a Hya) as [Hlt Hcov]; split; [exact Hlt|].
        apply (covered_mono G n0 e0 a (value fd y)); [exact Hcov|].
        exact (subset_o_In _ _ (Hc y Hy)).
      + intros b _ _; reflexivity.
    - (* global *)
      intros x s S HS fd n0 e0 Hfd Hst HE HI.
      pose proof (stmt_checked fd _ Hfd Hst) as Hc; simpl in Hc.
      apply mem_owner_In in Hc; split.
      + apply Inv_add_env; [exact HI|].
        intros a Ha; destruct HE as [HG _]; destruct HI as [Hn _]; split.
        * specialize (HG a (HS a Ha)); lia.
        * exists OGlobal; split; [exact Hc | simpl; exact (HS a Ha)].
      + intros b _ _; reflexivity.
    - (* write *)
      intros x s a l Hx fd n0 e0 Hfd Hst HE HI.
      pose proof (stmt_checked fd _ Hfd Hst) as Hc; simpl in Hc; split.
      + apply Inv_same_env; exact HI.
      + intros b Hb Hp; simpl; exact (write_protected G n0 e0 fd s x a l b HI Hc Hx Hb Hp).
    - (* sort *)
      intros x s a l Hx fd n0 e0 Hfd Hst HE HI.
      pose proof (stmt_checked fd _ Hfd Hst) as Hc; simpl in Hc; split.
      + apply Inv_same_env; exact HI.
      + intros b Hb Hp; simpl; exact (write_protected G n0 e0 fd s x a l b HI Hc Hx Hb Hp).
    - (* copy *)
      intros dst src s a l Hx fd n0 e0 Hfd Hst HE HI.
      pose proof (stmt_checked fd _ Hfd Hst) as Hc; simpl in Hc; split.
      + apply Inv_same_env; exact HI.
      + intros b Hb Hp; simpl; exact (write_protected G n0 e0 fd s dst a l b HI Hc Hx Hb Hp).
    - (* exempt: value-preserving *)
      intros x tag s a l Hx Hl fd n0 e0 Hfd Hst HE HI; split.
      + apply Inv_same_env; exact HI.
      + intros b _ _; simpl; unfold set_cells; destruct (Nat.eqb b a) eqn:E.
        * apply Nat.eqb_eq in E; subst; reflexivity.
        * reflexivity.
    - (* append in place *)
      intros x y s a l Hy fd n0 e0 Hfd Hst HE HI.
      pose proof (stmt_checked fd _ Hfd Hst) as Hc; simpl in Hc.
      apply andb_true_iff in Hc; destruct Hc as [Hc Hfr].
      apply andb_true_iff in Hc; destruct Hc as [Hw Hsub]; split.
      + apply Inv_add_env; [exact HI|].
        intros a' Ha'; subst a'; destruct HI as [Hn HI]; destruct (HI y a Hy) as [Hlt Hcov].
        split; [exact Hlt|].
        apply (covered_mono G n0 e0 a (value fd y)); [exact Hcov | exact (subset_o_In _ _ Hsub)].
      + intros b Hb Hp; simpl; exact (write_protected G n0 e0 fd s y a l b HI Hw Hy Hb Hp).
    - (* append with reallocation *)
      intros x y s l fd n0 e0 Hfd Hst HE HI.
      pose proof (stmt_checked fd _ Hfd Hst) as Hc; simpl in Hc.
      apply andb_true_iff in Hc; destruct Hc as [_ Hfr]; apply mem_owner_In in Hfr; split.
      + apply Inv_alloc; assumption.
      + intros b Hb _; simpl; apply set_cells_other; destruct HI as [Hn _]; lia.
    - (* ret *)
      intros xs s fd n0 e0 _ _ _ HI; split; [exact HI | intros; reflexivity].
    - (* call *)
      intros rs g args gd s sc' e' Hg Hrun IH Hsub Hsrc fd n0 e0 Hfd Hst HE HI.
      pose proof (stmt_checked fd _ Hfd Hst) as Hc; simpl in Hc.
      rewrite Hg in Hc.
      apply andb_true_iff in Hc; destruct Hc as [Hc Hwb].
      apply andb_true_iff in Hc; destruct Hc as [Hc Hrets].
      apply andb_true_iff in Hc; destruct Hc as [_ Hwr].
      pose proof (nth_error_In _ _ Hg) as Hgd.
      pose proof (check_program_fn p gd Hcheck Hgd) as Hcg.
      destruct HE as [HG He0]. pose proof HI as HI'. destruct HI' as [Hn HIv].
      (* the callee's activation *)
      set (ec := bind_args (nparams gd) args (env s)) in *.
      assert (HEc : entry_facts G (next s) ec).
      { split.
        - intros a Ha; specialize (HG a Ha); lia.
        - intros i a [_ [y [_ Hy]]]; exact (proj1 (HIv y a Hy)). }
      assert (HIc : Inv G (next s) ec gd (mkState (cells s) (next s) ec)).
      { split; simpl; [lia|].
        intros x a Hx; pose proof Hx as Hx'; destruct Hx' as [Hlt [y [_ Hy]]]; split.
        - exact (proj1 (HIv y a Hy)).
        - exists (OParam x); split; [exact (check_fn_param p gd x Hcg Hlt) | simpl; exact Hx]. }
      destruct (IH gd (next s) ec Hg HEc HIc) as [[Hn' HIv'] Hcells]; simpl in Hn'.
      split.
      + (* invariant after the call *)
        split; simpl; [lia|].
        intros x a Hx; destruct (Hsrc x a Hx) as [Hold | [[k [Hk Hret]] | [j [Hj [Hjn Hja]]]]].
        * destruct (HIv x a Hold) as [Hlt Hcov]; split; [lia | exact Hcov].
        * destruct Hret as [xs [x' [Hxs [Hx' Hea]]]].
          destruct (HIv' x' a Hea) as [Hlt Hcov]; split; [exact Hlt|].
          pose proof (check_fn_stmt p gd _ Hcg Hxs) as Hcr; simpl in Hcr.
          pose proof (forallb_i_nth _ _ _ _ Hcr k x' Hx') as Hsubr; simpl in Hsubr.
          pose proof (forallb_i_nth _ _ _ _ Hrets k x Hk) as Hsg; simpl in Hsg.
          apply (translate_covered G n0 e0 fd s gd args a (nth k (rets gd) []) x HI).
          -- apply (covered_mono _ _ _ _ (value gd x')); [exact Hcov | exact (subset_o_In _ _ Hsubr)].
          -- exact Hsg.
        * destruct (HIv' j a Hja) as [Hlt Hcov]; split; [exact Hlt|].
          pose proof (forallb_i_nth _ _ _ _ Hwb j x Hj) as Hsg; simpl in Hsg.
          exact (translate_covered G n0 e0 fd s gd args a (value gd j) x HI Hcov Hsg).
      + (* protected arrays are unchanged by the callee *)
        intros b Hb Hp; simpl.
        assert (Hpc : prot G (next s) ec gd b).
        { intros o Ho Ht. rewrite forallb_forall in Hwr; specialize (Hwr o Ho).
          destruct o as [j| |]; simpl in Ht, Hwr.
          - destruct Ht as [_ [y [Hy Hey]]]; rewrite Hy in Hwr.
            destruct (HIv y b Hey) as [_ [o' [Hin' Ht']]].
            destruct (writable_spec fd _ Hwr o' Hin') as [Hf | Hw'].
            + subst o'; simpl in Ht'; lia.
            + exact (Hp o' Hw' Ht').
          - lia.
          - apply mem_owner_In in Hwr; exact (Hp OGlobal Hwr Ht). }
        assert (Hbs : b < next s) by lia.
        exact (Hcells b Hbs Hpc).
    - (* run_nil *)
      intros f s fd n0 e0 _ _ HI; split; [exact HI | intros; reflexivity].
    - (* run_cons *)
      intros f fd st s s1 s2 Hf Hst Hstep IHstep Hrun IHrun fd' n0 e0 Hf' HE HI.
      rewrite Hf in Hf'; inversion Hf'; subst fd'.
      pose proof (nth_error_In _ _ Hf) as Hfd.
      destruct (IHstep fd n0 e0 Hfd Hst HE HI) as [HI1 Hc1].
      destruct (IHrun fd n0 e0 Hf HE HI1) as [HI2 Hc2].
      split; [exact HI2|].
      intros b Hb Hp; rewrite (Hc2 b Hb Hp); exact (Hc1 b Hb Hp).
  Qed.
End Main.

(* ------------------------------------------------------------------------- *)
(** * Theorems *)

Lemma entry_inv : forall p G fd s0,
  check_fn p fd = true -> entry_ok G fd s0 ->
  entry_facts G (next s0) (env s0) /\ Inv G (next s0) (env s0) fd s0.
Proof.
  intros p G fd s0 Hc [He HG]; split; [split|split].
  - exact HG.
  - intros i a Hi; exact (proj2 (He i a Hi)).
  - lia.
  - intros x a Hx; destruct (He x a Hx) as [Hlt Ha]; split; [exact Ha|].
    exists (OParam x); split; [exact (check_fn_param p fd x Hc Hlt) | simpl; exact Hx].
Qed.

(** Frame theorem: a checked program never modifies a protected array. *)
Theorem check_sound : check_sound_statement.
Proof.
  intros p G Hcheck f fd s0 s' Hf Hentry Hrun a Ha Hp.
  pose proof (check_program_fn p fd Hcheck (nth_error_In _ _ Hf)) as Hcf.
  destruct (entry_inv p G fd s0 Hcf Hentry) as [HE HI].
  destruct (main_mut p G Hcheck f s0 s' Hrun fd (next s0) (env s0) Hf HE HI) as [_ Hc].
  exact (Hc a Ha Hp).
Qed.

(** Reachability theorem: whatever a variable references at the end carries a
    tag (relative to the entry state) from the variable's claimed owner set.
    For a parameter variable this bounds what the caller's argument may reach
    after the call (calls write their callee's parameter environments back into
    the argument variables). *)
Theorem check_sound_reach : forall (p : program) (G : arr -> Prop),
  check_program p = true ->
  forall f fd s0 s',
    nth_error p f = Some fd ->
    entry_ok G fd s0 ->
    run p G f s0 s' ->
    forall x a, env s' x a ->
      covered G (next s0) (env s0) a (value fd x).
Proof.
  intros p G Hcheck f fd s0 s' Hf Hentry Hrun x a Hx.
  pose proof (check_program_fn p fd Hcheck (nth_error_In _ _ Hf)) as Hcf.
  destruct (entry_inv p G fd s0 Hcf Hentry) as [HE HI].
  destruct (main_mut p G Hcheck f s0 s' Hrun fd (next s0) (env s0) Hf HE HI) as [[_ HIv] _].
  exact (proj2 (HIv x a Hx)).
Qed.

Lemma find_fn_nth : forall p name fd,
  find_fn p name = Some fd -> exists f, nth_error p f = Some fd.
Proof.
  intros p name fd Hfind; unfold find_fn in Hfind.
  apply find_some in Hfind; destruct Hfind as [Hin _].
  apply In_nth_error in Hin; exact Hin.
Qed.

(** C17, first half, for one function: if the function is clean on the
    parameters [idxs] then every array that was referenced by one of these
    parameters at entry, was not also referenced by a parameter the function
    declares to write, and is not a package-level array, has the same contents
    after any execution. *)
Theorem fn_clean_sound : forall (p : program) (G : arr -> Prop),
  check_program p = true ->
  forall f fd idxs s0 s',
    nth_error p f = Some fd ->
    fn_clean_b fd idxs = true ->
    entry_ok G fd s0 ->
    run p G f s0 s' ->
    forall i a, In i idxs -> env s0 i a ->
      (forall j, In (OParam j) (writes fd) -> ~ env s0 j a) ->
      cells s' a = cells s0 a.
Proof.
  intros p G Hcheck f fd idxs s0 s' Hf Hclean Hentry Hrun i a Hi Hia Hsep.
  apply (check_sound p G Hcheck f fd s0 s' Hf Hentry Hrun).
  - destruct Hentry as [He _]; exact (proj2 (He i a Hia)).
  - unfold fn_clean_b in Hclean; apply andb_true_iff in Hclean; destruct Hclean as [_ Hg].
    intros o Ho Ht; destruct o as [j| |]; simpl in Ht.
    + exact (Hsep j Ho Ht).
    + destruct Hentry as [He _]; pose proof (proj2 (He i a Hia)); lia.
    + apply mem_owner_In in Ho; rewrite Ho in Hg; discriminate.
Qed.

(** The same through the name table, as used by the generated obligation
    [entry_points_clean]. *)
Theorem entry_clean_sound : forall (p : program) (G : arr -> Prop),
  check_program p = true ->
  forall e, entry_clean_b p e = true ->
  exists f fd,
    nth_error p f = Some fd /\ fname fd = fst e /\
    forall s0 s',
      entry_ok G fd s0 ->
      run p G f s0 s' ->
      forall i a, In i (snd e) -> env s0 i a ->
        (forall j, In (OParam j) (writes fd) -> ~ env s0 j a) ->
        cells s' a = cells s0 a.
Proof.
  intros p G Hcheck e Hclean; unfold entry_clean_b in Hclean.
  destruct (find_fn p (fst e)) as [fd|] eqn:Hfind; [|discriminate].
  destruct (find_fn_nth p (fst e) fd Hfind) as [f Hf].
  exists f, fd; split; [exact Hf|split].
  - unfold find_fn in Hfind; apply find_some in Hfind; destruct Hfind as [_ Heq].
    apply String.eqb_eq in Heq; exact Heq.
  - intros s0 s' Hentry Hrun i a Hi Hia Hsep.
    exact (fn_clean_sound p G Hcheck f fd (snd e) s0 s' Hf Hclean Hentry Hrun i a Hi Hia Hsep).
Qed.

(** No retention: if parameter [j] does not claim owner [OParam i], then no
    array referenced by parameter [j] at exit was referenced ONLY by parameter
    [i] at entry (it is fresh, global, or was already referenced at entry by a
    parameter that [j] claims). *)
Theorem fn_no_retain_sound : forall (p : program) (G : arr -> Prop),
  check_program p = true ->
  forall f fd idxs s0 s',
    nth_error p f = Some fd ->
    fn_no_retain_b fd idxs = true ->
    entry_ok G fd s0 ->
    run p G f s0 s' ->
    forall i j a, In i idxs -> j < nparams fd -> j <> i ->
      env s' j a -> a < next s0 -> ~ G a ->
      exists k, k <> i /\ env s0 k a.
Proof.
  intros p G Hcheck f fd idxs s0 s' Hf Hnr Hentry Hrun i j a Hi Hj Hne Hja Ha HnG.
  destruct (check_sound_reach p G Hcheck f fd s0 s' Hf Hentry Hrun j a Hja) as [o [Hin Ht]].
  unfold fn_no_retain_b in Hnr; rewrite forallb_forall in Hnr; specialize (Hnr i Hi).
  rewrite forallb_forall in Hnr.
  assert (Hjs : In j (seq 0 (nparams fd))) by (apply in_seq; lia).
  specialize (Hnr j Hjs); apply orb_true_iff in Hnr; destruct Hnr as [Heq | Hno].
  - apply Nat.eqb_eq in Heq; subst; contradiction.
  - destruct o as [k| |]; simpl in Ht.
    + exists k; split; [|exact Ht].
      intro Hk; subst k. apply mem_owner_In in Hin; rewrite Hin in Hno; discriminate.
    + lia.
    + contradiction.
Qed.

(** Detached results: an array handed back as a result is either one of the
    caller's own argument arrays (listed parameters), or it was allocated
    during the call and - when the function has a receiver - the receiver does
    not reference it at exit. *)
Theorem fn_results_detached_sound : forall (p : program) (G : arr -> Prop),
  check_program p = true ->
  forall f fd idxs has_recv s0 s',
    nth_error p f = Some fd ->
    fn_results_detached_b fd idxs has_recv = true ->
    entry_ok G fd s0 ->
    run p G f s0 s' ->
    forall k a, ret_source fd (env s') k a ->
      (a < next s0 /\ exists i, In i idxs /\ env s0 i a)
      \/ (next s0 <= a /\ (has_recv = true -> ~ env s' 0 a)).
Proof.
  intros p G Hcheck f fd idxs has_recv s0 s' Hf Hdet Hentry Hrun k a Hret.
  destruct Hret as [xs [x [Hxs [Hx Hxa]]]].
  pose proof (check_program_fn p fd Hcheck (nth_error_In _ _ Hf)) as Hcf.
  pose proof (check_fn_stmt p fd _ Hcf Hxs) as Hcr; simpl in Hcr.
  pose proof (forallb_i_nth _ _ _ _ Hcr k x Hx) as Hsub; simpl in Hsub.
  destruct (check_sound_reach p G Hcheck f fd s0 s' Hf Hentry Hrun x a Hxa) as [o [Hin Ht]].
  pose proof (subset_o_In _ _ Hsub o Hin) as HinR.
  assert (HR : In (nth k (rets fd) []) (rets fd)).
  { destruct (Nat.lt_ge_cases k (List.length (rets fd))) as [Hlt | Hge].
    - apply nth_In; exact Hlt.
    - rewrite (nth_overflow _ _ Hge) in HinR; destruct HinR. }
  unfold fn_results_detached_b in Hdet; rewrite forallb_forall in Hdet.
  specialize (Hdet _ HR); rewrite forallb_forall in Hdet; specialize (Hdet o HinR).
  destruct Hentry as [He HG].
  destruct o as [i| |]; simpl in Ht.
  - left; split; [exact (proj2 (He i a Ht))|].
    apply existsb_exists in Hdet; destruct Hdet as [i' [Hi' Heq]].
    apply Nat.eqb_eq in Heq; subst i'; exists i; split; [exact Hi' | exact Ht].
  - right; split; [exact Ht|].
    intros Hrecv Hra; subst has_recv; simpl in Hdet.
    destruct (check_sound_reach p G Hcheck f fd s0 s' Hf (conj He HG) Hrun 0 a Hra) as [o' [Hin' Ht']].
    destruct o' as [j| |]; simpl in Ht'.
    + pose proof (proj2 (He j a Ht')); lia.
    + apply mem_owner_In in Hin'; rewrite Hin' in Hdet; discriminate.
    + pose proof (HG a Ht'); lia.
  - discriminate.
Qed.
