(** Geometry of the position functions of utils.go, part 2 (mirror [Model.Utils]).
    Every exported function of the position arithmetic is characterised on the
    (row, offset) coordinates [gpos h r o] of [Proofs.UtilsGeom]. *)
From Utreexo Require Import Model.Utils Proofs.UtilsGeom.
From Coq Require Import Lia ZifyN ZifyNat ZifyBool.
Open Scope N_scope.

(** * Arithmetic helpers *)

Lemma pow2_ge1 n : 1 <= 2 ^ n.
Proof. pose proof (pow2_pos n). lia. Qed.

Lemma pow2_sub_split a b : b <= a -> 2 ^ a = 2 ^ (a - b) * 2 ^ b.
Proof. intros H. rewrite <- N.pow_add_r. f_equal. lia. Qed.

Lemma pow2_nz n : 2 ^ n <> 0.
Proof. apply N.pow_nonzero; lia. Qed.

Lemma mod_add_small a b q : a < b -> (a + q * b) mod b = a.
Proof. intros H. rewrite N.mod_add by lia. apply N.mod_small; assumption. Qed.

Lemma mod_mod_pow2 x a b : b <= a -> (x mod 2 ^ a) mod 2 ^ b = x mod 2 ^ b.
Proof.
  intros Hba. rewrite (pow2_sub_split a b Hba), (N.mul_comm (2 ^ (a - b))).
  rewrite N.mod_mul_r by apply pow2_nz.
  rewrite (N.mul_comm (2 ^ b)), N.mod_add by apply pow2_nz.
  apply N.mod_mod, pow2_nz.
Qed.

Lemma wrap_mod_pow2 x k : k <= 64 -> (wrap x) mod 2 ^ k = x mod 2 ^ k.
Proof. intros Hk. unfold wrap. rewrite W_eq. apply mod_mod_pow2; assumption. Qed.

Lemma land_mask x h : h <= 63 -> and64 x (mask h) = x mod 2 ^ (h + 1).
Proof. intros Hh. unfold and64. rewrite mask_spec by assumption. apply land_ones_mod. Qed.

Lemma shl_mod x s : s < 64 -> shl x s = (x * 2 ^ s) mod W.
Proof.
  intros Hs. unfold shl. destruct (N.leb_spec 64 s) as [H|H]; [lia|].
  rewrite N.shiftl_mul_pow2. reflexivity.
Qed.

Lemma shl_big x s : 64 <= s -> shl x s = 0.
Proof. intros Hs. unfold shl. destruct (N.leb_spec 64 s) as [H|H]; [reflexivity|lia]. Qed.

Lemma shl_land_mask x s h : s < 64 -> h <= 63 ->
  and64 (shl x s) (mask h) = (x * 2 ^ s) mod 2 ^ (h + 1).
Proof.
  intros Hs Hh. rewrite land_mask by assumption. rewrite shl_mod by assumption.
  apply wrap_mod_pow2. lia.
Qed.

(** The shape of a row start, with all powers expressed by [A = 2^(h-r)] and [B = 2^r]. *)
Lemma gpos_shape h r o : r <= h ->
  exists A B, 2 ^ (h - r) = A /\ 2 ^ r = B /\ 2 ^ (h + 1 - r) = 2 * A /\ 2 ^ h = A * B /\
              2 ^ (h + 1) = 2 * (A * B) /\ 0 < A /\ 0 < B /\ A <= A * B /\
              gpos h r o + 2 * A = 2 * (A * B) + o.
Proof.
  intros Hr. exists (2 ^ (h - r)), (2 ^ r).
  pose proof (pow2_pos (h - r)) as HA. pose proof (pow2_pos r) as HB.
  assert (E1 : 2 ^ (h + 1 - r) = 2 * 2 ^ (h - r)).
  { replace (h + 1 - r) with (h - r + 1) by lia. apply pow2_S. }
  assert (E2 : 2 ^ h = 2 ^ (h - r) * 2 ^ r) by (apply pow2_sub_split; assumption).
  assert (E3 : 2 ^ (h + 1) = 2 * (2 ^ (h - r) * 2 ^ r)) by (rewrite pow2_S, E2; reflexivity).
  assert (E4 : 2 ^ (h - r) <= 2 ^ (h - r) * 2 ^ r) by nia.
  repeat split; try assumption.
  unfold gpos, gstart. rewrite E1, E3. lia.
Qed.

(** * 1. Range, monotonicity and injectivity of the coordinates *)

Lemma gpos_range h r o : r <= h -> o < 2 ^ (h - r) -> gpos h r o <= 2 ^ (h + 1) - 2.
Proof.
  intros Hr Ho. pose proof (gpos_lt h r o Hr Ho). pose proof (pow2_ge1 (h - r)). lia.
Qed.

Lemma gpos_lt_W h r o : h <= 63 -> r <= h -> o < 2 ^ (h - r) -> gpos h r o < W.
Proof.
  intros Hh Hr Ho. pose proof (gpos_range h r o Hr Ho).
  assert (2 ^ (h + 1) <= W) by (rewrite W_eq; apply pow2_le; lia).
  pose proof (pow2_pos (h + 1)). lia.
Qed.

Lemma gpos_row_mono h r o r' o' :
  r < r' -> r' <= h -> o < 2 ^ (h - r) -> gpos h r o < gpos h r' o'.
Proof.
  intros Hrr Hr' Ho. assert (Hr : r <= h) by lia.
  pose proof (gpos_lt h r o Hr Ho) as H1.
  unfold gpos at 2. unfold gstart.
  assert (2 ^ (h + 1 - r') <= 2 ^ (h - r)) by (apply pow2_le; lia).
  assert (2 ^ (h - r) <= 2 ^ (h + 1)) by (apply pow2_le; lia).
  lia.
Qed.

Lemma gpos_inj h r o r' o' :
  r <= h -> o < 2 ^ (h - r) -> r' <= h -> o' < 2 ^ (h - r') ->
  gpos h r o = gpos h r' o' -> r = r' /\ o = o'.
Proof.
  intros Hr Ho Hr' Ho' E.
  destruct (N.lt_trichotomy r r') as [Hlt|[Heq|Hgt]].
  - pose proof (gpos_row_mono h r o r' o' Hlt Hr' Ho). lia.
  - subst r'. split; [reflexivity|]. unfold gpos in E. lia.
  - pose proof (gpos_row_mono h r' o' r o Hgt Hr Ho'). lia.
Qed.

Example gpos_range_ex : gpos 3 2 1 <= 2 ^ (3 + 1) - 2. Proof. vm_compute. discriminate. Qed.
Example gpos_row_mono_ex : gpos 3 1 3 < gpos 3 2 0. Proof. reflexivity. Qed.

(** * 2. Children *)

Lemma LeftChild_gpos h r o : h <= 63 -> r < h -> o < 2 ^ (h - r - 1) ->
  LeftChild (gpos h (r + 1) o) h = gpos h r (2 * o).
Proof.
  intros Hh Hr Ho. unfold LeftChild. rewrite shl_land_mask by lia. rewrite N.pow_1_r.
  destruct (gpos_shape h (r + 1) o ltac:(lia)) as (A & B & EA & EB & E1 & E2 & E3 & HA & HB & HAB & Eg).
  destruct (gpos_shape h r (2 * o) ltac:(lia)) as (A' & B' & EA' & EB' & E1' & E2' & E3' & HA' & HB' & HAB' & Eg').
  assert (EAA : A' = 2 * A).
  { rewrite <- EA, <- EA'. replace (h - r) with (h - (r + 1) + 1) by lia. apply pow2_S. }
  replace (h - r - 1) with (h - (r + 1)) in Ho by lia. rewrite EA in Ho.
  rewrite E3' in *.
  replace (gpos h (r + 1) o * 2) with (gpos h r (2 * o) + 1 * (2 * (A' * B'))) by lia.
  apply mod_add_small. lia.
Qed.

(** Bit 0 operations, arithmetically. *)
Lemma lor_1 p : N.lor p 1 = if N.even p then p + 1 else p.
Proof. destruct p as [|[q|q|]]; reflexivity. Qed.
Lemma lxor_1 p : N.lxor p 1 = if N.even p then p + 1 else p - 1.
Proof. destruct p as [|[q|q|]]; reflexivity. Qed.
Lemma ldiff_1 p : N.ldiff p 1 = if N.even p then p else p - 1.
Proof. destruct p as [|[q|q|]]; reflexivity. Qed.
Lemma land_1 p : N.land p 1 = if N.even p then 0 else 1.
Proof. destruct p as [|[q|q|]]; reflexivity. Qed.

Lemma gstart_even h r : r <= h -> N.even (gstart h r) = true.
Proof.
  intros Hr. unfold gstart.
  replace (2 ^ (h + 1) - 2 ^ (h + 1 - r)) with (2 * (2 ^ h - 2 ^ (h - r))).
  - apply N.even_mul.
  - replace (h + 1 - r) with (h - r + 1) by lia. rewrite !pow2_S. lia.
Qed.

Lemma gpos_even h r o : r <= h -> N.even (gpos h r o) = N.even o.
Proof.
  intros Hr. unfold gpos. rewrite N.even_add, gstart_even by assumption.
  destruct (N.even o); reflexivity.
Qed.

Lemma RightChild_gpos h r o : h <= 63 -> r < h -> o < 2 ^ (h - r - 1) ->
  RightChild (gpos h (r + 1) o) h = gpos h r (2 * o + 1).
Proof.
  intros Hh Hr Ho. unfold RightChild. fold (LeftChild (gpos h (r + 1) o) h).
  rewrite LeftChild_gpos by assumption.
  unfold or64. rewrite lor_1, gpos_even by lia. rewrite N.even_mul. cbn [N.even orb].
  unfold gpos. lia.
Qed.

Example LeftChild_gpos_ex : LeftChild (gpos 3 (1 + 1) 1) 3 = gpos 3 1 (2 * 1). Proof. reflexivity. Qed.
Example RightChild_gpos_ex : RightChild (gpos 63 (62 + 1) 0) 63 = gpos 63 62 (2 * 0 + 1). Proof. reflexivity. Qed.

(** * 3. Bits of a position and [DetectRow] *)

Lemma testbit_small x n i : x < 2 ^ n -> n <= i -> N.testbit x i = false.
Proof.
  intros Hx Hi. destruct (N.eq_dec x 0) as [->|Hx0]; [apply N.bits_0|].
  apply N.bits_above_log2. assert (N.log2 x < n) by (apply N.log2_lt_pow2; lia). lia.
Qed.

Lemma land_shiftl_small x m s : x < 2 ^ s -> N.land x (N.shiftl m s) = 0.
Proof.
  intros Hx. apply N.bits_inj_0. intros i. rewrite N.land_spec.
  destruct (N.lt_ge_cases i s) as [Hi|Hi].
  - rewrite N.shiftl_spec_low by assumption. apply Bool.andb_false_r.
  - rewrite (testbit_small x s i Hx Hi). reflexivity.
Qed.

Lemma lor_shiftl_add x m s : x < 2 ^ s -> N.lor x (N.shiftl m s) = x + m * 2 ^ s.
Proof.
  intros Hx. pose proof (land_shiftl_small x m s Hx) as Hl.
  rewrite <- N.shiftl_mul_pow2.
  rewrite (N.add_nocarry_lxor _ _ Hl). symmetry. apply N.lxor_lor, Hl.
Qed.

Lemma gstart_shiftl h r : r <= h -> gstart h r = N.shiftl (N.ones r) (h + 1 - r).
Proof.
  intros Hr. rewrite N.shiftl_mul_pow2, N.ones_equiv. unfold gstart.
  rewrite (pow2_sub_split (h + 1) (h + 1 - r)) by lia.
  replace (h + 1 - (h + 1 - r)) with r by lia.
  pose proof (pow2_pos r). nia.
Qed.

Lemma gpos_lor h r o : r <= h -> o < 2 ^ (h - r) ->
  gpos h r o = N.lor o (N.shiftl (N.ones r) (h + 1 - r)).
Proof.
  intros Hr Ho. rewrite lor_shiftl_add.
  - rewrite <- N.shiftl_mul_pow2, <- gstart_shiftl by assumption. unfold gpos. lia.
  - assert (2 ^ (h - r) <= 2 ^ (h + 1 - r)) by (apply pow2_le; lia). lia.
Qed.

Lemma gpos_bit_lo h r o j : r <= h -> o < 2 ^ (h - r) -> j < h + 1 - r ->
  N.testbit (gpos h r o) j = N.testbit o j.
Proof.
  intros Hr Ho Hj. rewrite gpos_lor by assumption.
  rewrite N.lor_spec, N.shiftl_spec_low by assumption. apply Bool.orb_false_r.
Qed.

Lemma gpos_bit_mid h r o : r <= h -> o < 2 ^ (h - r) -> N.testbit (gpos h r o) (h - r) = false.
Proof.
  intros Hr Ho. rewrite gpos_bit_lo by (try assumption; lia).
  apply (testbit_small o (h - r)); [assumption|lia].
Qed.

Lemma gpos_bit_hi h r o j : r <= h -> o < 2 ^ (h - r) -> h + 1 - r <= j -> j <= h ->
  N.testbit (gpos h r o) j = true.
Proof.
  intros Hr Ho Hj1 Hj2. rewrite gpos_lor by assumption.
  rewrite N.lor_spec, N.shiftl_spec_high' by assumption.
  rewrite N.ones_spec_low by lia. apply Bool.orb_true_r.
Qed.

Lemma gpos_bit_above h r o j : r <= h -> o < 2 ^ (h - r) -> h < j ->
  N.testbit (gpos h r o) j = false.
Proof.
  intros Hr Ho Hj. apply (testbit_small _ (h + 1)); [|lia].
  pose proof (gpos_range h r o Hr Ho). pose proof (pow2_pos (h + 1)). lia.
Qed.

Lemma land_pow2_eqb p j : (N.land p (2 ^ j) =? 0) = negb (N.testbit p j).
Proof.
  destruct (N.testbit p j) eqn:E; cbn [negb].
  - apply N.eqb_neq. intros H0.
    assert (Hb : N.testbit (N.land p (2 ^ j)) j = false) by (rewrite H0; apply N.bits_0).
    rewrite N.land_spec, E, N.pow2_bits_eqb, N.eqb_refl in Hb. discriminate.
  - apply N.eqb_eq. apply N.bits_inj_0. intros i.
    rewrite N.land_spec, N.pow2_bits_eqb.
    destruct (N.eqb_spec j i) as [->|Hne]; [rewrite E; reflexivity|apply Bool.andb_false_r].
Qed.

Lemma shr_pow2 a : 1 <= a -> shr (2 ^ a) 1 = 2 ^ (a - 1).
Proof.
  intros Ha. unfold shr. rewrite N.shiftr_div_pow2, N.pow_1_r.
  replace a with (a - 1 + 1) at 1 by lia. rewrite pow2_S.
  rewrite N.mul_comm. apply N.div_mul. lia.
Qed.

Lemma add8_small a b : a + b < 256 -> add8 a b = a + b.
Proof. intros H. unfold add8, u8. apply N.mod_small; assumption. Qed.
Lemma sub8_small a b : b <= a -> a < 256 -> sub8 a b = a - b.
Proof.
  intros H1 H2. unfold sub8, u8. replace (a + 256 - b) with (a - b + 1 * 256) by lia.
  apply mod_add_small. lia.
Qed.
Lemma u8_small a : a < 256 -> u8 a = a.
Proof. intros H. unfold u8. apply N.mod_small; assumption. Qed.

Lemma DetectRow_loop_gpos h r o : h <= 63 -> r <= h -> o < 2 ^ (h - r) ->
  forall fuel i, i <= r -> (N.to_nat (r - i) < fuel)%nat ->
  DetectRow_loop fuel (gpos h r o) (2 ^ (h - i)) i = r.
Proof.
  intros Hh Hr Ho. induction fuel as [|f IH]; intros i Hi Hf; [lia|].
  cbn [DetectRow_loop]. unfold and64. rewrite land_pow2_eqb.
  destruct (N.eq_dec i r) as [->|Hne].
  - rewrite gpos_bit_mid by assumption. reflexivity.
  - rewrite gpos_bit_hi by (try assumption; lia). cbn [negb].
    rewrite shr_pow2 by lia. rewrite add8_small by lia.
    replace (h - i - 1) with (h - (i + 1)) by lia.
    apply IH; lia.
Qed.

Theorem DetectRow_gpos h r o : h <= 63 -> r <= h -> o < 2 ^ (h - r) ->
  DetectRow (gpos h r o) h = r.
Proof.
  intros Hh Hr Ho. unfold DetectRow. rewrite shl_1 by assumption.
  replace h with (h - 0) at 2 by lia.
  apply DetectRow_loop_gpos; try assumption; lia.
Qed.

Example DetectRow_gpos_ex : DetectRow (gpos 63 63 0) 63 = 63. Proof. reflexivity. Qed.

(** * 4. Siblings *)

Lemma mod2_even o : o mod 2 = if N.even o then 0 else 1.
Proof.
  rewrite <- N.bit0_mod, N.bit0_odd, <- N.negb_even. destruct (N.even o); reflexivity.
Qed.

Lemma odd_nz o : N.even o = false -> 1 <= o.
Proof. intros E. destruct o; [discriminate|lia]. Qed.

Lemma sibling_gpos h r o : r <= h -> sibling (gpos h r o) = gpos h r (N.lxor o 1).
Proof.
  intros Hr. unfold sibling, xor64. rewrite !lxor_1, gpos_even by assumption.
  destruct (N.even o) eqn:E; unfold gpos; [lia|]. pose proof (odd_nz o E). lia.
Qed.

Lemma rightSib_gpos h r o : r <= h -> rightSib (gpos h r o) = gpos h r (N.lor o 1).
Proof.
  intros Hr. unfold rightSib, or64. rewrite !lor_1, gpos_even by assumption.
  destruct (N.even o) eqn:E; unfold gpos; lia.
Qed.

Lemma leftSib_gpos h r o : r <= h -> leftSib (gpos h r o) = gpos h r (o - o mod 2).
Proof.
  intros Hr. unfold leftSib, andnot64. rewrite ldiff_1, gpos_even, mod2_even by assumption.
  destruct (N.even o) eqn:E; unfold gpos; [f_equal; lia|]. pose proof (odd_nz o E). lia.
Qed.

Lemma isLeftNiece_gpos h r o : r <= h -> isLeftNiece (gpos h r o) = N.even o.
Proof.
  intros Hr. unfold isLeftNiece, and64. rewrite land_1, gpos_even by assumption.
  destruct (N.even o); reflexivity.
Qed.

(** the sibling offsets stay inside the row (rows below the top) *)
Lemma sib_offsets_lt h r o : r < h -> o < 2 ^ (h - r) ->
  N.lxor o 1 < 2 ^ (h - r) /\ N.lor o 1 < 2 ^ (h - r) /\ o - o mod 2 < 2 ^ (h - r).
Proof.
  intros Hr Ho. replace (h - r) with (h - r - 1 + 1) in * by lia. rewrite pow2_S in *.
  rewrite lxor_1, lor_1, mod2_even.
  destruct (N.even o) eqn:E.
  - apply N.even_spec in E. destruct E as [q ->]. lia.
  - lia.
Qed.

Example sibling_gpos_ex : sibling (gpos 3 1 2) = gpos 3 1 (N.lxor 2 1). Proof. reflexivity. Qed.
Example leftSib_gpos_ex : leftSib (gpos 3 1 3) = gpos 3 1 (3 - 3 mod 2). Proof. reflexivity. Qed.

(** * 5. [ParentMany] *)

Lemma shl_mask_land h s : h <= 63 -> s <= h + 1 ->
  and64 (shl (mask h) s) (mask h) = 2 ^ (h + 1) - 2 ^ s.
Proof.
  intros Hh Hs. destruct (N.lt_ge_cases s 64) as [Hs64|Hs64].
  - rewrite shl_land_mask by assumption. rewrite mask_spec by assumption.
    pose proof (pow2_le s (h + 1) Hs) as Hle. pose proof (pow2_pos s) as Hp.
    set (P := 2 ^ (h + 1)) in *. set (Q := 2 ^ s) in *.
    replace ((P - 1) * Q) with (P - Q + (Q - 1) * P) by nia.
    apply mod_add_small. lia.
  - assert (s = 64) by lia. assert (h = 63) by lia. subst s h. reflexivity.
Qed.

Lemma gstart_ones h r : r <= h -> gstart h r = N.ones r * 2 ^ (h + 1 - r).
Proof. intros Hr. rewrite gstart_shiftl by assumption. apply N.shiftl_mul_pow2. Qed.

(** [ParentMany] on any in-range position: shift out [k] bits and put [k] ones on top. *)
Lemma ParentMany_arith p k h : h <= 63 -> 1 <= k -> k <= h -> p < 2 ^ (h + 1) ->
  ParentMany p k h = Some (p / 2 ^ k + gstart h k).
Proof.
  intros Hh Hk1 Hk Hp. unfold ParentMany.
  destruct (N.eqb_spec k 0) as [H0|_]; [lia|].
  destruct (N.ltb_spec h k) as [H0|_]; [lia|].
  f_equal. rewrite (sub8_small k 1) by lia. rewrite sub8_small by lia.
  unfold and64, or64. rewrite N.land_lor_distr_l. fold (and64 (shl (mask h) (h - (k - 1))) (mask h)).
  rewrite shl_mask_land by lia.
  fold (and64 (shr p k) (mask h)). rewrite land_mask by assumption.
  unfold shr. rewrite N.shiftr_div_pow2.
  assert (Hq : p / 2 ^ k < 2 ^ (h + 1 - k)).
  { apply N.div_lt_upper_bound; [apply pow2_nz|]. rewrite <- N.pow_add_r.
    replace (k + (h + 1 - k)) with (h + 1) by lia. assumption. }
  assert (2 ^ (h + 1 - k) <= 2 ^ (h + 1)) by (apply pow2_le; lia).
  rewrite N.mod_small by lia.
  replace (h - (k - 1)) with (h + 1 - k) by lia.
  fold (gstart h k). rewrite gstart_shiftl by assumption.
  rewrite lor_shiftl_add by assumption. rewrite N.shiftl_mul_pow2. reflexivity.
Qed.

Theorem ParentMany_gpos h r o k : h <= 63 -> 1 <= k -> r + k <= h -> o < 2 ^ (h - r) ->
  ParentMany (gpos h r o) k h = Some (gpos h (r + k) (o / 2 ^ k)).
Proof.
  intros Hh Hk Hrk Ho.
  assert (Hr : r <= h) by lia.
  pose proof (gpos_range h r o Hr Ho) as Hrange. pose proof (pow2_pos (h + 1)) as Hpp.
  rewrite ParentMany_arith by (try assumption; lia). f_equal.
  unfold gpos, gstart.
  set (c := h + 1 - r - k).
  assert (E1 : 2 ^ (h + 1 - (r + k)) = 2 ^ c) by (f_equal; lia).
  assert (E2 : 2 ^ (h + 1 - r) = 2 ^ c * 2 ^ k).
  { rewrite <- N.pow_add_r. f_equal. lia. }
  assert (E3 : 2 ^ (h + 1 - k) = 2 ^ r * 2 ^ c).
  { rewrite <- N.pow_add_r. f_equal. lia. }
  assert (E4 : 2 ^ (h + 1) = 2 ^ r * 2 ^ c * 2 ^ k).
  { rewrite <- !N.pow_add_r. f_equal. lia. }
  rewrite E1, E2, E3, E4.
  pose proof (pow2_pos c) as Hc. pose proof (pow2_pos r) as HR. pose proof (pow2_pos k) as HK.
  set (C := 2 ^ c) in *. set (R := 2 ^ r) in *. set (K := 2 ^ k) in *.
  assert (HCR : C <= R * C) by nia.
  replace (R * C * K - C * K + o) with (o + (R * C - C) * K) by nia.
  rewrite N.div_add by lia.
  assert (R * C <= R * C * K) by nia.
  lia.
Qed.

Lemma ParentMany_0 p h : ParentMany p 0 h = Some p.
Proof. reflexivity. Qed.

Lemma ParentMany_err p k h : k <> 0 -> (ParentMany p k h = None <-> h < k).
Proof.
  intros Hk. unfold ParentMany.
  destruct (N.eqb_spec k 0) as [H0|_]; [lia|].
  destruct (N.ltb_spec h k) as [H0|H0]; split; intros H; try reflexivity; try assumption; try discriminate; lia.
Qed.

Example ParentMany_gpos_ex : ParentMany (gpos 3 0 5) 2 3 = Some (gpos 3 (0 + 2) (5 / 2 ^ 2)).
Proof. reflexivity. Qed.

(** * 6. [ChildMany] *)

Theorem ChildMany_gpos h r o k : h <= 63 -> r <= h -> k <= r -> o < 2 ^ (h - r) ->
  ChildMany (gpos h r o) k h = Some (gpos h (r - k) (o * 2 ^ k)).
Proof.
  intros Hh Hr Hk Ho. unfold ChildMany.
  destruct (N.eqb_spec k 0) as [->|Hk0].
  - f_equal. rewrite N.sub_0_r, N.pow_0_r, N.mul_1_r. reflexivity.
  - destruct (N.ltb_spec h k) as [H0|_]; [lia|]. f_equal.
    rewrite shl_land_mask by lia.
    unfold gpos, gstart.
    assert (E1 : 2 ^ (h + 1 - (r - k)) = 2 ^ (h + 1 - r) * 2 ^ k).
    { rewrite <- N.pow_add_r. f_equal. lia. }
    assert (E2 : 2 ^ (h + 1) = 2 ^ r * 2 ^ (h + 1 - r)).
    { rewrite <- N.pow_add_r. f_equal. lia. }
    assert (E3 : 2 ^ r = 2 ^ (r - k) * 2 ^ k) by (apply pow2_sub_split; assumption).
    assert (E4 : 2 ^ (h + 1 - r) = 2 * 2 ^ (h - r)).
    { replace (h + 1 - r) with (h - r + 1) by lia. apply pow2_S. }
    rewrite E1, E2, E3, E4.
    pose proof (pow2_pos (h - r)) as HA. pose proof (pow2_pos (r - k)) as HB. pose proof (pow2_pos k) as HK.
    set (A := 2 ^ (h - r)) in *. set (B := 2 ^ (r - k)) in *. set (K := 2 ^ k) in *.
    replace ((B * K * (2 * A) - 2 * A + o) * K)
      with (B * K * (2 * A) - 2 * A * K + o * K + (K - 1) * (B * K * (2 * A))) by nia.
    apply mod_add_small. nia.
Qed.

Lemma ChildMany_err p k h : k <> 0 -> (ChildMany p k h = None <-> h < k).
Proof.
  intros Hk. unfold ChildMany.
  destruct (N.eqb_spec k 0) as [H0|_]; [lia|].
  destruct (N.ltb_spec h k) as [H0|H0]; split; intros H; try reflexivity; try assumption; try discriminate; lia.
Qed.

Example ChildMany_gpos_ex : ChildMany (gpos 3 2 1) 2 3 = Some (gpos 3 (2 - 2) (1 * 2 ^ 2)).
Proof. reflexivity. Qed.
