(** Geometry of the position functions of utils.go, part 2 (mirror [Model.Utils]).
    Every exported function of the position arithmetic is characterised on the
    (row, offset) coordinates [gpos h r o] of [Proofs.UtilsGeom]. *)
From Utreexo Require Import Model.Utils Proofs.UtilsGeom.
From Coq Require Import Lia ZifyN ZifyNat ZifyBool.
Open Scope N_scope.

(** * Arithmetic helpers *)

Lemma pow2_ge1 n : 1 <= 2 ^ n.
Proof. pose proof (pow2_pos n). lia. Qed.

Lemma pow2_sub_split a b : b <= a -> 2 ^ a = 2 ^ (a - b) * 2 ^ b.
Proof. intros H. rewrite <- N.pow_add_r. f_equal. lia. Qed.

Lemma pow2_nz n : 2 ^ n <> 0.
Proof. apply N.pow_nonzero; lia. Qed.

Lemma mod_add_small a b q : a < b -> (a + q * b) mod b = a.
Proof. intros H. rewrite N.mod_add by lia. apply N.mod_small; assumption. Qed.

Lemma mod_mod_pow2 x a b : b <= a -> (x mod 2 ^ a) mod 2 ^ b = x mod 2 ^ b.
Proof.
  intros Hba. rewrite (pow2_sub_split a b Hba), (N.mul_comm (2 ^ (a - b))).
  rewrite N.mod_mul_r by apply pow2_nz.
  rewrite (N.mul_comm (2 ^ b)), N.mod_add by apply pow2_nz.
  apply N.mod_mod, pow2_nz.
Qed.

Lemma wrap_mod_pow2 x k : k <= 64 -> (wrap x) mod 2 ^ k = x mod 2 ^ k.
Proof. intros Hk. rewrite wrap_mod. rewrite W_eq. apply mod_mod_pow2; assumption. Qed.

Lemma land_mask x h : h <= 63 -> and64 x (mask h) = x mod 2 ^ (h + 1).
Proof. intros Hh. unfold and64. rewrite mask_spec by assumption. apply land_ones_mod. Qed.

Lemma shl_mod x s : s < 64 -> shl x s = (x * 2 ^ s) mod W.
Proof.
  intros Hs. unfold shl. destruct (N.leb_spec 64 s) as [H|H]; [lia|].
  rewrite N.shiftl_mul_pow2. apply wrap_mod.
Qed.

Lemma shl_big x s : 64 <= s -> shl x s = 0.
Proof. intros Hs. unfold shl. destruct (N.leb_spec 64 s) as [H|H]; [reflexivity|lia]. Qed.

Lemma shl_land_mask x s h : s < 64 -> h <= 63 ->
  and64 (shl x s) (mask h) = (x * 2 ^ s) mod 2 ^ (h + 1).
Proof.
  intros Hs Hh. rewrite land_mask by assumption. rewrite shl_mod by assumption.
  rewrite <- wrap_mod. apply wrap_mod_pow2. lia.
Qed.

(** The shape of a row start, with all powers expressed by [A = 2^(h-r)] and [B = 2^r]. *)
Lemma gpos_shape h r o : r <= h ->
  exists A B, 2 ^ (h - r) = A /\ 2 ^ r = B /\ 2 ^ (h + 1 - r) = 2 * A /\ 2 ^ h = A * B /\
              2 ^ (h + 1) = 2 * (A * B) /\ 0 < A /\ 0 < B /\ A <= A * B /\
              gpos h r o + 2 * A = 2 * (A * B) + o.
Proof.
  intros Hr. exists (2 ^ (h - r)), (2 ^ r).
  pose proof (pow2_pos (h - r)) as HA. pose proof (pow2_pos r) as HB.
  assert (E1 : 2 ^ (h + 1 - r) = 2 * 2 ^ (h - r)).
  { replace (h + 1 - r) with (h - r + 1) by lia. apply pow2_S. }
  assert (E2 : 2 ^ h = 2 ^ (h - r) * 2 ^ r) by (apply pow2_sub_split; assumption).
  assert (E3 : 2 ^ (h + 1) = 2 * (2 ^ (h - r) * 2 ^ r)) by (rewrite pow2_S, E2; reflexivity).
  assert (E4 : 2 ^ (h - r) <= 2 ^ (h - r) * 2 ^ r) by nia.
  repeat split; try assumption.
  unfold gpos, gstart. rewrite E1, E3. lia.
Qed.

(** * 1. Range, monotonicity and injectivity of the coordinates *)

Lemma gpos_range h r o : r <= h -> o < 2 ^ (h - r) -> gpos h r o <= 2 ^ (h + 1) - 2.
Proof.
  intros Hr Ho. pose proof (gpos_lt h r o Hr Ho). pose proof (pow2_ge1 (h - r)). lia.
Qed.

Lemma gpos_lt_W h r o : h <= 63 -> r <= h -> o < 2 ^ (h - r) -> gpos h r o < W.
Proof.
  intros Hh Hr Ho. pose proof (gpos_range h r o Hr Ho).
  assert (2 ^ (h + 1) <= W) by (rewrite W_eq; apply pow2_le; lia).
  pose proof (pow2_pos (h + 1)). lia.
Qed.

Lemma gpos_row_mono h r o r' o' :
  r < r' -> r' <= h -> o < 2 ^ (h - r) -> gpos h r o < gpos h r' o'.
Proof.
  intros Hrr Hr' Ho. assert (Hr : r <= h) by lia.
  pose proof (gpos_lt h r o Hr Ho) as H1.
  unfold gpos at 2. unfold gstart.
  assert (2 ^ (h + 1 - r') <= 2 ^ (h - r)) by (apply pow2_le; lia).
  assert (2 ^ (h - r) <= 2 ^ (h + 1)) by (apply pow2_le; lia).
  lia.
Qed.

Lemma gpos_inj h r o r' o' :
  r <= h -> o < 2 ^ (h - r) -> r' <= h -> o' < 2 ^ (h - r') ->
  gpos h r o = gpos h r' o' -> r = r' /\ o = o'.
Proof.
  intros Hr Ho Hr' Ho' E.
  destruct (N.lt_trichotomy r r') as [Hlt|[Heq|Hgt]].
  - pose proof (gpos_row_mono h r o r' o' Hlt Hr' Ho). lia.
  - subst r'. split; [reflexivity|]. unfold gpos in E. lia.
  - pose proof (gpos_row_mono h r' o' r o Hgt Hr Ho'). lia.
Qed.

Example gpos_range_ex : gpos 3 2 1 <= 2 ^ (3 + 1) - 2. Proof. vm_compute. discriminate. Qed.
Example gpos_row_mono_ex : gpos 3 1 3 < gpos 3 2 0. Proof. reflexivity. Qed.

(** * 2. Children *)

Lemma LeftChild_gpos h r o : h <= 63 -> r < h -> o < 2 ^ (h - r - 1) ->
  LeftChild (gpos h (r + 1) o) h = gpos h r (2 * o).
Proof.
  intros Hh Hr Ho. unfold LeftChild. rewrite shl_land_mask by lia. rewrite N.pow_1_r.
  destruct (gpos_shape h (r + 1) o ltac:(lia)) as (A & B & EA & EB & E1 & E2 & E3 & HA & HB & HAB & Eg).
  destruct (gpos_shape h r (2 * o) ltac:(lia)) as (A' & B' & EA' & EB' & E1' & E2' & E3' & HA' & HB' & HAB' & Eg').
  assert (EAA : A' = 2 * A).
  { rewrite <- EA, <- EA'. replace (h - r) with (h - (r + 1) + 1) by lia. apply pow2_S. }
  replace (h - r - 1) with (h - (r + 1)) in Ho by lia. rewrite EA in Ho.
  rewrite E3' in *.
  replace (gpos h (r + 1) o * 2) with (gpos h r (2 * o) + 1 * (2 * (A' * B'))) by lia.
  apply mod_add_small. lia.
Qed.

(** Bit 0 operations, arithmetically. *)
Lemma lor_1 p : N.lor p 1 = if N.even p then p + 1 else p.
Proof. destruct p as [|[q|q|]]; reflexivity. Qed.
Lemma lxor_1 p : N.lxor p 1 = if N.even p then p + 1 else p - 1.
Proof. destruct p as [|[q|q|]]; reflexivity. Qed.
Lemma ldiff_1 p : N.ldiff p 1 = if N.even p then p else p - 1.
Proof. destruct p as [|[q|q|]]; reflexivity. Qed.
Lemma land_1 p : N.land p 1 = if N.even p then 0 else 1.
Proof. destruct p as [|[q|q|]]; reflexivity. Qed.

Lemma gstart_even h r : r <= h -> N.even (gstart h r) = true.
Proof.
  intros Hr. unfold gstart.
  replace (2 ^ (h + 1) - 2 ^ (h + 1 - r)) with (2 * (2 ^ h - 2 ^ (h - r))).
  - apply N.even_mul.
  - replace (h + 1 - r) with (h - r + 1) by lia. rewrite !pow2_S. lia.
Qed.

Lemma gpos_even h r o : r <= h -> N.even (gpos h r o) = N.even o.
Proof.
  intros Hr. unfold gpos. rewrite N.even_add, gstart_even by assumption.
  destruct (N.even o); reflexivity.
Qed.

Lemma RightChild_gpos h r o : h <= 63 -> r < h -> o < 2 ^ (h - r - 1) ->
  RightChild (gpos h (r + 1) o) h = gpos h r (2 * o + 1).
Proof.
  intros Hh Hr Ho. unfold RightChild. fold (LeftChild (gpos h (r + 1) o) h).
  rewrite LeftChild_gpos by assumption.
  unfold or64. rewrite lor_1, gpos_even by lia. rewrite N.even_mul. cbn [N.even orb].
  unfold gpos. lia.
Qed.

Example LeftChild_gpos_ex : LeftChild (gpos 3 (1 + 1) 1) 3 = gpos 3 1 (2 * 1). Proof. reflexivity. Qed.
Example RightChild_gpos_ex : RightChild (gpos 63 (62 + 1) 0) 63 = gpos 63 62 (2 * 0 + 1). Proof. reflexivity. Qed.

(** * 3. Bits of a position and [DetectRow] *)

Lemma testbit_small x n i : x < 2 ^ n -> n <= i -> N.testbit x i = false.
Proof.
  intros Hx Hi. destruct (N.eq_dec x 0) as [->|Hx0]; [apply N.bits_0|].
  apply N.bits_above_log2. assert (N.log2 x < n) by (apply N.log2_lt_pow2; lia). lia.
Qed.

Lemma land_shiftl_small x m s : x < 2 ^ s -> N.land x (N.shiftl m s) = 0.
Proof.
  intros Hx. apply N.bits_inj_0. intros i. rewrite N.land_spec.
  destruct (N.lt_ge_cases i s) as [Hi|Hi].
  - rewrite N.shiftl_spec_low by assumption. apply Bool.andb_false_r.
  - rewrite (testbit_small x s i Hx Hi). reflexivity.
Qed.

Lemma lor_shiftl_add x m s : x < 2 ^ s -> N.lor x (N.shiftl m s) = x + m * 2 ^ s.
Proof.
  intros Hx. pose proof (land_shiftl_small x m s Hx) as Hl.
  rewrite <- N.shiftl_mul_pow2.
  rewrite (N.add_nocarry_lxor _ _ Hl). symmetry. apply N.lxor_lor, Hl.
Qed.

Lemma gstart_shiftl h r : r <= h -> gstart h r = N.shiftl (N.ones r) (h + 1 - r).
Proof.
  intros Hr. rewrite N.shiftl_mul_pow2, N.ones_equiv. unfold gstart.
  rewrite (pow2_sub_split (h + 1) (h + 1 - r)) by lia.
  replace (h + 1 - (h + 1 - r)) with r by lia.
  pose proof (pow2_pos r). nia.
Qed.

Lemma gpos_lor h r o : r <= h -> o < 2 ^ (h - r) ->
  gpos h r o = N.lor o (N.shiftl (N.ones r) (h + 1 - r)).
Proof.
  intros Hr Ho. rewrite lor_shiftl_add.
  - rewrite <- N.shiftl_mul_pow2, <- gstart_shiftl by assumption. unfold gpos. lia.
  - assert (2 ^ (h - r) <= 2 ^ (h + 1 - r)) by (apply pow2_le; lia). lia.
Qed.

Lemma gpos_bit_lo h r o j : r <= h -> o < 2 ^ (h - r) -> j < h + 1 - r ->
  N.testbit (gpos h r o) j = N.testbit o j.
Proof.
  intros Hr Ho Hj. rewrite gpos_lor by assumption.
  rewrite N.lor_spec, N.shiftl_spec_low by assumption. apply Bool.orb_false_r.
Qed.

Lemma gpos_bit_mid h r o : r <= h -> o < 2 ^ (h - r) -> N.testbit (gpos h r o) (h - r) = false.
Proof.
  intros Hr Ho. rewrite gpos_bit_lo by (try assumption; lia).
  apply (testbit_small o (h - r)); [assumption|lia].
Qed.

Lemma gpos_bit_hi h r o j : r <= h -> o < 2 ^ (h - r) -> h + 1 - r <= j -> j <= h ->
  N.testbit (gpos h r o) j = true.
Proof.
  intros Hr Ho Hj1 Hj2. rewrite gpos_lor by assumption.
  rewrite N.lor_spec, N.shiftl_spec_high' by assumption.
  rewrite N.ones_spec_low by lia. apply Bool.orb_true_r.
Qed.

Lemma gpos_bit_above h r o j : r <= h -> o < 2 ^ (h - r) -> h < j ->
  N.testbit (gpos h r o) j = false.
Proof.
  intros Hr Ho Hj. apply (testbit_small _ (h + 1)); [|lia].
  pose proof (gpos_range h r o Hr Ho). pose proof (pow2_pos (h + 1)). lia.
Qed.

Lemma land_pow2_eqb p j : (N.land p (2 ^ j) =? 0) = negb (N.testbit p j).
Proof.
  destruct (N.testbit p j) eqn:E; cbn [negb].
  - apply N.eqb_neq. intros H0.
    assert (Hb : N.testbit (N.land p (2 ^ j)) j = false) by (rewrite H0; apply N.bits_0).
    rewrite N.land_spec, E, N.pow2_bits_eqb, N.eqb_refl in Hb. discriminate.
  - apply N.eqb_eq. apply N.bits_inj_0. intros i.
    rewrite N.land_spec, N.pow2_bits_eqb.
    destruct (N.eqb_spec j i) as [->|Hne]; [rewrite E; reflexivity|apply Bool.andb_false_r].
Qed.

Lemma shr_pow2 a : 1 <= a -> shr (2 ^ a) 1 = 2 ^ (a - 1).
Proof.
  intros Ha. unfold shr. rewrite N.shiftr_div_pow2, N.pow_1_r.
  replace a with (a - 1 + 1) at 1 by lia. rewrite pow2_S.
  rewrite N.mul_comm. apply N.div_mul. lia.
Qed.

Lemma add8_small a b : a + b < 256 -> add8 a b = a + b.
Proof. intros H. unfold add8, u8. apply N.mod_small; assumption. Qed.
Lemma sub8_small a b : b <= a -> a < 256 -> sub8 a b = a - b.
Proof.
  intros H1 H2. unfold sub8, u8. replace (a + 256 - b) with (a - b + 1 * 256) by lia.
  apply mod_add_small. lia.
Qed.
Lemma u8_small a : a < 256 -> u8 a = a.
Proof. intros H. unfold u8. apply N.mod_small; assumption. Qed.

Lemma DetectRow_loop_gpos h r o : h <= 63 -> r <= h -> o < 2 ^ (h - r) ->
  forall fuel i, i <= r -> (N.to_nat (r - i) < fuel)%nat ->
  DetectRow_loop fuel (gpos h r o) (2 ^ (h - i)) i = r.
Proof.
  intros Hh Hr Ho. induction fuel as [|f IH]; intros i Hi Hf; [lia|].
  cbn [DetectRow_loop]. unfold and64. rewrite land_pow2_eqb.
  destruct (N.eq_dec i r) as [->|Hne].
  - rewrite gpos_bit_mid by assumption. reflexivity.
  - rewrite gpos_bit_hi by (try assumption; lia). cbn [negb].
    rewrite shr_pow2 by lia. rewrite add8_small by lia.
    replace (h - i - 1) with (h - (i + 1)) by lia.
    apply IH; lia.
Qed.

Theorem DetectRow_gpos h r o : h <= 63 -> r <= h -> o < 2 ^ (h - r) ->
  DetectRow (gpos h r o) h = r.
Proof.
  intros Hh Hr Ho. unfold DetectRow. rewrite shl_1 by assumption.
  replace h with (h - 0) at 2 by lia.
  apply DetectRow_loop_gpos; try assumption; lia.
Qed.

Example DetectRow_gpos_ex : DetectRow (gpos 63 63 0) 63 = 63. Proof. reflexivity. Qed.

(** * 4. Siblings *)

Lemma mod2_even o : o mod 2 = if N.even o then 0 else 1.
Proof.
  rewrite <- N.bit0_mod, N.bit0_odd, <- N.negb_even. destruct (N.even o); reflexivity.
Qed.

Lemma odd_nz o : N.even o = false -> 1 <= o.
Proof. intros E. destruct o; [discriminate|lia]. Qed.

Lemma sibling_gpos h r o : r <= h -> sibling (gpos h r o) = gpos h r (N.lxor o 1).
Proof.
  intros Hr. unfold sibling, xor64. rewrite !lxor_1, gpos_even by assumption.
  destruct (N.even o) eqn:E; unfold gpos; [lia|]. pose proof (odd_nz o E). lia.
Qed.

Lemma rightSib_gpos h r o : r <= h -> rightSib (gpos h r o) = gpos h r (N.lor o 1).
Proof.
  intros Hr. unfold rightSib, or64. rewrite !lor_1, gpos_even by assumption.
  destruct (N.even o) eqn:E; unfold gpos; lia.
Qed.

Lemma leftSib_gpos h r o : r <= h -> leftSib (gpos h r o) = gpos h r (o - o mod 2).
Proof.
  intros Hr. unfold leftSib, andnot64. rewrite ldiff_1, gpos_even, mod2_even by assumption.
  destruct (N.even o) eqn:E; unfold gpos; [f_equal; lia|]. pose proof (odd_nz o E). lia.
Qed.

Lemma isLeftNiece_gpos h r o : r <= h -> isLeftNiece (gpos h r o) = N.even o.
Proof.
  intros Hr. unfold isLeftNiece, and64. rewrite land_1, gpos_even by assumption.
  destruct (N.even o); reflexivity.
Qed.

(** the sibling offsets stay inside the row (rows below the top) *)
Lemma sib_offsets_lt h r o : r < h -> o < 2 ^ (h - r) ->
  N.lxor o 1 < 2 ^ (h - r) /\ N.lor o 1 < 2 ^ (h - r) /\ o - o mod 2 < 2 ^ (h - r).
Proof.
  intros Hr Ho. replace (h - r) with (h - r - 1 + 1) in * by lia. rewrite pow2_S in *.
  rewrite lxor_1, lor_1, mod2_even.
  destruct (N.even o) eqn:E.
  - apply N.even_spec in E. destruct E as [q ->]. lia.
  - lia.
Qed.

Example sibling_gpos_ex : sibling (gpos 3 1 2) = gpos 3 1 (N.lxor 2 1). Proof. reflexivity. Qed.
Example leftSib_gpos_ex : leftSib (gpos 3 1 3) = gpos 3 1 (3 - 3 mod 2). Proof. reflexivity. Qed.

(** * 5. [ParentMany] *)

Lemma shl_mask_land h s : h <= 63 -> s <= h + 1 ->
  and64 (shl (mask h) s) (mask h) = 2 ^ (h + 1) - 2 ^ s.
Proof.
  intros Hh Hs. destruct (N.lt_ge_cases s 64) as [Hs64|Hs64].
  - rewrite shl_land_mask by assumption. rewrite mask_spec by assumption.
    pose proof (pow2_le s (h + 1) Hs) as Hle. pose proof (pow2_pos s) as Hp.
    set (P := 2 ^ (h + 1)) in *. set (Q := 2 ^ s) in *.
    replace ((P - 1) * Q) with (P - Q + (Q - 1) * P) by nia.
    apply mod_add_small. lia.
  - assert (s = 64) by lia. assert (h = 63) by lia. subst s h. reflexivity.
Qed.

Lemma gstart_ones h r : r <= h -> gstart h r = N.ones r * 2 ^ (h + 1 - r).
Proof. intros Hr. rewrite gstart_shiftl by assumption. apply N.shiftl_mul_pow2. Qed.

(** [ParentMany] on any in-range position: shift out [k] bits and put [k] ones on top. *)
Lemma ParentMany_arith p k h : h <= 63 -> 1 <= k -> k <= h -> p < 2 ^ (h + 1) ->
  ParentMany p k h = Some (p / 2 ^ k + gstart h k).
Proof.
  intros Hh Hk1 Hk Hp. unfold ParentMany.
  destruct (N.eqb_spec k 0) as [H0|_]; [lia|].
  destruct (N.ltb_spec h k) as [H0|_]; [lia|].
  f_equal. rewrite (sub8_small k 1) by lia. rewrite sub8_small by lia.
  unfold and64, or64. rewrite N.land_lor_distr_l. fold (and64 (shl (mask h) (h - (k - 1))) (mask h)).
  rewrite shl_mask_land by lia.
  fold (and64 (shr p k) (mask h)). rewrite land_mask by assumption.
  unfold shr. rewrite N.shiftr_div_pow2.
  assert (Hq : p / 2 ^ k < 2 ^ (h + 1 - k)).
  { apply N.div_lt_upper_bound; [apply pow2_nz|]. rewrite <- N.pow_add_r.
    replace (k + (h + 1 - k)) with (h + 1) by lia. assumption. }
  assert (2 ^ (h + 1 - k) <= 2 ^ (h + 1)) by (apply pow2_le; lia).
  rewrite N.mod_small by lia.
  replace (h - (k - 1)) with (h + 1 - k) by lia.
  fold (gstart h k). rewrite gstart_shiftl by assumption.
  rewrite lor_shiftl_add by assumption. rewrite N.shiftl_mul_pow2. reflexivity.
Qed.

Lemma mul_ge_l a b : 0 < b -> a <= b * a.
Proof. intros H. nia. Qed.
Lemma mul_ge_r a b : 0 < b -> a <= a * b.
Proof. intros H. nia. Qed.

Lemma PM_arith R C K o : 0 < R -> 0 < C -> 0 < K ->
  (R * C * K - C * K + o) / K + (R * C * K - R * C) = R * C * K - C + o / K.
Proof.
  intros HR HC HK.
  pose proof (mul_ge_l C R HR) as H1. pose proof (mul_ge_r (R * C) K HK) as H2.
  replace (R * C * K - C * K + o) with (o + (R * C - C) * K)
    by (rewrite N.mul_sub_distr_r; lia).
  rewrite N.div_add by lia. lia.
Qed.

Theorem ParentMany_gpos h r o k : h <= 63 -> 1 <= k -> r + k <= h -> o < 2 ^ (h - r) ->
  ParentMany (gpos h r o) k h = Some (gpos h (r + k) (o / 2 ^ k)).
Proof.
  intros Hh Hk Hrk Ho.
  assert (Hr : r <= h) by lia.
  pose proof (gpos_range h r o Hr Ho) as Hrange. pose proof (pow2_pos (h + 1)) as Hpp.
  rewrite ParentMany_arith by (try assumption; lia). f_equal.
  unfold gpos, gstart.
  set (c := h + 1 - r - k).
  assert (E1 : 2 ^ (h + 1 - (r + k)) = 2 ^ c) by (f_equal; lia).
  assert (E2 : 2 ^ (h + 1 - r) = 2 ^ c * 2 ^ k).
  { rewrite <- N.pow_add_r. f_equal. lia. }
  assert (E3 : 2 ^ (h + 1 - k) = 2 ^ r * 2 ^ c).
  { rewrite <- N.pow_add_r. f_equal. lia. }
  assert (E4 : 2 ^ (h + 1) = 2 ^ r * 2 ^ c * 2 ^ k).
  { rewrite <- !N.pow_add_r. f_equal. lia. }
  rewrite E1, E2, E3, E4.
  apply PM_arith; apply pow2_pos.
Qed.

Lemma ParentMany_0 p h : ParentMany p 0 h = Some p.
Proof. reflexivity. Qed.

Lemma ParentMany_err p k h : k <> 0 -> (ParentMany p k h = None <-> h < k).
Proof.
  intros Hk. unfold ParentMany.
  destruct (N.eqb_spec k 0) as [H0|_]; [lia|].
  destruct (N.ltb_spec h k) as [H0|H0]; split; intros H; try reflexivity; try assumption; try discriminate; lia.
Qed.

Example ParentMany_gpos_ex : ParentMany (gpos 3 0 5) 2 3 = Some (gpos 3 (0 + 2) (5 / 2 ^ 2)).
Proof. reflexivity. Qed.

(** * 6. [ChildMany] *)

Lemma CM_arith P A K o : 0 < K -> 2 * A * K <= P -> o < A ->
  ((P - 2 * A + o) * K) mod P = P - 2 * A * K + o * K.
Proof.
  intros HK HP Ho.
  pose proof (mul_ge_r (2 * A) K HK) as H1. pose proof (mul_ge_l P K HK) as H2.
  assert (H3 : o * K < A * K) by (apply N.mul_lt_mono_pos_r; assumption).
  replace ((P - 2 * A + o) * K) with (P - 2 * A * K + o * K + (K - 1) * P)
    by (rewrite N.mul_add_distr_r, !N.mul_sub_distr_r; lia).
  apply mod_add_small. lia.
Qed.

Theorem ChildMany_gpos h r o k : h <= 63 -> r <= h -> k <= r -> o < 2 ^ (h - r) ->
  ChildMany (gpos h r o) k h = Some (gpos h (r - k) (o * 2 ^ k)).
Proof.
  intros Hh Hr Hk Ho. unfold ChildMany.
  destruct (N.eqb_spec k 0) as [->|Hk0].
  - f_equal. rewrite N.sub_0_r, N.pow_0_r, N.mul_1_r. reflexivity.
  - destruct (N.ltb_spec h k) as [H0|_]; [lia|]. f_equal.
    rewrite shl_land_mask by lia.
    unfold gpos, gstart.
    assert (E1 : 2 ^ (h + 1 - (r - k)) = 2 * 2 ^ (h - r) * 2 ^ k).
    { rewrite <- pow2_S, <- N.pow_add_r. f_equal. lia. }
    assert (E4 : 2 ^ (h + 1 - r) = 2 * 2 ^ (h - r)).
    { replace (h + 1 - r) with (h - r + 1) by lia. apply pow2_S. }
    assert (E5 : 2 * 2 ^ (h - r) * 2 ^ k <= 2 ^ (h + 1)).
    { rewrite <- E1. apply pow2_le. lia. }
    rewrite E1, E4.
    apply CM_arith; [apply pow2_pos|assumption|assumption].
Qed.

Lemma ChildMany_err p k h : k <> 0 -> (ChildMany p k h = None <-> h < k).
Proof.
  intros Hk. unfold ChildMany.
  destruct (N.eqb_spec k 0) as [H0|_]; [lia|].
  destruct (N.ltb_spec h k) as [H0|H0]; split; intros H; try reflexivity; try assumption; try discriminate; lia.
Qed.

Example ChildMany_gpos_ex : ChildMany (gpos 3 2 1) 2 3 = Some (gpos 3 (2 - 2) (1 * 2 ^ 2)).
Proof. reflexivity. Qed.

(** * 7. Parent and children are mutually inverse *)

Lemma Parent_LeftChild h r o : h <= 63 -> r < h -> o < 2 ^ (h - r - 1) ->
  Parent (LeftChild (gpos h (r + 1) o) h) h = gpos h (r + 1) o.
Proof.
  intros Hh Hr Ho. rewrite LeftChild_gpos by assumption.
  assert (Ho2 : 2 * o < 2 ^ (h - r)).
  { replace (h - r) with (h - r - 1 + 1) by lia. rewrite pow2_S. lia. }
  rewrite Parent_gpos by assumption. f_equal.
  rewrite N.mul_comm. apply N.div_mul. lia.
Qed.

Lemma Parent_RightChild h r o : h <= 63 -> r < h -> o < 2 ^ (h - r - 1) ->
  Parent (RightChild (gpos h (r + 1) o) h) h = gpos h (r + 1) o.
Proof.
  intros Hh Hr Ho. rewrite RightChild_gpos by assumption.
  assert (Ho2 : 2 * o + 1 < 2 ^ (h - r)).
  { replace (h - r) with (h - r - 1 + 1) by lia. rewrite pow2_S. lia. }
  rewrite Parent_gpos by assumption. f_equal.
  rewrite N.mul_comm, N.div_add_l by lia. rewrite (N.div_small 1 2) by lia. lia.
Qed.

Lemma LeftChild_Parent h r o : h <= 63 -> r < h -> o < 2 ^ (h - r) ->
  LeftChild (Parent (gpos h r o) h) h = leftSib (gpos h r o).
Proof.
  intros Hh Hr Ho. rewrite Parent_gpos by assumption.
  assert (Ho2 : o / 2 < 2 ^ (h - r - 1)).
  { apply N.div_lt_upper_bound; [lia|]. rewrite <- pow2_S. replace (h - r - 1 + 1) with (h - r) by lia.
    assumption. }
  rewrite LeftChild_gpos by assumption. rewrite leftSib_gpos by lia. f_equal.
  pose proof (N.div_mod o 2 ltac:(lia)). lia.
Qed.

Lemma DetectRow_Parent h r o : h <= 63 -> r < h -> o < 2 ^ (h - r) ->
  DetectRow (Parent (gpos h r o) h) h = DetectRow (gpos h r o) h + 1.
Proof.
  intros Hh Hr Ho. rewrite Parent_gpos by assumption.
  assert (Ho2 : o / 2 < 2 ^ (h - (r + 1))).
  { apply N.div_lt_upper_bound; [lia|]. rewrite <- pow2_S. replace (h - (r + 1) + 1) with (h - r) by lia.
    assumption. }
  rewrite !DetectRow_gpos by (try assumption; lia). reflexivity.
Qed.

Example Parent_LeftChild_ex : Parent (LeftChild (gpos 3 (1 + 1) 1) 3) 3 = gpos 3 (1 + 1) 1.
Proof. reflexivity. Qed.

(** * 8. [TreeRows] and [numRoots] *)

Lemma TreeRows_0 : TreeRows 0 = 0.
Proof. reflexivity. Qed.

Lemma TreeRows_spec n : 0 < n ->
  n <= 2 ^ TreeRows n /\ (TreeRows n = 0 \/ 2 ^ (TreeRows n - 1) < n).
Proof.
  intros Hn. unfold TreeRows, len64.
  destruct (N.eqb_spec n 0) as [H0|_]; [lia|].
  pose proof (N.size_gt (n - 1)) as Hgt. pose proof (N.size_le (n - 1)) as Hle.
  rewrite N.succ_double_spec in Hle.
  split; [lia|].
  destruct (N.eq_dec (N.size (n - 1)) 0) as [E|E]; [left; assumption|right].
  replace (N.size (n - 1)) with (N.size (n - 1) - 1 + 1) in Hle by lia.
  rewrite pow2_S in Hle. lia.
Qed.

Lemma TreeRows_upper n : n <= 2 ^ TreeRows n.
Proof.
  destruct (N.eq_dec n 0) as [->|Hn]; [cbn; lia|]. apply TreeRows_spec. lia.
Qed.

Lemma TreeRows_le_iff n h : TreeRows n <= h <-> n <= 2 ^ h.
Proof.
  split; intros H.
  - pose proof (TreeRows_upper n). pose proof (pow2_le _ _ H). lia.
  - destruct (N.eq_dec n 0) as [->|Hn]; [cbn; lia|].
    destruct (TreeRows_spec n ltac:(lia)) as [_ [E|E]]; [lia|].
    assert (Hlt : 2 ^ (TreeRows n - 1) < 2 ^ h) by lia.
    apply N.pow_lt_mono_r_iff in Hlt; lia.
Qed.

Example TreeRows_spec_ex : 5 <= 2 ^ TreeRows 5 /\ (TreeRows 5 = 0 \/ 2 ^ (TreeRows 5 - 1) < 5).
Proof. vm_compute. split; [discriminate|right; reflexivity]. Qed.

(** [numRoots] is the population count: the number of set bits among the 64 bit positions. *)
Local Notation bitcount n k := (length (filter (N.testbit n) (map N.of_nat (seq 0 k)))).

Lemma length_filter_map_ext (f f' : N -> bool) (g g' : nat -> N) l :
  (forall i, f (g i) = f' (g' i)) ->
  length (filter f (map g l)) = length (filter f' (map g' l)).
Proof.
  intros E. induction l as [|x l IH]; [reflexivity|].
  cbn [map filter]. rewrite E. destruct (f' (g' x)); cbn [length]; rewrite IH; reflexivity.
Qed.

Lemma bitcount_double a b k :
  bitcount (2 * a + N.b2n b) (S k) = ((if b then 1 else 0) + bitcount a k)%nat.
Proof.
  cbn [seq map filter]. change (N.of_nat 0) with 0.
  rewrite N.testbit_0_r. rewrite <- seq_shift, map_map.
  assert (E : length (filter (N.testbit (2 * a + N.b2n b))
                        (map (fun x => N.of_nat (S x)) (seq 0 k))) =
              length (filter (N.testbit a) (map N.of_nat (seq 0 k)))).
  { apply length_filter_map_ext. intros i. rewrite Nat2N.inj_succ. apply N.testbit_succ_r. }
  destruct b; cbn [length]; rewrite E; reflexivity.
Qed.

Lemma bitcount_0 k : bitcount 0 k = 0%nat.
Proof.
  induction (map N.of_nat (seq 0 k)) as [|x l IH]; [reflexivity|].
  cbn [filter]. rewrite N.bits_0. assumption.
Qed.

Lemma popcount_pos_spec p : forall k, N.pos p < 2 ^ N.of_nat k ->
  popcount_pos p = N.of_nat (bitcount (N.pos p) k).
Proof.
  induction p as [p IH|p IH|]; intros k Hk; (destruct k as [|k]; [cbn in Hk; lia|]);
    rewrite Nat2N.inj_succ, N.pow_succ_r' in Hk.
  - change (N.pos p~1) with (2 * N.pos p + N.b2n true). rewrite bitcount_double.
    cbn [popcount_pos]. rewrite (IH k) by lia. lia.
  - change (N.pos p~0) with (2 * N.pos p + N.b2n false). rewrite bitcount_double.
    cbn [popcount_pos]. rewrite (IH k) by lia. lia.
  - change (bitcount 1 (S k)) with (bitcount (2 * 0 + N.b2n true) (S k)).
    rewrite bitcount_double, bitcount_0. reflexivity.
Qed.

Theorem numRoots_spec n : n < 2 ^ 64 ->
  numRoots n = N.of_nat (length (filter (N.testbit n) (map N.of_nat (seq 0 64)))).
Proof.
  intros Hn. unfold numRoots, popcount. destruct n as [|p]; [reflexivity|].
  exact (popcount_pos_spec p 64 Hn).
Qed.

Example numRoots_spec_ex : numRoots 7 = 3. Proof. reflexivity. Qed.

(** * 9. [rootPosition] *)

Lemma pow2_diff_shiftl a s : s <= a -> 2 ^ a - 2 ^ s = N.shiftl (N.ones (a - s)) s.
Proof.
  intros Hs. rewrite N.shiftl_mul_pow2, N.ones_equiv.
  rewrite (pow2_sub_split a s Hs). pose proof (pow2_pos (a - s)). 
  rewrite <- N.sub_1_r, N.mul_sub_distr_r. lia.
Qed.

(** masking with the ones on [s .. a-1] clears the low [s] bits of a number below [2^a] *)
Lemma land_highmask n a s : n < 2 ^ a -> s <= a -> N.land n (2 ^ a - 2 ^ s) = n / 2 ^ s * 2 ^ s.
Proof.
  intros Hn Hs. rewrite pow2_diff_shiftl by assumption.
  rewrite <- N.shiftl_mul_pow2, <- N.shiftr_div_pow2.
  apply N.bits_inj. intros j. rewrite N.land_spec.
  destruct (N.lt_ge_cases j s) as [Hj|Hj].
  - rewrite !N.shiftl_spec_low by assumption. apply Bool.andb_false_r.
  - rewrite !N.shiftl_spec_high' by assumption. rewrite N.shiftr_spec'.
    replace (j - s + s) with j by lia.
    destruct (N.lt_ge_cases j a) as [Hja|Hja].
    + rewrite N.ones_spec_low by lia. apply Bool.andb_true_r.
    + rewrite (testbit_small n a j Hn Hja). reflexivity.
Qed.

Lemma land_mask_small x h : h <= 63 -> x < 2 ^ (h + 1) -> and64 x (mask h) = x.
Proof. intros Hh Hx. rewrite land_mask by assumption. apply N.mod_small; assumption. Qed.

Theorem rootPosition_gpos n k h : h <= 63 -> k <= h -> n <= 2 ^ h ->
  rootPosition n k h = gpos h k (2 * (n / 2 ^ (k + 1))).
Proof.
  intros Hh Hk Hn. unfold rootPosition. cbv zeta.
  rewrite (add8_small k 1), (add8_small h 1) by lia. rewrite sub8_small by lia.
  assert (Hn1 : n < 2 ^ (h + 1)) by (rewrite pow2_S; pose proof (pow2_pos h); lia).
  (* before *)
  assert (Eb : and64 n (shl (mask h) (k + 1)) = n / 2 ^ (k + 1) * 2 ^ (k + 1)).
  { rewrite <- (land_mask_small n h Hh Hn1) at 1. unfold and64.
    rewrite <- N.land_assoc, (N.land_comm (mask h)).
    fold (and64 (shl (mask h) (k + 1)) (mask h)). rewrite shl_mask_land by lia.
    apply land_highmask; [assumption|lia]. }
  rewrite Eb. set (q := n / 2 ^ (k + 1)).
  assert (Es : shr (q * 2 ^ (k + 1)) k = 2 * q).
  { unfold shr. rewrite N.shiftr_div_pow2, pow2_S.
    replace (q * (2 * 2 ^ k)) with (2 * q * 2 ^ k) by lia. apply N.div_mul, pow2_nz. }
  rewrite Es.
  assert (Hq : 2 * q < 2 ^ (h + 1 - k)).
  { pose proof (N.mul_div_le n (2 ^ (k + 1)) (pow2_nz _)) as Hle. fold q in Hle.
    replace (h + 1 - k) with (h - k + 1) by lia. rewrite pow2_S.
    assert (Hlt : 2 ^ (k + 1) * q < 2 ^ (k + 1) * 2 ^ (h - k)).
    { rewrite <- N.pow_add_r. replace (k + 1 + (h - k)) with (h + 1) by lia. lia. }
    apply N.mul_lt_mono_pos_l in Hlt; [lia|apply pow2_pos]. }
  unfold and64, or64. rewrite N.land_lor_distr_l.
  fold (and64 (shl (mask h) (h + 1 - k)) (mask h)). rewrite shl_mask_land by lia.
  fold (and64 (2 * q) (mask h)). rewrite land_mask_small; [|assumption|].
  - fold (gstart h k). rewrite gstart_shiftl by assumption.
    rewrite lor_shiftl_add by assumption.
    rewrite <- N.shiftl_mul_pow2, <- gstart_shiftl by assumption. unfold gpos. lia.
  - assert (2 ^ (h + 1 - k) <= 2 ^ (h + 1)) by (apply pow2_le; lia). lia.
Qed.

(** a set bit [k] of [n <= 2^h] gives valid coordinates for the root of row [k] *)
Lemma root_coord_valid n k h : n <= 2 ^ h -> N.testbit n k = true ->
  k <= h /\ 2 * (n / 2 ^ (k + 1)) < 2 ^ (h - k).
Proof.
  intros Hn Hb. apply N.testbit_true in Hb.
  pose proof (N.div_mod (n / 2 ^ k) 2 ltac:(lia)) as Ht. rewrite Hb in Ht.
  rewrite N.div_div in Ht by (try apply pow2_nz; lia).
  rewrite (N.mul_comm (2 ^ k) 2), <- pow2_S in Ht.
  set (q := n / 2 ^ (k + 1)) in *.
  pose proof (N.mul_div_le n (2 ^ k) (pow2_nz _)) as Hle. rewrite Ht in Hle.
  assert (Hk : k <= h).
  { destruct (N.le_gt_cases k h) as [H|H]; [assumption|exfalso].
    pose proof (pow2_lt h k H). pose proof (mul_ge_r (2 ^ k) (2 * q + 1) ltac:(lia)). lia. }
  split; [assumption|].
  rewrite (pow2_sub_split h k Hk) in Hn.
  assert (Hlt : 2 ^ k * (2 * q + 1) <= 2 ^ k * 2 ^ (h - k)) by lia.
  apply N.mul_le_mono_pos_l in Hlt; [lia|apply pow2_pos].
Qed.

Example rootPosition_gpos_ex : rootPosition 7 1 3 = gpos 3 1 (2 * (7 / 2 ^ (1 + 1))).
Proof. reflexivity. Qed.

(** * 10. [translatePos] *)

Lemma sub64_small a b : b <= a -> a < W -> sub64 a b = a - b.
Proof.
  intros Hb Ha. unfold sub64. replace (a + W - b) with (a - b + W) by lia.
  apply wrap_add_W. lia.
Qed.

Lemma shl_2 x : x < 63 -> shl 2 x = 2 ^ (x + 1).
Proof.
  intros Hx. rewrite shl_small; [rewrite pow2_S; lia|lia|].
  rewrite <- pow2_S. apply pow2_lt_W. lia.
Qed.

Lemma startPositionAtRow_gstart r h : h <= 63 -> r <= h -> startPositionAtRow r h = gstart h r.
Proof.
  intros Hh Hr. unfold startPositionAtRow, gstart. rewrite sub8_small by lia.
  destruct (N.eq_dec h 63) as [->|Hne].
  - destruct (N.eq_dec r 0) as [->|Hr0]; [reflexivity|].
    change (shl 2 63) with 0. rewrite shl_2 by lia.
    replace (63 - r + 1) with (63 + 1 - r) by lia.
    assert (Hlt : 2 ^ (63 + 1 - r) < 2 ^ (63 + 1)) by (apply pow2_lt; lia).
    pose proof (pow2_pos (63 + 1 - r)) as Hp.
    unfold sub64. change (2 ^ (63 + 1)) with W in *. apply wrap_small. lia.
  - rewrite !shl_2 by lia. replace (h - r + 1) with (h + 1 - r) by lia.
    apply sub64_small; [apply pow2_le; lia|apply pow2_lt_W; lia].
Qed.

Theorem translatePos_gpos h r o h' : h <= 63 -> r <= h -> o < 2 ^ (h - r) ->
  h' <= 63 -> r <= h' -> o < 2 ^ (h' - r) ->
  translatePos (gpos h r o) h h' = gpos h' r o.
Proof.
  intros Hh Hr Ho Hh' Hr' Ho'. unfold translatePos. cbv zeta.
  rewrite DetectRow_gpos by assumption.
  destruct (N.eqb_spec r 0) as [->|Hr0].
  - unfold gpos, gstart. rewrite !N.sub_0_r. lia.
  - rewrite !startPositionAtRow_gstart by assumption.
    pose proof (gpos_lt_W h r o Hh Hr Ho) as H1. pose proof (gpos_lt_W h' r o Hh' Hr' Ho') as H2.
    unfold gpos in *.
    rewrite sub64_small by lia. unfold add64.
    replace (gstart h r + o - gstart h r) with o by lia.
    rewrite N.add_comm. apply wrap_small. assumption.
Qed.

Example translatePos_gpos_ex : translatePos (gpos 3 2 1) 3 5 = gpos 5 2 1.
Proof. reflexivity. Qed.

(** * 11. [isRootPositionOnRow] *)

Lemma TreeRows_le_63 n : n <= 2 ^ 63 -> TreeRows n <= 63.
Proof. intros Hn. apply TreeRows_le_iff. assumption. Qed.

Theorem isRootPositionOnRow_spec p n r : n <= 2 ^ 63 ->
  isRootPositionOnRow p n r = true <->
  (N.testbit n r = true /\ p = gpos (TreeRows n) r (2 * (n / 2 ^ (r + 1)))).
Proof.
  intros Hn. unfold isRootPositionOnRow.
  pose proof (TreeRows_le_63 n Hn) as Hh. pose proof (TreeRows_upper n) as Hup.
  destruct (N.lt_ge_cases r 64) as [Hr|Hr].
  - rewrite shl_1 by lia. unfold and64. rewrite land_pow2_eqb, Bool.negb_involutive.
    destruct (N.testbit n r) eqn:Eb; cbn [andb].
    + destruct (root_coord_valid n r (TreeRows n) Hup Eb) as [Hrh _].
      rewrite rootPosition_gpos by assumption.
      rewrite N.eqb_eq. split; [intros <-; split; reflexivity|intros [_ ->]; reflexivity].
    + split; [discriminate|intros [H _]; discriminate].
  - rewrite shl_big by assumption. unfold and64. rewrite N.land_0_r. cbn [N.eqb negb andb].
    assert (Eb : N.testbit n r = false).
    { apply (testbit_small n 64); [|assumption].
      assert (2 ^ 63 < 2 ^ 64) by (apply pow2_lt; lia). lia. }
    rewrite Eb. split; [discriminate|intros [H _]; discriminate].
Qed.

Example isRootPositionOnRow_spec_ex :
  N.testbit 7 1 = true /\ 10 = gpos (TreeRows 7) 1 (2 * (7 / 2 ^ (1 + 1))) /\ isRootPositionOnRow 10 7 1 = true.
Proof. repeat split. Qed.

(** * 12. [inForest] *)

Lemma inForest_loop_gpos h : h <= 63 ->
  forall fuel r o, r <= h -> o < 2 ^ (h - r) -> (N.to_nat r < fuel)%nat ->
  inForest_loop fuel (gpos h r o) (2 ^ h) (mask h) = (o + 1) * 2 ^ r - 1.
Proof.
  intros Hh. induction fuel as [|f IH]; intros r o Hr Ho Hf; [lia|].
  cbn [inForest_loop]. unfold and64 at 1. rewrite land_pow2_eqb.
  destruct (N.eq_dec r 0) as [->|Hr0].
  - replace h with (h - 0) at 2 by lia. rewrite gpos_bit_mid by assumption. cbn [negb].
    unfold gpos, gstart. rewrite N.sub_0_r, N.pow_0_r. lia.
  - rewrite gpos_bit_hi by (try assumption; lia). cbn [negb].
    fold (RightChild (gpos h r o) h).
    replace r with (r - 1 + 1) at 1 by lia.
    assert (Ho1 : o < 2 ^ (h - (r - 1) - 1)) by (replace (h - (r - 1) - 1) with (h - r) by lia; assumption).
    rewrite RightChild_gpos by (try assumption; lia).
    rewrite IH.
    + replace r with (r - 1 + 1) at 2 by lia. rewrite pow2_S. lia.
    + lia.
    + replace (h - (r - 1)) with (h - r + 1) by lia. rewrite pow2_S. lia.
    + lia.
Qed.

Lemma leaf_le_gpos h r o : r <= h -> o < 2 ^ (h - r) -> (o + 1) * 2 ^ r <= gpos h r o + 1.
Proof.
  intros Hr Ho. destruct (N.eq_dec r 0) as [->|Hr0].
  - unfold gpos, gstart. rewrite N.sub_0_r, N.pow_0_r. lia.
  - assert (H1 : (o + 1) * 2 ^ r <= 2 ^ (h - r) * 2 ^ r) by (apply N.mul_le_mono_r; lia).
    rewrite <- pow2_sub_split in H1 by assumption.
    unfold gpos, gstart. rewrite pow2_S.
    assert (2 ^ (h + 1 - r) <= 2 ^ h) by (apply pow2_le; lia). lia.
Qed.

Lemma shl_pow2_1 h : h <= 63 -> shl (2 ^ h) 1 = shl 2 h.
Proof. intros Hh. rewrite !shl_mod by lia. f_equal. rewrite N.pow_1_r. lia. Qed.

Theorem inForest_spec h r o n : h <= 63 -> r <= h -> o < 2 ^ (h - r) ->
  inForest (gpos h r o) n h = true <-> (o + 1) * 2 ^ r <= n.
Proof.
  intros Hh Hr Ho. unfold inForest. cbv zeta.
  pose proof (leaf_le_gpos h r o Hr Ho) as Hleaf.
  destruct (N.ltb_spec (gpos h r o) n) as [Hlt|Hge].
  - split; [intros _; lia|reflexivity].
  - rewrite shl_1 by assumption. rewrite shl_pow2_1 by assumption. fold (mask h).
    rewrite mask_spec at 1 by assumption.
    pose proof (gpos_range h r o Hr Ho) as Hrange. pose proof (pow2_pos (h + 1)) as Hp.
    destruct (N.leb_spec (2 ^ (h + 1) - 1) (gpos h r o)) as [H|_]; [lia|].
    rewrite inForest_loop_gpos by (try assumption; lia).
    pose proof (pow2_pos r) as Hp2. assert (1 <= (o + 1) * 2 ^ r) by nia.
    rewrite N.ltb_lt. lia.
Qed.

Example inForest_spec_ex : inForest (gpos 3 1 1) 4 3 = true /\ (1 + 1) * 2 ^ 1 <= 4.
Proof. split; [reflexivity|vm_compute; discriminate]. Qed.

(** * 13. [RootPositions] *)

Lemma rootExistsOnRow_testbit n k : rootExistsOnRow n k = N.testbit n k.
Proof.
  unfold rootExistsOnRow, and64, shr. rewrite land_1.
  replace k with (0 + k) at 2 by lia. rewrite <- N.shiftr_spec', N.bit0_odd, <- N.negb_even.
  destruct (N.even (N.shiftr n k)); reflexivity.
Qed.

Lemma RootPositions_loop_spec n total f : N.of_nat f <= 63 ->
  RootPositions_loop f n (N.of_nat f) total =
  map (fun k => rootPosition n k total) (filter (N.testbit n) (map N.of_nat (rev (seq 0 (S f))))).
Proof.
  induction f as [|f IH]; intros Hf.
  - cbn [RootPositions_loop seq rev app map filter N.of_nat]. rewrite u8_small by lia.
    rewrite rootExistsOnRow_testbit. destruct (N.testbit n 0); reflexivity.
  - cbn [RootPositions_loop]. rewrite u8_small by lia. rewrite rootExistsOnRow_testbit.
    destruct (N.eqb_spec (N.of_nat (S f)) 0) as [H0|_]; [lia|].
    replace (N.of_nat (S f) - 1) with (N.of_nat f) by lia.
    rewrite IH by lia.
    rewrite (seq_S (S f) 0), rev_app_distr. cbn [rev app map filter plus].
    destruct (N.testbit n (N.of_nat (S f))); reflexivity.
Qed.

Theorem RootPositions_spec n h : h <= 63 -> n <= 2 ^ h ->
  RootPositions n h =
  map (fun k => gpos h k (2 * (n / 2 ^ (k + 1))))
      (filter (N.testbit n) (map N.of_nat (rev (seq 0 (S (N.to_nat h)))))).
Proof.
  intros Hh Hn. unfold RootPositions.
  replace h with (N.of_nat (N.to_nat h)) at 2 by lia.
  rewrite RootPositions_loop_spec by lia.
  apply map_ext_in. intros k Hk. apply filter_In in Hk. destruct Hk as [Hk _].
  apply in_map_iff in Hk. destruct Hk as [i [<- Hi]]. apply in_rev, in_seq in Hi.
  apply rootPosition_gpos; [assumption|lia|assumption].
Qed.

Example RootPositions_spec_ex : RootPositions 7 3 = [gpos 3 2 0; gpos 3 1 2; gpos 3 0 6].
Proof. reflexivity. Qed.

(** * 14. [removeBit]/[addBit] and [calcNextPosition]/[calcPrevPosition] *)

(** remove bit [b] of [v] / insert the bit [c] at place [b] of [v], arithmetically *)
Definition rmbit (v b : N) : N := v / 2 ^ (b + 1) * 2 ^ b + v mod 2 ^ b.
Definition insbit (v b : N) (c : bool) : N :=
  v / 2 ^ b * 2 ^ (b + 1) + N.b2n c * 2 ^ b + v mod 2 ^ b.

Lemma max64_ones : max64 = N.ones 64.
Proof. reflexivity. Qed.

Lemma lxor_max64 m : m < W -> xor64 max64 m = max64 - m.
Proof.
  intros Hm. unfold xor64. rewrite max64_ones.
  assert (E : N.lxor (N.ones 64) m = N.ldiff (N.ones 64) m).
  { apply N.bits_inj. intros j. rewrite N.lxor_spec, N.ldiff_spec.
    destruct (N.lt_ge_cases j 64) as [Hj|Hj].
    - rewrite N.ones_spec_low by assumption. reflexivity.
    - rewrite N.ones_spec_high by assumption. rewrite (testbit_small m 64 j Hm Hj). reflexivity. }
  rewrite E. symmetry. apply N.sub_nocarry_ldiff.
  apply N.bits_inj_0. intros j. rewrite N.ldiff_spec.
  destruct (N.lt_ge_cases j 64) as [Hj|Hj].
  - rewrite N.ones_spec_low by assumption. apply Bool.andb_false_r.
  - rewrite (testbit_small m 64 j Hm Hj). reflexivity.
Qed.

Lemma not64_lxor_max64 m : m < W -> not64 (xor64 max64 m) = m.
Proof. intros Hm. rewrite lxor_max64 by assumption. unfold not64, max64 in *. lia. Qed.

Lemma sub64_shl1 b : b <= 63 -> sub64 (shl 1 b) 1 = 2 ^ b - 1.
Proof.
  intros Hb. rewrite shl_1 by assumption.
  apply sub64_small; [apply pow2_ge1|apply pow2_lt_W; assumption].
Qed.

Lemma lor_high_low q m b : m < 2 ^ b -> N.lor (q * 2 ^ b) m = q * 2 ^ b + m.
Proof.
  intros Hm. rewrite N.lor_comm, <- N.shiftl_mul_pow2, lor_shiftl_add by assumption.
  rewrite N.shiftl_mul_pow2. lia.
Qed.

Lemma removeBit_spec v b : v < W -> b <= 63 -> removeBit v b = rmbit v b.
Proof.
  intros Hv Hb. unfold removeBit, rmbit. cbv zeta. fold (mask b).
  rewrite sub64_shl1 by assumption.
  assert (Hm2 : 2 ^ b - 1 < W) by (pose proof (pow2_lt_W b Hb); lia).
  rewrite not64_lxor_max64 by assumption.
  assert (Hm : mask b < W).
  { rewrite mask_spec by assumption. assert (2 ^ (b + 1) <= W) by (rewrite W_eq; apply pow2_le; lia).
    pose proof (pow2_pos (b + 1)). lia. }
  rewrite lxor_max64 by assumption. rewrite mask_spec by assumption.
  assert (Hle : 2 ^ (b + 1) <= 2 ^ 64) by (apply pow2_le; lia).
  replace (max64 - (2 ^ (b + 1) - 1)) with (2 ^ 64 - 2 ^ (b + 1))
    by (unfold max64; rewrite W_eq; pose proof (pow2_pos (b + 1)); lia).
  unfold and64. rewrite land_highmask by (try (rewrite <- W_eq; assumption); lia).
  rewrite land_ones_mod.
  set (q := v / 2 ^ (b + 1)).
  assert (Es : shr (q * 2 ^ (b + 1)) 1 = q * 2 ^ b).
  { unfold shr. rewrite N.shiftr_div_pow2, N.pow_1_r, pow2_S.
    replace (q * (2 * 2 ^ b)) with (q * 2 ^ b * 2) by lia. apply N.div_mul. lia. }
  rewrite Es. unfold or64. apply lor_high_low. apply N.mod_upper_bound, pow2_nz.
Qed.

Lemma addBit_spec v b c : v < 2 ^ 63 -> b <= 63 -> addBit v b c = insbit v b c.
Proof.
  intros Hv Hb. unfold addBit, insbit. cbv zeta.
  rewrite sub64_shl1 by assumption.
  assert (Hm2 : 2 ^ b - 1 < W) by (pose proof (pow2_lt_W b Hb); lia).
  rewrite not64_lxor_max64 by assumption. rewrite lxor_max64 by assumption.
  assert (Hle : 2 ^ b <= 2 ^ 64) by (apply pow2_le; lia).
  replace (max64 - (2 ^ b - 1)) with (2 ^ 64 - 2 ^ b)
    by (unfold max64; rewrite W_eq; pose proof (pow2_pos b); lia).
  assert (H63 : 2 ^ 63 < 2 ^ 64) by (apply pow2_lt; lia).
  unfold and64. rewrite land_highmask by lia. rewrite land_ones_mod.
  set (q := v / 2 ^ b). set (m := v mod 2 ^ b).
  assert (Hm : m < 2 ^ b) by (apply N.mod_upper_bound, pow2_nz).
  assert (Hq : q * 2 ^ b <= v).
  { rewrite N.mul_comm. apply N.mul_div_le, pow2_nz. }
  assert (Eu : shl (q * 2 ^ b) 1 = 2 * q * 2 ^ b).
  { rewrite shl_small; [rewrite N.pow_1_r; lia|lia|]. rewrite N.pow_1_r, W_eq.
    replace 64 with (63 + 1) by reflexivity. rewrite pow2_S. lia. }
  rewrite Eu. rewrite shl_1 by assumption. unfold or64.
  rewrite lor_high_low by assumption.
  rewrite pow2_S.
  destruct c; cbn [N.b2n]; [|lia].
  rewrite <- lor_high_low by assumption.
  rewrite <- N.lor_assoc, (N.lor_comm m), N.lor_assoc.
  replace (N.lor (2 * q * 2 ^ b) (2 ^ b)) with ((2 * q + 1) * 2 ^ b).
  - rewrite lor_high_low by assumption. lia.
  - replace (2 ^ b) with (1 * 2 ^ b) at 3 by lia.
    rewrite <- !N.shiftl_mul_pow2, <- N.shiftl_lor. f_equal.
    rewrite lor_1, N.even_mul. reflexivity.
Qed.

Lemma rmbit_add_high o G b : rmbit (o + G * 2 ^ (b + 1)) b = rmbit o b + G * 2 ^ b.
Proof.
  unfold rmbit. rewrite N.div_add by apply pow2_nz.
  replace (o + G * 2 ^ (b + 1)) with (o + 2 * G * 2 ^ b) by (rewrite pow2_S; lia).
  rewrite N.mod_add by apply pow2_nz. lia.
Qed.

Lemma insbit_add_high o G b c : insbit (o + G * 2 ^ b) b c = insbit o b c + G * 2 ^ (b + 1).
Proof.
  unfold insbit. rewrite N.div_add, N.mod_add by apply pow2_nz. lia.
Qed.

Lemma rmbit_lt o n b : b < n -> o < 2 ^ n -> rmbit o b < 2 ^ (n - 1).
Proof.
  intros Hb Ho. unfold rmbit.
  assert (En : n - (b + 1) + b = n - 1) by lia.
  assert (Hm : o mod 2 ^ b < 2 ^ b) by (apply N.mod_upper_bound, pow2_nz).
  assert (Hq : o / 2 ^ (b + 1) < 2 ^ (n - (b + 1))).
  { apply N.div_lt_upper_bound; [apply pow2_nz|]. rewrite <- N.pow_add_r.
    replace (b + 1 + (n - (b + 1))) with n by lia. assumption. }
  set (q := o / 2 ^ (b + 1)) in *.
  assert (Hq' : (q + 1) * 2 ^ b <= 2 ^ (n - (b + 1)) * 2 ^ b) by (apply N.mul_le_mono_r; lia).
  rewrite <- N.pow_add_r, En in Hq'.
  lia.
Qed.

Lemma insbit_lt o n b c : b <= n -> o < 2 ^ n -> insbit o b c < 2 ^ (n + 1).
Proof.
  intros Hb Ho. unfold insbit.
  assert (En : n - b + (b + 1) = n + 1) by lia.
  assert (Hm : o mod 2 ^ b < 2 ^ b) by (apply N.mod_upper_bound, pow2_nz).
  assert (Hq : o / 2 ^ b < 2 ^ (n - b)).
  { apply N.div_lt_upper_bound; [apply pow2_nz|]. rewrite <- N.pow_add_r.
    replace (b + (n - b)) with n by lia. assumption. }
  set (q := o / 2 ^ b) in *.
  assert (Hq' : (q + 1) * 2 ^ (b + 1) <= 2 ^ (n - b) * 2 ^ (b + 1)) by (apply N.mul_le_mono_r; lia).
  rewrite <- N.pow_add_r, En in Hq'.
  rewrite pow2_S in *. assert (N.b2n c <= 1) by (destruct c; cbn; lia).
  assert (N.b2n c * 2 ^ b <= 2 ^ b) by (destruct c; cbn [N.b2n]; lia).
  lia.
Qed.

Lemma insbit_rmbit_arith o q m t P r1 :
  o = 2 * P * q + r1 -> r1 = m + P * t -> q * (2 * P) + t * P + m = o.
Proof. intros -> ->. lia. Qed.

Lemma insbit_rmbit o b : insbit (rmbit o b) b (N.testbit o b) = o.
Proof.
  unfold insbit, rmbit.
  assert (Hm : o mod 2 ^ b < 2 ^ b) by (apply N.mod_upper_bound, pow2_nz).
  pose proof (N.div_mod o (2 ^ (b + 1)) (pow2_nz _)) as E.
  assert (E2 : o mod 2 ^ (b + 1) = o mod 2 ^ b + 2 ^ b * ((o / 2 ^ b) mod 2)).
  { rewrite pow2_S, (N.mul_comm 2). apply N.mod_mul_r; [apply pow2_nz|lia]. }
  rewrite N.testbit_spec'. rewrite pow2_S in E, E2 |- *.
  set (q := o / (2 * 2 ^ b)) in *. set (m := o mod 2 ^ b) in *.
  replace ((q * 2 ^ b + m) / 2 ^ b) with q.
  2:{ rewrite N.div_add_l by apply pow2_nz. rewrite N.div_small by assumption. lia. }
  replace ((q * 2 ^ b + m) mod 2 ^ b) with m.
  2:{ rewrite N.add_comm, N.mod_add by apply pow2_nz. symmetry. apply N.mod_small; assumption. }
  exact (insbit_rmbit_arith o q m _ (2 ^ b) _ E E2).
Qed.

Lemma ones_mul r a : N.ones r * 2 ^ a = 2 ^ (r + a) - 2 ^ a.
Proof. rewrite N.ones_equiv, <- N.sub_1_r, N.mul_sub_distr_r, N.pow_add_r. lia. Qed.

Theorem calcNextPosition_gpos h r o del rd : h <= 63 -> r <= rd -> rd < h -> o < 2 ^ (h - r) ->
  DetectRow del h = rd ->
  calcNextPosition (gpos h r o) del h = Some (gpos h (r + 1) (rmbit o (rd - r))).
Proof.
  intros Hh Hrd Hrdh Ho Hdel. assert (Hr : r <= h) by lia.
  unfold calcNextPosition. cbv zeta. rewrite Hdel, DetectRow_gpos by assumption.
  destruct (N.ltb_spec rd r) as [H0|_]; [lia|]. f_equal.
  rewrite add8_small by lia. rewrite !sub8_small by lia.
  rewrite removeBit_spec by (try lia; apply gpos_lt_W; assumption).
  rewrite (shl_1 (r + 1)) by lia.
  assert (Eh : 2 ^ (r + 1) * 2 ^ (h - (r + 1)) = 2 ^ h) by (rewrite <- N.pow_add_r; f_equal; lia).
  rewrite shl_small; [|lia|rewrite Eh; apply pow2_lt_W; assumption]. rewrite Eh.
  set (b := rd - r).
  assert (Eg : gpos h r o = o + N.ones r * 2 ^ (h - r - b) * 2 ^ (b + 1)).
  { unfold gpos. rewrite gstart_ones by assumption. rewrite <- N.mul_assoc, <- N.pow_add_r.
    replace (h - r - b + (b + 1)) with (h + 1 - r) by lia. lia. }
  rewrite Eg, rmbit_add_high. rewrite <- N.mul_assoc, <- N.pow_add_r.
  replace (h - r - b + b) with (h - r) by lia.
  pose proof (rmbit_lt o (h - r) b ltac:(lia) Ho) as Hlt.
  assert (Hle : 2 ^ (h - r - 1) <= 2 ^ (h - r)) by (apply pow2_le; lia).
  rewrite ones_mul. replace (r + (h - r)) with h by lia.
  assert (Hhr : 2 ^ (h - r) <= 2 ^ h) by (apply pow2_le; lia).
  unfold or64. rewrite N.lor_comm, lor_pow2_add by lia.
  unfold gpos, gstart. replace (h + 1 - (r + 1)) with (h - r) by lia. rewrite pow2_S. lia.
Qed.

Lemma land_clear_bit x h : h <= 63 -> x < 2 ^ h -> N.land (x + 2 ^ h) (max64 - 2 ^ h) = x.
Proof.
  intros Hh Hx. rewrite <- lor_pow2_add by assumption.
  rewrite <- lxor_max64 by (apply pow2_lt_W; assumption). unfold xor64. rewrite max64_ones.
  apply N.bits_inj. intros j.
  rewrite N.land_spec, N.lor_spec, N.lxor_spec, N.pow2_bits_eqb.
  destruct (N.eqb_spec h j) as [<-|Hne].
  - rewrite (testbit_small x h h Hx) by lia. rewrite N.ones_spec_low by lia. reflexivity.
  - rewrite Bool.orb_false_r, Bool.xorb_false_r.
    destruct (N.lt_ge_cases j 64) as [Hj|Hj].
    + rewrite N.ones_spec_low by assumption. apply Bool.andb_true_r.
    + rewrite (testbit_small x h j Hx) by lia. reflexivity.
Qed.

Theorem calcPrevPosition_gpos h r o del rd : h <= 63 -> r <= rd -> rd < h -> o < 2 ^ (h - r - 1) ->
  DetectRow del h = rd ->
  calcPrevPosition (gpos h (r + 1) o) del h = gpos h r (insbit o (rd - r) (isLeftNiece del)).
Proof.
  intros Hh Hrd Hrdh Ho Hdel.
  replace (h - r - 1) with (h - (r + 1)) in Ho by lia.
  unfold calcPrevPosition. cbv zeta. rewrite Hdel, DetectRow_gpos by (try assumption; lia).
  rewrite (sub8_small (r + 1) 1), (sub8_small h (r + 1)), sub8_small by lia.
  replace (r + 1 - 1) with r by lia.
  rewrite (shl_1 (r + 1)) by lia.
  assert (Eh : 2 ^ (r + 1) * 2 ^ (h - (r + 1)) = 2 ^ h) by (rewrite <- N.pow_add_r; f_equal; lia).
  rewrite shl_small; [|lia|rewrite Eh; apply pow2_lt_W; assumption]. rewrite Eh.
  set (b := rd - r). unfold not64.
  assert (Hhr : 2 ^ (h - r) <= 2 ^ h) by (apply pow2_le; lia).
  assert (Hhr1 : 2 ^ (h - (r + 1)) <= 2 ^ (h - r)) by (apply pow2_le; lia).
  assert (Eg : gpos h (r + 1) o = (o + N.ones r * 2 ^ (h - r)) + 2 ^ h).
  { unfold gpos, gstart. rewrite ones_mul. replace (r + (h - r)) with h by lia.
    replace (h + 1 - (r + 1)) with (h - r) by lia. rewrite pow2_S. lia. }
  assert (Hlow : o + N.ones r * 2 ^ (h - r) < 2 ^ h).
  { rewrite ones_mul. replace (r + (h - r)) with h by lia. lia. }
  rewrite Eg. unfold and64. rewrite land_clear_bit by assumption.
  assert (H63 : 2 ^ h <= 2 ^ 63) by (apply pow2_le; lia).
  rewrite addBit_spec by lia.
  replace (N.ones r * 2 ^ (h - r)) with (N.ones r * 2 ^ (h - r - b) * 2 ^ b).
  2:{ rewrite <- N.mul_assoc, <- N.pow_add_r. f_equal. f_equal. lia. }
  rewrite insbit_add_high. rewrite <- N.mul_assoc, <- N.pow_add_r.
  replace (h - r - b + (b + 1)) with (h + 1 - r) by lia.
  unfold gpos. rewrite gstart_ones by lia. lia.
Qed.

(** [calcPrevPosition] undoes [calcNextPosition] when the position lies below the sibling of [del]
    (its offset bit at the row of [del] is the opposite of [del]'s, i.e. set iff [del] is a left niece). *)
Theorem calcPrev_calcNext h r o del rd q : h <= 63 -> r <= rd -> rd < h -> o < 2 ^ (h - r) ->
  DetectRow del h = rd -> N.testbit o (rd - r) = isLeftNiece del ->
  calcNextPosition (gpos h r o) del h = Some q ->
  calcPrevPosition q del h = gpos h r o.
Proof.
  intros Hh Hrd Hrdh Ho Hdel Hbit Hnext.
  rewrite (calcNextPosition_gpos h r o del rd) in Hnext by assumption.
  injection Hnext as <-.
  pose proof (rmbit_lt o (h - r) (rd - r) ltac:(lia) Ho) as Hlt.
  rewrite (calcPrevPosition_gpos h r _ del rd) by assumption.
  rewrite <- Hbit, insbit_rmbit. reflexivity.
Qed.

Example calcNextPosition_gpos_ex :
  calcNextPosition (gpos 4 1 5) (gpos 4 2 1) 4 = Some (gpos 4 (1 + 1) (rmbit 5 (2 - 1))).
Proof. reflexivity. Qed.
Example calcPrev_calcNext_ex :
  N.testbit 2 (2 - 1) = isLeftNiece (gpos 4 2 2) /\
  calcNextPosition (gpos 4 1 2) (gpos 4 2 2) 4 = Some 24 /\ calcPrevPosition 24 (gpos 4 2 2) 4 = gpos 4 1 2.
Proof. repeat split. Qed.

(** * Further instances (every theorem's hypotheses are satisfiable) *)
Example gpos_inj_ex : gpos 3 1 2 = gpos 3 1 2 -> 1 = 1 /\ 2 = 2.
Proof. intros H. exact (gpos_inj 3 1 2 1 2 ltac:(vm_compute; discriminate) eq_refl ltac:(vm_compute; discriminate) eq_refl H). Qed.
Example rightSib_gpos_ex : rightSib (gpos 3 1 2) = gpos 3 1 (N.lor 2 1). Proof. reflexivity. Qed.
Example isLeftNiece_gpos_ex : isLeftNiece (gpos 3 1 2) = N.even 2. Proof. reflexivity. Qed.
Example Parent_RightChild_ex : Parent (RightChild (gpos 3 (1 + 1) 1) 3) 3 = gpos 3 (1 + 1) 1.
Proof. reflexivity. Qed.
Example LeftChild_Parent_ex : LeftChild (Parent (gpos 3 1 3) 3) 3 = leftSib (gpos 3 1 3).
Proof. reflexivity. Qed.
Example DetectRow_Parent_ex : DetectRow (Parent (gpos 3 1 3) 3) 3 = DetectRow (gpos 3 1 3) 3 + 1.
Proof. reflexivity. Qed.
Example root_coord_valid_ex : N.testbit 7 1 = true /\ 1 <= 3 /\ 2 * (7 / 2 ^ (1 + 1)) < 2 ^ (3 - 1).
Proof. split; [reflexivity|split; [vm_compute; discriminate|reflexivity]]. Qed.
Example calcPrevPosition_gpos_ex :
  calcPrevPosition (gpos 4 (1 + 1) 1) (gpos 4 2 2) 4 = gpos 4 1 (insbit 1 (2 - 1) (isLeftNiece (gpos 4 2 2))).
Proof. reflexivity. Qed.
Example removeBit_spec_ex : removeBit 181 2 = rmbit 181 2. Proof. reflexivity. Qed.
Example addBit_spec_ex : addBit 9 2 true = insbit 9 2 true /\ addBit 9 2 true = 21. Proof. split; reflexivity. Qed.
