(** [ProofPositions] (mirror of utils.go) computes what the forest geometry says:
    for ascending, distinct, non-nested targets that exist in the forest it returns the siblings
    of targets-and-ancestors that are neither targets nor ancestors (ascending) and the proper
    ancestors (ascending).  Last clause of property C16; feeds C02.

    Route: (1) a coordinate model [cPP_row] of one row pass and its refinement by [PP_row] on
    [map g cs]; (2) set-level characterisation of one pass on a strictly ascending list;
    (3) an invariant over the rows for [PP_rows]; (4) the results are strictly ascending and
    have the same elements as the lists of [pp_expect], hence equal to their [sortN]. *)
From Utreexo Require Import Model.Utils Proofs.UtilsGeom Proofs.UtilsGeom2 Spec.Geometry.
From Coq Require Import Lia ZifyN ZifyNat ZifyBool List Sorted Permutation.
Import ListNotations.
Open Scope N_scope.

(** * 0. The two copies of the geometry definitions coincide *)
Lemma gstart_bridge : Geometry.gstart = UtilsGeom.gstart. Proof. reflexivity. Qed.
Lemma gpos_bridge : Geometry.gpos = UtilsGeom.gpos. Proof. reflexivity. Qed.
Lemma tree_rows_TreeRows n : tree_rows n = TreeRows n. Proof. reflexivity. Qed.

Notation gpos := UtilsGeom.gpos.
Notation gstart := UtilsGeom.gstart.

(** * 1. Sorting: [sortN] yields an ascending permutation *)
Notation SSlt := (StronglySorted N.lt).
Notation SSle := (StronglySorted N.le).

Lemma pps_insertN_perm x l : Permutation (insertN x l) (x :: l).
Proof.
  induction l as [|y t IH]; cbn [insertN]; [apply Permutation_refl|].
  destruct (x <=? y); [apply Permutation_refl|].
  eapply perm_trans; [apply perm_skip, IH|apply perm_swap].
Qed.

Lemma pps_sortN_perm l : Permutation (sortN l) l.
Proof.
  unfold sortN. induction l as [|x t IH]; cbn [fold_right]; [apply perm_nil|].
  eapply perm_trans; [apply pps_insertN_perm|apply perm_skip, IH].
Qed.

Lemma pps_insertN_sorted x l : SSle l -> SSle (insertN x l).
Proof.
  induction l as [|y t IH]; intros Hs; cbn [insertN].
  - constructor; constructor.
  - apply StronglySorted_inv in Hs. destruct Hs as [Hs Hy].
    destruct (N.leb_spec x y) as [Hxy|Hxy].
    + constructor; [constructor; assumption|].
      constructor; [assumption|].
      eapply Forall_impl; [|exact Hy]. intros a Ha. cbv beta in Ha. lia.
    + constructor; [apply IH; assumption|].
      rewrite Forall_forall. intros a Ha.
      apply (Permutation_in _ (pps_insertN_perm x t)) in Ha. destruct Ha as [<-|Ha]; [lia|].
      rewrite Forall_forall in Hy. apply Hy; assumption.
Qed.

Lemma pps_sortN_sorted l : SSle (sortN l).
Proof.
  unfold sortN. induction l as [|x t IH]; cbn [fold_right]; [constructor|].
  apply pps_insertN_sorted; assumption.
Qed.

Lemma pps_SSle_NoDup_SSlt l : SSle l -> NoDup l -> SSlt l.
Proof.
  induction l as [|x t IH]; intros Hs Hn; [constructor|].
  apply StronglySorted_inv in Hs. destruct Hs as [Hs Hx].
  inversion Hn as [|? ? Hnx Hnt]; subst.
  constructor; [apply IH; assumption|].
  rewrite Forall_forall in *. intros a Ha. specialize (Hx a Ha).
  assert (a <> x) by (intros ->; contradiction). lia.
Qed.

Lemma pps_SSlt_NoDup l : SSlt l -> NoDup l.
Proof.
  induction l as [|x t IH]; intros Hs; [constructor|].
  apply StronglySorted_inv in Hs. destruct Hs as [Hs Hx].
  constructor; [|apply IH; assumption].
  intros Hin. rewrite Forall_forall in Hx. specialize (Hx x Hin). lia.
Qed.

Lemma pps_sortN_NoDup_SSlt l : NoDup l -> SSlt (sortN l).
Proof.
  intros Hn. apply pps_SSle_NoDup_SSlt; [apply pps_sortN_sorted|].
  eapply Permutation_NoDup; [apply Permutation_sym, pps_sortN_perm|assumption].
Qed.

(** two strictly ascending lists with the same elements are equal *)
Lemma pps_SSlt_ext l1 : forall l2, SSlt l1 -> SSlt l2 -> (forall x, In x l1 <-> In x l2) -> l1 = l2.
Proof.
  induction l1 as [|x t IH]; intros l2 H1 H2 E.
  - destruct l2 as [|y u]; [reflexivity|]. exfalso. apply (E y). left; reflexivity.
  - destruct l2 as [|y u]; [exfalso; apply (E x); left; reflexivity|].
    apply StronglySorted_inv in H1. destruct H1 as [H1 Hx].
    apply StronglySorted_inv in H2. destruct H2 as [H2 Hy].
    rewrite Forall_forall in Hx, Hy.
    assert (Exy : x = y).
    { destruct (proj1 (E x) (or_introl eq_refl)) as [->|Hxu]; [reflexivity|].
      destruct (proj2 (E y) (or_introl eq_refl)) as [->|Hyt]; [reflexivity|].
      specialize (Hx y Hyt). specialize (Hy x Hxu). lia. }
    subst y. f_equal. apply IH; try assumption.
    intros a. split; intros Ha.
    + destruct (proj1 (E a) (or_intror Ha)) as [<-|H]; [|assumption].
      specialize (Hx x Ha). lia.
    + destruct (proj2 (E a) (or_intror Ha)) as [<-|H]; [|assumption].
      specialize (Hy x Ha). lia.
Qed.

Lemma pps_sortN_unique l s : SSlt s -> NoDup l -> (forall x, In x s <-> In x l) -> sortN l = s.
Proof.
  intros Hs Hn E. apply pps_SSlt_ext; [apply pps_sortN_NoDup_SSlt; assumption|assumption|].
  intros x. rewrite E. split; intros H.
  - eapply Permutation_in; [apply pps_sortN_perm|exact H].
  - eapply Permutation_in; [apply Permutation_sym, pps_sortN_perm|exact H].
Qed.

Lemma pps_SSlt_app l1 l2 : SSlt l1 -> SSlt l2 -> (forall x y, In x l1 -> In y l2 -> x < y) ->
  SSlt (l1 ++ l2).
Proof.
  induction l1 as [|x t IH]; intros H1 H2 H; [exact H2|].
  apply StronglySorted_inv in H1. destruct H1 as [H1 Hx]. cbn [app].
  constructor.
  - apply IH; [assumption|assumption|]. intros a b Ha Hb. apply H; [right; assumption|assumption].
  - rewrite Forall_forall in *. intros a Ha. apply in_app_or in Ha. destruct Ha as [Ha|Ha].
    + apply Hx; assumption.
    + apply H; [left; reflexivity|assumption].
Qed.

(** * 2. Arithmetic on offsets: sibling, right sibling, parent *)
Lemma pps_lxor_invol o : N.lxor (N.lxor o 1) 1 = o.
Proof. rewrite N.lxor_assoc. change (N.lxor 1 1) with 0. apply N.lxor_0_r. Qed.

Lemma pps_even_cases o : (N.even o = true /\ exists k, o = 2 * k) \/ (N.even o = false /\ exists k, o = 2 * k + 1).
Proof.
  destruct (N.even o) eqn:E.
  - left. split; [reflexivity|]. apply N.even_spec in E. exact E.
  - right. split; [reflexivity|].
    assert (Ho : N.odd o = true) by (rewrite <- N.negb_even, E; reflexivity).
    apply N.odd_spec in Ho. exact Ho.
Qed.

Lemma pps_div2_double k : 2 * k / 2 = k.
Proof. rewrite N.mul_comm. apply N.div_mul. lia. Qed.
Lemma pps_div2_double1 k : (2 * k + 1) / 2 = k.
Proof. rewrite N.mul_comm, N.add_comm, N.div_add by lia. reflexivity. Qed.

(** all case facts about [lxor o 1], [lor o 1], [o / 2] at once *)
Lemma pps_bit0 o : exists k, (o = 2 * k /\ N.lxor o 1 = 2 * k + 1 /\ N.lor o 1 = 2 * k + 1 /\ o / 2 = k) \/
                             (o = 2 * k + 1 /\ N.lxor o 1 = 2 * k /\ N.lor o 1 = 2 * k + 1 /\ o / 2 = k).
Proof.
  rewrite lxor_1, lor_1.
  destruct (pps_even_cases o) as [[E [k ->]]|[E [k ->]]]; rewrite E; exists k.
  - left. rewrite pps_div2_double. repeat split; lia.
  - right. rewrite pps_div2_double1. repeat split; lia.
Qed.

(** * 3. Forest geometry on coordinates *)
Definition crd := (N * N)%type.
Definition par (c : crd) : crd := (fst c + 1, snd c / 2).
Definition sib (c : crd) : crd := (fst c, N.lxor (snd c) 1).
Definition rsib (c : crd) : crd := (fst c, N.lor (snd c) 1).

Lemma pps_sib_invol c : sib (sib c) = c.
Proof. destruct c as [r o]. unfold sib. cbn [fst snd]. rewrite pps_lxor_invol. reflexivity. Qed.
Lemma pps_par_sib c : par (sib c) = par c.
Proof.
  destruct c as [r o]. unfold sib, par. cbn [fst snd]. f_equal.
  destruct (pps_bit0 o) as [k [(E1 & E2 & E3 & E4)|(E1 & E2 & E3 & E4)]]; rewrite E2, E4.
  - apply pps_div2_double1.
  - apply pps_div2_double.
Qed.

Lemma pps_in_forest_iff n r o : in_forest n r o = true <-> o + 1 <= n / 2 ^ r.
Proof.
  unfold in_forest. rewrite N.leb_le. pose proof (pow2_nz r) as Hnz. split; intros H.
  - apply N.div_le_lower_bound; [assumption|lia].
  - pose proof (N.mul_div_le n (2 ^ r) Hnz). nia.
Qed.

Lemma pps_div_pow2_S n r : n / 2 ^ (r + 1) = n / 2 ^ r / 2.
Proof. rewrite N.div_div by (try apply pow2_nz; lia). rewrite pow2_S. f_equal. lia. Qed.

Lemma pps_is_root_iff n r o :
  is_root_c n (r, o) = true <-> (N.odd (n / 2 ^ r) = true /\ o = 2 * (n / 2 ^ r / 2)).
Proof.
  unfold is_root_c. cbn [fst snd]. rewrite Bool.andb_true_iff, N.eqb_eq, N.testbit_odd,
    N.shiftr_div_pow2, pps_div_pow2_S. reflexivity.
Qed.

(** a non-root node of the forest has its parent in the forest *)
Lemma pps_parent_in_forest n r o :
  in_forest n r o = true -> is_root_c n (r, o) = false -> in_forest n (r + 1) (o / 2) = true.
Proof.
  intros Hin Hroot. rewrite pps_in_forest_iff in *. rewrite pps_div_pow2_S.
  assert (Hnr : ~ (N.odd (n / 2 ^ r) = true /\ o = 2 * (n / 2 ^ r / 2))).
  { rewrite <- pps_is_root_iff, Hroot. discriminate. }
  set (m := n / 2 ^ r) in *.
  destruct (pps_bit0 o) as [k [(E1 & _ & _ & E4)|(E1 & _ & _ & E4)]]; rewrite E4.
  - destruct (pps_bit0 m) as [a [(F1 & _ & _ & F4)|(F1 & _ & _ & F4)]]; rewrite F4 in *.
    + lia.
    + destruct (N.eq_dec k a) as [->|Hne]; [|lia].
      exfalso. apply Hnr. split; [|lia]. apply N.odd_spec. exists a. exact F1.
  - destruct (pps_bit0 m) as [a [(F1 & _ & _ & F4)|(F1 & _ & _ & F4)]]; rewrite F4 in *; lia.
Qed.

(** the sibling of a root is outside the forest *)
Lemma pps_root_sib_out n r o :
  is_root_c n (r, o) = true -> in_forest n r (N.lxor o 1) = true -> False.
Proof.
  intros Hroot Hin. rewrite pps_in_forest_iff in Hin. apply pps_is_root_iff in Hroot.
  destruct Hroot as [Hodd ->]. set (m := n / 2 ^ r) in *.
  apply N.odd_spec in Hodd. destruct Hodd as [a Ha].
  rewrite Ha, pps_div2_double1 in Hin.
  destruct (pps_bit0 (2 * a)) as [k [(E1 & E2 & _)|(E1 & E2 & _)]]; rewrite E2 in Hin; lia.
Qed.

Lemma pps_in_forest_valid n h r o : n <= 2 ^ h -> in_forest n r o = true -> r <= h /\ o < 2 ^ (h - r).
Proof.
  unfold in_forest. rewrite N.leb_le. intros Hn H.
  pose proof (pow2_pos r) as Hp.
  assert (Hr : r <= h).
  { destruct (N.le_gt_cases r h) as [Hle|Hgt]; [assumption|exfalso].
    pose proof (pow2_lt h r Hgt). nia. }
  split; [assumption|].
  rewrite (pow2_sub_split h r Hr) in Hn.
  assert (Hlt : (o + 1) * 2 ^ r <= 2 ^ (h - r) * 2 ^ r) by lia.
  apply N.mul_le_mono_pos_r in Hlt; [lia|assumption].
Qed.

Section Forest.
  Variables n h : N.
  Hypothesis Hh : h <= 63.
  Hypothesis Hn : n <= 2 ^ h.

  Definition g (c : crd) : N := gpos h (fst c) (snd c).
  Definition inf (c : crd) : Prop := in_forest n (fst c) (snd c) = true.
  Definition vld (c : crd) : Prop := fst c <= h /\ snd c < 2 ^ (h - fst c).
  Definition isroot (c : crd) : bool := is_root_c n c.

  Lemma pps_n63 : n <= 2 ^ 63.
  Proof. pose proof (pow2_le h 63 Hh). lia. Qed.

  (** coordinates in the forest are coordinates of the height-[h] geometry *)
  Lemma pps_inf_vld c : inf c -> vld c.
  Proof. destruct c as [r o]. unfold inf, vld. cbn [fst snd]. apply pps_in_forest_valid; assumption. Qed.

  Lemma pps_par_inf c : inf c -> isroot c = false -> inf (par c).
  Proof. destruct c as [r o]. unfold inf, isroot, par. cbn [fst snd]. apply pps_parent_in_forest. Qed.

  Lemma pps_nonroot_row c : inf c -> isroot c = false -> fst c < h.
  Proof.
    intros Hi Hr. pose proof (pps_inf_vld _ (pps_par_inf c Hi Hr)) as [H _].
    unfold par in H. cbn [fst] in H. lia.
  Qed.

  Lemma pps_sib_vld c : inf c -> isroot c = false -> vld (sib c).
  Proof.
    intros Hi Hr. pose proof (pps_nonroot_row c Hi Hr) as Hrow.
    destruct (pps_inf_vld c Hi) as [H1 H2]. unfold vld, sib. cbn [fst snd].
    split; [assumption|]. apply sib_offsets_lt; assumption.
  Qed.

  Lemma pps_root_sib c : inf c -> isroot c = true -> inf (sib c) -> False.
  Proof. destruct c as [r o]. unfold inf, isroot, sib. cbn [fst snd]. intros _. apply pps_root_sib_out. Qed.

  (** [g] is injective on valid coordinates and orders them row-major *)
  Lemma pps_g_inj c c' : vld c -> vld c' -> g c = g c' -> c = c'.
  Proof.
    destruct c as [r o], c' as [r' o']. unfold vld, g. cbn [fst snd]. intros [H1 H2] [H3 H4] E.
    destruct (gpos_inj h r o r' o' H1 H2 H3 H4 E) as [-> ->]. reflexivity.
  Qed.

  Lemma pps_g_row_lt c c' : vld c -> vld c' -> fst c < fst c' -> g c < g c'.
  Proof.
    destruct c as [r o], c' as [r' o']. unfold vld, g. cbn [fst snd]. intros [H1 H2] [H3 H4] Hlt.
    apply gpos_row_mono; assumption.
  Qed.

  Lemma pps_g_same_row c c' : fst c = fst c' -> (g c < g c' <-> snd c < snd c').
  Proof.
    destruct c as [r o], c' as [r' o']. unfold g, UtilsGeom.gpos. cbn [fst snd]. intros ->. lia.
  Qed.

  Lemma pps_g_lt_row c c' : vld c -> vld c' -> g c < g c' -> fst c <= fst c'.
  Proof.
    intros Hv Hv' Hlt. destruct (N.le_gt_cases (fst c) (fst c')) as [H|H]; [assumption|].
    pose proof (pps_g_row_lt c' c Hv' Hv H). lia.
  Qed.

  (** * 4. The tests and moves of [ProofPositions] on coordinates of the forest *)
  Lemma pps_maxPossible row : row <= h -> maxPossiblePosAtRow row h = 2 ^ (h + 1) - 2 ^ (h - row) - 1.
  Proof.
    intros Hr. unfold maxPossiblePosAtRow. cbv zeta. rewrite sub8_small by lia.
    rewrite shl_mask_land by lia.
    assert (H1 : 2 ^ (h - row) <= 2 ^ h) by (apply pow2_le; lia).
    pose proof (pow2_S h) as H2. pose proof (pow2_pos h) as H3.
    assert (H4 : 2 ^ (h + 1) <= W) by (rewrite W_eq; apply pow2_le; lia).
    apply sub64_small; lia.
  Qed.

  Lemma pps_t_max c : inf c -> (maxPossiblePosAtRow (fst c) h <? g c) = false.
  Proof.
    intros Hi. destruct (pps_inf_vld c Hi) as [H1 H2].
    rewrite pps_maxPossible by assumption. apply N.ltb_ge.
    pose proof (gpos_lt h (fst c) (snd c) H1 H2). unfold g. lia.
  Qed.

  Lemma pps_t_row c : inf c -> DetectRow (g c) h = fst c.
  Proof. intros Hi. destruct (pps_inf_vld c Hi) as [H1 H2]. apply DetectRow_gpos; assumption. Qed.

  Lemma pps_t_root c : inf c -> isRootPositionOnRowTotalRows (g c) n (fst c) h = isroot c.
  Proof.
    intros Hi. destruct (pps_inf_vld c Hi) as [H1 H2]. destruct c as [r o]. cbn [fst snd] in *.
    assert (Hi' : in_forest n r o = true) by exact Hi.
    pose proof (pps_in_forest_valid n (TreeRows n) r o (TreeRows_upper n) Hi') as [H3 H4].
    pose proof pps_n63 as Hn63.
    assert (E : isRootPositionOnRow (gpos (TreeRows n) r o) n r = isroot (r, o)).
    { apply Bool.eq_iff_eq_true. rewrite (isRootPositionOnRow_spec _ n r Hn63).
      unfold isroot, is_root_c. cbn [fst snd]. rewrite Bool.andb_true_iff, N.eqb_eq.
      unfold UtilsGeom.gpos. split; intros [Ha Hb]; (split; [assumption|lia]). }
    unfold isRootPositionOnRowTotalRows, g. cbn [fst snd].
    destruct (N.eqb_spec (TreeRows n) h) as [Eh|Eh].
    - rewrite <- Eh. exact E.
    - rewrite translatePos_gpos by (try assumption; apply TreeRows_le_63; exact Hn63). exact E.
  Qed.

  Lemma pps_t_par c : inf c -> isroot c = false -> Parent (g c) h = g (par c).
  Proof.
    intros Hi Hr. destruct (pps_inf_vld c Hi) as [H1 H2]. pose proof (pps_nonroot_row c Hi Hr).
    unfold g, par. cbn [fst snd]. apply Parent_gpos; assumption.
  Qed.

  Lemma pps_t_sib c : inf c -> sibling (g c) = g (sib c).
  Proof. intros Hi. destruct (pps_inf_vld c Hi) as [H1 H2]. apply sibling_gpos; assumption. Qed.

  Lemma pps_t_rsib c : inf c -> rightSib (g c) = g (rsib c).
  Proof. intros Hi. destruct (pps_inf_vld c Hi) as [H1 H2]. apply rightSib_gpos; assumption. Qed.

  Lemma pps_rsib_vld c : inf c -> isroot c = false -> vld (rsib c).
  Proof.
    intros Hi Hr. pose proof (pps_nonroot_row c Hi Hr) as Hrow.
    destruct (pps_inf_vld c Hi) as [H1 H2]. unfold vld, rsib. cbn [fst snd].
    split; [assumption|]. apply sib_offsets_lt; assumption.
  Qed.

  (** * 5. One row pass on coordinates *)
  Definition ceq (a b : crd) : bool := (fst a =? fst b) && (snd a =? snd b).
  Lemma pps_ceq_spec a b : ceq a b = true <-> a = b.
  Proof.
    destruct a as [r o], b as [r' o']. unfold ceq. cbn [fst snd].
    rewrite Bool.andb_true_iff, !N.eqb_eq. split; [intros [-> ->]; reflexivity|intros [= -> ->]; split; reflexivity].
  Qed.

  Fixpoint cPP_row (row : N) (cs : list crd) : list crd * list crd * list crd :=
    match cs with
    | [] => ([], [], [])
    | c :: rest =>
        if negb (row =? fst c) || isroot c then
          let '(a, b, d) := cPP_row row rest in (c :: a, b, d)
        else
          match rest with
          | c2 :: rest' =>
              if ceq (rsib c) c2 then
                let '(a, b, d) := cPP_row row rest' in (par c :: c2 :: a, b, par c :: d)
              else
                let '(a, b, d) := cPP_row row rest in (par c :: a, sib c :: b, par c :: d)
          | [] => ([par c], [sib c], [par c])
          end
    end.

  Definition map3 (r : list crd * list crd * list crd) : list N * list N * list N :=
    let '(a, b, d) := r in (map g a, map g b, map g d).

  Lemma pps_PP_row_refines row : forall fuel cs, (length cs < fuel)%nat -> Forall inf cs ->
    PP_row fuel row n h (map g cs) = map3 (cPP_row row cs).
  Proof.
    induction fuel as [|f IH]; intros cs Hf Hall; [lia|].
    destruct cs as [|c rest]; [reflexivity|].
    cbn [length] in Hf. inversion Hall as [|? ? Hc Hrest]; subst.
    cbn [map PP_row cPP_row].
    assert (IHrest : PP_row f row n h (map g rest) = map3 (cPP_row row rest)) by (apply IH; [lia|assumption]).
    rewrite (pps_t_row c Hc).
    destruct (N.eqb_spec row (fst c)) as [Er|Er]; cbn [negb orb].
    2:{ rewrite IHrest. destruct (cPP_row row rest) as [[a b] d]. cbn [map3 map].
        destruct (maxPossiblePosAtRow row h <? g c); reflexivity. }
    subst row. rewrite (pps_t_max c Hc), (pps_t_root c Hc).
    destruct (isroot c) eqn:Eroot.
    { rewrite IHrest. destruct (cPP_row (fst c) rest) as [[a b] d]. reflexivity. }
    rewrite (pps_t_par c Hc Eroot), (pps_t_sib c Hc), (pps_t_rsib c Hc).
    destruct rest as [|c2 rest']; [reflexivity|].
    cbn [map]. inversion Hrest as [|? ? Hc2 Hrest']; subst.
    assert (Eq : (g (rsib c) =? g c2) = ceq (rsib c) c2).
    { apply Bool.eq_iff_eq_true. rewrite N.eqb_eq, pps_ceq_spec. split; [|intros ->; reflexivity].
      apply pps_g_inj; [apply pps_rsib_vld; assumption|apply pps_inf_vld; assumption]. }
    rewrite Eq. destruct (ceq (rsib c) c2).
    - cbn [length] in Hf. rewrite IH by (try assumption; lia).
      destruct (cPP_row (fst c) rest') as [[a b] d]. reflexivity.
    - change (g c2 :: map g rest') with (map g (c2 :: rest')). rewrite IHrest.
      destruct (cPP_row (fst c) (c2 :: rest')) as [[a b] d]. reflexivity.
  Qed.
End Forest.
