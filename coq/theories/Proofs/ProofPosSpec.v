(** [ProofPositions] (mirror of utils.go) computes what the forest geometry says:
    for ascending, distinct, non-nested targets that exist in the forest it returns the siblings
    of targets-and-ancestors that are neither targets nor ancestors (ascending) and the proper
    ancestors (ascending).  Last clause of property C16; feeds C02.

    Route: (1) a coordinate model [cPP_row] of one row pass and its refinement by [PP_row] on
    [map g cs]; (2) set-level characterisation of one pass on a strictly ascending list;
    (3) an invariant over the rows for [PP_rows]; (4) the results are strictly ascending and
    have the same elements as the lists of [pp_expect], hence equal to their [sortN]. *)
From Utreexo Require Import Model.Utils Proofs.UtilsGeom Proofs.UtilsGeom2 Spec.Geometry.
From Coq Require Import Lia ZifyN ZifyNat ZifyBool List Sorted Permutation PeanoNat.
Import ListNotations.
Open Scope N_scope.

(** * 0. The two copies of the geometry definitions coincide *)
Lemma gstart_bridge : Geometry.gstart = UtilsGeom.gstart. Proof. reflexivity. Qed.
Lemma gpos_bridge : Geometry.gpos = UtilsGeom.gpos. Proof. reflexivity. Qed.
Lemma tree_rows_TreeRows n : tree_rows n = TreeRows n. Proof. reflexivity. Qed.

Local Notation gpos := UtilsGeom.gpos.
Local Notation gstart := UtilsGeom.gstart.

(** * 1. Sorting: [sortN] yields an ascending permutation *)
Local Notation SSlt := (StronglySorted N.lt).
Local Notation SSle := (StronglySorted N.le).

Lemma pps_insertN_perm x l : Permutation (insertN x l) (x :: l).
Proof.
  induction l as [|y t IH]; cbn [insertN]; [apply Permutation_refl|].
  destruct (x <=? y); [apply Permutation_refl|].
  eapply perm_trans; [apply perm_skip, IH|apply perm_swap].
Qed.

Lemma pps_sortN_perm l : Permutation (sortN l) l.
Proof.
  unfold sortN. induction l as [|x t IH]; cbn [fold_right]; [apply perm_nil|].
  eapply perm_trans; [apply pps_insertN_perm|apply perm_skip, IH].
Qed.

Lemma pps_insertN_sorted x l : SSle l -> SSle (insertN x l).
Proof.
  induction l as [|y t IH]; intros Hs; cbn [insertN].
  - constructor; constructor.
  - apply StronglySorted_inv in Hs. destruct Hs as [Hs Hy].
    destruct (N.leb_spec x y) as [Hxy|Hxy].
    + constructor; [constructor; assumption|].
      constructor; [assumption|].
      eapply Forall_impl; [|exact Hy]. intros a Ha. cbv beta in Ha. lia.
    + constructor; [apply IH; assumption|].
      rewrite Forall_forall. intros a Ha.
      apply (Permutation_in _ (pps_insertN_perm x t)) in Ha. destruct Ha as [<-|Ha]; [lia|].
      rewrite Forall_forall in Hy. apply Hy; assumption.
Qed.

Lemma pps_sortN_sorted l : SSle (sortN l).
Proof.
  unfold sortN. induction l as [|x t IH]; cbn [fold_right]; [constructor|].
  apply pps_insertN_sorted; assumption.
Qed.

Lemma pps_SSle_NoDup_SSlt l : SSle l -> NoDup l -> SSlt l.
Proof.
  induction l as [|x t IH]; intros Hs Hn; [constructor|].
  apply StronglySorted_inv in Hs. destruct Hs as [Hs Hx].
  inversion Hn as [|? ? Hnx Hnt]; subst.
  constructor; [apply IH; assumption|].
  rewrite Forall_forall in *. intros a Ha. specialize (Hx a Ha).
  assert (a <> x) by (intros ->; contradiction). lia.
Qed.

Lemma pps_SSlt_NoDup l : SSlt l -> NoDup l.
Proof.
  induction l as [|x t IH]; intros Hs; [constructor|].
  apply StronglySorted_inv in Hs. destruct Hs as [Hs Hx].
  constructor; [|apply IH; assumption].
  intros Hin. rewrite Forall_forall in Hx. specialize (Hx x Hin). lia.
Qed.

Lemma pps_sortN_NoDup_SSlt l : NoDup l -> SSlt (sortN l).
Proof.
  intros Hn. apply pps_SSle_NoDup_SSlt; [apply pps_sortN_sorted|].
  eapply Permutation_NoDup; [apply Permutation_sym, pps_sortN_perm|assumption].
Qed.

(** two strictly ascending lists with the same elements are equal *)
Lemma pps_SSlt_ext l1 : forall l2, SSlt l1 -> SSlt l2 -> (forall x, In x l1 <-> In x l2) -> l1 = l2.
Proof.
  induction l1 as [|x t IH]; intros l2 H1 H2 E.
  - destruct l2 as [|y u]; [reflexivity|]. exfalso. apply (E y). left; reflexivity.
  - destruct l2 as [|y u]; [exfalso; apply (E x); left; reflexivity|].
    apply StronglySorted_inv in H1. destruct H1 as [H1 Hx].
    apply StronglySorted_inv in H2. destruct H2 as [H2 Hy].
    rewrite Forall_forall in Hx, Hy.
    assert (Exy : x = y).
    { destruct (proj1 (E x) (or_introl eq_refl)) as [->|Hxu]; [reflexivity|].
      destruct (proj2 (E y) (or_introl eq_refl)) as [->|Hyt]; [reflexivity|].
      specialize (Hx y Hyt). specialize (Hy x Hxu). lia. }
    subst y. f_equal. apply IH; try assumption.
    intros a. split; intros Ha.
    + destruct (proj1 (E a) (or_intror Ha)) as [<-|H]; [|assumption].
      specialize (Hx x Ha). lia.
    + destruct (proj2 (E a) (or_intror Ha)) as [<-|H]; [|assumption].
      specialize (Hy x Ha). lia.
Qed.

Lemma pps_sortN_unique l s : SSlt s -> NoDup l -> (forall x, In x s <-> In x l) -> sortN l = s.
Proof.
  intros Hs Hn E. apply pps_SSlt_ext; [apply pps_sortN_NoDup_SSlt; assumption|assumption|].
  intros x. rewrite E. split; intros H.
  - eapply Permutation_in; [apply pps_sortN_perm|exact H].
  - eapply Permutation_in; [apply Permutation_sym, pps_sortN_perm|exact H].
Qed.

Lemma pps_SSlt_app l1 l2 : SSlt l1 -> SSlt l2 -> (forall x y, In x l1 -> In y l2 -> x < y) ->
  SSlt (l1 ++ l2).
Proof.
  induction l1 as [|x t IH]; intros H1 H2 H; [exact H2|].
  apply StronglySorted_inv in H1. destruct H1 as [H1 Hx]. cbn [app].
  constructor.
  - apply IH; [assumption|assumption|]. intros a b Ha Hb. apply H; [right; assumption|assumption].
  - rewrite Forall_forall in *. intros a Ha. apply in_app_or in Ha. destruct Ha as [Ha|Ha].
    + apply Hx; assumption.
    + apply H; [left; reflexivity|assumption].
Qed.

(** * 2. Arithmetic on offsets: sibling, right sibling, parent *)
Lemma pps_lxor_invol o : N.lxor (N.lxor o 1) 1 = o.
Proof. rewrite N.lxor_assoc. change (N.lxor 1 1) with 0. apply N.lxor_0_r. Qed.

Lemma pps_even_cases o : (N.even o = true /\ exists k, o = 2 * k) \/ (N.even o = false /\ exists k, o = 2 * k + 1).
Proof.
  destruct (N.even o) eqn:E.
  - left. split; [reflexivity|]. apply N.even_spec in E. exact E.
  - right. split; [reflexivity|].
    assert (Ho : N.odd o = true) by (rewrite <- N.negb_even, E; reflexivity).
    apply N.odd_spec in Ho. exact Ho.
Qed.

Lemma pps_div2_double k : 2 * k / 2 = k.
Proof. rewrite N.mul_comm. apply N.div_mul. lia. Qed.
Lemma pps_div2_double1 k : (2 * k + 1) / 2 = k.
Proof. rewrite N.mul_comm, N.add_comm, N.div_add by lia. reflexivity. Qed.

(** all case facts about [lxor o 1], [lor o 1], [o / 2] at once *)
Lemma pps_bit0 o : exists k, (o = 2 * k /\ N.lxor o 1 = 2 * k + 1 /\ N.lor o 1 = 2 * k + 1 /\ o / 2 = k) \/
                             (o = 2 * k + 1 /\ N.lxor o 1 = 2 * k /\ N.lor o 1 = 2 * k + 1 /\ o / 2 = k).
Proof.
  rewrite lxor_1, lor_1.
  destruct (pps_even_cases o) as [[E [k ->]]|[E [k ->]]]; rewrite E; exists k.
  - left. rewrite pps_div2_double. repeat split; lia.
  - right. rewrite pps_div2_double1. repeat split; lia.
Qed.

(** * 3. Forest geometry on coordinates *)
Definition crd := (N * N)%type.
Definition par (c : crd) : crd := (fst c + 1, snd c / 2).
Definition sib (c : crd) : crd := (fst c, N.lxor (snd c) 1).
Definition rsib (c : crd) : crd := (fst c, N.lor (snd c) 1).

Lemma pps_sib_invol c : sib (sib c) = c.
Proof. destruct c as [r o]. unfold sib. cbn [fst snd]. rewrite pps_lxor_invol. reflexivity. Qed.
Lemma pps_par_sib c : par (sib c) = par c.
Proof.
  destruct c as [r o]. unfold sib, par. cbn [fst snd]. f_equal.
  destruct (pps_bit0 o) as [k [(E1 & E2 & E3 & E4)|(E1 & E2 & E3 & E4)]]; rewrite E2, E4.
  - apply pps_div2_double1.
  - apply pps_div2_double.
Qed.

Lemma pps_in_forest_iff n r o : in_forest n r o = true <-> o + 1 <= n / 2 ^ r.
Proof.
  unfold in_forest. rewrite N.leb_le. pose proof (pow2_nz r) as Hnz. split; intros H.
  - apply N.div_le_lower_bound; [assumption|lia].
  - pose proof (N.mul_div_le n (2 ^ r) Hnz). nia.
Qed.

Lemma pps_div_pow2_S n r : n / 2 ^ (r + 1) = n / 2 ^ r / 2.
Proof. rewrite N.div_div by (try apply pow2_nz; lia). rewrite pow2_S. f_equal. lia. Qed.

Lemma pps_is_root_iff n r o :
  is_root_c n (r, o) = true <-> (N.odd (n / 2 ^ r) = true /\ o = 2 * (n / 2 ^ r / 2)).
Proof.
  unfold is_root_c. cbn [fst snd]. rewrite Bool.andb_true_iff, N.eqb_eq, N.testbit_odd,
    N.shiftr_div_pow2, pps_div_pow2_S. reflexivity.
Qed.

(** a non-root node of the forest has its parent in the forest *)
Lemma pps_parent_in_forest n r o :
  in_forest n r o = true -> is_root_c n (r, o) = false -> in_forest n (r + 1) (o / 2) = true.
Proof.
  intros Hin Hroot. rewrite pps_in_forest_iff in *. rewrite pps_div_pow2_S.
  assert (Hnr : ~ (N.odd (n / 2 ^ r) = true /\ o = 2 * (n / 2 ^ r / 2))).
  { rewrite <- pps_is_root_iff, Hroot. discriminate. }
  set (m := n / 2 ^ r) in *.
  destruct (pps_bit0 o) as [k [(E1 & _ & _ & E4)|(E1 & _ & _ & E4)]]; rewrite E4.
  - destruct (pps_bit0 m) as [a [(F1 & _ & _ & F4)|(F1 & _ & _ & F4)]]; rewrite F4 in *.
    + lia.
    + destruct (N.eq_dec k a) as [->|Hne]; [|lia].
      exfalso. apply Hnr. split; [|lia]. apply N.odd_spec. exists a. exact F1.
  - destruct (pps_bit0 m) as [a [(F1 & _ & _ & F4)|(F1 & _ & _ & F4)]]; rewrite F4 in *; lia.
Qed.

(** the sibling of a root is outside the forest *)
Lemma pps_root_sib_out n r o :
  is_root_c n (r, o) = true -> in_forest n r (N.lxor o 1) = true -> False.
Proof.
  intros Hroot Hin. rewrite pps_in_forest_iff in Hin. apply pps_is_root_iff in Hroot.
  destruct Hroot as [Hodd ->]. set (m := n / 2 ^ r) in *.
  apply N.odd_spec in Hodd. destruct Hodd as [a Ha].
  rewrite Ha, pps_div2_double1 in Hin.
  destruct (pps_bit0 (2 * a)) as [k [(E1 & E2 & _)|(E1 & E2 & _)]]; rewrite E2 in Hin; lia.
Qed.

Lemma pps_in_forest_valid n h r o : n <= 2 ^ h -> in_forest n r o = true -> r <= h /\ o < 2 ^ (h - r).
Proof.
  unfold in_forest. rewrite N.leb_le. intros Hn H.
  pose proof (pow2_pos r) as Hp.
  assert (Hr : r <= h).
  { destruct (N.le_gt_cases r h) as [Hle|Hgt]; [assumption|exfalso].
    pose proof (pow2_lt h r Hgt). nia. }
  split; [assumption|].
  rewrite (pow2_sub_split h r Hr) in Hn.
  assert (Hlt : (o + 1) * 2 ^ r <= 2 ^ (h - r) * 2 ^ r) by lia.
  apply N.mul_le_mono_pos_r in Hlt; [lia|assumption].
Qed.

Section Forest.
  Variables n h : N.
  Hypothesis Hh : h <= 63.
  Hypothesis Hn : n <= 2 ^ h.

  Definition g (c : crd) : N := gpos h (fst c) (snd c).
  Definition inf (c : crd) : Prop := in_forest n (fst c) (snd c) = true.
  Definition vld (c : crd) : Prop := fst c <= h /\ snd c < 2 ^ (h - fst c).
  Definition isroot (c : crd) : bool := is_root_c n c.

  Lemma pps_n63 : n <= 2 ^ 63.
  Proof. pose proof (pow2_le h 63 Hh). lia. Qed.

  (** coordinates in the forest are coordinates of the height-[h] geometry *)
  Lemma pps_inf_vld c : inf c -> vld c.
  Proof. destruct c as [r o]. unfold inf, vld. cbn [fst snd]. apply pps_in_forest_valid; assumption. Qed.

  Lemma pps_par_inf c : inf c -> isroot c = false -> inf (par c).
  Proof. destruct c as [r o]. unfold inf, isroot, par. cbn [fst snd]. apply pps_parent_in_forest. Qed.

  Lemma pps_nonroot_row c : inf c -> isroot c = false -> fst c < h.
  Proof.
    intros Hi Hr. pose proof (pps_inf_vld _ (pps_par_inf c Hi Hr)) as [H _].
    unfold par in H. cbn [fst] in H. lia.
  Qed.

  Lemma pps_sib_vld c : inf c -> isroot c = false -> vld (sib c).
  Proof.
    intros Hi Hr. pose proof (pps_nonroot_row c Hi Hr) as Hrow.
    destruct (pps_inf_vld c Hi) as [H1 H2]. unfold vld, sib. cbn [fst snd].
    split; [assumption|]. apply sib_offsets_lt; assumption.
  Qed.

  Lemma pps_root_sib c : inf c -> isroot c = true -> inf (sib c) -> False.
  Proof. destruct c as [r o]. unfold inf, isroot, sib. cbn [fst snd]. intros _. apply pps_root_sib_out. Qed.

  (** [g] is injective on valid coordinates and orders them row-major *)
  Lemma pps_g_inj c c' : vld c -> vld c' -> g c = g c' -> c = c'.
  Proof.
    destruct c as [r o], c' as [r' o']. unfold vld, g. cbn [fst snd]. intros [H1 H2] [H3 H4] E.
    destruct (gpos_inj h r o r' o' H1 H2 H3 H4 E) as [-> ->]. reflexivity.
  Qed.

  Lemma pps_g_row_lt c c' : vld c -> vld c' -> fst c < fst c' -> g c < g c'.
  Proof.
    destruct c as [r o], c' as [r' o']. unfold vld, g. cbn [fst snd]. intros [H1 H2] [H3 H4] Hlt.
    apply gpos_row_mono; assumption.
  Qed.

  Lemma pps_g_same_row c c' : fst c = fst c' -> (g c < g c' <-> snd c < snd c').
  Proof.
    destruct c as [r o], c' as [r' o']. unfold g, UtilsGeom.gpos. cbn [fst snd]. intros ->. lia.
  Qed.

  Lemma pps_g_lt_row c c' : vld c -> vld c' -> g c < g c' -> fst c <= fst c'.
  Proof.
    intros Hv Hv' Hlt. destruct (N.le_gt_cases (fst c) (fst c')) as [H|H]; [assumption|].
    pose proof (pps_g_row_lt c' c Hv' Hv H). lia.
  Qed.

  (** * 4. The tests and moves of [ProofPositions] on coordinates of the forest *)
  Lemma pps_maxPossible row : row <= h -> maxPossiblePosAtRow row h = 2 ^ (h + 1) - 2 ^ (h - row) - 1.
  Proof.
    intros Hr. unfold maxPossiblePosAtRow. cbv zeta. rewrite sub8_small by lia.
    rewrite shl_mask_land by lia.
    assert (H1 : 2 ^ (h - row) <= 2 ^ h) by (apply pow2_le; lia).
    pose proof (pow2_S h) as H2. pose proof (pow2_pos h) as H3.
    assert (H4 : 2 ^ (h + 1) <= W) by (rewrite W_eq; apply pow2_le; lia).
    apply sub64_small; lia.
  Qed.

  Lemma pps_t_max c : inf c -> (maxPossiblePosAtRow (fst c) h <? g c) = false.
  Proof.
    intros Hi. destruct (pps_inf_vld c Hi) as [H1 H2].
    rewrite pps_maxPossible by assumption. apply N.ltb_ge.
    pose proof (gpos_lt h (fst c) (snd c) H1 H2). unfold g. lia.
  Qed.

  Lemma pps_t_row c : inf c -> DetectRow (g c) h = fst c.
  Proof. intros Hi. destruct (pps_inf_vld c Hi) as [H1 H2]. apply DetectRow_gpos; assumption. Qed.

  Lemma pps_t_root c : inf c -> isRootPositionOnRowTotalRows (g c) n (fst c) h = isroot c.
  Proof.
    intros Hi. destruct (pps_inf_vld c Hi) as [H1 H2]. destruct c as [r o]. cbn [fst snd] in *.
    assert (Hi' : in_forest n r o = true) by exact Hi.
    pose proof (pps_in_forest_valid n (TreeRows n) r o (TreeRows_upper n) Hi') as [H3 H4].
    pose proof pps_n63 as Hn63.
    assert (E : isRootPositionOnRow (gpos (TreeRows n) r o) n r = isroot (r, o)).
    { apply Bool.eq_iff_eq_true. rewrite (isRootPositionOnRow_spec _ n r Hn63).
      unfold isroot, is_root_c. cbn [fst snd]. rewrite Bool.andb_true_iff, N.eqb_eq.
      unfold UtilsGeom.gpos. split; intros [Ha Hb]; (split; [assumption|lia]). }
    unfold isRootPositionOnRowTotalRows, g. cbn [fst snd].
    destruct (N.eqb_spec (TreeRows n) h) as [Eh|Eh].
    - rewrite <- Eh. exact E.
    - rewrite translatePos_gpos by (try assumption; apply TreeRows_le_63; exact Hn63). exact E.
  Qed.

  Lemma pps_t_par c : inf c -> isroot c = false -> Parent (g c) h = g (par c).
  Proof.
    intros Hi Hr. destruct (pps_inf_vld c Hi) as [H1 H2]. pose proof (pps_nonroot_row c Hi Hr).
    unfold g, par. cbn [fst snd]. apply Parent_gpos; assumption.
  Qed.

  Lemma pps_t_sib c : inf c -> sibling (g c) = g (sib c).
  Proof. intros Hi. destruct (pps_inf_vld c Hi) as [H1 H2]. apply sibling_gpos; assumption. Qed.

  Lemma pps_t_rsib c : inf c -> rightSib (g c) = g (rsib c).
  Proof. intros Hi. destruct (pps_inf_vld c Hi) as [H1 H2]. apply rightSib_gpos; assumption. Qed.

  Lemma pps_rsib_vld c : inf c -> isroot c = false -> vld (rsib c).
  Proof.
    intros Hi Hr. pose proof (pps_nonroot_row c Hi Hr) as Hrow.
    destruct (pps_inf_vld c Hi) as [H1 H2]. unfold vld, rsib. cbn [fst snd].
    split; [assumption|]. apply sib_offsets_lt; assumption.
  Qed.

  (** * 5. One row pass on coordinates *)
  Definition ceq (a b : crd) : bool := (fst a =? fst b) && (snd a =? snd b).
  Lemma pps_ceq_spec a b : ceq a b = true <-> a = b.
  Proof.
    destruct a as [r o], b as [r' o']. unfold ceq. cbn [fst snd].
    rewrite Bool.andb_true_iff, !N.eqb_eq. split; [intros [-> ->]; reflexivity|intros [= -> ->]; split; reflexivity].
  Qed.

  Fixpoint cPP_row (row : N) (cs : list crd) : list crd * list crd * list crd :=
    match cs with
    | [] => ([], [], [])
    | c :: rest =>
        if negb (row =? fst c) || isroot c then
          let '(a, b, d) := cPP_row row rest in (c :: a, b, d)
        else
          match rest with
          | c2 :: rest' =>
              if ceq (rsib c) c2 then
                let '(a, b, d) := cPP_row row rest' in (par c :: c2 :: a, b, par c :: d)
              else
                let '(a, b, d) := cPP_row row rest in (par c :: a, sib c :: b, par c :: d)
          | [] => ([par c], [sib c], [par c])
          end
    end.

  Definition map3 (r : list crd * list crd * list crd) : list N * list N * list N :=
    let '(a, b, d) := r in (map g a, map g b, map g d).

  Lemma pps_PP_row_refines row : forall fuel cs, (length cs < fuel)%nat -> Forall inf cs ->
    PP_row fuel row n h (map g cs) = map3 (cPP_row row cs).
  Proof.
    induction fuel as [|f IH]; intros cs Hf Hall; [lia|].
    destruct cs as [|c rest]; [reflexivity|].
    cbn [length] in Hf. inversion Hall as [|? ? Hc Hrest]; subst.
    cbn [map PP_row cPP_row].
    assert (IHrest : PP_row f row n h (map g rest) = map3 (cPP_row row rest)) by (apply IH; [lia|assumption]).
    rewrite (pps_t_row c Hc).
    destruct (N.eqb_spec row (fst c)) as [Er|Er]; cbn [negb orb].
    2:{ rewrite IHrest. destruct (cPP_row row rest) as [[a b] d]. cbn [map3 map].
        destruct (maxPossiblePosAtRow row h <? g c); reflexivity. }
    subst row. rewrite (pps_t_max c Hc), (pps_t_root c Hc).
    destruct (isroot c) eqn:Eroot.
    { rewrite IHrest. destruct (cPP_row (fst c) rest) as [[a b] d]. reflexivity. }
    rewrite (pps_t_par c Hc Eroot), (pps_t_sib c Hc), (pps_t_rsib c Hc).
    destruct rest as [|c2 rest']; [reflexivity|].
    cbn [map]. inversion Hrest as [|? ? Hc2 Hrest']; subst.
    assert (Eq : (g (rsib c) =? g c2) = ceq (rsib c) c2).
    { apply Bool.eq_iff_eq_true. rewrite N.eqb_eq, pps_ceq_spec. split; [|intros ->; reflexivity].
      apply pps_g_inj; [apply pps_rsib_vld; assumption|apply pps_inf_vld; assumption]. }
    rewrite Eq. destruct (ceq (rsib c) c2).
    - cbn [length] in Hf. rewrite IH by (try assumption; lia).
      destruct (cPP_row (fst c) rest') as [[a b] d]. reflexivity.
    - change (g c2 :: map g rest') with (map g (c2 :: rest')). rewrite IHrest.
      destruct (cPP_row (fst c) (c2 :: rest')) as [[a b] d]. reflexivity.
  Qed.

  (** functional induction for [cPP_row] *)
  Definition proc (row : N) (c : crd) : Prop := fst c = row /\ isroot c = false.
  Definition skp (row : N) (c : crd) : Prop := fst c <> row \/ isroot c = true.
  Definition unpaired (c : crd) (rest : list crd) : Prop :=
    match rest with c2 :: _ => c2 <> rsib c | [] => True end.

  Lemma pps_cPP_row_ind row (P : list crd -> list crd * list crd * list crd -> Prop) :
    P [] ([], [], []) ->
    (forall c rest a b d, skp row c -> cPP_row row rest = (a, b, d) -> P rest (a, b, d) ->
       P (c :: rest) (c :: a, b, d)) ->
    (forall c rest' a b d, proc row c -> cPP_row row rest' = (a, b, d) -> P rest' (a, b, d) ->
       P (c :: rsib c :: rest') (par c :: rsib c :: a, b, par c :: d)) ->
    (forall c rest a b d, proc row c -> unpaired c rest -> cPP_row row rest = (a, b, d) -> P rest (a, b, d) ->
       P (c :: rest) (par c :: a, sib c :: b, par c :: d)) ->
    forall cs, P cs (cPP_row row cs).
  Proof.
    intros Hnil Hskip Hpair Hunp.
    assert (Hk : forall k cs, (length cs <= k)%nat -> P cs (cPP_row row cs)).
    { induction k as [|k IH]; intros cs Hlen.
      - destruct cs; [exact Hnil|cbn [length] in Hlen; lia].
      - destruct cs as [|c rest]; [exact Hnil|]. cbn [length] in Hlen.
        assert (IHrest : P rest (cPP_row row rest)) by (apply IH; lia).
        cbn [cPP_row].
        destruct (N.eqb_spec row (fst c)) as [Er|Er]; cbn [negb orb].
        2:{ destruct (cPP_row row rest) as [[a b] d] eqn:E. apply Hskip; [left; congruence|exact E|assumption]. }
        destruct (isroot c) eqn:Eroot.
        { destruct (cPP_row row rest) as [[a b] d] eqn:E. apply Hskip; [right; assumption|exact E|assumption]. }
        assert (Hproc : proc row c) by (split; [congruence|assumption]).
        destruct rest as [|c2 rest'].
        { apply (Hunp c [] [] [] []); [assumption|exact I|reflexivity|exact Hnil]. }
        destruct (ceq (rsib c) c2) eqn:Eq.
        + apply pps_ceq_spec in Eq. subst c2. cbn [length] in Hlen.
          assert (IHrest' : P rest' (cPP_row row rest')) by (apply IH; lia).
          destruct (cPP_row row rest') as [[a b] d] eqn:E. apply Hpair; [assumption|exact E|assumption].
        + destruct (cPP_row row (c2 :: rest')) as [[a b] d] eqn:E.
          apply Hunp; [assumption| |exact E|assumption].
          cbn [unpaired]. intros ->. rewrite (proj2 (pps_ceq_spec _ _) eq_refl) in Eq. discriminate. }
    intros cs. apply (Hk (length cs)). lia.
  Qed.

  (** offset arithmetic for the pairing logic *)
  Lemma pps_ar_sib_mono o o' : o < o' -> o' <> N.lxor o 1 -> N.lxor o 1 < N.lxor o' 1.
  Proof.
    intros Hlt Hne.
    destruct (pps_bit0 o) as [k [(E1 & E2 & _)|(E1 & E2 & _)]];
    destruct (pps_bit0 o') as [k' [(F1 & F2 & _)|(F1 & F2 & _)]]; lia.
  Qed.
  Lemma pps_ar_par_mono o o' : o < o' -> o' <> N.lxor o 1 -> o / 2 < o' / 2.
  Proof.
    intros Hlt Hne.
    destruct (pps_bit0 o) as [k [(E1 & E2 & _ & E4)|(E1 & E2 & _ & E4)]];
    destruct (pps_bit0 o') as [k' [(F1 & F2 & _ & F4)|(F1 & F2 & _ & F4)]]; lia.
  Qed.
  Lemma pps_ar_par_inj o o' : o / 2 = o' / 2 -> o' = o \/ o' = N.lxor o 1.
  Proof.
    intros E.
    destruct (pps_bit0 o) as [k [(E1 & E2 & _ & E4)|(E1 & E2 & _ & E4)]];
    destruct (pps_bit0 o') as [k' [(F1 & F2 & _ & F4)|(F1 & F2 & _ & F4)]]; lia.
  Qed.
  Lemma pps_ar_rsib o : o < N.lor o 1 -> N.lor o 1 = N.lxor o 1 /\ N.lxor o 1 = o + 1.
  Proof. intros H. destruct (pps_bit0 o) as [k [(E1 & E2 & E3 & _)|(E1 & E2 & E3 & _)]]; lia. Qed.
  Lemma pps_ar_sib_cases o : N.lxor o 1 = o + 1 \/ (N.lxor o 1 + 1 = o /\ N.lor o 1 = o).
  Proof. destruct (pps_bit0 o) as [k [(E1 & E2 & E3 & _)|(E1 & E2 & E3 & _)]]; lia. Qed.

  Lemma pps_sib_eq_inv c c' : sib c' = c -> c' = sib c.
  Proof. intros <-. symmetry. apply pps_sib_invol. Qed.
  Lemma pps_sib_neq c : sib c <> c.
  Proof.
    destruct c as [r o]. unfold sib. cbn [fst snd]. intros [= E].
    destruct (pps_ar_sib_cases o); lia.
  Qed.

  (** * 6. One pass on a strictly ascending list of forest coordinates *)
  Definition clt (c c' : crd) : Prop := g c < g c'.
  Definition passH (row : N) (cs : list crd) : Prop :=
    StronglySorted clt cs /\ Forall inf cs /\
    (forall c, In c cs -> fst c = row -> isroot c = false -> ~ In (par c) cs).

  Lemma pps_passH_tail row c rest : passH row (c :: rest) ->
    passH row rest /\ inf c /\ (forall c', In c' rest -> g c < g c').
  Proof.
    intros (Hs & Hi & Hp). apply StronglySorted_inv in Hs. destruct Hs as [Hs Hc].
    inversion Hi as [|? ? Hic Hir]; subst. rewrite Forall_forall in Hc.
    split; [|split; [assumption|exact Hc]].
    split; [assumption|split; [assumption|]].
    intros c' Hin Hrow Hroot Hpar. apply (Hp c'); [right; assumption|assumption|assumption|right; assumption].
  Qed.

  (** in the paired case the first one is a left sibling *)
  Lemma pps_paired_left c : g c < g (rsib c) -> rsib c = sib c /\ g (sib c) = g c + 1.
  Proof.
    destruct c as [r o]. unfold g, rsib, sib, UtilsGeom.gpos. cbn [fst snd]. intros H.
    assert (Ho : o < N.lor o 1) by lia. destruct (pps_ar_rsib o Ho) as [E1 E2].
    rewrite E1. split; [reflexivity|lia].
  Qed.

  (** in the unpaired case the sibling is not in the list *)
  Lemma pps_unpaired_nosib row c rest : passH row (c :: rest) -> unpaired c rest ->
    ~ In (sib c) (c :: rest).
  Proof.
    intros HH Hu. destruct (pps_passH_tail _ _ _ HH) as (HHr & Hic & Hlt).
    intros [E|Hin]; [symmetry in E; exact (pps_sib_neq c E)|].
    pose proof (Hlt _ Hin) as H1.
    assert (Hleft : N.lxor (snd c) 1 = snd c + 1 /\ rsib c = sib c).
    { destruct c as [r o]. unfold g, sib, rsib, UtilsGeom.gpos in *. cbn [fst snd] in *.
      destruct (pps_bit0 o) as [k [(E1 & E2 & E3 & _)|(E1 & E2 & E3 & _)]]; [|lia].
      rewrite E2, E3. split; [lia|reflexivity]. }
    destruct Hleft as [E1 E2].
    destruct rest as [|c2 rest']; [contradiction|]. cbn [unpaired] in Hu.
    destruct Hin as [E|Hin]; [apply Hu; rewrite E2; exact E|].
    destruct (pps_passH_tail _ _ _ HHr) as (_ & _ & Hlt2).
    pose proof (Hlt2 _ Hin) as H2. pose proof (Hlt c2 (or_introl eq_refl)) as H3.
    destruct c as [r o]. unfold g, sib, UtilsGeom.gpos in *. cbn [fst snd] in *. lia.
  Qed.

  Definition passIn (row : N) (cs : list crd) (res : list crd * list crd * list crd) : Prop :=
    let '(a, b, d) := res in
    (forall x, In x a -> In x cs \/ exists c, In c cs /\ proc row c /\ x = par c) /\
    (forall x, In x cs -> fst x <> row -> In x a) /\
    (forall x, In x d -> In x a) /\
    (forall x, In x b <-> exists c, In c cs /\ proc row c /\ ~ In (sib c) cs /\ x = sib c) /\
    (forall x, In x d <-> exists c, In c cs /\ proc row c /\ x = par c).

  Lemma pps_skp_proc row c : skp row c -> fst c = row -> isroot c = false -> False.
  Proof. intros [H|H] H1 H2; [contradiction|congruence]. Qed.

  Lemma pps_pass_in row cs : passH row cs -> passIn row cs (cPP_row row cs).
  Proof.
    apply (pps_cPP_row_ind row (fun cs res => passH row cs -> passIn row cs res)).
    - (* nil *)
      intros _. unfold passIn. repeat split; try (intros x []); try (intros [c [[] _]]); try (intros []).
    - (* skip *)
      intros c rest a b d Hskp _ IH HH.
      destruct (pps_passH_tail _ _ _ HH) as (HHr & Hic & Hlt).
      destruct (IH HHr) as (A1 & A2 & A4 & B1 & D1). destruct HH as (_ & Hall & _).
      unfold passIn. repeat split.
      + intros x [<-|Hx]; [left; left; reflexivity|].
        destruct (A1 x Hx) as [H|[c' (H1 & [H2 H2'] & H3)]]; [left; right; assumption|].
        right. exists c'. repeat split; try assumption. right; assumption.
      + intros x [<-|Hx] Hrow; [left; reflexivity|right; apply A2; assumption].
      + intros x Hx. right. apply A4; assumption.
      + intros Hx. apply B1 in Hx. destruct Hx as [c' (H1 & [H2 H2'] & H3 & H4)].
        exists c'. repeat split; try assumption; [right; assumption|].
        intros [E|Hin]; [|contradiction].
        destruct Hskp as [Hrow|Hroot].
        * apply Hrow. rewrite E. exact H2.
        * symmetry in E. apply pps_sib_eq_inv in E.
          rewrite Forall_forall in Hall. pose proof (Hall c' (or_intror H1)) as Hic'.
          rewrite E in Hic'. exact (pps_root_sib c Hic Hroot Hic').
      + intros [c' (H1 & [H2 H2'] & H3 & H4)]. apply B1.
        destruct H1 as [<-|H1]; [exfalso; exact (pps_skp_proc _ _ Hskp H2 H2')|].
        exists c'. repeat split; try assumption. intros Hin. apply H3. right; assumption.
      + intros Hx. apply D1 in Hx. destruct Hx as [c' (H1 & [H2 H2'] & H3)].
        exists c'. repeat split; try assumption. right; assumption.
      + intros [c' (H1 & [H2 H2'] & H3)]. apply D1.
        destruct H1 as [<-|H1]; [exfalso; exact (pps_skp_proc _ _ Hskp H2 H2')|].
        exists c'. repeat split; assumption.
    - (* paired *)
      intros c rest' a b d [Hp Hp'] _ IH HH.
      destruct (pps_passH_tail _ _ _ HH) as (HHr & Hic & Hlt).
      destruct (pps_passH_tail _ _ _ HHr) as (HHr' & Hic2 & Hlt2).
      destruct (IH HHr') as (A1 & A2 & A4 & B1 & D1).
      pose proof (Hlt _ (or_introl eq_refl)) as Hc2.
      destruct (pps_paired_left c Hc2) as [Ers Eg].
      unfold passIn. repeat split.
      + intros x [<-|[<-|Hx]].
        * right. exists c. repeat split; try assumption. left; reflexivity.
        * left. right. left. reflexivity.
        * destruct (A1 x Hx) as [H|[c' (H1 & [H2 H2'] & H3)]]; [left; right; right; assumption|].
          right. exists c'. repeat split; try assumption. right; right; assumption.
      + intros x [<-|[<-|Hx]] Hrow.
        * exfalso. apply Hrow. exact Hp.
        * right. left. reflexivity.
        * right. right. apply A2; assumption.
      + intros x [<-|Hx]; [left; reflexivity|right; right; apply A4; assumption].
      + intros Hx. apply B1 in Hx. destruct Hx as [c' (H1 & [H2 H2'] & H3 & H4)].
        exists c'. repeat split; try assumption; [right; right; assumption|].
        pose proof (Hlt2 _ H1) as Hg2. pose proof (Hlt _ (or_intror H1)) as Hg1.
        intros [E|[E|Hin]]; [| |contradiction].
        * symmetry in E. apply pps_sib_eq_inv in E. rewrite <- Ers in E. subst c'. lia.
        * symmetry in E. apply pps_sib_eq_inv in E. rewrite Ers, pps_sib_invol in E. subst c'. lia.
      + intros [c' (H1 & [H2 H2'] & H3 & H4)]. apply B1.
        destruct H1 as [<-|[<-|H1]].
        * exfalso. apply H3. right. left. exact Ers.
        * exfalso. apply H3. left. rewrite Ers, pps_sib_invol. reflexivity.
        * exists c'. repeat split; try assumption.
          intros Hin. apply H3. right; right; assumption.
      + intros [<-|Hx].
        * exists c. repeat split; try assumption. left; reflexivity.
        * apply D1 in Hx. destruct Hx as [c' (H1 & [H2 H2'] & H3)].
          exists c'. repeat split; try assumption. right; right; assumption.
      + intros [c' (H1 & [H2 H2'] & H3)].
        destruct H1 as [<-|[<-|H1]].
        * left. symmetry. assumption.
        * left. rewrite H3, Ers, pps_par_sib. reflexivity.
        * right. apply D1. exists c'. repeat split; assumption.
    - (* unpaired *)
      intros c rest a b d [Hp Hp'] Hunp _ IH HH.
      destruct (pps_passH_tail _ _ _ HH) as (HHr & Hic & Hlt).
      destruct (IH HHr) as (A1 & A2 & A4 & B1 & D1).
      pose proof (pps_unpaired_nosib _ _ _ HH Hunp) as Hnosib.
      unfold passIn. repeat split.
      + intros x [<-|Hx].
        * right. exists c. repeat split; try assumption. left; reflexivity.
        * destruct (A1 x Hx) as [H|[c' (H1 & [H2 H2'] & H3)]]; [left; right; assumption|].
          right. exists c'. repeat split; try assumption. right; assumption.
      + intros x [<-|Hx] Hrow; [exfalso; apply Hrow; exact Hp|right; apply A2; assumption].
      + intros x [<-|Hx]; [left; reflexivity|right; apply A4; assumption].
      + intros [<-|Hx].
        * exists c. repeat split; try assumption. left; reflexivity.
        * apply B1 in Hx. destruct Hx as [c' (H1 & [H2 H2'] & H3 & H4)].
          exists c'. repeat split; try assumption; [right; assumption|].
          intros [E|Hin]; [|contradiction].
          symmetry in E. apply pps_sib_eq_inv in E. subst c'. apply Hnosib. right; assumption.
      + intros [c' (H1 & [H2 H2'] & H3 & H4)].
        destruct H1 as [<-|H1]; [left; symmetry; assumption|].
        right. apply B1. exists c'. repeat split; try assumption.
        intros Hin. apply H3. right; assumption.
      + intros [<-|Hx].
        * exists c. repeat split; try assumption. left; reflexivity.
        * apply D1 in Hx. destruct Hx as [c' (H1 & [H2 H2'] & H3)].
          exists c'. repeat split; try assumption. right; assumption.
      + intros [c' (H1 & [H2 H2'] & H3)].
        destruct H1 as [<-|H1]; [left; symmetry; assumption|].
        right. apply D1. exists c'. repeat split; assumption.
  Qed.

  Lemma pps_pair_order c c' : fst c = fst c' -> g c < g c' -> c' <> sib c ->
    g (sib c) < g (sib c') /\ g (par c) < g (par c').
  Proof.
    destruct c as [r o], c' as [r' o']. unfold g, sib, par, UtilsGeom.gpos. cbn [fst snd].
    intros <- Hlt Hne.
    assert (Ho : o < o') by lia.
    assert (Hne' : o' <> N.lxor o 1) by (intros ->; apply Hne; reflexivity).
    pose proof (pps_ar_sib_mono o o' Ho Hne'). pose proof (pps_ar_par_mono o o' Ho Hne'). lia.
  Qed.

  Lemma pps_par_neq_row c c' : fst c = fst c' -> par c <> c'.
  Proof. destruct c as [r o], c' as [r' o']. unfold par. cbn [fst snd]. intros <- [= E _]. lia. Qed.

  Definition passOrd (res : list crd * list crd * list crd) : Prop :=
    let '(a, b, d) := res in NoDup a /\ StronglySorted clt b /\ StronglySorted clt d.

  Lemma pps_pass_ord row cs : passH row cs -> passOrd (cPP_row row cs).
  Proof.
    apply (pps_cPP_row_ind row (fun cs res => passH row cs -> passOrd res)).
    - intros _. unfold passOrd. repeat split; constructor.
    - (* skip *)
      intros c rest a b d Hskp E IH HH.
      destruct (pps_passH_tail _ _ _ HH) as (HHr & Hic & Hlt).
      destruct (IH HHr) as (N1 & S1 & S2).
      pose proof (pps_pass_in row rest HHr) as HI. rewrite E in HI. destruct HI as (A1 & _).
      destruct HH as (_ & _ & Hp).
      unfold passOrd. repeat split; try assumption.
      constructor; [|assumption]. intros Hin.
      destruct (A1 c Hin) as [H|[c' (H1 & [H2 H2'] & H3)]].
      + pose proof (Hlt c H). lia.
      + apply (Hp c' (or_intror H1) H2 H2'). rewrite <- H3. left; reflexivity.
    - (* paired *)
      intros c rest' a b d [Hp1 Hp2] E IH HH.
      destruct (pps_passH_tail _ _ _ HH) as (HHr & Hic & Hlt).
      destruct (pps_passH_tail _ _ _ HHr) as (HHr' & Hic2 & Hlt2).
      destruct (IH HHr') as (N1 & S1 & S2).
      pose proof (pps_pass_in row rest' HHr') as HI. rewrite E in HI. destruct HI as (A1 & _ & _ & _ & D1).
      pose proof (Hlt _ (or_introl eq_refl)) as Hc2.
      destruct (pps_paired_left c Hc2) as [Ers Eg].
      destruct HH as (_ & _ & Hp).
      assert (Hord : forall c', In c' rest' -> fst c' = row -> g (par c) < g (par c')).
      { intros c' Hin Hrow. pose proof (Hlt2 c' Hin) as Hg.
        apply pps_pair_order; [congruence|lia|]. intros ->. rewrite Ers in Hg. lia. }
      unfold passOrd. repeat split; try assumption.
      + constructor; [|constructor; [|assumption]].
        * intros [Hin|Hin]; [symmetry in Hin; exact (pps_par_neq_row c (rsib c) eq_refl Hin)|].
          destruct (A1 _ Hin) as [H|[c' (H1 & [H2 H2'] & H3)]].
          -- apply (Hp c (or_introl eq_refl) Hp1 Hp2). right; right; assumption.
          -- pose proof (Hord c' H1 H2). rewrite H3 in *. lia.
        * intros Hin. destruct (A1 _ Hin) as [H|[c' (H1 & [H2 H2'] & H3)]].
          -- pose proof (Hlt2 _ H). lia.
          -- apply (Hp c' (or_intror (or_intror H1)) H2 H2'). rewrite <- H3. right; left; reflexivity.
      + constructor; [assumption|]. rewrite Forall_forall. intros x Hx.
        apply D1 in Hx. destruct Hx as [c' (H1 & [H2 H2'] & ->)]. apply Hord; assumption.
    - (* unpaired *)
      intros c rest a b d [Hp1 Hp2] Hunp E IH HH.
      destruct (pps_passH_tail _ _ _ HH) as (HHr & Hic & Hlt).
      destruct (IH HHr) as (N1 & S1 & S2).
      pose proof (pps_pass_in row rest HHr) as HI. rewrite E in HI. destruct HI as (A1 & _ & _ & B1 & D1).
      pose proof (pps_unpaired_nosib _ _ _ HH Hunp) as Hnosib.
      destruct HH as (_ & _ & Hp).
      assert (Hord : forall c', In c' rest -> fst c' = row ->
                g (sib c) < g (sib c') /\ g (par c) < g (par c')).
      { intros c' Hin Hrow. apply pps_pair_order; [congruence|apply Hlt; assumption|].
        intros ->. apply Hnosib. right; assumption. }
      unfold passOrd. repeat split.
      + constructor; [|assumption]. intros Hin.
        destruct (A1 _ Hin) as [H|[c' (H1 & [H2 H2'] & H3)]].
        * apply (Hp c (or_introl eq_refl) Hp1 Hp2). right; assumption.
        * destruct (Hord c' H1 H2) as [_ Ho]. rewrite H3 in *. lia.
      + constructor; [assumption|]. rewrite Forall_forall. intros x Hx.
        apply B1 in Hx. destruct Hx as [c' (H1 & [H2 H2'] & _ & ->)]. apply Hord; assumption.
      + constructor; [assumption|]. rewrite Forall_forall. intros x Hx.
        apply D1 in Hx. destruct Hx as [c' (H1 & [H2 H2'] & ->)]. apply Hord; assumption.
  Qed.

  (** * 7. The invariant over the rows *)
  Lemma pps_SS_app (A : Type) (R : A -> A -> Prop) l1 l2 :
    StronglySorted R l1 -> StronglySorted R l2 -> (forall x y, In x l1 -> In y l2 -> R x y) ->
    StronglySorted R (l1 ++ l2).
  Proof.
    induction l1 as [|x t IH]; intros H1 H2 H; [exact H2|].
    apply StronglySorted_inv in H1. destruct H1 as [H1 Hx]. cbn [app].
    constructor.
    - apply IH; [assumption|assumption|]. intros a b Ha Hb. apply H; [right; assumption|assumption].
    - rewrite Forall_forall in *. intros a Ha. apply in_app_or in Ha. destruct Ha as [Ha|Ha].
      + apply Hx; assumption.
      + apply H; [left; reflexivity|assumption].
  Qed.

  Lemma pps_clt_map cs : StronglySorted clt cs <-> SSlt (map g cs).
  Proof.
    induction cs as [|c t IH]; cbn [map]; [split; constructor|].
    split; intros H; apply StronglySorted_inv in H; destruct H as [H1 H2]; (constructor; [apply IH; assumption|]).
    - rewrite Forall_forall in *. intros x Hx. apply in_map_iff in Hx. destruct Hx as [c' [<- Hc']].
      apply H2; assumption.
    - rewrite Forall_forall in *. intros c' Hc'. apply H2. apply in_map; assumption.
  Qed.

  Lemma pps_NoDup_map_on (l : list crd) : NoDup l -> (forall x, In x l -> vld x) -> NoDup (map g l).
  Proof.
    induction l as [|x t IH]; intros Hnd Hv; cbn [map]; [constructor|].
    inversion Hnd as [|? ? Hx Ht]; subst. constructor.
    - intros Hin. apply in_map_iff in Hin. destruct Hin as [y [E Hy]].
      apply pps_g_inj in E; [subst y; contradiction|apply Hv; right; assumption|apply Hv; left; reflexivity].
    - apply IH; [assumption|]. intros y Hy. apply Hv; right; assumption.
  Qed.

  Section Rows.
    Variables T anc : list crd.
    Let K := T ++ anc.
    Hypothesis HK1 : forall c, In c K -> inf c.
    Hypothesis HK2 : forall c, In c K -> isroot c = false -> In (par c) anc.
    Hypothesis HK3 : forall c, In c anc -> exists c', In c' K /\ isroot c' = false /\ c = par c'.
    Hypothesis HK4 : forall c, In c T -> ~ In c anc.

    Definition Inv (r : N) (cs : list crd) : Prop :=
      StronglySorted clt cs /\
      (forall c, In c cs -> In c K) /\
      (forall c, In c cs -> r <= fst c -> fst c = r \/ In c T) /\
      (forall c, In c K -> fst c = r -> In c cs) /\
      (forall c, In c T -> r <= fst c -> In c cs).

    Lemma pps_Inv_passH r cs : Inv r cs -> passH r cs.
    Proof.
      intros (I1 & I2 & I3 & I4 & I5). split; [assumption|split].
      - rewrite Forall_forall. intros c Hc. apply HK1, I2; assumption.
      - intros c Hc Hrow Hroot Hpar.
        destruct (I3 _ Hpar) as [H|H].
        + unfold par. cbn [fst]. lia.
        + unfold par in H. cbn [fst] in H. lia.
        + apply (HK4 _ H). apply HK2; [apply I2; assumption|assumption].
    Qed.

    Lemma pps_Inv_step r cs a b d cs' : Inv r cs -> cPP_row r cs = (a, b, d) ->
      Permutation a cs' -> StronglySorted clt cs' -> Inv (r + 1) cs'.
    Proof.
      intros HI E Hperm Hs. pose proof (pps_Inv_passH r cs HI) as HH.
      pose proof (pps_pass_in r cs HH) as HP. rewrite E in HP. destruct HP as (A1 & A2 & A4 & B1 & D1).
      destruct HI as (I1 & I2 & I3 & I4 & I5).
      assert (Hin : forall x, In x cs' <-> In x a).
      { intros x. split; intros H; [apply (Permutation_in _ (Permutation_sym Hperm))|apply (Permutation_in _ Hperm)]; assumption. }
      split; [assumption|]. repeat split.
      - intros x Hx. apply Hin in Hx. destruct (A1 x Hx) as [H|[c (H1 & [H2 H2'] & ->)]].
        + apply I2; assumption.
        + apply in_or_app. right. apply HK2; [apply I2; assumption|assumption].
      - intros x Hx Hrow. apply Hin in Hx. destruct (A1 x Hx) as [H|[c (H1 & [H2 H2'] & ->)]].
        + destruct (I3 x H ltac:(lia)) as [H'|H']; [lia|right; assumption].
        + left. unfold par. cbn [fst]. lia.
      - intros c Hc Hrow. apply Hin. apply in_app_or in Hc. destruct Hc as [Hc|Hc].
        + apply A2; [apply I5; [assumption|lia]|lia].
        + destruct (HK3 c Hc) as [c' (H1 & H2 & ->)]. unfold par in Hrow. cbn [fst] in Hrow.
          apply A4. apply D1. exists c'. repeat split; try assumption; [|lia].
          apply I4; [assumption|lia].
      - intros c Hc Hrow. apply Hin. apply A2; [apply I5; [assumption|lia]|lia].
    Qed.

    (** the proof positions and next targets of one pass, in terms of [K] *)
    Lemma pps_Inv_out r cs a b d : Inv r cs -> cPP_row r cs = (a, b, d) ->
      (forall x, In x b <-> exists c, In c K /\ fst c = r /\ isroot c = false /\ ~ In (sib c) K /\ x = sib c) /\
      (forall x, In x d <-> exists c, In c K /\ fst c = r /\ isroot c = false /\ x = par c).
    Proof.
      intros HI E. pose proof (pps_Inv_passH r cs HI) as HH.
      pose proof (pps_pass_in r cs HH) as HP. rewrite E in HP. destruct HP as (A1 & A2 & A4 & B1 & D1).
      destruct HI as (I1 & I2 & I3 & I4 & I5). split; intros x.
      - rewrite B1. split; intros [c (H1 & H2 & H3)].
        + destruct H2 as [H2 H2']. destruct H3 as [H3 H4]. exists c. repeat split; try assumption; [apply I2; assumption|].
          intros Hin. apply H3. apply I4; [assumption|exact H2].
        + destruct H3 as (H3 & H4 & H5). exists c. repeat split; try assumption; [apply I4; assumption|].
          intros Hin. apply H4. apply I2; assumption.
      - rewrite D1. split; intros [c (H1 & H2 & H3)].
        + destruct H2 as [H2 H2']. exists c. repeat split; try assumption. apply I2; assumption.
        + destruct H3 as (H3 & H4). exists c. repeat split; try assumption. apply I4; assumption.
    Qed.

    Lemma pps_K_row c : In c K -> fst c <= h.
    Proof. intros Hc. apply (pps_inf_vld c (HK1 c Hc)). Qed.

    Definition rowsOut (r : N) (bs ds : list crd) : Prop :=
      StronglySorted clt bs /\ StronglySorted clt ds /\
      (forall x, In x bs <-> exists c, In c K /\ r <= fst c /\ isroot c = false /\ ~ In (sib c) K /\ x = sib c) /\
      (forall x, In x ds <-> exists c, In c K /\ r <= fst c /\ isroot c = false /\ x = par c).

    Lemma pps_rowsOut_nil r : h < r -> rowsOut r [] [].
    Proof.
      intros Hr. split; [constructor|split; [constructor|]].
      split; intros x; (split; [intros []|]); intros [c (H1 & H2 & _)];
        pose proof (pps_K_row c H1); lia.
    Qed.

    Lemma pps_rows : forall fuel r cs, Inv r cs -> (N.to_nat (h + 2 - r) <= fuel)%nat ->
      exists bs ds, PP_rows fuel r n h (map g cs) = (map g bs, map g ds) /\ rowsOut r bs ds.
    Proof.
      induction fuel as [|f IH]; intros r cs HI Hf.
      { exists [], []. split; [reflexivity|apply pps_rowsOut_nil; lia]. }
      cbn [PP_rows]. destruct (N.ltb_spec h r) as [Hr|Hr].
      { exists [], []. split; [reflexivity|apply pps_rowsOut_nil; lia]. }
      pose proof (pps_Inv_passH r cs HI) as HH.
      rewrite pps_PP_row_refines; [|rewrite map_length; lia|apply HH].
      destruct (cPP_row r cs) as [[a b] d] eqn:E. cbn [map3].
      pose proof (pps_pass_in r cs HH) as HP. rewrite E in HP. destruct HP as (A1 & _).
      pose proof (pps_pass_ord r cs HH) as HO. rewrite E in HO. destruct HO as (Nd & Sb & Sd).
      destruct (pps_Inv_out r cs a b d HI E) as [Bc Dc].
      (* the sorted working list is again a list of coordinates *)
      assert (Ha : forall x, In x a -> In x K).
      { intros x Hx. destruct (A1 x Hx) as [H|[c (H1 & [H2 H2'] & ->)]].
        - apply HI; assumption.
        - apply in_or_app. right. apply HK2; [apply HI; assumption|assumption]. }
      assert (Hnd : NoDup (map g a)).
      { apply pps_NoDup_map_on; [assumption|]. intros x Hx. apply pps_inf_vld, HK1, Ha; assumption. }
      destruct (@Permutation_map_inv _ _ g (sortN (map g a)) a (pps_sortN_perm (map g a))) as [cs' [Ecs' Hperm]].
      assert (Scs' : StronglySorted clt cs').
      { apply pps_clt_map. rewrite <- Ecs'. apply pps_sortN_NoDup_SSlt; assumption. }
      pose proof (pps_Inv_step r cs a b d cs' HI E Hperm Scs') as HI'.
      destruct (IH (r + 1) cs' HI' ltac:(lia)) as [bs' [ds' [Erec (Sb' & Sd' & Bc' & Dc')]]].
      rewrite Ecs', Erec. exists (b ++ bs'), (d ++ ds'). rewrite !map_app. split; [reflexivity|].
      split; [|split; [|split]].
      - apply pps_SS_app; try assumption. intros x y Hx Hy.
        apply Bc in Hx. destruct Hx as [c (H1 & H2 & H3 & H4 & ->)].
        apply Bc' in Hy. destruct Hy as [c' (H1' & H2' & H3' & H4' & ->)].
        apply pps_g_row_lt; [apply pps_sib_vld; [apply HK1|]; assumption
                            |apply pps_sib_vld; [apply HK1|]; assumption|].
        unfold sib. cbn [fst]. lia.
      - apply pps_SS_app; try assumption. intros x y Hx Hy.
        apply Dc in Hx. destruct Hx as [c (H1 & H2 & H3 & ->)].
        apply Dc' in Hy. destruct Hy as [c' (H1' & H2' & H3' & ->)].
        apply pps_g_row_lt; [apply pps_inf_vld, pps_par_inf; [apply HK1|]; assumption
                            |apply pps_inf_vld, pps_par_inf; [apply HK1|]; assumption|].
        unfold par. cbn [fst]. lia.
      - intros x. rewrite in_app_iff, Bc, Bc'. split.
        + intros [[c (H1 & H2 & H3)]|[c (H1 & H2 & H3)]]; exists c; (split; [assumption|split; [lia|assumption]]).
        + intros [c (H1 & H2 & H3)]. destruct (N.eq_dec (fst c) r) as [Er|Er].
          * left. exists c. split; [assumption|split; assumption].
          * right. exists c. split; [assumption|split; [lia|assumption]].
      - intros x. rewrite in_app_iff, Dc, Dc'. split.
        + intros [[c (H1 & H2 & H3)]|[c (H1 & H2 & H3)]]; exists c; (split; [assumption|split; [lia|assumption]]).
        + intros [c (H1 & H2 & H3)]. destruct (N.eq_dec (fst c) r) as [Er|Er].
          * left. exists c. split; [assumption|split; assumption].
          * right. exists c. split; [assumption|split; [lia|assumption]].
    Qed.

    Lemma pps_Inv_0 : StronglySorted clt T -> Inv 0 T.
    Proof.
      intros Hs. split; [assumption|]. repeat split.
      - intros c Hc. apply in_or_app. left; assumption.
      - intros c Hc _. right; assumption.
      - intros c Hc Hrow. apply in_app_or in Hc. destruct Hc as [Hc|Hc]; [assumption|].
        destruct (HK3 c Hc) as [c' (_ & _ & ->)]. unfold par in Hrow. cbn [fst] in Hrow. lia.
      - intros c Hc _. assumption.
    Qed.

    Lemma pps_main_rows : StronglySorted clt T ->
      exists bs ds, ProofPositions (map g T) n h = (map g bs, map g ds) /\ rowsOut 0 bs ds.
    Proof.
      intros Hs. unfold ProofPositions. apply pps_rows; [apply pps_Inv_0; assumption|lia].
    Qed.

    (** the result equals the sorted sibling and ancestor lists of the specification *)
    Lemma pps_main_lists sibs :
      (forall s, In s sibs <-> exists c, In c K /\ isroot c = false /\ ~ In (sib c) K /\ s = sib c) ->
      NoDup sibs -> NoDup anc -> StronglySorted clt T ->
      ProofPositions (map g T) n h = (sortN (map g sibs), sortN (map g anc)).
    Proof.
      intros Hsibs Nsibs Nanc Hs.
      destruct (pps_main_rows Hs) as [bs [ds [E (Sb & Sd & Bc & Dc)]]]. rewrite E. f_equal.
      - symmetry. apply pps_sortN_unique.
        + apply pps_clt_map; assumption.
        + apply pps_NoDup_map_on; [assumption|]. intros s Hin. apply Hsibs in Hin.
          destruct Hin as [c (H1 & H2 & _ & ->)]. apply pps_sib_vld; [apply HK1|]; assumption.
        + intros x. rewrite !in_map_iff. split; intros [s [<- Hin]]; exists s; (split; [reflexivity|]).
          * apply Hsibs. apply Bc in Hin. destruct Hin as [c (H1 & _ & H2)]. exists c. split; assumption.
          * apply Bc. apply Hsibs in Hin. destruct Hin as [c (H1 & H2)]. exists c.
            split; [assumption|split; [lia|assumption]].
      - symmetry. apply pps_sortN_unique.
        + apply pps_clt_map; assumption.
        + apply pps_NoDup_map_on; [assumption|]. intros s Hin. apply pps_inf_vld, HK1, in_or_app. right; assumption.
        + intros x. rewrite !in_map_iff. split; intros [s [<- Hin]]; exists s; (split; [reflexivity|]).
          * apply Dc in Hin. destruct Hin as [c (H1 & _ & H2 & ->)]. apply HK2; assumption.
          * apply Dc. destruct (HK3 s Hin) as [c (H1 & H2 & ->)]. exists c.
            split; [assumption|split; [lia|split; [assumption|reflexivity]]].
    Qed.
  End Rows.
End Forest.

(** * 8. The specification side: [cmem], [cdedup], [coord_of], [ancestors] *)
Lemma pps_ceqb_spec a b : ceqb a b = true <-> a = b.
Proof.
  destruct a as [r o], b as [r' o']. unfold ceqb. cbn [fst snd].
  rewrite Bool.andb_true_iff, !N.eqb_eq. split; [intros [-> ->]; reflexivity|intros [= -> ->]; split; reflexivity].
Qed.

Lemma pps_cmem_spec c l : cmem c l = true <-> In c l.
Proof.
  induction l as [|x t IH]; cbn [cmem In]; [split; [discriminate|intros []]|].
  rewrite Bool.orb_true_iff, pps_ceqb_spec, IH. split; intros [H|H]; auto.
Qed.

Lemma pps_cmem_false c l : cmem c l = false <-> ~ In c l.
Proof. rewrite <- pps_cmem_spec. destruct (cmem c l); split; congruence. Qed.

Lemma pps_cdedup_In c l : In c (cdedup l) <-> In c l.
Proof.
  induction l as [|x t IH]; cbn [cdedup]; [reflexivity|].
  destruct (cmem x t) eqn:E.
  - rewrite IH. cbn [In]. split; [auto|]. intros [<-|H]; [apply pps_cmem_spec; assumption|assumption].
  - cbn [In]. rewrite IH. reflexivity.
Qed.

Lemma pps_cdedup_NoDup l : NoDup (cdedup l).
Proof.
  induction l as [|x t IH]; cbn [cdedup]; [constructor|].
  destruct (cmem x t) eqn:E; [assumption|].
  constructor; [|assumption]. rewrite pps_cdedup_In. apply pps_cmem_false; assumption.
Qed.

Lemma pps_coord_loop_spec h p : forall fuel r r' o, coord_loop fuel h r p = Some (r', o) ->
  r' <= h /\ o < 2 ^ (h - r') /\ p = gpos h r' o.
Proof.
  induction fuel as [|f IH]; intros r r' o; cbn [coord_loop]; [discriminate|].
  destruct (N.ltb_spec h r) as [Hr|Hr]; [discriminate|].
  destruct (N.leb_spec (Geometry.gstart h r) p) as [H1|H1]; cbn [andb].
  - destruct (N.ltb_spec p (Geometry.gstart h r + 2 ^ (h - r))) as [H2|H2].
    + intros [= <- <-]. rewrite gstart_bridge in *. unfold UtilsGeom.gpos. repeat split; lia.
    + apply IH.
  - apply IH.
Qed.

Lemma pps_coord_of_spec h p r o : coord_of h p = Some (r, o) ->
  r <= h /\ o < 2 ^ (h - r) /\ p = gpos h r o.
Proof. unfold coord_of. destruct (63 <? h); [discriminate|]. apply pps_coord_loop_spec. Qed.

Definition pps_somes (ocs : list (option (N * N))) : list (N * N) :=
  flat_map (fun o => match o with Some c => [c] | None => [] end) ocs.

Lemma pps_decode h ts :
  forallb (fun o : option (N * N) => match o with Some _ => true | None => false end) (map (coord_of h) ts) = true ->
  ts = map (g h) (pps_somes (map (coord_of h) ts)).
Proof.
  induction ts as [|t ts IH]; cbn [map forallb]; [reflexivity|].
  destruct (coord_of h t) as [[r o]|] eqn:E; [|discriminate]. cbn [andb]. intros H.
  unfold pps_somes. cbn [flat_map app map]. fold (pps_somes (map (coord_of h) ts)).
  rewrite <- IH by assumption. f_equal.
  destruct (pps_coord_of_spec h t r o E) as (_ & _ & ->). reflexivity.
Qed.

Section Ancestors.
  Variables n h : N.
  Hypothesis Hh : h <= 63.
  Hypothesis Hn : n <= 2 ^ h.

  Lemma pps_anc_inf : forall fuel c, inf n c -> forall x, In x (ancestors fuel n c) -> inf n x.
  Proof.
    induction fuel as [|f IH]; intros c Hc x; cbn [ancestors]; [intros []|].
    destruct (is_root_c n c) eqn:Er; [intros []|].
    pose proof (pps_par_inf n c Hc Er) as Hp.
    intros [<-|Hx]; [exact Hp|]. exact (IH (par c) Hp x Hx).
  Qed.

  Lemma pps_anc_closed : forall fuel c, inf n c -> (N.to_nat (h + 1 - fst c) <= fuel)%nat ->
    (is_root_c n c = false -> In (par c) (ancestors fuel n c)) /\
    (forall x, In x (ancestors fuel n c) -> is_root_c n x = false -> In (par x) (ancestors fuel n c)).
  Proof.
    induction fuel as [|f IH]; intros c Hc Hf.
    { destruct (pps_inf_vld n h Hn c Hc) as [H _]. lia. }
    cbn [ancestors]. destruct (is_root_c n c) eqn:Er.
    { split; [discriminate|intros x []]. }
    pose proof (pps_par_inf n c Hc Er) as Hp.
    assert (Hf' : (N.to_nat (h + 1 - fst (par c)) <= f)%nat) by (unfold par; cbn [fst]; lia).
    destruct (IH (par c) Hp Hf') as [IH1 IH2].
    split; [intros _; left; reflexivity|].
    intros x [<-|Hx] Hrx; right; [apply IH1|apply IH2]; assumption.
  Qed.

  Lemma pps_anc_src : forall fuel c x, In x (ancestors fuel n c) ->
    exists c', (c' = c \/ In c' (ancestors fuel n c)) /\ is_root_c n c' = false /\ x = par c'.
  Proof.
    induction fuel as [|f IH]; intros c x; cbn [ancestors]; [intros []|].
    destruct (is_root_c n c) eqn:Er; [intros []|].
    intros [<-|Hx].
    - exists c. split; [left; reflexivity|split; [assumption|reflexivity]].
    - destruct (IH (par c) x Hx) as [c' (H1 & H2 & H3)]. exists c'.
      split; [right|split; assumption].
      destruct H1 as [->|H1]; [left; reflexivity|right; assumption].
  Qed.
End Ancestors.

(** * 9. Main theorem *)
Theorem proof_positions_spec n h ts pp comp :
  pp_expect n h ts = Some (pp, comp) -> StronglySorted N.lt ts ->
  ProofPositions ts n h = (pp, comp).
Proof.
  unfold pp_expect. intros Hexp Hsorted.
  destruct (N.ltb_spec 63 h) as [Hh|Hh]; [discriminate|].
  destruct (N.ltb_spec h (tree_rows n)) as [Htr|Htr]; [discriminate|].
  destruct (N.leb_spec n (2 ^ 63)) as [Hn63|Hn63]; [|discriminate].
  cbn [orb negb] in Hexp.
  assert (Hn : n <= 2 ^ h) by (apply TreeRows_le_iff; rewrite <- tree_rows_TreeRows; assumption).
  destruct (forallb _ (map (coord_of h) ts)) eqn:Hdec; [|discriminate].
  fold (pps_somes (map (coord_of h) ts)) in Hexp.
  pose proof (pps_decode h ts Hdec) as Ets.
  set (cs := pps_somes (map (coord_of h) ts)) in *.
  destruct (pp_valid n h cs) eqn:Hval; [|discriminate].
  match type of Hexp with Some (?a, ?b) = _ => remember a as ppx eqn:Eppx; remember b as cox eqn:Ecox end.
  injection Hexp as <- <-. subst ppx cox.
  unfold pp_valid in Hval. apply Bool.andb_true_iff in Hval. destruct Hval as [Hval _].
  apply Bool.andb_true_iff in Hval. destruct Hval as [Hv1 Hv2].
  rewrite forallb_forall in Hv1, Hv2.
  set (anc := cdedup (flat_map (ancestors 70 n) cs)).
  change (fun c : N * N => Geometry.gpos h (fst c) (snd c)) with (g h).
  assert (Hcs : forall c, In c cs -> inf n c).
  { intros c Hc. specialize (Hv1 c Hc). apply Bool.andb_true_iff in Hv1. apply Hv1. }
  assert (Hanc : forall c, In c anc <-> exists t, In t cs /\ In c (ancestors 70 n t)).
  { intros c. unfold anc. rewrite pps_cdedup_In, in_flat_map. reflexivity. }
  assert (HK1 : forall c, In c (cs ++ anc) -> inf n c).
  { intros c Hc. apply in_app_or in Hc. destruct Hc as [Hc|Hc]; [apply Hcs; assumption|].
    apply Hanc in Hc. destruct Hc as [t [Ht Hc]]. exact (pps_anc_inf n 70 t (Hcs t Ht) c Hc). }
  assert (Hfuel : forall c : crd, (N.to_nat (h + 1 - fst c) <= 70)%nat) by (intros c; lia).
  rewrite Ets. apply (pps_main_lists n h Hh Hn cs anc HK1).
  - intros c Hc Hroot. apply in_app_or in Hc. destruct Hc as [Hc|Hc].
    + apply Hanc. exists c. split; [assumption|].
      destruct (pps_anc_closed n h Hh Hn 70 c (Hcs c Hc) (Hfuel c)) as [Hcl _]. apply Hcl. exact Hroot.
    + apply Hanc in Hc. destruct Hc as [t [Ht Hc]]. apply Hanc. exists t. split; [assumption|].
      destruct (pps_anc_closed n h Hh Hn 70 t (Hcs t Ht) (Hfuel t)) as [_ Hcl]. apply Hcl; assumption.
  - intros c Hc. apply Hanc in Hc. destruct Hc as [t [Ht Hc]].
    destruct (pps_anc_src n 70 t c Hc) as [c' (H1 & H2 & H3)]. exists c'.
    split; [|split; assumption]. apply in_or_app. destruct H1 as [->|H1]; [left; assumption|right].
    apply Hanc. exists t. split; assumption.
  - intros c Hc Hin. specialize (Hv2 c Hc). apply Bool.negb_true_iff, pps_cmem_false in Hv2.
    apply Hv2. unfold anc in Hin. exact (proj1 (pps_cdedup_In _ _) Hin).
  - intros s. rewrite pps_cdedup_In, in_flat_map. split.
    + intros [c [Hc Hs]]. exists c. split; [assumption|].
      unfold isroot. destruct (is_root_c n c); [destruct Hs|]. split; [reflexivity|].
      fold (sib c) in Hs. destruct (cmem (sib c) (cs ++ anc)) eqn:Em; [destruct Hs|].
      apply pps_cmem_false in Em. split; [assumption|]. destruct Hs as [<-|[]]. reflexivity.
    + intros [c (Hc & Hroot & Hnin & ->)]. exists c. split; [assumption|].
      unfold isroot in Hroot. rewrite Hroot. fold (sib c).
      apply pps_cmem_false in Hnin. match goal with |- In _ (if ?b then _ else _) => replace b with false by (symmetry; exact Hnin) end.
      left; reflexivity.
  - apply pps_cdedup_NoDup.
  - apply pps_cdedup_NoDup.
  - apply pps_clt_map. rewrite <- Ets. assumption.
Qed.

Print Assumptions proof_positions_spec.

(** The full statement, as a proposition (proved by [proof_positions_spec]). *)
Definition proof_positions_spec_statement : Prop :=
  forall n h ts pp comp,
    pp_expect n h ts = Some (pp, comp) -> StronglySorted N.lt ts ->
    ProofPositions ts n h = (pp, comp).
Lemma proof_positions_spec_statement_holds : proof_positions_spec_statement.
Proof. exact proof_positions_spec. Qed.

(** * 10. Weakly ascending targets suffice: valid targets are distinct *)
Lemma pps_cdedup_length l : (length (cdedup l) <= length l)%nat.
Proof.
  induction l as [|x t IH]; cbn [cdedup length]; [lia|].
  destruct (cmem x t); cbn [length]; lia.
Qed.

Lemma pps_cdedup_length_NoDup l : Nat.eqb (length (cdedup l)) (length l) = true -> NoDup l.
Proof.
  induction l as [|x t IH]; [constructor|]. cbn [cdedup]. rewrite Nat.eqb_eq.
  destruct (cmem x t) eqn:E; cbn [length]; intros H.
  - pose proof (pps_cdedup_length t). lia.
  - constructor; [apply pps_cmem_false; assumption|]. apply IH. apply Nat.eqb_eq. lia.
Qed.

Lemma pp_expect_NoDup n h ts pp comp : pp_expect n h ts = Some (pp, comp) -> NoDup ts.
Proof.
  unfold pp_expect. intros Hexp.
  destruct (N.ltb_spec 63 h) as [Hh|Hh]; [discriminate|].
  destruct (N.ltb_spec h (tree_rows n)) as [Htr|Htr]; [discriminate|].
  destruct (N.leb_spec n (2 ^ 63)) as [Hn63|Hn63]; [|discriminate].
  cbn [orb negb] in Hexp.
  assert (Hn : n <= 2 ^ h) by (apply TreeRows_le_iff; rewrite <- tree_rows_TreeRows; assumption).
  destruct (forallb _ (map (coord_of h) ts)) eqn:Hdec; [|discriminate].
  fold (pps_somes (map (coord_of h) ts)) in Hexp.
  pose proof (pps_decode h ts Hdec) as Ets.
  set (cs := pps_somes (map (coord_of h) ts)) in *.
  destruct (pp_valid n h cs) eqn:Hval; [|discriminate]. clear Hexp.
  unfold pp_valid in Hval. apply Bool.andb_true_iff in Hval. destruct Hval as [Hval Hv3].
  apply Bool.andb_true_iff in Hval. destruct Hval as [Hv1 _].
  rewrite forallb_forall in Hv1.
  rewrite Ets. apply (pps_NoDup_map_on h); [apply pps_cdedup_length_NoDup; assumption|].
  intros c Hc. specialize (Hv1 c Hc). apply Bool.andb_true_iff in Hv1.
  apply (pps_inf_vld n h Hn). apply Hv1.
Qed.

Theorem proof_positions_spec_le n h ts pp comp :
  pp_expect n h ts = Some (pp, comp) -> StronglySorted N.le ts ->
  ProofPositions ts n h = (pp, comp).
Proof.
  intros Hexp Hs. apply proof_positions_spec; [assumption|].
  apply pps_SSle_NoDup_SSlt; [assumption|]. exact (pp_expect_NoDup n h ts pp comp Hexp).
Qed.

(** the two results are strictly ascending *)
Lemma pp_expect_sorted n h ts pp comp :
  pp_expect n h ts = Some (pp, comp) -> StronglySorted N.le pp /\ StronglySorted N.le comp.
Proof.
  unfold pp_expect. intros Hexp.
  destruct ((63 <? h) || (h <? tree_rows n) || negb (n <=? 2 ^ 63)); [discriminate|].
  destruct (forallb _ (map (coord_of h) ts)); [|discriminate].
  destruct (pp_valid n h _); [|discriminate].
  match type of Hexp with Some (?a, ?b) = _ => remember a as ppx eqn:Eppx; remember b as cox eqn:Ecox end.
  injection Hexp as <- <-. subst ppx cox. split; apply pps_sortN_sorted.
Qed.

(** * 11. Examples: 10 leaves (trees of 8 and 2 leaves), targets on rows 0 and 1 *)
Example pps_ex_h4 :
  pp_expect 10 4 [0; 8; 17] = Some ([1; 9; 25], [16; 20; 24; 28]) /\
  ProofPositions [0; 8; 17] 10 4 = ([1; 9; 25], [16; 20; 24; 28]).
Proof. split; vm_compute; reflexivity. Qed.

Example pps_ex_h4_by_thm : ProofPositions [0; 8; 17] 10 4 = ([1; 9; 25], [16; 20; 24; 28]).
Proof.
  apply proof_positions_spec; [vm_compute; reflexivity|].
  repeat constructor.
Qed.

Example pps_ex_h63 :
  pp_expect 10 63 [0; 8; 2 ^ 63 + 1] =
    Some ([1; 9; 2 ^ 63 + 2 ^ 62 + 1], [2 ^ 63; 2 ^ 63 + 4; 2 ^ 63 + 2 ^ 62; 2 ^ 63 + 2 ^ 62 + 2 ^ 61]) /\
  ProofPositions [0; 8; 2 ^ 63 + 1] 10 63 =
    ([1; 9; 2 ^ 63 + 2 ^ 62 + 1], [2 ^ 63; 2 ^ 63 + 4; 2 ^ 63 + 2 ^ 62; 2 ^ 63 + 2 ^ 62 + 2 ^ 61]).
Proof. split; vm_compute; reflexivity. Qed.

(** all eight leaves of a full tree: no proof positions, every inner node is computable *)
Example pps_ex_full :
  pp_expect 8 3 [0; 1; 2; 3; 4; 5; 6; 7] = Some ([], [8; 9; 10; 11; 12; 13; 14]) /\
  ProofPositions [0; 1; 2; 3; 4; 5; 6; 7] 8 3 = ([], [8; 9; 10; 11; 12; 13; 14]).
Proof. split; vm_compute; reflexivity. Qed.

(** nested targets (4 lies below 10 in the forest of 7 leaves) are outside the specification *)
Example pps_ex_nested : pp_expect 7 3 [2; 3; 4; 10] = None.
Proof. vm_compute; reflexivity. Qed.

Print Assumptions proof_positions_spec_le.

(** * 12. The same result without [pp_expect]: targets [T] and any list [anc] that is exactly the
    set of proper ancestors of [T] (closed under parents of non-roots, generated by them, disjoint
    from [T]).  The proof positions are the siblings of non-root members of [T ++ anc] that are not
    members; the second result is [anc]; both strictly ascending. *)
Theorem proof_positions_members n h (T anc : list crd) :
  h <= 63 -> n <= 2 ^ h ->
  (forall c, In c (T ++ anc) -> in_forest n (fst c) (snd c) = true) ->
  (forall c, In c (T ++ anc) -> is_root_c n c = false -> In (par c) anc) ->
  (forall c, In c anc -> exists c', In c' (T ++ anc) /\ is_root_c n c' = false /\ c = par c') ->
  (forall c, In c T -> ~ In c anc) ->
  StronglySorted N.lt (map (g h) T) ->
  exists bs ds,
    ProofPositions (map (g h) T) n h = (map (g h) bs, map (g h) ds) /\
    StronglySorted N.lt (map (g h) bs) /\ StronglySorted N.lt (map (g h) ds) /\
    (forall x, In x bs <-> exists c, In c (T ++ anc) /\ is_root_c n c = false /\
                                     ~ In (sib c) (T ++ anc) /\ x = sib c) /\
    (forall x, In x ds <-> In x anc).
Proof.
  intros Hh Hn HK1 HK2 HK3 HK4 Hs.
  destruct (pps_main_rows n h Hh Hn T anc HK1 HK2 HK3 HK4 (proj2 (pps_clt_map h T) Hs))
    as [bs [ds [E (Sb & Sd & Bc & Dc)]]].
  exists bs, ds. split; [exact E|].
  split; [apply pps_clt_map; assumption|split; [apply pps_clt_map; assumption|]].
  split; intros x.
  - rewrite Bc. split; intros [c H]; exists c.
    + destruct H as (H1 & _ & H2). split; assumption.
    + destruct H as (H1 & H2). split; [assumption|split; [lia|assumption]].
  - rewrite Dc. split.
    + intros [c (H1 & _ & H2 & ->)]. apply HK2; assumption.
    + intros Hx. destruct (HK3 x Hx) as [c (H1 & H2 & ->)]. exists c.
      split; [assumption|split; [lia|split; [assumption|reflexivity]]].
Qed.
Print Assumptions proof_positions_members.
