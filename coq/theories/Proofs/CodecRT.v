(** Proofs about the codec mirrors of Model/Codec.v (property C13):
    round trips, independence of the reader's chunking, rejection of every strict prefix,
    predicted size, failing sinks, and the link between the niece view and the reference forest. *)
From Coq Require Import Arith NArith List Bool Lia ZifyN ZifyNat ZifyBool.
From Utreexo Require Import Base.Bits64 Base.Hash Spec.Forest Model.Codec.
Import ListNotations.
Open Scope N_scope.

(** * Lists *)
Lemma firstn_plus {A} (n m : nat) (l : list A) :
  firstn (n + m) l = firstn n l ++ firstn m (skipn n l).
Proof.
  revert l; induction n as [|n IH]; intros l; [reflexivity|].
  destruct l as [|x l]; [cbn [Nat.add firstn skipn app]; now rewrite firstn_nil|].
  cbn [Nat.add firstn skipn app]. now rewrite IH.
Qed.

Lemma skipn_plus {A} (n m : nat) (l : list A) :
  skipn (n + m) l = skipn m (skipn n l).
Proof.
  revert l; induction n as [|n IH]; intros l; [reflexivity|].
  destruct l as [|x l]; [now rewrite !skipn_nil|].
  cbn [Nat.add skipn]. apply IH.
Qed.

Lemma firstn_app_exact {A} (a b : list A) n : length a = n -> firstn n (a ++ b) = a.
Proof.
  intros <-. rewrite firstn_app, Nat.sub_diag, firstn_O, app_nil_r. apply firstn_all.
Qed.

Lemma skipn_app_exact {A} (a b : list A) n : length a = n -> skipn n (a ++ b) = b.
Proof.
  intros <-. rewrite skipn_app, Nat.sub_diag, skipn_all. reflexivity.
Qed.

Lemma firstn_app_lt {A} (a b : list A) k : (k <= length a)%nat -> firstn k (a ++ b) = firstn k a.
Proof.
  intros Hk. rewrite firstn_app. replace (k - length a)%nat with 0%nat by lia.
  now rewrite firstn_O, app_nil_r.
Qed.

Lemma firstn_app_ge {A} (a b : list A) k :
  (length a <= k)%nat -> firstn k (a ++ b) = a ++ firstn (k - length a) b.
Proof.
  intros Hk. rewrite firstn_app. now rewrite firstn_all2 by lia.
Qed.

(** * Little-endian integers *)
Lemma le_bytes_length n x : length (le_bytes n x) = n.
Proof. revert x; induction n as [|n IH]; intros x; cbn [le_bytes length]; [reflexivity|now rewrite IH]. Qed.

Lemma le_bytes_is_byte n x : Forall is_byte (le_bytes n x).
Proof.
  revert x; induction n as [|n IH]; intros x; cbn [le_bytes]; constructor; [|apply IH].
  unfold is_byte. apply N.mod_lt. discriminate.
Qed.

Lemma le_value_le_bytes n x : x < 256 ^ N.of_nat n -> le_value (le_bytes n x) = x.
Proof.
  revert x; induction n as [|n IH]; intros x Hx.
  - cbn [le_bytes le_value]. change (256 ^ N.of_nat 0) with 1 in Hx. lia.
  - cbn [le_bytes le_value]. rewrite IH.
    + pose proof (N.div_mod' x 256). lia.
    + rewrite Nat2N.inj_succ, N.pow_succ_r' in Hx.
      apply N.div_lt_upper_bound; [discriminate|exact Hx].
Qed.

Lemma u64le_length x : length (u64le x) = 8%nat.
Proof. apply le_bytes_length. Qed.

Lemma le_value_u64le x : x < 2 ^ 64 -> le_value (u64le x) = x.
Proof. intros Hx. apply le_value_le_bytes. exact Hx. Qed.

Theorem get_u64le_u64le x rest : x < 2 ^ 64 -> get_u64le (u64le x ++ rest) = Some (x, rest).
Proof.
  intros Hx. unfold get_u64le.
  rewrite app_length, u64le_length. cbn [Nat.leb Nat.add].
  rewrite firstn_app_exact, skipn_app_exact by apply u64le_length.
  now rewrite le_value_u64le.
Qed.

Lemma le_value_bound l : Forall is_byte l -> le_value l < 256 ^ N.of_nat (length l).
Proof.
  induction 1 as [|b l Hb Hl IH]; cbn [le_value length].
  - change (256 ^ N.of_nat 0) with 1. lia.
  - rewrite Nat2N.inj_succ, N.pow_succ_r'. unfold is_byte in Hb. lia.
Qed.

(** * Results *)
(** [agree x y]: whenever the run [x] (less fuel) did not run out of fuel, the run [y] (more fuel)
    gives the same result *)
Definition agree {A} (x y : res A) : Prop := x <> OutOfFuel -> y = x.

Lemma agree_refl {A} (x : res A) : agree x x.
Proof. intros _. reflexivity. Qed.

Section GenericParsers.
  Variable R : Type.
  Variable rf : nat -> R -> res (list byte * R).

  Lemma agree_bind {A B} (p p' : parser R A) (g g' : A -> parser R B) r :
    agree (p r) (p' r) ->
    (forall a n r1, p r = Ok (a, n, r1) -> agree (g a r1) (g' a r1)) ->
    agree (pbind p g r) (pbind p' g' r).
  Proof.
    unfold agree, pbind. intros H1 H2 H3.
    destruct (p r) as [[[a n] r1]| |] eqn:E.
    - rewrite H1 by discriminate. specialize (H2 a n r1 eq_refl).
      destruct (g a r1) as [[[b m] r2]| |] eqn:E2.
      + rewrite H2 by discriminate. reflexivity.
      + rewrite H2 by discriminate. reflexivity.
      + contradiction H3. reflexivity.
    - rewrite H1 by discriminate. reflexivity.
    - contradiction H3. reflexivity.
  Qed.

  Lemma read_one_mono f f' r : (f <= f')%nat -> agree (read_one rf f r) (read_one rf f' r).
  Proof.
    revert f' r; induction f as [|f IH]; intros f' r Hle.
    - intros Hx. contradiction Hx. reflexivity.
    - destruct f' as [|f']; [lia|]. cbn [read_one].
      apply agree_bind; [apply agree_refl|]. intros d n1 r1 _.
      apply agree_bind; [apply agree_refl|]. intros b1 n2 r2 _.
      apply agree_bind; [apply agree_refl|]. intros b2 n3 r3 _.
      destruct (flag_is1 b2); [|apply agree_refl].
      apply agree_bind; [apply IH; lia|]. intros l n4 r4 _.
      apply agree_bind; [apply IH; lia|]. intros rr n5 r5 _.
      apply agree_refl.
  Qed.

  Lemma read_roots_mono f f' k r :
    (f <= f')%nat -> agree (read_roots rf f k r) (read_roots rf f' k r).
  Proof.
    intros Hle. revert r; induction k as [|k IH]; intros r; cbn [read_roots].
    - apply agree_refl.
    - apply agree_bind; [apply read_one_mono; exact Hle|]. intros t n1 r1 _.
      apply agree_bind; [apply IH|]. intros ts n2 r2 _. apply agree_refl.
  Qed.

  Lemma pollard_parser_mono f f' r :
    (f <= f')%nat -> agree (pollard_parser rf f r) (pollard_parser rf f' r).
  Proof.
    intros Hle. unfold pollard_parser.
    apply agree_bind; [apply agree_refl|]. intros b1 n1 r1 _.
    apply agree_bind; [apply agree_refl|]. intros b2 n2 r2 _.
    apply agree_bind; [apply read_roots_mono; exact Hle|]. intros ts n3 r3 _.
    apply agree_refl.
  Qed.

  Lemma decode_pollard_gen_mono f f' r :
    (f <= f')%nat -> agree (decode_pollard_gen rf f r) (decode_pollard_gen rf f' r).
  Proof.
    intros Hle Hx. unfold decode_pollard_gen in *.
    pose proof (pollard_parser_mono f f' r Hle) as Hm. unfold agree in Hm.
    destruct (pollard_parser rf f r) as [[[img n] r1]| |] eqn:E.
    - rewrite Hm by discriminate. reflexivity.
    - rewrite Hm by discriminate. reflexivity.
    - contradiction Hx. reflexivity.
  Qed.

  Lemma read_cached_mono f f' n r :
    (f <= f')%nat -> agree (read_cached rf f n r) (read_cached rf f' n r).
  Proof.
    revert f' n r; induction f as [|f IH]; intros f' n r Hle.
    - intros Hx. contradiction Hx. reflexivity.
    - destruct f' as [|f']; [lia|]. cbn [read_cached].
      destruct (n =? 0); [apply agree_refl|].
      apply agree_bind; [apply agree_refl|]. intros h n1 r1 _.
      apply agree_bind; [apply agree_refl|]. intros p n2 r2 _.
      apply agree_bind; [apply IH; lia|]. intros tl n3 r3 _.
      apply agree_refl.
  Qed.

  Lemma read_nodes_mono f f' n r :
    (f <= f')%nat -> agree (read_nodes rf f n r) (read_nodes rf f' n r).
  Proof.
    revert f' n r; induction f as [|f IH]; intros f' n r Hle.
    - intros Hx. contradiction Hx. reflexivity.
    - destruct f' as [|f']; [lia|]. cbn [read_nodes].
      destruct (n =? 0); [apply agree_refl|].
      apply agree_bind; [apply agree_refl|]. intros p n1 r1 _.
      apply agree_bind; [apply agree_refl|]. intros lb n2 r2 _.
      apply agree_bind; [apply IH; lia|]. intros tl n3 r3 _.
      apply agree_refl.
  Qed.

  Lemma map_parser_mono f f' r :
    (f <= f')%nat -> agree (map_parser rf f r) (map_parser rf f' r).
  Proof.
    intros Hle. unfold map_parser.
    apply agree_bind; [apply agree_refl|]. intros rb n1 r1 _.
    apply agree_bind; [apply agree_refl|]. intros nlb n2 r2 _.
    apply agree_bind; [apply agree_refl|]. intros ncb n3 r3 _.
    apply agree_bind; [apply read_cached_mono; exact Hle|]. intros cs n4 r4 _.
    apply agree_bind; [apply agree_refl|]. intros nnb n5 r5 _.
    apply agree_bind; [apply read_nodes_mono; exact Hle|]. intros ns n6 r6 _.
    apply agree_refl.
  Qed.

  Lemma decode_map_gen_mono f f' r :
    (f <= f')%nat -> agree (decode_map_gen rf f r) (decode_map_gen rf f' r).
  Proof.
    intros Hle Hx. unfold decode_map_gen in *.
    pose proof (map_parser_mono f f' r Hle) as Hm. unfold agree in Hm.
    destruct (map_parser rf f r) as [[[img n] r1]| |] eqn:E.
    - rewrite Hm by discriminate. reflexivity.
    - rewrite Hm by discriminate. reflexivity.
    - contradiction Hx. reflexivity.
  Qed.
End GenericParsers.

(** * Parsers over plain byte lists *)
Notation bparser A := (parser (list byte) A).

(** [p] reads exactly [e], yields [v] and reports [length e] bytes *)
Definition parses {A} (p : bparser A) (e : list byte) (v : A) : Prop :=
  forall rest, p (e ++ rest) = Ok (v, length e, rest).
(** [p] fails on every strict prefix of [e] *)
Definition rejects {A} (p : bparser A) (e : list byte) : Prop :=
  forall k, (k < length e)%nat -> p (firstn k e) = Err.
Definition codec {A} (p : bparser A) (e : list byte) (v : A) : Prop :=
  parses p e v /\ rejects p e.
(** the reported count is the number of bytes really consumed *)
Definition shrinks {A} (p : bparser A) : Prop :=
  forall l a n l', p l = Ok (a, n, l') -> (n <= length l)%nat /\ l' = skipn n l.

Lemma take_rf_app a rest k : length a = k -> take_rf k (a ++ rest) = Ok (a, rest).
Proof.
  intros Hk. unfold take_rf. rewrite app_length.
  replace (Nat.leb k (length a + length rest)) with true by (symmetry; apply Nat.leb_le; lia).
  now rewrite firstn_app_exact, skipn_app_exact.
Qed.

Lemma take_rf_short l k : (length l < k)%nat -> take_rf k l = Err.
Proof.
  intros Hk. unfold take_rf.
  replace (Nat.leb k (length l)) with false by (symmetry; apply Nat.leb_gt; lia).
  reflexivity.
Qed.

Lemma codec_read k e : length e = k -> codec (pread take_rf k) e e.
Proof.
  intros Hk. split.
  - intros rest. unfold pread. rewrite take_rf_app by exact Hk. now rewrite Hk.
  - intros j Hj. unfold pread. rewrite take_rf_short; [reflexivity|].
    rewrite firstn_length. lia.
Qed.

Lemma codec_ret {A} (v : A) : codec (pret v) [] v.
Proof.
  split.
  - intros rest. reflexivity.
  - intros k Hk. cbn [length] in Hk. lia.
Qed.

Lemma codec_bind {A B} (p : bparser A) (f : A -> bparser B) e1 e2 v1 v2 :
  codec p e1 v1 -> codec (f v1) e2 v2 -> codec (pbind p f) (e1 ++ e2) v2.
Proof.
  intros [P1 R1] [P2 R2]. split.
  - intros rest. unfold pbind. rewrite <- app_assoc, P1, P2, app_length. reflexivity.
  - intros k Hk. rewrite app_length in Hk. unfold pbind.
    destruct (Nat.lt_ge_cases k (length e1)) as [Hlt|Hge].
    + rewrite firstn_app_lt by lia. rewrite R1 by exact Hlt. reflexivity.
    + rewrite firstn_app_ge by exact Hge. rewrite P1, R2 by lia. reflexivity.
Qed.

Lemma codec_eq {A} (p : bparser A) e e' v : e = e' -> codec p e' v -> codec p e v.
Proof. intros ->. exact (fun H => H). Qed.

Lemma shrinks_ret {A} (v : A) : shrinks (pret v).
Proof.
  intros l a n l' Heq. unfold pret in Heq. injection Heq as <- <- <-.
  split; [lia|reflexivity].
Qed.

Lemma shrinks_read k : shrinks (pread take_rf k).
Proof.
  intros l a n l' Heq. unfold pread, take_rf in Heq.
  destruct (Nat.leb k (length l)) eqn:E; [|discriminate].
  injection Heq as <- <- <-. apply Nat.leb_le in E. split; [exact E|reflexivity].
Qed.

Lemma shrinks_bind {A B} (p : bparser A) (f : A -> bparser B) :
  shrinks p -> (forall a, shrinks (f a)) -> shrinks (pbind p f).
Proof.
  intros Hp Hf l b n l' Heq. unfold pbind in Heq.
  destruct (p l) as [[[a n1] l1]| |] eqn:E1; try discriminate.
  destruct (f a l1) as [[[b' n2] l2]| |] eqn:E2; try discriminate.
  injection Heq as <- <- <-.
  destruct (Hp _ _ _ _ E1) as [Hn1 ->].
  destruct (Hf a _ _ _ _ E2) as [Hn2 ->].
  rewrite skipn_length in Hn2. split; [lia|]. symmetry. apply skipn_plus.
Qed.

Lemma noof_read k l : pread take_rf k l <> OutOfFuel.
Proof. unfold pread, take_rf. destruct (Nat.leb k (length l)); discriminate. Qed.

Lemma noof_bind {A B} (p : bparser A) (f : A -> bparser B) l :
  p l <> OutOfFuel ->
  (forall a n l1, p l = Ok (a, n, l1) -> f a l1 <> OutOfFuel) ->
  pbind p f l <> OutOfFuel.
Proof.
  intros Hp Hf. unfold pbind.
  destruct (p l) as [[[a n1] l1]| |] eqn:E1; [|discriminate|contradiction Hp; reflexivity].
  specialize (Hf a n1 l1 eq_refl).
  destruct (f a l1) as [[[b' n2] l2]| |]; [discriminate|discriminate|exact Hf].
Qed.

Lemma noof_ret {A} (v : A) (l : list byte) : pret v l <> OutOfFuel.
Proof. discriminate. Qed.
