(** Proofs about the codec mirrors of Model/Codec.v (property C13):
    round trips, independence of the reader's chunking, rejection of every strict prefix,
    predicted size, failing sinks, and the link between the niece view and the reference forest. *)
From Coq Require Import Arith NArith List Bool Lia ZifyN ZifyNat ZifyBool Permutation.
From Utreexo Require Import Base.Bits64 Base.Hash Spec.Forest Model.Codec.
Import ListNotations.
Open Scope N_scope.

(** * Lists *)
Lemma firstn_plus {A} (n m : nat) (l : list A) :
  firstn (n + m) l = firstn n l ++ firstn m (skipn n l).
Proof.
  revert l; induction n as [|n IH]; intros l; [reflexivity|].
  destruct l as [|x l]; [cbn [Nat.add firstn skipn app]; now rewrite firstn_nil|].
  cbn [Nat.add firstn skipn app]. now rewrite IH.
Qed.

Lemma skipn_plus {A} (n m : nat) (l : list A) :
  skipn (n + m) l = skipn m (skipn n l).
Proof.
  revert l; induction n as [|n IH]; intros l; [reflexivity|].
  destruct l as [|x l]; [now rewrite !skipn_nil|].
  cbn [Nat.add skipn]. apply IH.
Qed.

Lemma firstn_app_exact {A} (a b : list A) n : length a = n -> firstn n (a ++ b) = a.
Proof.
  intros <-. rewrite firstn_app, Nat.sub_diag, firstn_O, app_nil_r. apply firstn_all.
Qed.

Lemma skipn_app_exact {A} (a b : list A) n : length a = n -> skipn n (a ++ b) = b.
Proof.
  intros <-. rewrite skipn_app, Nat.sub_diag, skipn_all. reflexivity.
Qed.

Lemma firstn_app_lt {A} (a b : list A) k : (k <= length a)%nat -> firstn k (a ++ b) = firstn k a.
Proof.
  intros Hk. rewrite firstn_app. replace (k - length a)%nat with 0%nat by lia.
  now rewrite firstn_O, app_nil_r.
Qed.

Lemma firstn_app_ge {A} (a b : list A) k :
  (length a <= k)%nat -> firstn k (a ++ b) = a ++ firstn (k - length a) b.
Proof.
  intros Hk. rewrite firstn_app. now rewrite firstn_all2 by lia.
Qed.

(** * Little-endian integers *)
Lemma le_bytes_length n x : length (le_bytes n x) = n.
Proof. revert x; induction n as [|n IH]; intros x; cbn [le_bytes length]; [reflexivity|now rewrite IH]. Qed.

Lemma le_bytes_is_byte n x : Forall is_byte (le_bytes n x).
Proof.
  revert x; induction n as [|n IH]; intros x; cbn [le_bytes]; constructor; [|apply IH].
  unfold is_byte. apply N.mod_lt. discriminate.
Qed.

Lemma le_value_le_bytes n x : x < 256 ^ N.of_nat n -> le_value (le_bytes n x) = x.
Proof.
  revert x; induction n as [|n IH]; intros x Hx.
  - cbn [le_bytes le_value]. change (256 ^ N.of_nat 0) with 1 in Hx. lia.
  - cbn [le_bytes le_value]. rewrite IH.
    + pose proof (N.div_mod' x 256). lia.
    + rewrite Nat2N.inj_succ, N.pow_succ_r' in Hx.
      apply N.div_lt_upper_bound; [discriminate|exact Hx].
Qed.

Lemma u64le_length x : length (u64le x) = 8%nat.
Proof. apply le_bytes_length. Qed.

Lemma le_value_u64le x : x < 2 ^ 64 -> le_value (u64le x) = x.
Proof. intros Hx. apply le_value_le_bytes. exact Hx. Qed.

Theorem get_u64le_u64le x rest : x < 2 ^ 64 -> get_u64le (u64le x ++ rest) = Some (x, rest).
Proof.
  intros Hx. unfold get_u64le.
  rewrite app_length, u64le_length. cbn [Nat.leb Nat.add].
  rewrite firstn_app_exact, skipn_app_exact by apply u64le_length.
  now rewrite le_value_u64le.
Qed.

Lemma le_value_bound l : Forall is_byte l -> le_value l < 256 ^ N.of_nat (length l).
Proof.
  induction 1 as [|b l Hb Hl IH]; cbn [le_value length].
  - change (256 ^ N.of_nat 0) with 1. lia.
  - rewrite Nat2N.inj_succ, N.pow_succ_r'. unfold is_byte in Hb. lia.
Qed.

(** * Results *)
(** [agree x y]: whenever the run [x] (less fuel) did not run out of fuel, the run [y] (more fuel)
    gives the same result *)
Definition agree {A} (x y : res A) : Prop := x <> OutOfFuel -> y = x.

Lemma agree_refl {A} (x : res A) : agree x x.
Proof. intros _. reflexivity. Qed.

Section GenericParsers.
  Variable R : Type.
  Variable rf : nat -> R -> res (list byte * R).

  Lemma agree_bind {A B} (p p' : parser R A) (g g' : A -> parser R B) r :
    agree (p r) (p' r) ->
    (forall a n r1, p r = Ok (a, n, r1) -> agree (g a r1) (g' a r1)) ->
    agree (pbind p g r) (pbind p' g' r).
  Proof.
    unfold agree, pbind. intros H1 H2 H3.
    destruct (p r) as [[[a n] r1]| |] eqn:E.
    - rewrite H1 by discriminate. specialize (H2 a n r1 eq_refl).
      destruct (g a r1) as [[[b m] r2]| |] eqn:E2.
      + rewrite H2 by discriminate. reflexivity.
      + rewrite H2 by discriminate. reflexivity.
      + contradiction H3. reflexivity.
    - rewrite H1 by discriminate. reflexivity.
    - contradiction H3. reflexivity.
  Qed.

  Lemma read_one_mono f f' r : (f <= f')%nat -> agree (read_one rf f r) (read_one rf f' r).
  Proof.
    revert f' r; induction f as [|f IH]; intros f' r Hle.
    - intros Hx. contradiction Hx. reflexivity.
    - destruct f' as [|f']; [lia|]. cbn [read_one].
      apply agree_bind; [apply agree_refl|]. intros d n1 r1 _.
      apply agree_bind; [apply agree_refl|]. intros b1 n2 r2 _.
      apply agree_bind; [apply agree_refl|]. intros b2 n3 r3 _.
      destruct (flag_is1 b2); [|apply agree_refl].
      apply agree_bind; [apply IH; lia|]. intros l n4 r4 _.
      apply agree_bind; [apply IH; lia|]. intros rr n5 r5 _.
      apply agree_refl.
  Qed.

  Lemma read_roots_mono f f' k r :
    (f <= f')%nat -> agree (read_roots rf f k r) (read_roots rf f' k r).
  Proof.
    intros Hle. revert r; induction k as [|k IH]; intros r; cbn [read_roots].
    - apply agree_refl.
    - apply agree_bind; [apply read_one_mono; exact Hle|]. intros t n1 r1 _.
      apply agree_bind; [apply IH|]. intros ts n2 r2 _. apply agree_refl.
  Qed.

  Lemma pollard_parser_mono f f' r :
    (f <= f')%nat -> agree (pollard_parser rf f r) (pollard_parser rf f' r).
  Proof.
    intros Hle. unfold pollard_parser.
    apply agree_bind; [apply agree_refl|]. intros b1 n1 r1 _.
    apply agree_bind; [apply agree_refl|]. intros b2 n2 r2 _.
    apply agree_bind; [apply read_roots_mono; exact Hle|]. intros ts n3 r3 _.
    apply agree_refl.
  Qed.

  Lemma decode_pollard_gen_mono f f' r :
    (f <= f')%nat -> agree (decode_pollard_gen rf f r) (decode_pollard_gen rf f' r).
  Proof.
    intros Hle Hx. unfold decode_pollard_gen in *.
    pose proof (pollard_parser_mono f f' r Hle) as Hm. unfold agree in Hm.
    destruct (pollard_parser rf f r) as [[[img n] r1]| |] eqn:E.
    - rewrite Hm by discriminate. reflexivity.
    - rewrite Hm by discriminate. reflexivity.
    - contradiction Hx. reflexivity.
  Qed.

  Lemma read_cached_mono f f' n r :
    (f <= f')%nat -> agree (read_cached rf f n r) (read_cached rf f' n r).
  Proof.
    revert f' n r; induction f as [|f IH]; intros f' n r Hle.
    - intros Hx. contradiction Hx. reflexivity.
    - destruct f' as [|f']; [lia|]. cbn [read_cached].
      destruct (n =? 0); [apply agree_refl|].
      apply agree_bind; [apply agree_refl|]. intros h n1 r1 _.
      apply agree_bind; [apply agree_refl|]. intros p n2 r2 _.
      apply agree_bind; [apply IH; lia|]. intros tl n3 r3 _.
      apply agree_refl.
  Qed.

  Lemma read_nodes_mono f f' n r :
    (f <= f')%nat -> agree (read_nodes rf f n r) (read_nodes rf f' n r).
  Proof.
    revert f' n r; induction f as [|f IH]; intros f' n r Hle.
    - intros Hx. contradiction Hx. reflexivity.
    - destruct f' as [|f']; [lia|]. cbn [read_nodes].
      destruct (n =? 0); [apply agree_refl|].
      apply agree_bind; [apply agree_refl|]. intros p n1 r1 _.
      apply agree_bind; [apply agree_refl|]. intros lb n2 r2 _.
      apply agree_bind; [apply IH; lia|]. intros tl n3 r3 _.
      apply agree_refl.
  Qed.

  Lemma map_parser_mono f f' r :
    (f <= f')%nat -> agree (map_parser rf f r) (map_parser rf f' r).
  Proof.
    intros Hle. unfold map_parser.
    apply agree_bind; [apply agree_refl|]. intros rb n1 r1 _.
    apply agree_bind; [apply agree_refl|]. intros nlb n2 r2 _.
    apply agree_bind; [apply agree_refl|]. intros ncb n3 r3 _.
    apply agree_bind; [apply read_cached_mono; exact Hle|]. intros cs n4 r4 _.
    apply agree_bind; [apply agree_refl|]. intros nnb n5 r5 _.
    apply agree_bind; [apply read_nodes_mono; exact Hle|]. intros ns n6 r6 _.
    apply agree_refl.
  Qed.

  Lemma decode_map_gen_mono f f' r :
    (f <= f')%nat -> agree (decode_map_gen rf f r) (decode_map_gen rf f' r).
  Proof.
    intros Hle Hx. unfold decode_map_gen in *.
    pose proof (map_parser_mono f f' r Hle) as Hm. unfold agree in Hm.
    destruct (map_parser rf f r) as [[[img n] r1]| |] eqn:E.
    - rewrite Hm by discriminate. reflexivity.
    - rewrite Hm by discriminate. reflexivity.
    - contradiction Hx. reflexivity.
  Qed.
End GenericParsers.

(** * Parsers over plain byte lists *)
Notation bparser A := (parser (list byte) A).

(** [p] reads exactly [e], yields [v] and reports [length e] bytes *)
Definition parses {A} (p : bparser A) (e : list byte) (v : A) : Prop :=
  forall rest, p (e ++ rest) = Ok (v, length e, rest).
(** [p] fails on every strict prefix of [e] *)
Definition rejects {A} (p : bparser A) (e : list byte) : Prop :=
  forall k, (k < length e)%nat -> p (firstn k e) = Err.
Definition codec {A} (p : bparser A) (e : list byte) (v : A) : Prop :=
  parses p e v /\ rejects p e.
(** the reported count is the number of bytes really consumed *)
Definition shrinks {A} (p : bparser A) : Prop :=
  forall l a n l', p l = Ok (a, n, l') -> (n <= length l)%nat /\ l' = skipn n l.

Lemma take_rf_app a rest k : length a = k -> take_rf k (a ++ rest) = Ok (a, rest).
Proof.
  intros Hk. unfold take_rf. rewrite app_length.
  replace (Nat.leb k (length a + length rest)) with true by (symmetry; apply Nat.leb_le; lia).
  now rewrite firstn_app_exact, skipn_app_exact.
Qed.

Lemma take_rf_short l k : (length l < k)%nat -> take_rf k l = Err.
Proof.
  intros Hk. unfold take_rf.
  replace (Nat.leb k (length l)) with false by (symmetry; apply Nat.leb_gt; lia).
  reflexivity.
Qed.

Lemma codec_read k e : length e = k -> codec (pread take_rf k) e e.
Proof.
  intros Hk. split.
  - intros rest. unfold pread. rewrite take_rf_app by exact Hk. now rewrite Hk.
  - intros j Hj. unfold pread. rewrite take_rf_short; [reflexivity|].
    rewrite firstn_length. lia.
Qed.

Lemma codec_ret {A} (v : A) : codec (pret v) [] v.
Proof.
  split.
  - intros rest. reflexivity.
  - intros k Hk. cbn [length] in Hk. lia.
Qed.

Lemma codec_bind {A B} (p : bparser A) (f : A -> bparser B) e1 e2 v1 v2 :
  codec p e1 v1 -> codec (f v1) e2 v2 -> codec (pbind p f) (e1 ++ e2) v2.
Proof.
  intros [P1 R1] [P2 R2]. split.
  - intros rest. unfold pbind. rewrite <- app_assoc, P1, P2, app_length. reflexivity.
  - intros k Hk. rewrite app_length in Hk. unfold pbind.
    destruct (Nat.lt_ge_cases k (length e1)) as [Hlt|Hge].
    + rewrite firstn_app_lt by lia. rewrite R1 by exact Hlt. reflexivity.
    + rewrite firstn_app_ge by exact Hge. rewrite P1, R2 by lia. reflexivity.
Qed.

Lemma codec_eq {A} (p : bparser A) e e' v : e = e' -> codec p e' v -> codec p e v.
Proof. intros ->. exact (fun H => H). Qed.

Lemma shrinks_ret {A} (v : A) : shrinks (pret v).
Proof.
  intros l a n l' Heq. unfold pret in Heq. injection Heq as <- <- <-.
  split; [lia|reflexivity].
Qed.

Lemma shrinks_read k : shrinks (pread take_rf k).
Proof.
  intros l a n l' Heq. unfold pread, take_rf in Heq.
  destruct (Nat.leb k (length l)) eqn:E; [|discriminate].
  injection Heq as <- <- <-. apply Nat.leb_le in E. split; [exact E|reflexivity].
Qed.

Lemma shrinks_bind {A B} (p : bparser A) (f : A -> bparser B) :
  shrinks p -> (forall a, shrinks (f a)) -> shrinks (pbind p f).
Proof.
  intros Hp Hf l b n l' Heq. unfold pbind in Heq.
  destruct (p l) as [[[a n1] l1]| |] eqn:E1; try discriminate.
  destruct (f a l1) as [[[b' n2] l2]| |] eqn:E2; try discriminate.
  injection Heq as <- <- <-.
  destruct (Hp _ _ _ _ E1) as [Hn1 ->].
  destruct (Hf a _ _ _ _ E2) as [Hn2 ->].
  rewrite skipn_length in Hn2. split; [lia|]. symmetry. apply skipn_plus.
Qed.

Lemma noof_read k l : pread take_rf k l <> OutOfFuel.
Proof. unfold pread, take_rf. destruct (Nat.leb k (length l)); discriminate. Qed.

Lemma noof_bind {A B} (p : bparser A) (f : A -> bparser B) l :
  p l <> OutOfFuel ->
  (forall a n l1, p l = Ok (a, n, l1) -> f a l1 <> OutOfFuel) ->
  pbind p f l <> OutOfFuel.
Proof.
  intros Hp Hf. unfold pbind.
  destruct (p l) as [[[a n1] l1]| |] eqn:E1; [|discriminate|contradiction Hp; reflexivity].
  specialize (Hf a n1 l1 eq_refl).
  destruct (f a l1) as [[[b' n2] l2]| |]; [discriminate|discriminate|exact Hf].
Qed.

Lemma noof_ret {A} (v : A) (l : list byte) : pret v l <> OutOfFuel.
Proof. discriminate. Qed.

Lemma pread_inv k l a n l1 :
  pread take_rf k l = Ok (a, n, l1) ->
  n = k /\ (k <= length l)%nat /\ a = firstn k l /\ l1 = skipn k l.
Proof.
  unfold pread, take_rf. destruct (Nat.leb k (length l)) eqn:E; [|discriminate].
  intros Heq. injection Heq as <- <- <-. apply Nat.leb_le in E. repeat split. exact E.
Qed.

(** * The pointer forest *)
Section PtreeInd.
  Variable P : ptree -> Prop.
  Hypothesis Hnone : forall d lf, P (PNode d lf None).
  Hypothesis Hsome : forall d lf l r, P l -> P r -> P (PNode d lf (Some (l, r))).
  Fixpoint ptree_ind2 (t : ptree) : P t :=
    match t with
    | PNode d lf None => Hnone d lf
    | PNode d lf (Some (l, r)) => Hsome d lf l r (ptree_ind2 l) (ptree_ind2 r)
    end.
End PtreeInd.

Lemma flag_b2n b : flag_is1 [b2n b] = b.
Proof. destruct b; reflexivity. Qed.

Lemma enc_ptree_length t : wf_ptree t -> length (enc_ptree t) = (34 * ptree_count t)%nat.
Proof.
  induction t as [d lf|d lf l r IHl IHr] using ptree_ind2; cbn [wf_ptree enc_ptree ptree_count].
  - intros [Hd _]. rewrite !app_length, Hd. reflexivity.
  - intros [Hd [Hl Hr]]. rewrite !app_length, Hd, IHl, IHr by assumption. cbn [length]. lia.
Qed.

Lemma ptree_count_pos t : (1 <= ptree_count t)%nat.
Proof. destruct t as [d lf [[l r]|]]; cbn [ptree_count]; lia. Qed.

Lemma ptree_height_count t : (ptree_height t < ptree_count t)%nat.
Proof.
  induction t as [d lf|d lf l r IHl IHr] using ptree_ind2; cbn [ptree_height ptree_count]; lia.
Qed.

Lemma wf_ptreeb_sound t : wf_ptreeb t = true -> wf_ptree t.
Proof.
  induction t as [d lf|d lf l r IHl IHr] using ptree_ind2; cbn [wf_ptreeb wf_ptree]; intros Hb.
  - apply andb_true_iff in Hb as [Hd _]. apply Nat.eqb_eq in Hd. split; [exact Hd|exact I].
  - apply andb_true_iff in Hb as [Hd Hb]. apply andb_true_iff in Hb as [Hl Hr].
    apply Nat.eqb_eq in Hd. split; [exact Hd|]. split; [apply IHl; exact Hl|apply IHr; exact Hr].
Qed.

Lemma codec_read_one t :
  wf_ptree t -> forall fuel, (ptree_height t < fuel)%nat ->
  codec (read_one take_rf fuel) (enc_ptree t) t.
Proof.
  induction t as [d lf|d lf l r IHl IHr] using ptree_ind2;
    cbn [wf_ptree ptree_height]; intros Hwf fuel Hfuel;
    (destruct fuel as [|f]; [lia|]); cbn [read_one enc_ptree].
  - destruct Hwf as [Hd _].
    apply codec_bind with (v1 := d); [apply codec_read; exact Hd|].
    apply codec_bind with (v1 := [b2n lf]); [apply codec_read; reflexivity|].
    apply codec_eq with (e' := [0] ++ []); [reflexivity|].
    apply codec_bind with (v1 := [0]); [apply codec_read; reflexivity|].
    cbv beta. change (flag_is1 [0]) with false. cbv iota. rewrite flag_b2n. apply codec_ret.
  - destruct Hwf as [Hd [Hl Hr]].
    apply codec_bind with (v1 := d); [apply codec_read; exact Hd|].
    apply codec_bind with (v1 := [b2n lf]); [apply codec_read; reflexivity|].
    apply codec_bind with (v1 := [1]); [apply codec_read; reflexivity|].
    cbv beta. change (flag_is1 [1]) with true. cbv iota. rewrite flag_b2n.
    apply codec_bind with (v1 := l); [apply IHl; [exact Hl|lia]|].
    apply codec_eq with (e' := enc_ptree r ++ []); [symmetry; apply app_nil_r|].
    apply codec_bind with (v1 := r); [apply IHr; [exact Hr|lia]|].
    apply codec_ret.
Qed.

Lemma codec_read_roots ts fuel :
  Forall wf_ptree ts -> Forall (fun t => (ptree_height t < fuel)%nat) ts ->
  codec (read_roots take_rf fuel (length ts)) (enc_roots ts) ts.
Proof.
  induction ts as [|t ts IH]; intros Hwf Hh; cbn [length read_roots].
  - apply codec_ret.
  - inversion Hwf as [|? ? Hwt Hwts]; subst. inversion Hh as [|? ? Hht Hhts]; subst.
    unfold enc_roots. cbn [flat_map]. fold (enc_roots ts).
    apply codec_bind with (v1 := t); [apply codec_read_one; assumption|].
    apply codec_eq with (e' := enc_roots ts ++ []); [symmetry; apply app_nil_r|].
    apply codec_bind with (v1 := ts); [apply IH; assumption|].
    apply codec_ret.
Qed.

Lemma codec_pollard_parser img fuel :
  wf_pimage img -> Forall (fun t => (ptree_height t < fuel)%nat) (p_roots img) ->
  codec (pollard_parser take_rf fuel) (encode_pollard img) img.
Proof.
  intros (Hnl & Hnd & _ & Hlen & Hwf & _) Hh.
  unfold pollard_parser, encode_pollard.
  apply codec_bind with (v1 := u64le (p_numleaves img)); [apply codec_read, u64le_length|].
  apply codec_bind with (v1 := u64le (p_numdels img)); [apply codec_read, u64le_length|].
  apply codec_eq with (e' := enc_roots (p_roots img) ++ []); [symmetry; apply app_nil_r|].
  rewrite !le_value_u64le by lia. rewrite <- Hlen.
  apply codec_bind with (v1 := p_roots img); [apply codec_read_roots; assumption|].
  destruct img as [nl nd ts]. apply codec_ret.
Qed.

Lemma sub64_small x y : y <= x -> x < 2 ^ 64 -> sub64 x y = x - y.
Proof.
  intros Hy Hx. unfold sub64. rewrite wrap_mod, W_pow.
  replace (x + 2 ^ 64 - y) with ((x - y) + 1 * 2 ^ 64) by lia.
  rewrite N.mod_add by discriminate. apply N.mod_small. lia.
Qed.

Lemma pollard_check_wf img : wf_pimage img -> pollard_check img = true.
Proof.
  intros (Hnl & Hnd & Hint & _ & _ & Hcnt). unfold pollard_check.
  rewrite sub64_small by assumption. rewrite Hcnt.
  apply andb_true_iff. split; [apply N.ltb_lt; exact Hint|apply N.eqb_refl].
Qed.

Lemma enc_roots_length ts :
  Forall wf_ptree ts ->
  length (enc_roots ts) = (34 * fold_right (fun t acc => ptree_count t + acc) 0 ts)%nat.
Proof.
  induction 1 as [|t ts Ht Hts IH]; [reflexivity|].
  unfold enc_roots in *. cbn [flat_map fold_right].
  rewrite app_length, IH, enc_ptree_length by exact Ht. lia.
Qed.

Theorem size_predicted_proof img :
  wf_pimage img ->
  length (encode_pollard img) = (16 + 34 * node_count img)%nat /\
  serialize_size img = length (encode_pollard img).
Proof.
  intros (_ & _ & _ & _ & Hwf & _). unfold encode_pollard, serialize_size, node_count.
  rewrite !app_length, !u64le_length, enc_roots_length by exact Hwf. lia.
Qed.

Lemma heights_bound img :
  wf_pimage img ->
  Forall (fun t => (ptree_height t < S (length (encode_pollard img)))%nat) (p_roots img).
Proof.
  intros Hwf. destruct (size_predicted_proof img Hwf) as [Hlen _]. rewrite Hlen.
  destruct Hwf as (_ & _ & _ & _ & Hwf & _). unfold node_count.
  induction Hwf as [|t ts Ht Hts IH]; constructor.
  - cbn [fold_right]. pose proof (ptree_height_count t). lia.
  - cbn [fold_right]. eapply Forall_impl; [|exact IH]. cbv beta. intros a Ha. lia.
Qed.

(** T1 *)
Theorem pollard_roundtrip_proof img :
  wf_pimage img ->
  decode_pollard (encode_pollard img) = Ok (img, length (encode_pollard img)).
Proof.
  intros Hwf. unfold decode_pollard, decode_pollard_gen.
  destruct (codec_pollard_parser img _ Hwf (heights_bound img Hwf)) as [Hp _].
  specialize (Hp []). rewrite app_nil_r in Hp. rewrite Hp.
  now rewrite pollard_check_wf.
Qed.

(** ** Byte counts and fuel *)
Lemma shrinks_read_one fuel : shrinks (read_one take_rf fuel).
Proof.
  induction fuel as [|f IH]; cbn [read_one].
  - intros l a n l' Heq. discriminate.
  - apply shrinks_bind; [apply shrinks_read|]. intros d.
    apply shrinks_bind; [apply shrinks_read|]. intros b1.
    apply shrinks_bind; [apply shrinks_read|]. intros b2.
    destruct (flag_is1 b2); [|apply shrinks_ret].
    apply shrinks_bind; [exact IH|]. intros l.
    apply shrinks_bind; [exact IH|]. intros r. apply shrinks_ret.
Qed.

Lemma shrinks_read_roots fuel k : shrinks (read_roots take_rf fuel k).
Proof.
  induction k as [|k IH]; cbn [read_roots]; [apply shrinks_ret|].
  apply shrinks_bind; [apply shrinks_read_one|]. intros t.
  apply shrinks_bind; [exact IH|]. intros ts. apply shrinks_ret.
Qed.

Lemma shrinks_pollard_parser fuel : shrinks (pollard_parser take_rf fuel).
Proof.
  unfold pollard_parser.
  apply shrinks_bind; [apply shrinks_read|]. intros b1.
  apply shrinks_bind; [apply shrinks_read|]. intros b2.
  apply shrinks_bind; [apply shrinks_read_roots|]. intros ts. apply shrinks_ret.
Qed.

Lemma noof_read_one fuel l : (length l < fuel)%nat -> read_one take_rf fuel l <> OutOfFuel.
Proof.
  revert l; induction fuel as [|f IH]; intros l Hl; [lia|]. cbn [read_one].
  apply noof_bind; [apply noof_read|]. intros d n1 l1 E1.
  apply pread_inv in E1 as (_ & Hk1 & _ & ->).
  apply noof_bind; [apply noof_read|]. intros b1 n2 l2 E2.
  apply pread_inv in E2 as (_ & Hk2 & _ & ->).
  apply noof_bind; [apply noof_read|]. intros b2 n3 l3 E3.
  apply pread_inv in E3 as (_ & Hk3 & _ & ->).
  rewrite !skipn_length in *.
  destruct (flag_is1 b2); [|apply noof_ret].
  apply noof_bind; [apply IH; rewrite !skipn_length; lia|]. intros tl n4 l4 E4.
  apply shrinks_read_one in E4 as [Hn4 ->]. rewrite !skipn_length in Hn4.
  apply noof_bind; [apply IH; rewrite !skipn_length; lia|]. intros tr n5 l5 E5.
  apply noof_ret.
Qed.

Lemma noof_read_roots fuel k l :
  (length l < fuel)%nat -> read_roots take_rf fuel k l <> OutOfFuel.
Proof.
  revert l; induction k as [|k IH]; intros l Hl; cbn [read_roots]; [apply noof_ret|].
  apply noof_bind; [apply noof_read_one; exact Hl|]. intros t n1 l1 E1.
  apply shrinks_read_one in E1 as [Hn1 ->].
  apply noof_bind; [apply IH; rewrite skipn_length; lia|]. intros ts n2 l2 E2.
  apply noof_ret.
Qed.

Lemma noof_pollard_parser fuel l :
  (length l < fuel)%nat -> pollard_parser take_rf fuel l <> OutOfFuel.
Proof.
  intros Hl. unfold pollard_parser.
  apply noof_bind; [apply noof_read|]. intros b1 n1 l1 E1.
  apply pread_inv in E1 as (_ & Hk1 & _ & ->).
  apply noof_bind; [apply noof_read|]. intros b2 n2 l2 E2.
  apply pread_inv in E2 as (_ & Hk2 & _ & ->).
  apply noof_bind; [apply noof_read_roots; rewrite !skipn_length; lia|]. intros ts n3 l3 E3.
  apply noof_ret.
Qed.

(** the entry point never runs out of fuel, whatever the input *)
Theorem decode_pollard_no_fuel_proof l : decode_pollard l <> OutOfFuel.
Proof.
  unfold decode_pollard, decode_pollard_gen.
  pose proof (noof_pollard_parser (S (length l)) l (Nat.lt_succ_diag_r _)) as Hn.
  destruct (pollard_parser take_rf (S (length l)) l) as [[[img n] l1]| |];
    [destruct (pollard_check img); discriminate|discriminate|contradiction Hn; reflexivity].
Qed.

(** the count returned on success never exceeds the bytes available (the parser's count is the
    number of bytes it removed from the input: [shrinks]) *)
Theorem decode_pollard_consumed_proof l img n :
  decode_pollard l = Ok (img, n) -> (n <= length l)%nat.
Proof.
  unfold decode_pollard, decode_pollard_gen. intros Heq.
  destruct (pollard_parser take_rf (S (length l)) l) as [[[img' n'] l1]| |] eqn:E;
    try discriminate.
  destruct (pollard_check img'); [|discriminate]. injection Heq as <- <-.
  apply shrinks_pollard_parser in E as [Hn _]. exact Hn.
Qed.

(** T4, strong form *)
Theorem pollard_prefix_rejected_proof img k :
  wf_pimage img -> (k < length (encode_pollard img))%nat ->
  decode_pollard (firstn k (encode_pollard img)) = Err.
Proof.
  intros Hwf Hk.
  destruct (codec_pollard_parser img _ Hwf (heights_bound img Hwf)) as [_ Hr].
  specialize (Hr k Hk).
  set (l' := firstn k (encode_pollard img)) in *.
  assert (Hlen : (length l' <= length (encode_pollard img))%nat)
    by (unfold l'; rewrite firstn_length; lia).
  pose proof (decode_pollard_gen_mono _ take_rf (S (length l')) (S (length (encode_pollard img)))
                l' ltac:(lia) (decode_pollard_no_fuel_proof l')) as Hm.
  unfold decode_pollard. rewrite <- Hm. unfold decode_pollard_gen. rewrite Hr. reflexivity.
Qed.

(** * Failing sinks *)
Lemma write_from_spec lim w cs :
  (w <= lim)%nat ->
  write_from lim w cs =
  if Nat.leb (w + length (concat cs)) lim then Ok (w + length (concat cs))%nat else Err.
Proof.
  revert w; induction cs as [|c t IH]; intros w Hw; cbn [write_from concat length].
  - rewrite Nat.add_0_r. replace (Nat.leb w lim) with true by (symmetry; apply Nat.leb_le; exact Hw).
    reflexivity.
  - rewrite app_length. destruct (Nat.leb (w + length c) lim) eqn:E.
    + apply Nat.leb_le in E. rewrite IH by exact E. now rewrite Nat.add_assoc.
    + apply Nat.leb_gt in E.
      replace (Nat.leb (w + (length c + length (concat t))) lim) with false
        by (symmetry; apply Nat.leb_gt; lia).
      reflexivity.
Qed.

Lemma write_with_limit_spec lim cs :
  write_with_limit lim cs =
  if Nat.leb (length (concat cs)) lim then Ok (length (concat cs)) else Err.
Proof. unfold write_with_limit. rewrite write_from_spec by lia. reflexivity. Qed.

Lemma concat_chunks_ptree t : concat (chunks_ptree t) = enc_ptree t.
Proof.
  induction t as [d lf|d lf l r IHl IHr] using ptree_ind2; cbn [chunks_ptree concat enc_ptree].
  - reflexivity.
  - now rewrite concat_app, IHl, IHr.
Qed.

Lemma concat_chunks_pollard img : concat (chunks_pollard img) = encode_pollard img.
Proof.
  unfold chunks_pollard, encode_pollard. cbn [concat]. do 2 f_equal.
  induction (p_roots img) as [|t ts IH]; [reflexivity|].
  unfold enc_roots in *. cbn [flat_map]. now rewrite concat_app, IH, concat_chunks_ptree.
Qed.

(** T6 (pointer forest) *)
Theorem pollard_write_fail_err_proof img lim :
  ((lim < length (encode_pollard img))%nat ->
     write_with_limit lim (chunks_pollard img) = Err) /\
  ((length (encode_pollard img) <= lim)%nat ->
     write_with_limit lim (chunks_pollard img) = Ok (length (encode_pollard img))).
Proof.
  rewrite write_with_limit_spec, concat_chunks_pollard. split; intros Hl.
  - replace (Nat.leb (length (encode_pollard img)) lim) with false
      by (symmetry; apply Nat.leb_gt; lia).
    reflexivity.
  - replace (Nat.leb (length (encode_pollard img)) lim) with true
      by (symmetry; apply Nat.leb_le; lia).
    reflexivity.
Qed.

(** * Chunked readers *)
Lemma read_full_loop_spec fuel : forall need acc d cs e,
  (need <= fuel)%nat ->
  if Nat.leb need (length d)
  then exists cs', read_full_loop fuel need acc (mkReader d cs e) =
                   Ok (acc ++ firstn need d, mkReader (skipn need d) cs' e)
  else read_full_loop fuel need acc (mkReader d cs e) = Err.
Proof.
  induction fuel as [|f IH]; intros need acc d cs e Hfuel.
  - replace need with 0%nat by lia. cbn [Nat.leb read_full_loop firstn skipn].
    exists cs. now rewrite app_nil_r.
  - destruct need as [|m].
    + cbn [Nat.leb read_full_loop firstn skipn]. exists cs. now rewrite app_nil_r.
    + cbn [read_full_loop]. unfold read1. cbn [r_data r_chunks r_eofdata].
      set (c := match cs with [] => 1%nat | c :: _ => Nat.max 1 c end).
      assert (Hc : (1 <= c)%nat) by (unfold c; destruct cs; lia).
      set (n := Nat.min (S m) (Nat.min c (length d))).
      assert (Hbs : length (firstn n d) = n) by (rewrite firstn_length; lia).
      rewrite Hbs.
      destruct d as [|x d'].
      * cbn [length] in n. replace n with 0%nat by lia. cbn [Nat.sub Nat.leb]. reflexivity.
      * set (d := x :: d') in *.
        assert (Hd : (1 <= length d)%nat) by (unfold d; cbn [length]; lia).
        destruct (S m - n)%nat as [|need'] eqn:En.
        -- replace (Nat.leb (S m) (length d)) with true by (symmetry; apply Nat.leb_le; lia).
           exists (tl cs). replace n with (S m) by lia. reflexivity.
        -- destruct (e && Nat.eqb (length (skipn n d)) 0) eqn:Eeof.
           ++ apply andb_true_iff in Eeof as [_ Hz]. apply Nat.eqb_eq in Hz.
              rewrite skipn_length in Hz.
              replace (Nat.leb (S m) (length d)) with false by (symmetry; apply Nat.leb_gt; lia).
              reflexivity.
           ++ specialize (IH (S need') (acc ++ firstn n d) (skipn n d) (tl cs) e ltac:(lia)).
              rewrite skipn_length in IH.
              destruct (Nat.leb (S m) (length d)) eqn:Eleb.
              ** apply Nat.leb_le in Eleb.
                 replace (Nat.leb (S need') (length d - n)) with true in IH
                   by (symmetry; apply Nat.leb_le; lia).
                 destruct IH as [cs' IH]. exists cs'. rewrite IH.
                 replace (S m) with (n + S need')%nat by lia.
                 now rewrite firstn_plus, skipn_plus, app_assoc.
              ** apply Nat.leb_gt in Eleb.
                 replace (Nat.leb (S need') (length d - n)) with false in IH
                   by (symmetry; apply Nat.leb_gt; lia).
                 exact IH.
Qed.

(** [io.ReadFull] over any chunking = taking [k] bytes from the stream *)
Lemma read_full_spec k d cs e :
  if Nat.leb k (length d)
  then exists cs', read_full k (mkReader d cs e) = Ok (firstn k d, mkReader (skipn k d) cs' e)
  else read_full k (mkReader d cs e) = Err.
Proof. apply (read_full_loop_spec k k [] d cs e). lia. Qed.

Definition rel_res {A B} (Q : A -> B -> Prop) (x : res A) (y : res B) : Prop :=
  match x, y with
  | Ok a, Ok b => Q a b
  | Err, Err => True
  | OutOfFuel, OutOfFuel => True
  | _, _ => False
  end.

Lemma rel_res_eq {A} (x y : res A) : rel_res eq x y -> x = y.
Proof. destruct x, y; cbn [rel_res]; intros H; try contradiction; congruence. Qed.

Section Sim.
  Variables R1 R2 : Type.
  Variable rf1 : nat -> R1 -> res (list byte * R1).
  Variable rf2 : nat -> R2 -> res (list byte * R2).
  Variable sim : R1 -> R2 -> Prop.
  Hypothesis rf_sim : forall k r1 r2, sim r1 r2 ->
    rel_res (fun x y => fst x = fst y /\ sim (snd x) (snd y)) (rf1 k r1) (rf2 k r2).

  Definition psim {A} (p1 : parser R1 A) (p2 : parser R2 A) : Prop :=
    forall r1 r2, sim r1 r2 ->
    rel_res (fun x y => fst (fst x) = fst (fst y) /\ snd (fst x) = snd (fst y) /\
                        sim (snd x) (snd y)) (p1 r1) (p2 r2).

  Lemma psim_ret {A} (v : A) : psim (pret v) (pret v).
  Proof. intros r1 r2 Hs. cbn. auto. Qed.

  Lemma psim_read k : psim (pread rf1 k) (pread rf2 k).
  Proof.
    intros r1 r2 Hs. specialize (rf_sim k r1 r2 Hs). unfold pread.
    destruct (rf1 k r1) as [[a r1']| |], (rf2 k r2) as [[b r2']| |];
      cbn [rel_res fst snd] in *; try contradiction; try exact I.
    destruct rf_sim as [-> Hs']. auto.
  Qed.

  Lemma psim_bind {A B} (p1 : parser R1 A) (p2 : parser R2 A)
        (f1 : A -> parser R1 B) (f2 : A -> parser R2 B) :
    psim p1 p2 -> (forall a, psim (f1 a) (f2 a)) -> psim (pbind p1 f1) (pbind p2 f2).
  Proof.
    intros Hp Hf r1 r2 Hs. specialize (Hp r1 r2 Hs). unfold pbind.
    destruct (p1 r1) as [[[a n] r1']| |], (p2 r2) as [[[a' n'] r2']| |];
      cbn [rel_res fst snd] in *; try contradiction; try exact I.
    destruct Hp as (<- & <- & Hs'). specialize (Hf a r1' r2' Hs').
    destruct (f1 a r1') as [[[b m] r1'']| |], (f2 a r2') as [[[b' m'] r2'']| |];
      cbn [rel_res fst snd] in *; try contradiction; try exact I.
    destruct Hf as (<- & <- & Hs''). auto.
  Qed.

  Lemma psim_read_one fuel : psim (read_one rf1 fuel) (read_one rf2 fuel).
  Proof.
    induction fuel as [|f IH]; cbn [read_one].
    - intros r1 r2 _. exact I.
    - apply psim_bind; [apply psim_read|]. intros d.
      apply psim_bind; [apply psim_read|]. intros b1.
      apply psim_bind; [apply psim_read|]. intros b2.
      destruct (flag_is1 b2); [|apply psim_ret].
      apply psim_bind; [exact IH|]. intros l.
      apply psim_bind; [exact IH|]. intros r. apply psim_ret.
  Qed.

  Lemma psim_read_roots fuel k : psim (read_roots rf1 fuel k) (read_roots rf2 fuel k).
  Proof.
    induction k as [|k IH]; cbn [read_roots]; [apply psim_ret|].
    apply psim_bind; [apply psim_read_one|]. intros t.
    apply psim_bind; [exact IH|]. intros ts. apply psim_ret.
  Qed.

  Lemma psim_pollard_parser fuel : psim (pollard_parser rf1 fuel) (pollard_parser rf2 fuel).
  Proof.
    unfold pollard_parser.
    apply psim_bind; [apply psim_read|]. intros b1.
    apply psim_bind; [apply psim_read|]. intros b2.
    apply psim_bind; [apply psim_read_roots|]. intros ts. apply psim_ret.
  Qed.

  Lemma psim_read_cached fuel : forall n, psim (read_cached rf1 fuel n) (read_cached rf2 fuel n).
  Proof.
    induction fuel as [|f IH]; intros n; cbn [read_cached].
    - intros r1 r2 _. exact I.
    - destruct (n =? 0); [apply psim_ret|].
      apply psim_bind; [apply psim_read|]. intros h.
      apply psim_bind; [apply psim_read|]. intros p.
      apply psim_bind; [apply IH|]. intros tl. apply psim_ret.
  Qed.

  Lemma psim_read_nodes fuel : forall n, psim (read_nodes rf1 fuel n) (read_nodes rf2 fuel n).
  Proof.
    induction fuel as [|f IH]; intros n; cbn [read_nodes].
    - intros r1 r2 _. exact I.
    - destruct (n =? 0); [apply psim_ret|].
      apply psim_bind; [apply psim_read|]. intros p.
      apply psim_bind; [apply psim_read|]. intros lb.
      apply psim_bind; [apply IH|]. intros tl. apply psim_ret.
  Qed.

  Lemma psim_map_parser fuel : psim (map_parser rf1 fuel) (map_parser rf2 fuel).
  Proof.
    unfold map_parser.
    apply psim_bind; [apply psim_read|]. intros rb.
    apply psim_bind; [apply psim_read|]. intros nlb.
    apply psim_bind; [apply psim_read|]. intros ncb.
    apply psim_bind; [apply psim_read_cached|]. intros cs.
    apply psim_bind; [apply psim_read|]. intros nnb.
    apply psim_bind; [apply psim_read_nodes|]. intros ns. apply psim_ret.
  Qed.

  Lemma decode_pollard_gen_sim fuel r1 r2 :
    sim r1 r2 -> decode_pollard_gen rf1 fuel r1 = decode_pollard_gen rf2 fuel r2.
  Proof.
    intros Hs. pose proof (psim_pollard_parser fuel r1 r2 Hs) as Hp. unfold decode_pollard_gen.
    destruct (pollard_parser rf1 fuel r1) as [[[a n] r1']| |],
             (pollard_parser rf2 fuel r2) as [[[a' n'] r2']| |];
      cbn [rel_res fst snd] in Hp; try contradiction; try reflexivity.
    destruct Hp as (<- & <- & _). reflexivity.
  Qed.

  Lemma decode_map_gen_sim fuel r1 r2 :
    sim r1 r2 -> decode_map_gen rf1 fuel r1 = decode_map_gen rf2 fuel r2.
  Proof.
    intros Hs. pose proof (psim_map_parser fuel r1 r2 Hs) as Hp. unfold decode_map_gen.
    destruct (map_parser rf1 fuel r1) as [[[a n] r1']| |],
             (map_parser rf2 fuel r2) as [[[a' n'] r2']| |];
      cbn [rel_res fst snd] in Hp; try contradiction; try reflexivity.
    destruct Hp as (<- & <- & _). reflexivity.
  Qed.
End Sim.

Lemma read_full_sim k (r : reader) (l : list byte) :
  r_data r = l ->
  rel_res (fun x y => fst x = fst y /\ r_data (snd x) = snd y) (read_full k r) (take_rf k l).
Proof.
  intros <-. destruct r as [d cs e]. cbn [r_data]. pose proof (read_full_spec k d cs e) as Hs.
  unfold take_rf. destruct (Nat.leb k (length d)).
  - destruct Hs as [cs' ->]. cbn. auto.
  - rewrite Hs. exact I.
Qed.

(** T3 *)
Theorem pollard_chunk_independent_proof d cs e :
  decode_pollard_chunked (mkReader d cs e) = decode_pollard d.
Proof.
  unfold decode_pollard_chunked, decode_pollard. cbn [r_data].
  apply decode_pollard_gen_sim with (sim := fun r l => r_data r = l); [|reflexivity].
  intros k r1 r2 Hs. apply read_full_sim. exact Hs.
Qed.

Theorem map_chunk_independent_proof d cs e :
  decode_map_chunked (mkReader d cs e) = decode_map d.
Proof.
  unfold decode_map_chunked, decode_map. cbn [r_data].
  apply decode_map_gen_sim with (sim := fun r l => r_data r = l); [|reflexivity].
  intros k r1 r2 Hs. apply read_full_sim. exact Hs.
Qed.

(** * The map forest *)
Lemma bytes_eqb_eq a b : bytes_eqb a b = true <-> a = b.
Proof.
  revert b; induction a as [|x a IH]; intros [|y b]; cbn [bytes_eqb]; split; intros H;
    try reflexivity; try discriminate.
  - apply andb_true_iff in H as [Hx Ha]. apply N.eqb_eq in Hx. apply IH in Ha. congruence.
  - injection H as -> ->. apply andb_true_iff. split; [apply N.eqb_refl|now apply IH].
Qed.

Section AssocFacts.
  Variables K V : Type.
  Variable eqb : K -> K -> bool.
  Hypothesis eqb_eq : forall a b, eqb a b = true <-> a = b.

  Lemma put_fresh k v (m : list (K * V)) : ~ In k (map fst m) -> put eqb k v m = m ++ [(k, v)].
  Proof.
    induction m as [|[k' v'] m IH]; intros Hn; cbn [put app]; [reflexivity|].
    cbn [map fst In] in Hn.
    destruct (eqb k k') eqn:E.
    - apply eqb_eq in E. subst. exfalso. apply Hn. now left.
    - rewrite IH; [reflexivity|]. intros Hin. apply Hn. now right.
  Qed.

  Lemma put_all_from (l m : list (K * V)) :
    NoDup (map fst (m ++ l)) ->
    fold_left (fun m kv => put eqb (fst kv) (snd kv) m) l m = m ++ l.
  Proof.
    revert m; induction l as [|[k v] l IH]; intros m Hnd; cbn [fold_left fst snd].
    - now rewrite app_nil_r.
    - rewrite put_fresh.
      + rewrite IH; [now rewrite <- app_assoc|]. now rewrite <- app_assoc.
      + rewrite map_app in Hnd. cbn [map fst] in Hnd. apply NoDup_remove_2 in Hnd.
        intros Hin. apply Hnd. apply in_or_app. now left.
  Qed.

  (** a writer's map has no duplicate keys: the reader's [Put]s rebuild the same list *)
  Lemma put_all_nodup (l : list (K * V)) : NoDup (map fst l) -> put_all eqb l = l.
  Proof. intros Hnd. unfold put_all. now rewrite put_all_from. Qed.

  Lemma assoc_In_nodup k v (m : list (K * V)) :
    NoDup (map fst m) -> In (k, v) m -> assoc eqb k m = Some v.
  Proof.
    induction m as [|[k' v'] m IH]; intros Hnd Hin; [contradiction|].
    cbn [assoc]. cbn [map fst] in Hnd. inversion Hnd as [|? ? Hnk Hnd']; subst.
    destruct Hin as [Heq|Hin].
    - injection Heq as -> ->. replace (eqb k k) with true by (symmetry; now apply eqb_eq).
      reflexivity.
    - destruct (eqb k k') eqn:E.
      + apply eqb_eq in E. subst. exfalso. apply Hnk.
        change k' with (fst (k', v)). now apply in_map.
      + now apply IH.
  Qed.

  Lemma assoc_Some_In k v (m : list (K * V)) : assoc eqb k m = Some v -> In (k, v) m.
  Proof.
    induction m as [|[k' v'] m IH]; cbn [assoc]; [discriminate|].
    destruct (eqb k k') eqn:E.
    - intros Heq. injection Heq as ->. apply eqb_eq in E. subst. now left.
    - intros Heq. right. now apply IH.
  Qed.
End AssocFacts.

Lemma count_int_small x : x < 2 ^ 63 -> count_int x = x.
Proof. intros Hx. unfold count_int. now replace (x <? 2 ^ 63) with true by (symmetry; now apply N.ltb_lt). Qed.

Lemma of_nat_S_eqb0 n : (N.of_nat (S n) =? 0) = false.
Proof. apply N.eqb_neq. lia. Qed.

Lemma pred_of_nat_S n : N.pred (N.of_nat (S n)) = N.of_nat n.
Proof. lia. Qed.

Lemma codec_read_cached cs : forall fuel,
  Forall (fun e => length (fst e) = 32%nat /\ snd e < 2 ^ 64) cs ->
  (length cs < fuel)%nat ->
  codec (read_cached take_rf fuel (N.of_nat (length cs))) (enc_cached cs) cs.
Proof.
  induction cs as [|[h p] cs IH]; intros fuel Hwf Hfuel; (destruct fuel as [|f]; [lia|]);
    cbn [length] in *.
  - cbn [read_cached]. change (N.of_nat 0 =? 0) with true. cbv iota. apply codec_ret.
  - cbn [read_cached]. rewrite of_nat_S_eqb0, pred_of_nat_S.
    inversion Hwf as [|? ? [Hh Hp] Hwf']; subst. cbn [fst snd] in Hh, Hp.
    unfold enc_cached. cbn [flat_map fst snd]. fold (enc_cached cs).
    apply codec_eq with (e' := h ++ u64le p ++ enc_cached cs ++ []);
      [now rewrite app_nil_r, app_assoc|].
    apply codec_bind with (v1 := h); [apply codec_read; exact Hh|].
    apply codec_bind with (v1 := u64le p); [apply codec_read, u64le_length|].
    apply codec_bind with (v1 := cs); [apply IH; [exact Hwf'|lia]|].
    rewrite le_value_u64le by exact Hp. apply codec_ret.
Qed.

Lemma nth_app_exact {A} (a : list A) x d n : length a = n -> nth n (a ++ [x]) d = x.
Proof. intros <-. rewrite app_nth2 by lia. now rewrite Nat.sub_diag. Qed.

Lemma b2n_eqb1 b : (b2n b =? 1) = b.
Proof. destruct b; reflexivity. Qed.

Lemma codec_read_nodes ns : forall fuel,
  Forall (fun e => fst e < 2 ^ 64 /\ length (fst (snd e)) = 32%nat) ns ->
  (length ns < fuel)%nat ->
  codec (read_nodes take_rf fuel (N.of_nat (length ns))) (enc_nodes ns) ns.
Proof.
  induction ns as [|[p [h b]] ns IH]; intros fuel Hwf Hfuel; (destruct fuel as [|f]; [lia|]);
    cbn [length] in *.
  - cbn [read_nodes]. change (N.of_nat 0 =? 0) with true. cbv iota. apply codec_ret.
  - cbn [read_nodes]. rewrite of_nat_S_eqb0, pred_of_nat_S.
    inversion Hwf as [|? ? [Hp Hh] Hwf']; subst. cbn [fst snd] in Hh, Hp.
    unfold enc_nodes. cbn [flat_map fst snd]. fold (enc_nodes ns).
    apply codec_eq with (e' := u64le p ++ (h ++ [b2n b]) ++ enc_nodes ns ++ []);
      [now rewrite app_nil_r, <- !app_assoc|].
    apply codec_bind with (v1 := u64le p); [apply codec_read, u64le_length|].
    apply codec_bind with (v1 := h ++ [b2n b]);
      [apply codec_read; rewrite app_length, Hh; reflexivity|].
    apply codec_bind with (v1 := ns); [apply IH; [exact Hwf'|lia]|].
    rewrite le_value_u64le by exact Hp.
    rewrite firstn_app_exact by exact Hh. rewrite nth_app_exact by exact Hh.
    rewrite b2n_eqb1. apply codec_ret.
Qed.

Lemma N_eqb_eq' a b : N.eqb a b = true <-> a = b.
Proof. apply N.eqb_eq. Qed.

Lemma codec_map_parser img fuel :
  wf_mimage img ->
  (length (m_cached img) < fuel)%nat -> (length (m_nodes img) < fuel)%nat ->
  codec (map_parser take_rf fuel) (encode_map img) img.
Proof.
  intros (Hrows & Hnl & Hnc & Hnn & Hwc & Hwn & Hdc & Hdn & _) Hfc Hfn.
  unfold map_parser, encode_map.
  apply codec_bind with (v1 := [m_rows img]); [apply codec_read; reflexivity|].
  apply codec_bind with (v1 := u64le (m_numleaves img)); [apply codec_read, u64le_length|].
  apply codec_bind with (v1 := u64le (N.of_nat (length (m_cached img))));
    [apply codec_read, u64le_length|].
  rewrite le_value_u64le by lia. rewrite count_int_small by exact Hnc.
  apply codec_bind with (v1 := m_cached img); [apply codec_read_cached; assumption|].
  apply codec_bind with (v1 := u64le (N.of_nat (length (m_nodes img))));
    [apply codec_read, u64le_length|].
  rewrite le_value_u64le by lia. rewrite count_int_small by exact Hnn.
  apply codec_eq with (e' := enc_nodes (m_nodes img) ++ []); [symmetry; apply app_nil_r|].
  apply codec_bind with (v1 := m_nodes img); [apply codec_read_nodes; assumption|].
  rewrite le_value_u64le by exact Hnl.
  rewrite (put_all_nodup _ _ bytes_eqb bytes_eqb_eq) by exact Hdc.
  rewrite (put_all_nodup _ _ N.eqb N_eqb_eq') by exact Hdn.
  cbn [hd]. destruct img as [rows nl cs ns]. apply codec_ret.
Qed.

Lemma map_check_wf img : wf_mimage img -> map_check img = true.
Proof.
  intros (_ & _ & _ & _ & _ & _ & _ & Hdn & Hcons). unfold map_check.
  apply forallb_forall. intros [h p] Hin. cbn [fst snd].
  destruct (Hcons h p Hin) as [b Hb].
  rewrite (assoc_In_nodup _ _ N.eqb N_eqb_eq' p (h, b)) by assumption.
  cbn [fst]. now apply bytes_eqb_eq.
Qed.

Lemma enc_cached_length cs : (length cs <= length (enc_cached cs))%nat.
Proof.
  induction cs as [|[h p] cs IH]; [cbn; lia|].
  unfold enc_cached in *. cbn [flat_map length fst snd]. rewrite !app_length, u64le_length. lia.
Qed.

Lemma enc_nodes_length ns : (length ns <= length (enc_nodes ns))%nat.
Proof.
  induction ns as [|[p [h b]] ns IH]; [cbn; lia|].
  unfold enc_nodes in *. cbn [flat_map length fst snd]. rewrite !app_length, u64le_length. lia.
Qed.

Lemma map_fuel_bound img :
  (length (m_cached img) < S (length (encode_map img)))%nat /\
  (length (m_nodes img) < S (length (encode_map img)))%nat.
Proof.
  unfold encode_map. rewrite !app_length.
  pose proof (enc_cached_length (m_cached img)). pose proof (enc_nodes_length (m_nodes img)).
  lia.
Qed.

(** T2 *)
Theorem map_roundtrip_proof img :
  wf_mimage img -> decode_map (encode_map img) = Ok (img, length (encode_map img)).
Proof.
  intros Hwf. unfold decode_map, decode_map_gen.
  destruct (map_fuel_bound img) as [Hc Hn].
  destruct (codec_map_parser img _ Hwf Hc Hn) as [Hp _].
  specialize (Hp []). rewrite app_nil_r in Hp. rewrite Hp.
  now rewrite map_check_wf.
Qed.

Lemma shrinks_read_cached fuel : forall n, shrinks (read_cached take_rf fuel n).
Proof.
  induction fuel as [|f IH]; intros n; cbn [read_cached].
  - intros l a k l' Heq. discriminate.
  - destruct (n =? 0); [apply shrinks_ret|].
    apply shrinks_bind; [apply shrinks_read|]. intros h.
    apply shrinks_bind; [apply shrinks_read|]. intros p.
    apply shrinks_bind; [apply IH|]. intros tl. apply shrinks_ret.
Qed.

Lemma shrinks_read_nodes fuel : forall n, shrinks (read_nodes take_rf fuel n).
Proof.
  induction fuel as [|f IH]; intros n; cbn [read_nodes].
  - intros l a k l' Heq. discriminate.
  - destruct (n =? 0); [apply shrinks_ret|].
    apply shrinks_bind; [apply shrinks_read|]. intros p.
    apply shrinks_bind; [apply shrinks_read|]. intros lb.
    apply shrinks_bind; [apply IH|]. intros tl. apply shrinks_ret.
Qed.

Lemma shrinks_map_parser fuel : shrinks (map_parser take_rf fuel).
Proof.
  unfold map_parser.
  apply shrinks_bind; [apply shrinks_read|]. intros rb.
  apply shrinks_bind; [apply shrinks_read|]. intros nlb.
  apply shrinks_bind; [apply shrinks_read|]. intros ncb.
  apply shrinks_bind; [apply shrinks_read_cached|]. intros cs.
  apply shrinks_bind; [apply shrinks_read|]. intros nnb.
  apply shrinks_bind; [apply shrinks_read_nodes|]. intros ns. apply shrinks_ret.
Qed.

Lemma noof_read_cached fuel : forall n l,
  (length l < fuel)%nat -> read_cached take_rf fuel n l <> OutOfFuel.
Proof.
  induction fuel as [|f IH]; intros n l Hl; [lia|]. cbn [read_cached].
  destruct (n =? 0); [apply noof_ret|].
  apply noof_bind; [apply noof_read|]. intros h n1 l1 E1.
  apply pread_inv in E1 as (_ & Hk1 & _ & ->).
  apply noof_bind; [apply noof_read|]. intros p n2 l2 E2.
  apply pread_inv in E2 as (_ & Hk2 & _ & ->).
  rewrite !skipn_length in *.
  apply noof_bind; [apply IH; rewrite !skipn_length; lia|]. intros tl n3 l3 E3.
  apply noof_ret.
Qed.

Lemma noof_read_nodes fuel : forall n l,
  (length l < fuel)%nat -> read_nodes take_rf fuel n l <> OutOfFuel.
Proof.
  induction fuel as [|f IH]; intros n l Hl; [lia|]. cbn [read_nodes].
  destruct (n =? 0); [apply noof_ret|].
  apply noof_bind; [apply noof_read|]. intros p n1 l1 E1.
  apply pread_inv in E1 as (_ & Hk1 & _ & ->).
  apply noof_bind; [apply noof_read|]. intros lb n2 l2 E2.
  apply pread_inv in E2 as (_ & Hk2 & _ & ->).
  rewrite !skipn_length in *.
  apply noof_bind; [apply IH; rewrite !skipn_length; lia|]. intros tl n3 l3 E3.
  apply noof_ret.
Qed.

Lemma noof_map_parser fuel l :
  (length l < fuel)%nat -> map_parser take_rf fuel l <> OutOfFuel.
Proof.
  intros Hl. unfold map_parser.
  apply noof_bind; [apply noof_read|]. intros rb n1 l1 E1.
  apply pread_inv in E1 as (_ & Hk1 & _ & ->).
  apply noof_bind; [apply noof_read|]. intros nlb n2 l2 E2.
  apply pread_inv in E2 as (_ & Hk2 & _ & ->).
  apply noof_bind; [apply noof_read|]. intros ncb n3 l3 E3.
  apply pread_inv in E3 as (_ & Hk3 & _ & ->).
  apply noof_bind; [apply noof_read_cached; rewrite !skipn_length; lia|]. intros cs n4 l4 E4.
  apply shrinks_read_cached in E4 as [Hn4 ->].
  apply noof_bind; [apply noof_read|]. intros nnb n5 l5 E5.
  apply pread_inv in E5 as (_ & Hk5 & _ & ->).
  apply noof_bind; [apply noof_read_nodes; rewrite !skipn_length; lia|]. intros ns n6 l6 E6.
  apply noof_ret.
Qed.

Theorem decode_map_no_fuel_proof l : decode_map l <> OutOfFuel.
Proof.
  unfold decode_map, decode_map_gen.
  pose proof (noof_map_parser (S (length l)) l (Nat.lt_succ_diag_r _)) as Hn.
  destruct (map_parser take_rf (S (length l)) l) as [[[img n] l1]| |];
    [destruct (map_check img); discriminate|discriminate|contradiction Hn; reflexivity].
Qed.

Theorem decode_map_consumed_proof l img n :
  decode_map l = Ok (img, n) -> (n <= length l)%nat.
Proof.
  unfold decode_map, decode_map_gen. intros Heq.
  destruct (map_parser take_rf (S (length l)) l) as [[[img' n'] l1]| |] eqn:E;
    try discriminate.
  destruct (map_check img'); [|discriminate]. injection Heq as <- <-.
  apply shrinks_map_parser in E as [Hn _]. exact Hn.
Qed.

(** T4 (map forest) *)
Theorem map_prefix_rejected_proof img k :
  wf_mimage img -> (k < length (encode_map img))%nat ->
  decode_map (firstn k (encode_map img)) = Err.
Proof.
  intros Hwf Hk. destruct (map_fuel_bound img) as [Hc Hn].
  destruct (codec_map_parser img _ Hwf Hc Hn) as [_ Hr].
  specialize (Hr k Hk).
  set (l' := firstn k (encode_map img)) in *.
  assert (Hlen : (length l' <= length (encode_map img))%nat)
    by (unfold l'; rewrite firstn_length; lia).
  pose proof (decode_map_gen_mono _ take_rf (S (length l')) (S (length (encode_map img)))
                l' ltac:(lia) (decode_map_no_fuel_proof l')) as Hm.
  unfold decode_map. rewrite <- Hm. unfold decode_map_gen. rewrite Hr. reflexivity.
Qed.

Lemma concat_chunks_map img : concat (chunks_map img) = encode_map img.
Proof.
  unfold chunks_map, encode_map. cbn [concat]. rewrite concat_app. cbn [concat app].
  do 3 f_equal. f_equal.
  - induction (m_cached img) as [|[h p] cs IH]; [reflexivity|].
    unfold enc_cached in *. cbn [flat_map concat app fst snd]. rewrite IH.
    now rewrite <- app_assoc.
  - f_equal. induction (m_nodes img) as [|[p [h b]] ns IH]; [reflexivity|].
    unfold enc_nodes in *. cbn [flat_map concat app fst snd]. rewrite IH.
    now rewrite <- !app_assoc.
Qed.

(** T6 (map forest) *)
Theorem map_write_fail_err_proof img lim :
  ((lim < length (encode_map img))%nat -> write_with_limit lim (chunks_map img) = Err) /\
  ((length (encode_map img) <= lim)%nat ->
     write_with_limit lim (chunks_map img) = Ok (length (encode_map img))).
Proof.
  rewrite write_with_limit_spec, concat_chunks_map. split; intros Hl.
  - replace (Nat.leb (length (encode_map img)) lim) with false
      by (symmetry; apply Nat.leb_gt; lia).
    reflexivity.
  - replace (Nat.leb (length (encode_map img)) lim) with true
      by (symmetry; apply Nat.leb_le; lia).
    reflexivity.
Qed.

(** * The boolean well-formedness checks are sound *)
Lemma wf_pimageb_sound img : wf_pimageb img = true -> wf_pimage img.
Proof.
  unfold wf_pimageb, wf_pimage. intros Hb.
  repeat (apply andb_true_iff in Hb as [Hb ?]).
  repeat split.
  - now apply N.ltb_lt.
  - now apply N.leb_le.
  - now apply N.ltb_lt.
  - now apply Nat.eqb_eq.
  - apply Forall_forall. intros t Ht. apply wf_ptreeb_sound.
    match goal with Hf : forallb _ _ = true |- _ => exact (proj1 (forallb_forall _ _) Hf t Ht) end.
  - now apply N.eqb_eq.
Qed.

Lemma mem_bytes_In x l : mem_bytes x l = true <-> In x l.
Proof.
  induction l as [|y l IH]; cbn [mem_bytes In]; [split; [discriminate|contradiction]|].
  rewrite orb_true_iff, IH, bytes_eqb_eq. split; intros [H|H]; auto.
Qed.

Lemma nodup_bytesb_sound l : nodup_bytesb l = true -> NoDup l.
Proof.
  induction l as [|x l IH]; cbn [nodup_bytesb]; intros Hb; constructor.
  - apply andb_true_iff in Hb as [Hm _]. intros Hin. apply mem_bytes_In in Hin.
    rewrite Hin in Hm. discriminate.
  - apply andb_true_iff in Hb as [_ Hn]. now apply IH.
Qed.

Lemma memN_In x l : memN x l = true <-> In x l.
Proof.
  induction l as [|y l IH]; cbn [memN In]; [split; [discriminate|contradiction]|].
  rewrite orb_true_iff, IH, N.eqb_eq. split; intros [H|H]; auto.
Qed.

Lemma nodupNb_sound l : nodupNb l = true -> NoDup l.
Proof.
  induction l as [|x l IH]; cbn [nodupNb]; intros Hb; constructor.
  - apply andb_true_iff in Hb as [Hm _]. intros Hin. apply memN_In in Hin.
    rewrite Hin in Hm. discriminate.
  - apply andb_true_iff in Hb as [_ Hn]. now apply IH.
Qed.

Lemma wf_mimageb_sound img : wf_mimageb img = true -> wf_mimage img.
Proof.
  unfold wf_mimageb, wf_mimage. intros Hb.
  repeat (apply andb_true_iff in Hb as [Hb ?]).
  match goal with Hc : map_check img = true |- _ => rename Hc into Hchk end.
  repeat split.
  - now apply N.ltb_lt.
  - now apply N.ltb_lt.
  - now apply N.ltb_lt.
  - now apply N.ltb_lt.
  - apply Forall_forall. intros e He.
    match goal with
      Hf : forallb _ (m_cached img) = true |- _ =>
        pose proof (proj1 (forallb_forall _ _) Hf e He) as Hx
    end.
    apply andb_true_iff in Hx as [Hx1 Hx2]. split; [now apply Nat.eqb_eq|now apply N.ltb_lt].
  - apply Forall_forall. intros e He.
    match goal with
      Hf : forallb _ (m_nodes img) = true |- _ =>
        pose proof (proj1 (forallb_forall _ _) Hf e He) as Hx
    end.
    apply andb_true_iff in Hx as [Hx1 Hx2]. split; [now apply N.ltb_lt|now apply Nat.eqb_eq].
  - now apply nodup_bytesb_sound.
  - now apply nodupNb_sound.
  - intros h p Hin. unfold map_check in Hchk.
    pose proof (proj1 (forallb_forall _ _) Hchk (h, p) Hin) as Hx. cbn [fst snd] in Hx.
    destruct (assoc N.eqb p (m_nodes img)) as [[h' b]|] eqn:Ea; [|discriminate].
    cbn [fst] in Hx. apply bytes_eqb_eq in Hx. subst h'. exists b.
    apply (assoc_Some_In _ _ N.eqb N_eqb_eq'). exact Ea.
Qed.

(** with distinct 12-byte prefixes the node map holds every record that enters it *)
Lemma dedup_bytes_nodup l : NoDup l -> dedup_bytes l = l.
Proof.
  induction 1 as [|x l Hx Hl IH]; cbn [dedup_bytes]; [reflexivity|].
  destruct (mem_bytes x l) eqn:E; [apply mem_bytes_In in E; contradiction|]. now rewrite IH.
Qed.

Lemma nodemap_size_nodup img :
  NoDup (pimage_minis img) -> nodemap_size img = count_leaves img.
Proof.
  intros Hnd. unfold nodemap_size, count_leaves. rewrite dedup_bytes_nodup by exact Hnd.
  unfold pimage_minis. apply map_length.
Qed.

(** * The niece view of the reference forest *)
Lemma popcount_double x : popcount (2 * x) = popcount x.
Proof. destruct x; reflexivity. Qed.

Lemma popcount_double1 x : popcount (2 * x + 1) = 1 + popcount x.
Proof. destruct x; reflexivity. Qed.

Lemma popcount_pow_add (k : nat) : forall m,
  m < 2 ^ N.of_nat k -> popcount (2 ^ N.of_nat k + m) = 1 + popcount m.
Proof.
  induction k as [|k IH]; intros m Hm.
  - change (2 ^ N.of_nat 0) with 1 in *. replace m with 0 by lia. reflexivity.
  - rewrite Nat2N.inj_succ, N.pow_succ_r' in *.
    pose proof (N.div_mod' m 2) as Hdm.
    assert (Hb : m mod 2 = 0 \/ m mod 2 = 1)
      by (pose proof (N.mod_lt m 2 ltac:(discriminate)); lia).
    assert (Hq : m / 2 < 2 ^ N.of_nat k) by (apply N.div_lt_upper_bound; [discriminate|lia]).
    specialize (IH (m / 2) Hq).
    destruct Hb as [Hb|Hb]; rewrite Hb in Hdm.
    + replace (2 * 2 ^ N.of_nat k + m) with (2 * (2 ^ N.of_nat k + m / 2)) by lia.
      rewrite popcount_double, IH.
      replace m with (2 * (m / 2)) at 2 by lia. now rewrite popcount_double.
    + replace (2 * 2 ^ N.of_nat k + m) with (2 * (2 ^ N.of_nat k + m / 2) + 1) by lia.
      rewrite popcount_double1, IH.
      replace m with (2 * (m / 2) + 1) at 2 by lia. now rewrite popcount_double1.
Qed.

Section NieceViewFacts.
  Variable H : Type.
  Variable HO : ops H.
  Variable bytes_of : H -> list byte.

  Fixpoint leaves (t : ctree H) : list H :=
    match t with
    | CLeaf h => [h]
    | CNode _ l r => leaves l ++ leaves r
    end.
  Definition opt_leaves (o : option (ctree H)) : list H :=
    match o with None => [] | Some t => leaves t end.
  Definition self_leaf (t : ctree H) : list H :=
    match t with CLeaf h => [h] | CNode _ _ _ => [] end.
  Definition sub_leaves (t : ctree H) : list H :=
    match t with CLeaf _ => [] | CNode _ l r => leaves l ++ leaves r end.

  Lemma leaves_split t : leaves t = self_leaf t ++ sub_leaves t.
  Proof. destruct t; reflexivity. Qed.

  Fixpoint ctree_all (P : H -> Prop) (t : ctree H) : Prop :=
    P (chash t) /\
    match t with
    | CLeaf _ => True
    | CNode _ l r => ctree_all P l /\ ctree_all P r
    end.
  Definition opt_all (P : H -> Prop) (o : option (ctree H)) : Prop :=
    match o with None => True | Some t => ctree_all P t end.

  Definition len32 (h : H) : Prop := length (bytes_of h) = 32%nat.
  Definition nonzero (h : H) : Prop := is_zeros (bytes_of h) = false.

  Lemma ctree_all_root (P : H -> Prop) t : ctree_all P t -> P (chash t).
  Proof. destruct t; cbn [ctree_all]; tauto. Qed.

  Lemma wf_enc2 y : forall x,
    len32 (chash x) -> ctree_all len32 y -> wf_ptree (enc2 bytes_of x y).
  Proof.
    induction y as [h|h l IHl r IHr]; intros x Hx Hy; cbn [enc2 wf_ptree].
    - split; [exact Hx|exact I].
    - cbn [ctree_all] in Hy. destruct Hy as (_ & Hl & Hr).
      split; [exact Hx|]. split.
      + apply IHr; [apply ctree_all_root; exact Hl|exact Hr].
      + apply IHl; [apply ctree_all_root; exact Hr|exact Hl].
  Qed.

  Lemma self_leaf_hashes x :
    (forall h, In h (self_leaf x) -> nonzero h) ->
    (if is_leafc x && negb (is_zeros (bytes_of (chash x))) then [bytes_of (chash x)] else [])
    = map bytes_of (self_leaf x).
  Proof.
    destruct x as [h|h l r]; cbn [is_leafc chash self_leaf map andb]; [|reflexivity].
    intros Hnz. rewrite (Hnz h) by (now left). reflexivity.
  Qed.

  Lemma leaf_hashes_enc2 y : forall x,
    (forall h, In h (self_leaf x) -> nonzero h) ->
    (forall h, In h (sub_leaves y) -> nonzero h) ->
    Permutation (ptree_leaf_hashes (enc2 bytes_of x y))
                (map bytes_of (self_leaf x ++ sub_leaves y)).
  Proof.
    induction y as [h|h l IHl r IHr]; intros x Hx Hy; cbn [enc2 ptree_leaf_hashes].
    - rewrite self_leaf_hashes by exact Hx. cbn [sub_leaves]. now rewrite !app_nil_r.
    - rewrite self_leaf_hashes by exact Hx. rewrite map_app. apply Permutation_app_head.
      cbn [sub_leaves] in *.
      assert (Hl : forall h, In h (leaves l) -> nonzero h)
        by (intros h' Hin; apply Hy, in_or_app; now left).
      assert (Hr : forall h, In h (leaves r) -> nonzero h)
        by (intros h' Hin; apply Hy, in_or_app; now right).
      rewrite (leaves_split l) in Hl |- *. rewrite (leaves_split r) in Hr |- *.
      rewrite (IHr l), (IHl r).
      + rewrite !map_app.
        rewrite <- !app_assoc. apply Permutation_app_head.
        etransitivity; [apply Permutation_app_comm|].
        rewrite <- app_assoc. apply Permutation_app_swap_app.
      + intros h' Hin. apply Hr, in_or_app. now left.
      + intros h' Hin. apply Hl, in_or_app. now right.
      + intros h' Hin. apply Hl, in_or_app. now left.
      + intros h' Hin. apply Hr, in_or_app. now right.
  Qed.

  Lemma root_view_enc2 t : root_view bytes_of (Some t) = enc2 bytes_of t t.
  Proof. destruct t; reflexivity. Qed.

  Lemma wf_root_view o : opt_all len32 o -> wf_ptree (root_view bytes_of o).
  Proof.
    destruct o as [t|]; cbn [opt_all].
    - intros Ht. rewrite root_view_enc2. apply wf_enc2; [apply ctree_all_root|]; exact Ht.
    - intros _. split; [reflexivity|exact I].
  Qed.

  Lemma leaf_hashes_root_view o :
    (forall h, In h (opt_leaves o) -> nonzero h) ->
    Permutation (ptree_leaf_hashes (root_view bytes_of o)) (map bytes_of (opt_leaves o)).
  Proof.
    destruct o as [t|]; cbn [opt_leaves].
    - intros Hnz. rewrite root_view_enc2, (leaves_split t) in *.
      apply leaf_hashes_enc2; intros h Hin; apply Hnz, in_or_app; [now left|now right].
    - intros _. cbn. apply perm_nil.
  Qed.

  (** ** Compression *)
  Notation hash2 := (op_hash2 HO).

  Lemma opt_leaves_join a b : opt_leaves (join HO a b) = opt_leaves a ++ opt_leaves b.
  Proof. destruct a, b; cbn [join opt_leaves leaves]; rewrite ?app_nil_r; reflexivity. Qed.

  Lemma live_app (a b : slots H) : live (a ++ b) = live a ++ live b.
  Proof. unfold live. apply flat_map_app. Qed.

  Lemma pow2_S k : (2 ^ S k = 2 ^ k + 2 ^ k)%nat.
  Proof. cbn [Nat.pow]. lia. Qed.

  Lemma opt_leaves_compress k : forall seg,
    opt_leaves (compress HO k seg) = live (firstn (2 ^ k) seg).
  Proof.
    induction k as [|k IH]; intros seg.
    - cbn [compress Nat.pow]. destruct seg as [|[h|] seg]; reflexivity.
    - cbn [compress]. rewrite opt_leaves_join, !IH, firstn_firstn, Nat.min_id.
      now rewrite pow2_S, firstn_plus, live_app.
  Qed.

  Lemma opt_all_join (P : H -> Prop) a b :
    (forall x y, P (hash2 x y)) -> opt_all P a -> opt_all P b -> opt_all P (join HO a b).
  Proof.
    intros Hh Ha Hb. destruct a as [ta|], b as [tb|]; cbn [join opt_all] in *; try assumption.
    cbn [ctree_all chash]. auto.
  Qed.

  Lemma opt_all_compress (P : H -> Prop) k : forall seg,
    (forall x y, P (hash2 x y)) -> (forall h, In h (live seg) -> P h) ->
    opt_all P (compress HO k seg).
  Proof.
    induction k as [|k IH]; intros seg Hh Hl.
    - cbn [compress]. destruct seg as [|[h|] seg]; cbn [opt_all ctree_all chash]; auto.
      split; [|exact I]. apply Hl. cbn. now left.
    - cbn [compress]. apply opt_all_join; [exact Hh| |]; apply IH; try exact Hh;
        intros h Hin; apply Hl; rewrite <- (firstn_skipn (2 ^ k) seg), live_app; apply in_or_app;
        [now left|now right].
  Qed.

  (** ** Trees *)
  Lemma trees_has k lo s :
    (2 ^ k <= length s)%nat ->
    trees HO k lo s =
    (k, lo, compress HO k (firstn (2 ^ k) s)) ::
    match k with
    | O => []
    | S k' => trees HO k' (lo + N.of_nat (2 ^ k)) (skipn (2 ^ k) s)
    end.
  Proof.
    intros Hle. destruct k as [|k']; cbn [trees];
      (replace (Nat.leb _ (length s)) with true by (symmetry; apply Nat.leb_le; exact Hle));
      reflexivity.
  Qed.

  Lemma trees_not k lo s :
    (length s < 2 ^ k)%nat ->
    trees HO k lo s = match k with O => [] | S k' => trees HO k' lo s end.
  Proof.
    intros Hlt. destruct k as [|k']; cbn [trees];
      (replace (Nat.leb _ (length s)) with false by (symmetry; apply Nat.leb_gt; exact Hlt));
      reflexivity.
  Qed.

  Definition tree_leaves (ts : list (nat * N * option (ctree H))) : list H :=
    flat_map (fun e => opt_leaves (snd e)) ts.

  Lemma trees_leaves k : forall lo s,
    (length s < 2 ^ S k)%nat -> tree_leaves (trees HO k lo s) = live s.
  Proof.
    induction k as [|k IH]; intros lo s Hlen.
    - destruct (Nat.le_gt_cases (2 ^ 0) (length s)) as [Hle|Hlt].
      + rewrite trees_has by exact Hle. unfold tree_leaves. cbn [flat_map snd].
        rewrite opt_leaves_compress, firstn_firstn, Nat.min_id, app_nil_r.
        rewrite firstn_all2; [reflexivity|]. cbn [Nat.pow] in *. lia.
      + rewrite trees_not by exact Hlt. cbn [Nat.pow] in Hlt.
        destruct s; [reflexivity|cbn [length] in Hlt; lia].
    - destruct (Nat.le_gt_cases (2 ^ S k) (length s)) as [Hle|Hlt].
      + rewrite trees_has by exact Hle. unfold tree_leaves. cbn [flat_map snd].
        fold (tree_leaves (trees HO k (lo + N.of_nat (2 ^ S k)) (skipn (2 ^ S k) s))).
        rewrite IH by (rewrite skipn_length; rewrite (pow2_S (S k)) in Hlen; lia).
        rewrite opt_leaves_compress, firstn_firstn, Nat.min_id, <- live_app.
        now rewrite firstn_skipn.
      + rewrite trees_not by exact Hlt. apply IH. exact Hlt.
  Qed.

  Lemma trees_length k : forall lo s,
    (length s < 2 ^ S k)%nat ->
    N.of_nat (length (trees HO k lo s)) = popcount (N.of_nat (length s)).
  Proof.
    induction k as [|k IH]; intros lo s Hlen.
    - cbn [Nat.pow] in Hlen.
      destruct s as [|x [|y s]]; [reflexivity|reflexivity|cbn [length] in Hlen; lia].
    - destruct (Nat.le_gt_cases (2 ^ S k) (length s)) as [Hle|Hlt].
      + rewrite trees_has by exact Hle. cbn [length]. rewrite Nat2N.inj_succ.
        rewrite IH by (rewrite skipn_length; rewrite (pow2_S (S k)) in Hlen; lia).
        rewrite skipn_length.
        replace (length s) with (2 ^ S k + (length s - 2 ^ S k))%nat at 2 by lia.
        assert (Hp : N.of_nat (2 ^ S k) = 2 ^ N.of_nat (S k))
          by (rewrite Nat2N.inj_pow; reflexivity).
        rewrite Nat2N.inj_add, Hp.
        rewrite popcount_pow_add; [lia|].
        rewrite <- Hp. rewrite (pow2_S (S k)) in Hlen. lia.
      + rewrite trees_not by exact Hlt. apply IH. exact Hlt.
  Qed.

  Lemma trees_all (P : H -> Prop) k : forall lo s,
    (forall x y, P (hash2 x y)) -> (forall h, In h (live s) -> P h) ->
    Forall (fun e => opt_all P (snd e)) (trees HO k lo s).
  Proof.
    induction k as [|k IH]; intros lo s Hh Hl.
    - destruct (Nat.le_gt_cases (2 ^ 0) (length s)) as [Hle|Hlt].
      + rewrite trees_has by exact Hle. constructor; [|constructor]. cbn [snd].
        apply opt_all_compress; [exact Hh|]. intros h Hin. apply Hl.
        rewrite <- (firstn_skipn (2 ^ 0) s), live_app. apply in_or_app. now left.
      + rewrite trees_not by exact Hlt. constructor.
    - destruct (Nat.le_gt_cases (2 ^ S k) (length s)) as [Hle|Hlt].
      + rewrite trees_has by exact Hle. constructor.
        * cbn [snd]. apply opt_all_compress; [exact Hh|]. intros h Hin. apply Hl.
          rewrite <- (firstn_skipn (2 ^ S k) s), live_app. apply in_or_app. now left.
        * apply IH; [exact Hh|]. intros h Hin. apply Hl.
          rewrite <- (firstn_skipn (2 ^ S k) s), live_app. apply in_or_app. now right.
      + rewrite trees_not by exact Hlt. apply IH; assumption.
  Qed.

  Lemma log2_bound n : (n < 2 ^ S (Nat.log2 n))%nat.
  Proof.
    destruct n as [|n]; [cbn; lia|]. apply Nat.log2_spec. lia.
  Qed.

  Lemma live_length_le (s : slots H) : (length (live s) <= length s)%nat.
  Proof.
    induction s as [|[h|] s IH]; cbn [live flat_map app length] in *; unfold live in *; lia.
  Qed.

  (** ** The niece view of a forest *)
  Lemma niece_view_leaf_hashes ts :
    (forall h, In h (tree_leaves ts) -> nonzero h) ->
    Permutation (flat_map ptree_leaf_hashes (niece_view bytes_of ts))
                (map bytes_of (tree_leaves ts)).
  Proof.
    induction ts as [|e ts IH]; intros Hnz; [apply perm_nil|].
    unfold niece_view, tree_leaves in *. cbn [map flat_map]. rewrite map_app.
    apply Permutation_app.
    - apply leaf_hashes_root_view. intros h Hin. apply Hnz. cbn [flat_map]. apply in_or_app.
      now left.
    - apply IH. intros h Hin. apply Hnz. cbn [flat_map]. apply in_or_app. now right.
  Qed.

  Notation forest_image := (forest_image HO bytes_of).

  Theorem niece_view_wf_proof (s : slots H) :
    N.of_nat (length s) < 2 ^ 64 ->
    N.of_nat (length (live s)) < 2 ^ 63 ->
    (forall x y, len32 (hash2 x y)) ->
    (forall h, In h (live s) -> len32 h /\ nonzero h) ->
    NoDup (map (fun h => mini (bytes_of h)) (live s)) ->
    wf_pimage (forest_image s) /\
    count_leaves (forest_image s) = length (live s) /\
    Permutation (pimage_leaf_hashes (forest_image s)) (map bytes_of (live s)).
  Proof.
    intros Hlen Hlive Hh2 Hleaf Hnd.
    pose proof (log2_bound (length s)) as Hlog.
    assert (Hperm : Permutation (pimage_leaf_hashes (forest_image s)) (map bytes_of (live s))).
    { unfold pimage_leaf_hashes, forest_image. cbn [p_roots]. unfold forest.
      rewrite <- (trees_leaves (Nat.log2 (length s)) 0 s Hlog).
      apply niece_view_leaf_hashes. rewrite trees_leaves by exact Hlog.
      intros h Hin. apply Hleaf. exact Hin. }
    assert (Hcount : count_leaves (forest_image s) = length (live s)).
    { unfold count_leaves. rewrite (Permutation_length Hperm). apply map_length. }
    assert (Hnd' : NoDup (pimage_minis (forest_image s))).
    { unfold pimage_minis. apply (Permutation_NoDup (l := map mini (map bytes_of (live s)))).
      - apply Permutation_map. symmetry. exact Hperm.
      - rewrite map_map. exact Hnd. }
    pose proof (live_length_le s) as Hle.
    split; [|split; assumption].
    unfold wf_pimage. cbn [forest_image p_numleaves p_numdels p_roots]. unfold num_leaves.
    repeat split.
    - exact Hlen.
    - lia.
    - lia.
    - unfold niece_view. rewrite map_length. unfold forest.
      rewrite <- (trees_length (Nat.log2 (length s)) 0 s Hlog). now rewrite Nat2N.id.
    - unfold niece_view. apply Forall_forall. intros t Ht. apply in_map_iff in Ht as [e [<- He]].
      apply wf_root_view.
      pose proof (trees_all len32 (Nat.log2 (length s)) 0 s Hh2
                            (fun h Hin => proj1 (Hleaf h Hin))) as Hall.
      exact (proj1 (Forall_forall _ _) Hall e He).
    - rewrite nodemap_size_nodup by exact Hnd'. rewrite Hcount. lia.
  Qed.
End NieceViewFacts.

(** * Trailing data is left alone
    a valid stream followed by anything restores to the same image and reports exactly the
    length of the valid stream as consumed *)
Theorem pollard_roundtrip_trailing_proof img rest :
  wf_pimage img ->
  decode_pollard (encode_pollard img ++ rest) = Ok (img, length (encode_pollard img)).
Proof.
  intros Hwf. unfold decode_pollard, decode_pollard_gen.
  assert (Hh : Forall (fun t => (ptree_height t < S (length (encode_pollard img ++ rest)))%nat)
                      (p_roots img)).
  { eapply Forall_impl; [|exact (heights_bound img Hwf)]. cbv beta. intros t Ht.
    rewrite app_length. lia. }
  destruct (codec_pollard_parser img _ Hwf Hh) as [Hp _].
  rewrite Hp. now rewrite pollard_check_wf.
Qed.

Theorem map_roundtrip_trailing_proof img rest :
  wf_mimage img ->
  decode_map (encode_map img ++ rest) = Ok (img, length (encode_map img)).
Proof.
  intros Hwf. unfold decode_map, decode_map_gen.
  destruct (map_fuel_bound img) as [Hc Hn].
  assert (Hc' : (length (m_cached img) < S (length (encode_map img ++ rest)))%nat)
    by (rewrite app_length; lia).
  assert (Hn' : (length (m_nodes img) < S (length (encode_map img ++ rest)))%nat)
    by (rewrite app_length; lia).
  destruct (codec_map_parser img _ Hwf Hc' Hn') as [Hp _].
  rewrite Hp. now rewrite map_check_wf.
Qed.

(** * Any reader: the theorems above, restated for chunked readers *)
Theorem pollard_any_reader_proof img cs e :
  wf_pimage img ->
  decode_pollard_chunked (mkReader (encode_pollard img) cs e)
  = Ok (img, length (encode_pollard img)) /\
  (forall k, (k < length (encode_pollard img))%nat ->
     decode_pollard_chunked (mkReader (firstn k (encode_pollard img)) cs e) = Err).
Proof.
  intros Hwf. split.
  - rewrite pollard_chunk_independent_proof. now apply pollard_roundtrip_proof.
  - intros k Hk. rewrite pollard_chunk_independent_proof.
    now apply pollard_prefix_rejected_proof.
Qed.

Theorem map_any_reader_proof img cs e :
  wf_mimage img ->
  decode_map_chunked (mkReader (encode_map img) cs e) = Ok (img, length (encode_map img)) /\
  (forall k, (k < length (encode_map img))%nat ->
     decode_map_chunked (mkReader (firstn k (encode_map img)) cs e) = Err).
Proof.
  intros Hwf. split.
  - rewrite map_chunk_independent_proof. now apply map_roundtrip_proof.
  - intros k Hk. rewrite map_chunk_independent_proof. now apply map_prefix_rejected_proof.
Qed.

(** restoring what [WriteTo] writes for the reference state [s] yields its niece view *)
Theorem forest_roundtrip_proof (H : Type) (HO : ops H) (bytes_of : H -> list byte)
        (s : slots H) :
  N.of_nat (length s) < 2 ^ 64 ->
  N.of_nat (length (live s)) < 2 ^ 63 ->
  (forall x y, length (bytes_of (op_hash2 HO x y)) = 32%nat) ->
  (forall h, In h (live s) ->
     length (bytes_of h) = 32%nat /\ is_zeros (bytes_of h) = false) ->
  NoDup (map (fun h => mini (bytes_of h)) (live s)) ->
  let bytes := encode_pollard_of_forest bytes_of (forest HO s) (num_leaves s)
                 (N.of_nat (length s - length (live s))) in
  decode_pollard bytes = Ok (forest_image HO bytes_of s, length bytes).
Proof.
  intros H1 H2 H3 H4 H5 bytes.
  destruct (niece_view_wf_proof H HO bytes_of s H1 H2 H3 H4 H5) as [Hwf _].
  exact (pollard_roundtrip_proof _ Hwf).
Qed.

(** * Examples: the hypotheses are satisfiable *)
Definition ex_hA : list byte := repeat 7 32.
Definition ex_hB : list byte := 1 :: repeat 9 31.
Definition ex_hC : list byte := 2 :: repeat 5 31.
Definition ex_hP : list byte := repeat 3 32.

(** 3 leaves, 1 deleted: a tree of two leaves and a root without survivors *)
Definition ex_pimage : pimage :=
  mkPimage 3 1
    [PNode ex_hP false (Some (PNode ex_hA true None, PNode ex_hB true None));
     PNode zeros32 true None].

Example ex_pimage_wf : wf_pimage ex_pimage.
Proof. apply wf_pimageb_sound. vm_compute. reflexivity. Qed.

Example ex_pollard_roundtrip :
  decode_pollard (encode_pollard ex_pimage) = Ok (ex_pimage, 152%nat).
Proof. vm_compute. reflexivity. Qed.

Example ex_pollard_chunked :
  decode_pollard_chunked (mkReader (encode_pollard ex_pimage) [3; 0; 100; 2]%nat true)
  = Ok (ex_pimage, 152%nat).
Proof. vm_compute. reflexivity. Qed.

Example ex_pollard_prefix :
  forallb (fun k => match decode_pollard (firstn k (encode_pollard ex_pimage)) with
                    | Err => true
                    | _ => false
                    end) (seq 0 152) = true.
Proof. vm_compute. reflexivity. Qed.

Example ex_pollard_size :
  node_count ex_pimage = 4%nat /\ length (encode_pollard ex_pimage) = (16 + 34 * 4)%nat /\
  serialize_size ex_pimage = 152%nat.
Proof. vm_compute. auto. Qed.

Example ex_pollard_write :
  write_with_limit 151 (chunks_pollard ex_pimage) = Err /\
  write_with_limit 152 (chunks_pollard ex_pimage) = Ok 152%nat.
Proof. vm_compute. auto. Qed.

(** two cached leaves, three stored positions *)
Definition ex_mimage : mimage :=
  mkMimage 3 5 [(ex_hA, 0); (ex_hB, 4)]
           [(0, (ex_hA, true)); (4, (ex_hB, false)); (9, (ex_hP, false))].

Example ex_mimage_wf : wf_mimage ex_mimage.
Proof. apply wf_mimageb_sound. vm_compute. reflexivity. Qed.

Example ex_map_roundtrip : decode_map (encode_map ex_mimage) = Ok (ex_mimage, 228%nat).
Proof. vm_compute. reflexivity. Qed.

Example ex_map_chunked :
  decode_map_chunked (mkReader (encode_map ex_mimage) [1; 40; 7]%nat false)
  = Ok (ex_mimage, 228%nat).
Proof. vm_compute. reflexivity. Qed.

Example ex_map_prefix :
  forallb (fun k => match decode_map (firstn k (encode_map ex_mimage)) with
                    | Err => true
                    | _ => false
                    end) (seq 0 228) = true.
Proof. vm_compute. reflexivity. Qed.

Example ex_map_write :
  write_with_limit 227 (chunks_map ex_mimage) = Err /\
  write_with_limit 228 (chunks_map ex_mimage) = Ok 228%nat.
Proof. vm_compute. auto. Qed.

(** a reference state with 5 slots, 2 of them dead, over a toy hash function on byte strings *)
Definition ex_hash2 (a b : list byte) : list byte :=
  firstn 32 (map (fun p => (fst p + 2 * snd p + 1) mod 256) (combine a b) ++ repeat 1 32).
Definition ex_ops : ops (list byte) := mkOps ex_hash2 zeros32 bytes_eqb.
Definition ex_slots : slots (list byte) := [Some ex_hA; None; Some ex_hB; Some ex_hC; None].

Lemma ex_hash2_length a b : length (ex_hash2 a b) = 32%nat.
Proof. unfold ex_hash2. rewrite firstn_length, app_length, repeat_length. lia. Qed.

Example ex_forest_wf :
  wf_pimage (forest_image ex_ops (fun h => h) ex_slots) /\
  count_leaves (forest_image ex_ops (fun h => h) ex_slots) = 3%nat /\
  node_count (forest_image ex_ops (fun h => h) ex_slots) = 6%nat.
Proof.
  assert (Hex := niece_view_wf_proof (list byte) ex_ops (fun h => h) ex_slots).
  assert (H1 : N.of_nat (length ex_slots) < 2 ^ 64) by (vm_compute; reflexivity).
  assert (H2 : N.of_nat (length (live ex_slots)) < 2 ^ 63) by (vm_compute; reflexivity).
  assert (H3 : forall x y : list byte, length (op_hash2 ex_ops x y) = 32%nat)
    by (intros x y; apply ex_hash2_length).
  assert (H4 : forall h, In h (live ex_slots) -> length h = 32%nat /\ is_zeros h = false).
  { intros h Hin. vm_compute in Hin.
    destruct Hin as [<-|[<-|[<-|[]]]]; split; vm_compute; reflexivity. }
  assert (H5 : NoDup (map (fun h => mini h) (live ex_slots)))
    by (apply nodup_bytesb_sound; vm_compute; reflexivity).
  specialize (Hex H1 H2 H3 H4 H5).
  destruct Hex as (Hwf & Hcnt & _). split; [exact Hwf|]. split; [exact Hcnt|].
  vm_compute. reflexivity.
Qed.
