(** ONE invariant for all operations of the map forest proved so far, and a HISTORY theorem.

    [MapMutAdd.Inv s R m] (Proofs/MapMutAdd.v: [consistent] + duplicate-free node keys + pairwise
    different non-empty live leaves + the flag of the remembered leaves + tidiness of partial
    forests) is preserved by
    - the deletion-free [Modify] ([MapMutAdd.modify_adds_gen]),
    - [Prune], [Ingest], [Verify] with [remember = true]: here, from the theorems of
      Proofs/MapMutPrune.v about ITS invariant [MapMutPrune.Inv] / [MapMutPrune.tidy], through the
      bridges [Inv_to_prune] and [prune_to_Inv] and the new facts that the three operations keep
      the node keys duplicate-free ([prune_nodup], [ingest_steps_nodup]).

    History.  The theorem [history_generic] is stated over an abstract system of operations
    (an operation type, its side condition on the abstract state [(s, R)], the abstract
    transition, the run on an [mstate]) that has ONE preservation lemma; [history_ok] is its
    instance for [AddBlock], [Prune], [Ingest], [VerifyRemember].  Adding an operation kind (a
    deletion block) needs a constructor, its three clauses and its preservation lemma only. *)
From Utreexo Require Import Base.Hash Model.Utils Model.UtilsFast Model.Verify Model.MapRead
  Model.MapMut Spec.Forest Spec.Oracle Proofs.UtilsGeom Proofs.UtilsGeom2 Proofs.SpecBasics
  Proofs.StumpAdd Proofs.LayoutStruct Proofs.MapReadSpec Proofs.CalcSound Proofs.MapMutAdd
  Proofs.MapMutPrune.
From Utreexo Require Proofs.RefTheory.
From Coq Require Import List Arith PeanoNat NArith Lia ZifyNat ZifyN ZifyBool Bool.
Import ListNotations.
Open Scope N_scope.

(** * 1. The known coordinates, inductively and as the reference's [known_set] *)
Section Known.
  Variable H : Type.
  Variable HO : ops H.
  Hypothesis HOK : ops_ok HO.
  Variable s : slots H.
  Hypothesis Hn63 : N.of_nat (length s) <= 2 ^ 63.
  Hypothesis Hnd : NoDup (live s).
  Variables (R : list H) (ts : list (node H)).
  Hypothesis Hts : find_leaves HO (layout HO s) R = Some ts.
  Notation lay := (layout HO s).

  Lemma ts_lay' x : In x ts -> In x lay.
  Proof.
    intros Hx. apply (RefTheory.find_leaves_In H HO _ _ _ Hts) in Hx as (h & _ & Hx).
    exact (proj1 (find_leaf_spec H HO HOK _ _ _ Hx)).
  Qed.

  Lemma leaf_found h x : In x lay -> nleaf x = true -> nhash x = h -> find_leaf HO lay h = Some x.
  Proof.
    intros Hx Hl Hh.
    destruct (find_leaf_ex H HO lay h HOK) as [y Hy]; [exists x; auto|].
    rewrite Hy. f_equal. destruct (find_leaf_spec H HO HOK _ _ _ Hy) as (Hyin & Hyl & Hyh).
    apply (live_leaf_unique H HO s y x Hnd); auto. congruence.
  Qed.

  Lemma not_root_coord r o : ~ RTlay HO s r o <-> is_root_coord lay (r, o) = false.
  Proof.
    unfold is_root_coord. cbn [fst snd]. split.
    - intros Hn. destruct (find_coord lay r o) as [x|] eqn:E; [|reflexivity].
      destruct (nroot x) eqn:Er; [|reflexivity]. exfalso. apply Hn.
      apply find_coord_some in E as (Hx & Exr & Exo). exists x. auto.
    - intros E (x & Hx & Hr & <- & <-). fold (tnode HO s (nrow x) (noff x)) in E.
      rewrite (tnode_in H HO s x Hx) in E. congruence.
  Qed.

  Lemma known_in_set r o : known (Vlay HO s) (RTlay HO s) R r o -> In (r, o) (known_set lay ts).
  Proof.
    intros Hk. induction Hk as [r o h (x & Hx & <- & <- & Eh & El) Hh|r o _ IH Hn].
    - apply RefTheory.known_set_target. apply (RefTheory.find_leaves_In H HO _ _ _ Hts).
      exists h. split; [exact Hh|apply leaf_found; assumption].
    - exact (proj1 (known_closed H HO s Hn63 ts ts_lay' (r, o) IH (proj1 (not_root_coord _ _) Hn))).
  Qed.

  Lemma set_in_known c : In c (known_set lay ts) -> known (Vlay HO s) (RTlay HO s) R (fst c) (snd c).
  Proof.
    intros Hc. apply RefTheory.known_set_In in Hc as (x & Hx & Hc).
    pose proof (ts_lay' x Hx) as Hxin.
    apply (RefTheory.find_leaves_In H HO _ _ _ Hts) in Hx as (h & Hh & Hx).
    destruct (find_leaf_spec H HO HOK _ _ _ Hx) as (_ & Hxl & Hxh).
    assert (Hk0 : known (Vlay HO s) (RTlay HO s) R (nrow x) (noff x)).
    { apply (kn_leaf _ _ _ _ _ h); [|exact Hh]. exists x. auto. }
    assert (Hgen : forall f y d, In y lay ->
              known (Vlay HO s) (RTlay HO s) R (nrow y) (noff y) ->
              In d (path_up f lay (nrow y) (noff y) (ntree y)) ->
              known (Vlay HO s) (RTlay HO s) R (fst d) (snd d)).
    { induction f as [|f IH]; intros y d Hy Hk Hd.
      - destruct Hd as [<-|[]]. exact Hk.
      - cbn [path_up] in Hd. destruct Hd as [<-|Hd]; [exact Hk|].
        destruct (Nat.ltb_spec (nrow y) (ntree y)) as [Hlt|_]; [|destruct Hd].
        apply (nonroot_iff_row H HO s Hn63 y Hy) in Hlt.
        destruct (node_parent H HO s _ _ y (tnode_in H HO s y Hy) Hlt) as (p & Hp & _ & Ept & _).
        apply tnode_some in Hp as (Hpin & Epr & Epo).
        rewrite <- Epr, <- Epo, <- Ept in Hd. apply (IH p d Hpin); [|exact Hd].
        rewrite Epr, Epo. apply kn_up; [exact Hk|].
        intros (z & Hz & Hzr & Er & Eo).
        rewrite (node_coord_eq H HO s z y Hz Hy Er Eo) in Hzr. congruence. }
    exact (Hgen 64%nat x c Hxin Hk0 Hc).
  Qed.
End Known.

(** * 2. The bridges between the two invariants *)
Section Bridge.
  Variable H : Type.
  Variable HO : ops H.
  Hypothesis HOK : ops_ok HO.
  Notation AInv := (MapMutAdd.Inv H HO).
  Notation PInv := (MapMutPrune.Inv H HO).
  Notation Ptidy := (MapMutPrune.tidy H HO).

  Definition keys_nodup (m : mstate H) : Prop := NoDup (map fst (ms_nodes m)).

  (** from the strong invariant to the invariant (and tidiness) of Proofs/MapMutPrune.v *)
  Theorem Inv_to_prune s R m : AInv s R m ->
    PInv s R m /\ (ms_full m = false -> Ptidy s R m) /\ keys_nodup m /\
    NoDup (live s) /\ StumpAdd.live_ok H HO s.
  Proof.
    intros I. pose proof (MapMutAdd.Inv_consistent H HO HOK s R m I) as Hc.
    pose proof (cs_len63 H HO s R m Hc) as Hn63.
    split; [|split; [|split; [exact (g_nodup (inv_g H HO s R m I))|split; [exact (inv_nodup H HO s R m I)|exact (inv_live H HO s R m I)]]]].
    - split; [exact Hc|]. intros h x Hh Hx. exists h. exact (MapMutAdd.Inv_flag H HO HOK s R m h x I Hh Hx).
    - intros Hfull ts Hts. destruct (inv_tidy H HO s R m I Hfull) as [T1 T2].
      pose proof (inv_nodup H HO s R m I) as Hnd. constructor.
      + intros x Hx Hst.
        destruct (T2 (nrow x) (noff x) (nhash x) (nleaf x) (Vlay_node H HO s x Hx) (fun C => C) Hst)
          as [(y & Hy & Hyr & Er & Eo)|[Hk|[Hk Hn]]].
        * left. rewrite <- (node_coord_eq H HO s y x Hy Hx Er Eo). exact Hyr.
        * right. left. exact (known_in_set H HO HOK s Hn63 Hnd R ts Hts _ _ Hk).
        * right. right. exists (nrow x, N.lxor (noff x) 1).
          split; [exact (known_in_set H HO HOK s Hn63 Hnd R ts Hts _ _ Hk)|].
          split; [exact (proj1 (not_root_coord H HO s _ _) Hn)|].
          unfold sib_coord. cbn [fst snd]. rewrite lxor1_invol. reflexivity.
      + intros x h Hx E.
        pose proof (lookup_node H HO s R m Hc x h true Hx E) as Eh. subst h.
        destruct (T1 (nrow x) (noff x) (nhash x) (nleaf x) (Vlay_node H HO s x Hx) E) as [Hl Hin].
        apply (RefTheory.find_leaves_In H HO _ _ _ Hts). exists (nhash x). split; [exact Hin|].
        apply (leaf_found H HO HOK s Hnd); auto.
  Qed.

  (** conversely *)
  Theorem prune_to_Inv s R m :
    PInv s R m -> (ms_full m = false -> Ptidy s R m) -> keys_nodup m ->
    NoDup (live s) -> StumpAdd.live_ok H HO s -> AInv s R m.
  Proof.
    intros [Hc Hf] Ht Hk Hnd Hlive. pose proof (cs_len63 H HO s R m Hc) as Hn63.
    destruct (R_leaves H HO HOK s R m Hc) as [ts Hts].
    assert (G : GInv (Vlay HO s) (RTlay HO s) R (ms_total m) (ms_nodes m) (ms_cached m)).
    { constructor.
      - exact Hk.
      - intros p h b Hin. destruct (cs_true Hc _ _ _ Hin) as (r & o & -> & Hh).
        apply thash_some in Hh as (x & Hx & <-). apply tnode_some in Hx as (Hx & <- & <-).
        exists (nrow x), (noff x), (nleaf x). split; [reflexivity|apply Vlay_node, Hx].
      - exact (cs_cached_R Hc).
      - intros h p Hin. destruct (cs_cached_pos Hc _ _ Hin) as (x & Hx & ->).
        destruct (find_leaf_spec H HO HOK _ _ _ Hx) as (Hxin & Hl & Hh).
        exists (nrow x), (noff x). split; [exists x; auto|reflexivity].
      - intros h Hh. destruct (live_leaf_in_layout H HO s h (cs_R_live Hc h Hh)) as (x & Hx & Hl & Eh).
        exists (nrow x), (noff x), x. auto.
      - intros r o (x & Hx & Hr & <- & <-). exact (cs_roots Hc x Hx Hr).
      - intros r o h (x & Hx & <- & <- & Eh & El) Hh.
        pose proof (leaf_found H HO HOK s Hnd h x Hx El Eh) as Ef.
        destruct (Hf h x Hh Ef) as [h' E]. rewrite E.
        rewrite (lookup_node H HO s R m Hc x h' true Hx E), Eh. reflexivity.
      - intros r o Hkn Hn.
        exact (cs_sibs Hc Hts (r, o) (known_in_set H HO HOK s Hn63 Hnd R ts Hts _ _ Hkn)
                 (proj1 (not_root_coord H HO s _ _) Hn)). }
    constructor; try assumption.
    - exact (cs_n Hc).
    - exact (cs_n63 Hc).
    - exact (cs_rows Hc).
    - exact (cs_T63 Hc).
    - intros Hfull. pose proof (Ht Hfull ts Hts) as Tg. split.
      + intros r o h l (x & Hx & <- & <- & Eh & El) E.
        pose proof (t_flag Tg x Hx E) as Hin.
        apply (RefTheory.find_leaves_In H HO _ _ _ Hts) in Hin as (h' & Hh' & Hf').
        destruct (find_leaf_spec H HO HOK _ _ _ Hf') as (_ & Hl & Ehh).
        split; [congruence|]. rewrite <- Eh, Ehh. exact Hh'.
      + intros r o h l (x & Hx & <- & <- & _) _ Hst.
        destruct (t_alw Tg x Hx Hst) as [Hr|[Hkn|(d & Hd & Hdr & Ed)]].
        * left. exists x. auto.
        * right. left. exact (set_in_known H HO HOK s Hn63 R ts Hts _ Hkn).
        * right. right. destruct d as [rd od]. unfold sib_coord in Ed. cbn [fst snd] in Ed.
          injection Ed as -> Eo. rewrite <- Eo, lxor1_invol.
          split; [exact (set_in_known H HO HOK s Hn63 R ts Hts _ Hd)|].
          exact (proj2 (not_root_coord H HO s _ _) Hdr).
  Qed.
End Bridge.

(** * 3. The node keys stay duplicate-free *)
Section Keys.
  Variable H : Type.
  Variable HO : ops H.
  Notation nodemap := (list (N * (H * bool))).

  Lemma prunePosition_nodup T (nd : nodemap) pos :
    NoDup (map fst nd) -> NoDup (map fst (prunePosition HO T nd pos)).
  Proof.
    intros Hn. unfold prunePosition.
    destruct (negb (snd (nodes_get0 HO nd pos)) && negb (snd (nodes_get0 HO nd (sibling pos)))); [|exact Hn].
    destruct (niecesPresent T nd (sibling pos)).
    - destruct (niecesPresent T nd pos); [exact Hn|apply NoDup_nodes_del, Hn].
    - destruct (niecesPresent T (nodes_del (sibling pos) nd) pos);
        [apply NoDup_nodes_del, Hn|apply NoDup_nodes_del, NoDup_nodes_del, Hn].
  Qed.

  Lemma prune_up_nodup n T : forall fuel row pos (nd : nodemap),
    NoDup (map fst nd) -> NoDup (map fst (prune_up HO fuel n T row pos nd)).
  Proof.
    induction fuel as [|f IH]; intros row pos nd Hn; [exact Hn|]. cbn [prune_up].
    destruct (TreeRows n <? row); [exact Hn|].
    destruct (isRootPositionTotalRows pos n T); [exact Hn|].
    apply IH, prunePosition_nodup, Hn.
  Qed.

  Lemma prune_loop_nodup n T : forall hs (st st' : maps H),
    prune_loop HO n T hs st = Some st' -> NoDup (map fst (fst st)) -> NoDup (map fst (fst st')).
  Proof.
    induction hs as [|h hs IH]; intros st st' E Hn; cbn [prune_loop] in E.
    - injection E as <-. exact Hn.
    - destruct (cached_get HO (snd st) h) as [pos|]; [|exact (IH _ _ E Hn)].
      destruct (nodes_get (fst st) pos) as [lf|]; [|discriminate].
      apply (IH _ _ E). cbn [fst]. apply prune_up_nodup, NoDup_nodes_put, Hn.
  Qed.

  Theorem prune_nodup (m m' : mstate H) hs : mm_prune HO m hs = Some m' ->
    NoDup (map fst (ms_nodes m)) -> NoDup (map fst (ms_nodes m')).
  Proof.
    unfold mm_prune. destruct (ms_full m); [intros [= <-] Hn; exact Hn|].
    destruct (prune_loop HO (ms_n m) (ms_total m) hs (ms_nodes m, ms_cached m)) as [[nd ca]|] eqn:E;
      [|discriminate].
    intros [= <-] Hn. exact (prune_loop_nodup _ _ _ _ _ E Hn).
  Qed.

  Lemma ingest_fill_nodup full : forall pp i given (nd nd' : nodemap),
    ingest_fill full i pp given nd = Some nd' -> NoDup (map fst nd) -> NoDup (map fst nd').
  Proof.
    induction pp as [|pos pp IH]; intros i given nd nd' E Hn; cbn [ingest_fill] in E.
    - injection E as <-. exact Hn.
    - destruct (nodes_has nd pos); [exact (IH _ _ _ _ E Hn)|].
      destruct (nth_error given i) as [g|]; [|discriminate].
      apply (IH _ _ _ _ E). apply NoDup_nodes_put, Hn.
  Qed.

  Lemma put_calculated_nodup full tp : forall (l : list (hp H)) (st : maps H),
    NoDup (map fst (fst st)) -> NoDup (map fst (fst (put_calculated HO full tp l st))).
  Proof.
    induction l as [|[pos h] l IH]; intros st Hn; [exact Hn|]. cbn [put_calculated].
    apply IH. cbn [fst]. apply NoDup_nodes_put, Hn.
  Qed.

  Theorem ingest_steps_nodup (m m1 : mstate H) hs ts pf o :
    ingest_steps HO m hs ts pf = Some (m1, o) -> NoDup (map fst (ms_nodes m)) ->
    NoDup (map fst (ms_nodes m1)) /\ (forall m', o = Some m' -> NoDup (map fst (ms_nodes m'))).
  Proof.
    unfold ingest_steps. destruct (negb (length ts =? length hs)%nat); [discriminate|]. cbv zeta.
    destruct (ProofPositions_fast _ _ _) as [pp0 x].
    destruct (ingest_fill _ _ _ _ _) as [nd1|] eqn:Ef; [|discriminate].
    intros E Hn. pose proof (ingest_fill_nodup _ _ _ _ _ _ Ef Hn) as Hn1.
    destruct (calculateHashes HO true (ms_n m) (Some hs) ts pf) as [[[inter c] r]| | |]; [| |discriminate|discriminate].
    - match type of E with context [put_calculated HO ?f ?tp ?l ?st] =>
        pose proof (put_calculated_nodup f tp l st Hn1) as Hn2;
        destruct (put_calculated HO f tp l st) as [nd2 ca2] end.
      injection E as <- <-. split; [exact Hn1|]. intros m' [= <-]. exact Hn2.
    - injection E as <- <-. split; [exact Hn1|]. intros m' C. discriminate.
  Qed.
End Keys.

(** * 4. [Prune], [Ingest], [Verify]-with-remember preserve the strong invariant *)
Section Ops.
  Variable H : Type.
  Variable HO : ops H.
  Hypothesis HOK : ops_ok HO.
  Hypothesis Hh2 : forall x y, op_eqb HO (op_hash2 HO x y) (op_empty HO) = false.
  Notation AInv := (MapMutAdd.Inv H HO).

  (** what [Prune hs] leaves remembered *)
  Definition Rprune (full : bool) (R hs : list H) : list H :=
    if full then R else filter (fun h => negb (memH HO h hs)) R.

  Theorem prune_Inv s R m hs : AInv s R m ->
    exists m', mm_prune HO m hs = Some m' /\ AInv s (Rprune (ms_full m) R hs) m' /\
               ms_n m' = ms_n m /\ ms_total m' = ms_total m /\ ms_full m' = ms_full m.
  Proof.
    intros I. destruct (Inv_to_prune H HO HOK s R m I) as (PI & Pt & Hk & Hnd & Hlive).
    unfold Rprune. destruct (ms_full m) eqn:Hfull.
    - exists m. rewrite (mm_prune_full H HO m hs Hfull). auto.
    - destruct (mm_prune_inv H HO HOK s R m hs PI Hfull) as (m' & E & PI' & En & ET & Ef).
      exists m'. split; [exact E|]. split; [|rewrite Ef; auto].
      apply (prune_to_Inv H HO HOK); try assumption.
      + intros _. exact (mm_prune_tidy H HO HOK s R m hs m' PI (Pt eq_refl) Hfull E).
      + exact (prune_nodup H HO m m' hs E Hk).
  Qed.

  Lemma find_leaves_live s : forall hs, (forall h, In h hs -> In (Some h) s) ->
    exists tsn, find_leaves HO (layout HO s) hs = Some tsn.
  Proof.
    induction hs as [|h hs IH]; intros Hl; [exists []; reflexivity|].
    destruct (proj1 (find_leaf_live H HO s h HOK) (Hl h (or_introl eq_refl))) as (x & Hx & _).
    destruct (IH (fun k Hk => Hl k (or_intror Hk))) as [tsn Ht].
    exists (x :: tsn). cbn [find_leaves]. rewrite Hx, Ht. reflexivity.
  Qed.

  (** the canonical proof of live leaves exists *)
  Lemma exp_prove_live s hs : (forall h, In h hs -> In (Some h) s) ->
    exists ts pf, exp_prove HO (mk_ctx HO s) hs = Some (ts, pf).
  Proof.
    intros Hl. destruct (find_leaves_live s hs Hl) as [tsn Ht].
    unfold exp_prove, mk_ctx. cbn [clay crows]. rewrite Ht. eauto.
  Qed.

  Theorem ingest_Inv s R m hs ts pf : AInv s R m -> NoDup hs ->
    exp_prove HO (mk_ctx HO s) hs = Some (ts, pf) ->
    exists m', mm_ingest HO m hs ts pf = Some m' /\ AInv s (R ++ hs) m' /\
               ms_n m' = ms_n m /\ ms_total m' = ms_total m /\ ms_full m' = ms_full m.
  Proof.
    intros I Hnds Ep. destruct (Inv_to_prune H HO HOK s R m I) as (PI & Pt & Hk & Hnd & Hlive).
    destruct (mm_ingest_inv HO s R m hs ts pf HOK Hh2 Hlive PI Hnds Ep)
      as (m' & E & PI' & En & ET & Ef & Ht').
    exists m'. split; [exact E|]. split; [|auto].
    apply (prune_to_Inv H HO HOK); try assumption.
    - rewrite Ef. intros Hfull. exact (Ht' Hfull (Pt Hfull)).
    - unfold mm_ingest in E.
      destruct (ingest_steps HO m hs ts pf) as [[m1 [m2|]]|] eqn:Es; try discriminate.
      injection E as ->. exact (proj2 (ingest_steps_nodup H HO m m1 hs ts pf _ Es Hk) m' eq_refl).
  Qed.

  Theorem verify_remember_Inv s R m hs ts pf : AInv s R m -> NoDup hs ->
    exp_prove HO (mk_ctx HO s) hs = Some (ts, pf) ->
    exists m', mm_verify_remember HO m hs ts pf = Some m' /\ AInv s (R ++ hs) m' /\
               ms_n m' = ms_n m /\ ms_total m' = ms_total m /\ ms_full m' = ms_full m.
  Proof.
    intros I Hnds Ep. destruct (Inv_to_prune H HO HOK s R m I) as (PI & Pt & Hk & Hnd & Hlive).
    destruct (mm_verify_remember_inv HO s R m hs ts pf HOK Hh2 Hlive PI Hnds Ep)
      as (m' & E & PI' & En & ET & Ef & Ht').
    exists m'. split; [exact E|]. split; [|auto].
    apply (prune_to_Inv H HO HOK); try assumption.
    - rewrite Ef. intros Hfull. exact (Ht' Hfull (Pt Hfull)).
    - unfold mm_verify_remember in E. destruct (map_verify HO m hs ts pf); try discriminate.
      destruct (ingest_steps HO m hs _ pf) as [[m1 [m2|]]|] eqn:Es; try discriminate.
      + injection E as ->. exact (proj2 (ingest_steps_nodup H HO m m1 hs _ pf _ Es Hk) m' eq_refl).
      + injection E as ->. exact (proj1 (ingest_steps_nodup H HO m m' hs _ pf _ Es Hk)).
  Qed.
End Ops.

(** * 5. Histories *)

(** ** 5a. generically: a system of operations with one preservation lemma *)
Section HistoryGeneric.
  Variable H : Type.
  Variable HO : ops H.
  Notation AInv := (MapMutAdd.Inv H HO).
  Notation astate := (slots H * list H)%type.
  Variable op : Type.
  (** the side condition of an operation on the abstract state (the flag: full forest?), the
      abstract transition, the run on the map state (the reference state is at hand: the harness
      takes targets and proofs from it) *)
  Variable ok : bool -> astate -> op -> Prop.
  Variable nxt : bool -> astate -> op -> astate.
  Variable run : astate -> mstate H -> op -> option (mstate H).
  Hypothesis pres : forall st m o, AInv (fst st) (snd st) m -> ok (ms_full m) st o ->
    exists m', run st m o = Some m' /\
               AInv (fst (nxt (ms_full m) st o)) (snd (nxt (ms_full m) st o)) m' /\
               ms_full m' = ms_full m.

  Fixpoint valid (full : bool) (st : astate) (l : list op) : Prop :=
    match l with
    | [] => True
    | o :: r => ok full st o /\ valid full (nxt full st o) r
    end.
  Fixpoint final (full : bool) (st : astate) (l : list op) : astate :=
    match l with
    | [] => st
    | o :: r => final full (nxt full st o) r
    end.
  Fixpoint run_all (full : bool) (st : astate) (m : mstate H) (l : list op) : option (mstate H) :=
    match l with
    | [] => Some m
    | o :: r => match run st m o with
                | Some m' => run_all full (nxt full st o) m' r
                | None => None
                end
    end.

  Theorem history_generic l : forall full st m, ms_full m = full ->
    AInv (fst st) (snd st) m -> valid full st l ->
    exists m', run_all full st m l = Some m' /\
               AInv (fst (final full st l)) (snd (final full st l)) m' /\
               ms_full m' = full.
  Proof.
    induction l as [|o r IH]; intros full st m F I Hv; cbn [valid final run_all] in *.
    - exists m. auto.
    - destruct Hv as [Ho Hr]. rewrite <- F in Ho.
      destruct (pres st m o I Ho) as (m1 & E1 & I1 & F1). rewrite E1. rewrite F in I1, F1.
      exact (IH full _ m1 F1 I1 Hr).
  Qed.
End HistoryGeneric.

(** ** 5b. the operations proved so far *)
Section History.
  Variable H : Type.
  Variable HO : ops H.
  Hypothesis HOK : ops_ok HO.
  Hypothesis Hh2 : forall x y, op_eqb HO (op_hash2 HO x y) (op_empty HO) = false.
  Notation AInv := (MapMutAdd.Inv H HO).
  Notation astate := (slots H * list H)%type.

  Inductive mop : Type :=
  | AddBlock (adds : list (H * bool))     (* [Modify] without deletions: (hash, remember) *)
  | Prune (hs : list H)
  | Ingest (hs : list H)                  (* the canonical proof of [hs] *)
  | VerifyRemember (hs : list H).         (* [Verify] of the canonical proof, [remember = true] *)

  Definition live_distinct (s : slots H) (hs : list H) : Prop :=
    NoDup hs /\ forall h, In h hs -> In (Some h) s.

  Definition mop_ok (full : bool) (st : astate) (o : mop) : Prop :=
    match o with
    | AddBlock adds =>
        N.of_nat (length (fst st)) + N.of_nat (length adds) <= 2 ^ 63 /\
        adds_ok H HO (fst st) (snd st) full adds
    | Prune _ => True
    | Ingest hs | VerifyRemember hs => live_distinct (fst st) hs
    end.

  Definition mop_next (full : bool) (st : astate) (o : mop) : astate :=
    match o with
    | AddBlock adds => (fst st ++ map Some (map fst adds), fold_left (Rnext H full) adds (snd st))
    | Prune hs => (fst st, Rprune H HO full (snd st) hs)
    | Ingest hs | VerifyRemember hs => (fst st, snd st ++ hs)
    end.

  Definition mop_run (st : astate) (m : mstate H) (o : mop) : option (mstate H) :=
    match o with
    | AddBlock adds => mm_modify HO m adds [] [] []
    | Prune hs => mm_prune HO m hs
    | Ingest hs => match exp_prove HO (mk_ctx HO (fst st)) hs with
                   | Some (ts, pf) => mm_ingest HO m hs ts pf
                   | None => None
                   end
    | VerifyRemember hs => match exp_prove HO (mk_ctx HO (fst st)) hs with
                           | Some (ts, pf) => mm_verify_remember HO m hs ts pf
                           | None => None
                           end
    end.

  (** the one preservation lemma *)
  Theorem mop_pres st m o : AInv (fst st) (snd st) m -> mop_ok (ms_full m) st o ->
    exists m', mop_run st m o = Some m' /\
               AInv (fst (mop_next (ms_full m) st o)) (snd (mop_next (ms_full m) st o)) m' /\
               ms_full m' = ms_full m.
  Proof.
    destruct st as [s R]. cbn [fst snd]. intros I Hok.
    destruct o as [adds|hs|hs|hs]; cbn [mop_ok mop_next mop_run fst snd] in *.
    - destruct Hok as [Hfit Hadds].
      destruct (modify_adds_gen H HO HOK Hh2 adds s R m I Hfit Hadds) as (m' & E & I' & _ & F).
      exists m'. auto.
    - destruct (prune_Inv H HO HOK s R m hs I) as (m' & E & I' & _ & _ & F). exists m'. auto.
    - destruct Hok as [Hnd Hl]. destruct (exp_prove_live H HO HOK s hs Hl) as (ts & pf & Ep).
      rewrite Ep. destruct (ingest_Inv H HO HOK Hh2 s R m hs ts pf I Hnd Ep) as (m' & E & I' & _ & _ & F).
      exists m'. auto.
    - destruct Hok as [Hnd Hl]. destruct (exp_prove_live H HO HOK s hs Hl) as (ts & pf & Ep).
      rewrite Ep. destruct (verify_remember_Inv H HO HOK Hh2 s R m hs ts pf I Hnd Ep) as (m' & E & I' & _ & _ & F).
      exists m'. auto.
  Qed.

  Definition hvalid := valid H mop mop_ok mop_next.
  Definition hfinal := final H mop mop_next.
  Definition hrun := run_all H mop mop_next mop_run.

  (** every valid history from the empty forest runs without error and ends in the invariant *)
  Theorem history_ok (T : N) (full : bool) (l : list mop) : T <= 63 -> hvalid full ([], []) l ->
    exists m, hrun full ([], []) (mkM [] [] 0 T full) l = Some m /\
      AInv (fst (hfinal full ([], []) l)) (snd (hfinal full ([], []) l)) m /\
      consistent HO (fst (hfinal full ([], []) l)) (snd (hfinal full ([], []) l)) m /\
      ms_full m = full /\
      (full = false -> forall p, In p (stored_min m) ->
         exists al, allowed_pos HO (fst (hfinal full ([], []) l)) (snd (hfinal full ([], []) l)) = Some al /\
                    In p al).
  Proof.
    intros HT Hv.
    destruct (history_generic H HO mop mop_ok mop_next mop_run mop_pres l full ([], []) (mkM [] [] 0 T full)
                eq_refl (MapMutAdd.Inv_empty H HO T full HT) Hv) as (m & E & I & F).
    exists m. split; [exact E|]. split; [exact I|].
    split; [exact (MapMutAdd.Inv_consistent H HO HOK _ _ _ I)|]. split; [exact F|].
    intros Hfull. apply (Inv_stores_allowed H HO HOK _ _ _ I). rewrite F. exact Hfull.
  Qed.

  (** ** 5c. deciding the side conditions *)
  Fixpoint nodupb (l : list H) : bool :=
    match l with [] => true | x :: t => negb (memH HO x t) && nodupb t end.

  Lemma nodupb_sound l : nodupb l = true -> NoDup l.
  Proof.
    induction l as [|x t IH]; intros E; [constructor|]. cbn [nodupb] in E.
    apply andb_true_iff in E as [E1 E2]. constructor; [|exact (IH E2)].
    intros Hin. apply (memH_In H HO HOK) in Hin. rewrite Hin in E1. discriminate.
  Qed.

  Lemma liveb_true s a : liveb H HO s a = true -> In (Some a) s.
  Proof.
    unfold liveb. intros E. apply existsb_exists in E as ([h|] & Hin & Eh); [|discriminate].
    apply HOK in Eh. subst h. exact Hin.
  Qed.

  Definition mop_okb (full : bool) (st : astate) (o : mop) : bool :=
    match o with
    | AddBlock adds =>
        (N.of_nat (length (fst st)) + N.of_nat (length adds) <=? 2 ^ 63) &&
        adds_okb H HO (fst st) (snd st) full adds
    | Prune _ => true
    | Ingest hs | VerifyRemember hs => nodupb hs && forallb (liveb H HO (fst st)) hs
    end.

  Lemma mop_okb_sound full st o : mop_okb full st o = true -> mop_ok full st o.
  Proof.
    destruct o as [adds|hs|hs|hs]; cbn [mop_okb mop_ok]; intros E; [|exact I| |];
      apply andb_true_iff in E as [E1 E2].
    - split; [apply N.leb_le, E1|exact (adds_okb_sound H HO HOK adds _ _ _ E2)].
    - split; [exact (nodupb_sound _ E1)|]. rewrite forallb_forall in E2. intros h Hh. exact (liveb_true _ _ (E2 h Hh)).
    - split; [exact (nodupb_sound _ E1)|]. rewrite forallb_forall in E2. intros h Hh. exact (liveb_true _ _ (E2 h Hh)).
  Qed.

  Fixpoint hvalidb (full : bool) (st : astate) (l : list mop) : bool :=
    match l with
    | [] => true
    | o :: r => mop_okb full st o && hvalidb full (mop_next full st o) r
    end.

  Lemma hvalidb_sound full l : forall st, hvalidb full st l = true -> hvalid full st l.
  Proof.
    induction l as [|o r IH]; intros st E; [exact I|]. cbn [hvalidb] in E.
    apply andb_true_iff in E as [E1 E2]. split; [exact (mop_okb_sound _ _ _ E1)|exact (IH _ E2)].
  Qed.
End History.
Arguments AddBlock {H} adds.
Arguments Prune {H} hs.
Arguments Ingest {H} hs.
Arguments VerifyRemember {H} hs.

(** * 6. Example: a history mixing all operation kinds on a partial forest allocated with 1 row
      (so [remap] runs), over the free hash algebra; the side conditions are decided by
      computation, the theorem applies, and the final state is the one computed *)
From Utreexo Require Import Spec.Term.

Definition mmu_at (l : list (N * bool)) : list (term * bool) := map (fun e => (Atom (fst e), snd e)) l.
Definition mmu_ops : list (mop term) :=
  [ AddBlock (mmu_at [(1, true); (2, false); (3, false); (4, false); (5, true)]);
    Ingest [Atom 3];
    Prune [Atom 1];
    AddBlock (mmu_at [(6, false); (7, true)]);
    VerifyRemember [Atom 2; Atom 6];
    Prune [Atom 3; Atom 7; Atom 99];
    AddBlock (mmu_at [(8, false); (9, false); (10, true)]);
    Ingest [Atom 9; Atom 4] ].
Definition mmu_s : slots term := map (fun k => Some (Atom k)) [1; 2; 3; 4; 5; 6; 7; 8; 9; 10].
Definition mmu_R : list term := map Atom [5; 2; 6; 10; 9; 4].
Definition mmu_m : mstate term :=
  mkM [(28, (Node (Node (Node (Atom 1) (Atom 2)) (Node (Atom 3) (Atom 4)))
                  (Node (Node (Atom 5) (Atom 6)) (Node (Atom 7) (Atom 8))), false));
       (24, (Node (Node (Atom 1) (Atom 2)) (Node (Atom 3) (Atom 4)), false));
       (20, (Node (Atom 9) (Atom 10), false)); (17, (Node (Atom 3) (Atom 4), false));
       (8, (Atom 9, true)); (3, (Atom 4, true)); (16, (Node (Atom 1) (Atom 2), false));
       (2, (Atom 3, false)); (9, (Atom 10, true));
       (25, (Node (Node (Atom 5) (Atom 6)) (Node (Atom 7) (Atom 8)), false));
       (19, (Node (Atom 7) (Atom 8), false)); (5, (Atom 6, true)); (1, (Atom 2, true));
       (0, (Atom 1, false)); (4, (Atom 5, true))]
      [(Atom 9, 8); (Atom 4, 3); (Atom 10, 9); (Atom 6, 5); (Atom 2, 1); (Atom 5, 4)] 10 4 false.

Example mmu_valid : hvalid term term_ops false ([], []) mmu_ops.
Proof. apply (hvalidb_sound term term_ops term_ops_ok). vm_compute. reflexivity. Qed.

Example mmu_run :
  hfinal term term_ops false ([], []) mmu_ops = (mmu_s, mmu_R) /\
  hrun term term_ops false ([], []) (mkM [] [] 0 1 false) mmu_ops = Some mmu_m /\
  consistentb term_ops mmu_s mmu_R mmu_m = true.
Proof. vm_compute. auto. Qed.

(** the theorem on this history *)
Example mmu_history :
  MapMutAdd.Inv term term_ops mmu_s mmu_R mmu_m /\ consistent term_ops mmu_s mmu_R mmu_m /\
  (forall p, In p (stored_min mmu_m) -> exists al, allowed_pos term_ops mmu_s mmu_R = Some al /\ In p al).
Proof.
  destruct (history_ok term term_ops term_ops_ok term_node_nonzero 1 false mmu_ops ltac:(discriminate)
              mmu_valid) as (m & E & I & Hc & _ & Ha).
  destruct mmu_run as (Ef & Er & _). rewrite Ef in I, Hc, Ha. rewrite Er in E. injection E as <-.
  cbn [fst snd] in *. split; [exact I|]. split; [exact Hc|exact (Ha eq_refl)].
Qed.

(** the same history on a full forest *)
Example mmu_valid_full : hvalid term term_ops true ([], []) mmu_ops.
Proof. apply (hvalidb_sound term term_ops term_ops_ok). vm_compute. reflexivity. Qed.

Example mmu_history_full :
  exists m, hrun term term_ops true ([], []) (mkM [] [] 0 0 true) mmu_ops = Some m /\
    consistent term_ops (fst (hfinal term term_ops true ([], []) mmu_ops))
               (snd (hfinal term term_ops true ([], []) mmu_ops)) m.
Proof.
  destruct (history_ok term term_ops term_ops_ok term_node_nonzero 0 true mmu_ops ltac:(discriminate)
              mmu_valid_full) as (m & E & _ & Hc & _). exists m. auto.
Qed.

Print Assumptions Inv_to_prune.
Print Assumptions prune_to_Inv.
Print Assumptions prune_Inv.
Print Assumptions ingest_Inv.
Print Assumptions verify_remember_Inv.
Print Assumptions history_generic.
Print Assumptions history_ok.
Print Assumptions mmu_history.
