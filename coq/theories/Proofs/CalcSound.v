(** Parametric soundness of the verifier core [calculateHashes] (mirror [Model.Verify], repaired
    form [strict = true]).

    Pick any "truth predicate" [V : N -> H -> Prop] on claims (position, hash).  If [V] is
    locally sound for one hashing step ([V] of a parent position and of the hash of two
    non-empty children gives [V] of both children) and [V] holds of every root candidate that
    [calculateHashes] reports, then [V] holds of every input claim (target position, target hash).

    The theorem is about the algorithm only: which positions are popped, which hashes are paired,
    which candidates are reported with which row.  Instantiating [V] with a reference forest is
    done elsewhere.

    Reused from [Proofs.CalcTotal]: the one-iteration reformulation [calc_step] with
    [calc_loop_S], [pop]/[pop_sib], [row_loop_spec] and the closed form of [mpos]. *)
From Utreexo Require Import Model.Verify Proofs.UtilsGeom Proofs.UtilsGeom2 Proofs.CalcTotal
                            Spec.Term.
From Coq Require Import Lia ZifyN ZifyNat ZifyBool.
Open Scope N_scope.

(** * 1. List helpers (prefixed [cs_]) *)

Lemma cs_Forall2_length {A B} (P : A -> B -> Prop) l1 l2 :
  Forall2 P l1 l2 -> length l1 = length l2.
Proof.
  intros HF. induction HF as [|a b l1 l2 Hab HF IH]; [reflexivity|].
  cbn [length]. rewrite IH. reflexivity.
Qed.

Lemma cs_Forall2_cons_inv {A B} (P : A -> B -> Prop) a b l1 l2 :
  Forall2 P (a :: l1) (b :: l2) -> P a b /\ Forall2 P l1 l2.
Proof. intros HF. inversion HF as [|x y t1 t2 Hxy Ht]; subst. split; assumption. Qed.

Lemma cs_Forall2_nth {A B} (P : A -> B -> Prop) l1 l2 :
  Forall2 P l1 l2 ->
  forall i a b, nth_error l1 i = Some a -> nth_error l2 i = Some b -> P a b.
Proof.
  intros HF. induction HF as [|x y l1 l2 Hxy HF IH]; intros i a b Ha Hb.
  - destruct i; discriminate.
  - destruct i as [|i]; cbn [nth_error] in Ha, Hb.
    + injection Ha as <-. injection Hb as <-. exact Hxy.
    + exact (IH i a b Ha Hb).
Qed.

Lemma cs_nth_Forall2 {A B} (P : A -> B -> Prop) : forall l1 l2,
  length l1 = length l2 ->
  (forall i a b, nth_error l1 i = Some a -> nth_error l2 i = Some b -> P a b) ->
  Forall2 P l1 l2.
Proof.
  induction l1 as [|x l1 IH]; intros l2 Hlen Hall; destruct l2 as [|y l2];
    cbn [length] in Hlen; try discriminate; [constructor|].
  constructor.
  - exact (Hall O x y eq_refl eq_refl).
  - apply IH; [lia|]. intros i a b Ha Hb. exact (Hall (S i) a b Ha Hb).
Qed.

Lemma cs_insertK_in {A} (x y : N * A) l : In y (insertK x l) <-> y = x \/ In y l.
Proof.
  induction l as [|z l IH]; cbn [insertK In].
  - split; [intros [E|[]]; left; symmetry; exact E|intros [E|[]]; left; symmetry; exact E].
  - destruct (fst x <=? fst z); cbn [In]; [|rewrite IH]; split; intros Hin.
    + destruct Hin as [E|Hin]; [left; symmetry; exact E|right; exact Hin].
    + destruct Hin as [E|Hin]; [left; symmetry; exact E|right; exact Hin].
    + destruct Hin as [E|[E|Hin]]; [right; left; exact E|left; exact E|right; right; exact Hin].
    + destruct Hin as [E|[E|Hin]]; [right; left; exact E|left; exact E|right; right; exact Hin].
Qed.

(** the stable insertion sort keeps the claims (as a set, and in fact as a multiset) *)
Lemma cs_sortK_in {A} (y : N * A) l : In y (sortK l) <-> In y l.
Proof.
  induction l as [|x l IH]; [reflexivity|].
  unfold sortK in *. cbn [fold_right In]. rewrite cs_insertK_in, IH.
  split; (intros [E|Hin]; [left; symmetry; exact E|right; exact Hin]).
Qed.

Lemma cs_sortK_Forall {A} (P : N * A -> Prop) l : Forall P (sortK l) <-> Forall P l.
Proof.
  rewrite !Forall_forall. split; intros Hall x Hx; apply Hall; apply cs_sortK_in; exact Hx.
Qed.

Lemma cs_zip_hp_nth {H} : forall (ts : list N) (hs : list H) j t h,
  nth_error ts j = Some t -> nth_error hs j = Some h -> In (t, h) (zip_hp ts hs).
Proof.
  induction ts as [|t0 ts IH]; intros hs j t h Ht Hh; [destruct j; discriminate|].
  destruct hs as [|h0 hs]; [destruct j; discriminate|].
  cbn [zip_hp]. destruct j as [|j]; cbn [nth_error] in Ht, Hh.
  - injection Ht as <-. injection Hh as <-. left. reflexivity.
  - right. exact (IH hs j t h Ht Hh).
Qed.

Lemma cs_zip_hp_in {H} : forall (ts : list N) (hs : list H) t h,
  In (t, h) (zip_hp ts hs) ->
  exists j, nth_error ts j = Some t /\ nth_error hs j = Some h.
Proof.
  induction ts as [|t0 ts IH]; intros hs t h Hin; [destruct Hin|].
  destruct hs as [|h0 hs]; [destruct Hin|]. cbn [zip_hp In] in Hin.
  destruct Hin as [E|Hin].
  - injection E as <- <-. exists O. split; reflexivity.
  - destruct (IH hs t h Hin) as (j & Hj1 & Hj2). exists (S j). split; assumption.
Qed.

Lemma cs_zip_hp_Forall_snd {H} (P : H -> Prop) : forall (ts : list N) (hs : list H),
  Forall P hs -> Forall (fun e : N * H => P (snd e)) (zip_hp ts hs).
Proof.
  induction ts as [|t ts IH]; intros hs Hall; [constructor|].
  destruct hs as [|h hs]; [constructor|]. cbn [zip_hp].
  inversion Hall as [|h' hs' Hh Hrest]; subst.
  constructor; [exact Hh|apply IH; exact Hrest].
Qed.

(** * 2. Position arithmetic *)

(** in the pair case the loop insists on a left niece; its right sibling is its sibling *)
Lemma cs_rightSib_sibling p : isLeftNiece p = true -> rightSib p = sibling p.
Proof.
  unfold isLeftNiece, rightSib, sibling, and64, or64, xor64.
  rewrite land_1, lor_1, lxor_1. destruct (N.even p); [reflexivity|discriminate].
Qed.

(** the maximal position of every row lies inside the geometry of height [t] *)
Lemma cs_mpos_bound n t r : t <= 63 -> n <= 2 ^ t -> r <= t ->
  mpos n t r <= 2 ^ (t + 1) - 2.
Proof.
  intros Ht Hn Hr. rewrite ct_mpos_eq by assumption.
  pose proof (ct_div_pow2_le n t r Hn Hr) as Hq. unfold gstart.
  replace (t + 1 - r) with (t - r + 1) by lia. rewrite !pow2_S.
  pose proof (pow2_pos (t - r)) as HA. pose proof (pow2_le (t - r) t ltac:(lia)) as HAP.
  set (A := 2 ^ (t - r)) in *. set (P := 2 ^ t) in *. set (q := n / 2 ^ r) in *.
  clearbody A P q. lia.
Qed.

(** a root position of row [r] is [rootPosition n r (TreeRows n)] and bit [r] of [n] is set *)
Lemma cs_isRoot_rootPosition p n r : n <= 2 ^ 63 -> isRootPositionOnRow p n r = true ->
  N.testbit n r = true /\ r <= TreeRows n /\ p = rootPosition n r (TreeRows n).
Proof.
  intros Hn E. apply (isRootPositionOnRow_spec p n r Hn) in E. destruct E as [Hb Hp].
  destruct (root_coord_valid n r (TreeRows n) (TreeRows_upper n) Hb) as [Hr _].
  split; [exact Hb|]. split; [exact Hr|].
  rewrite rootPosition_gpos; [exact Hp|apply TreeRows_le_63; exact Hn|exact Hr|apply TreeRows_upper].
Qed.

(** * 3. Non-empty hashes *)

Definition NZ {H} (HO : ops H) (h : H) : Prop := op_eqb HO h (op_empty HO) = false.

Lemma cs_has_empty_false {H} (HO : ops H) l : has_empty HO l = false <-> Forall (NZ HO) l.
Proof.
  induction l as [|x l IH]; cbn [has_empty].
  - split; [constructor|reflexivity].
  - rewrite Forall_cons_iff, orb_false_iff, IH. reflexivity.
Qed.

(** on non-empty operands [getNextHash] is the node hash in the order given by the niece bit *)
Lemma cs_getNextHash_nz {H} (HO : ops H) p h s : NZ HO h -> NZ HO s ->
  getNextHash HO p h s = if isLeftNiece p then op_hash2 HO h s else op_hash2 HO s h.
Proof. unfold NZ, getNextHash. intros -> ->. reflexivity. Qed.

(** * 4. What [pop] and [pop_sib] do to a predicate on the two queues *)

Lemma cs_pop_none {H} (tp np : list (hp H)) : pop H tp np = None -> tp = [] /\ np = [].
Proof.
  unfold pop. destruct tp as [|x tp]; destruct np as [|y np]; intros E; try discriminate.
  - split; reflexivity.
  - destruct (fst x <? fst y); discriminate.
Qed.

Lemma cs_pop_Forall {H} (P : hp H -> Prop) tp np p h tp1 np1 :
  pop H tp np = Some (p, h, tp1, np1) ->
  (Forall P tp /\ Forall P np <-> P (p, h) /\ Forall P tp1 /\ Forall P np1).
Proof.
  intros E. destruct (pop_spec H _ _ _ _ _ _ E) as [[-> ->]|[-> ->]];
    rewrite Forall_cons_iff; split; intros Hx.
  - destruct Hx as [[H1 H2] H3]. repeat split; assumption.
  - destruct Hx as [H1 [H2 H3]]. repeat split; assumption.
  - destruct Hx as [H1 [H2 H3]]. repeat split; assumption.
  - destruct Hx as [H1 [H2 H3]]. repeat split; assumption.
Qed.

Lemma cs_pop_sib_pop {H} p (tp np : list (hp H)) sh tp2 np2 :
  pop_sib H p tp np = Some (sh, tp2, np2) -> pop H tp np = Some (rightSib p, sh, tp2, np2).
Proof.
  unfold pop_sib. destruct (pop H tp np) as [[[[q h] tp'] np']|]; [|discriminate].
  destruct (N.eqb_spec (rightSib p) q) as [<-|_]; [|discriminate].
  intros E. injection E as <- <- <-. reflexivity.
Qed.

(** * 5. The loop *)

Section CalcSound.
  Variable H : Type.
  Variable HO : ops H.
  Variable V : N -> H -> Prop.
  Variables n total : N.
  Hypothesis Htotal : total = TreeRows n.
  Hypothesis Hn63 : n <= 2 ^ 63.

  Local Notation hash2 := (op_hash2 HO).
  Local Notation nz := (NZ HO).

  Hypothesis hash_nz : forall a b, nz (hash2 a b).

  (** local soundness of [V] for one hashing step, inside the geometry only *)
  Hypothesis V_step : forall p h hs,
    p <= 2 ^ (total + 1) - 2 -> nz h -> nz hs ->
    V (Parent p total) (if isLeftNiece p then hash2 h hs else hash2 hs h) ->
    V p h /\ V (sibling p) hs.

  Lemma cs_total_63 : total <= 63.
  Proof. rewrite Htotal. apply TreeRows_le_63. exact Hn63. Qed.

  Lemma cs_n_le : n <= 2 ^ total.
  Proof. rewrite Htotal. apply TreeRows_upper. Qed.

  Definition NZq (l : list (hp H)) : Prop := Forall (fun e : hp H => nz (snd e)) l.
  Definition VQ (l : list (hp H)) : Prop := Forall (fun e : hp H => V (fst e) (snd e)) l.

  (** the invariant of the reachable loop states: the cursor is a row of the forest, every
      queued and every remaining proof hash is non-empty *)
  Definition StOK (st : cstate H) : Prop :=
    c_row st <= total /\ NZq (c_tp st) /\ NZq (c_np st) /\ Forall nz (c_proof st).

  (** what is known of a reported candidate [c] with its row [r] *)
  Definition cand_ok (c : H) (r : N) : Prop :=
    N.testbit n r = true /\ r <= total /\ nz c /\
    isRootPositionOnRow (rootPosition n r total) n r = true.

  Definition cand_V (c : H) (r : N) : Prop := V (rootPosition n r total) c.

  Lemma cs_step_V p h hs r : r <= total -> p <= mpos n total r -> nz h -> nz hs ->
    V (Parent p total) (getNextHash HO p h hs) -> V p h /\ V (sibling p) hs.
  Proof.
    intros Hr Hp Hh Hhs HV. rewrite cs_getNextHash_nz in HV by assumption.
    apply V_step; try assumption.
    pose proof (cs_mpos_bound n total r cs_total_63 cs_n_le Hr) as Hb. lia.
  Qed.

  Lemma cs_next_nz p h hs : nz h -> nz hs -> nz (getNextHash HO p h hs).
  Proof.
    intros Hh Hhs. rewrite cs_getNextHash_nz by assumption.
    destruct (isLeftNiece p); apply hash_nz.
  Qed.

  Lemma cs_NZq_snoc l p h : NZq l -> nz h -> NZq (l ++ [(p, h)]).
  Proof.
    intros Hl Hh. unfold NZq. apply Forall_app. split; [exact Hl|].
    constructor; [exact Hh|constructor].
  Qed.

  Lemma cs_VQ_snoc l p h : VQ (l ++ [(p, h)]) -> VQ l /\ V p h.
  Proof.
    unfold VQ. intros Hl. apply Forall_app in Hl. destruct Hl as [H1 H2].
    inversion H2 as [|e t He Ht]; subst. split; [exact H1|exact He].
  Qed.

  (** the backward ("future candidates") statement *)
  Lemma calc_loop_sound tp_all : forall f st inter cands rows,
    StOK st ->
    calc_loop HO true f n total st tp_all = Ok (inter, cands, rows) ->
    exists nc nr,
      cands = c_roots st ++ nc /\ rows = c_rows st ++ nr /\
      Forall2 cand_ok nc nr /\
      (Forall2 cand_V nc nr -> VQ (c_tp st) /\ VQ (c_np st)).
  Proof.
    induction f as [|f IH]; intros st inter cands rows Hst E; [discriminate|].
    rewrite calc_loop_S in E. unfold calc_step in E. cbv zeta in E.
    destruct Hst as (Hrow & Htp & Hnp & Hpf).
    pose proof cs_total_63 as Ht63. pose proof cs_n_le as Hnle.
    destruct (N.ltb_spec total (c_row st)) as [Hgt|_]; [lia|].
    destruct (pop H (c_tp st) (c_np st)) as [[[[p h] tp1] np1]|] eqn:Epop.
    2:{ cbn [step_k] in E. injection E as _ <- <-.
        destruct (cs_pop_none _ _ Epop) as [E1 E2].
        exists [], []. rewrite !app_nil_r. split; [reflexivity|]. split; [reflexivity|].
        split; [constructor|]. intros _. rewrite E1, E2. split; constructor. }
    (* the popped claim and the rest of the queues *)
    pose proof (proj1 (cs_pop_Forall (fun e : hp H => nz (snd e)) _ _ _ _ _ _ Epop)
                      (conj Htp Hnp)) as (Hh & Htp1 & Hnp1).
    cbn [snd] in Hh.
    assert (Hback : V p h -> VQ tp1 -> VQ np1 -> VQ (c_tp st) /\ VQ (c_np st)).
    { intros H1 H2 H3.
      exact (proj2 (cs_pop_Forall (fun e : hp H => V (fst e) (snd e)) _ _ _ _ _ _ Epop)
                   (conj H1 (conj H2 H3))). }
    destruct (match c_prev st with Some q => p <=? q | None => false end);
      [cbn [step_k] in E; discriminate|].
    destruct (row_loop_spec n total Ht63 Hnle p 300 (c_row st) Hrow ltac:(lia))
      as [Er|(r & Er & Hcr & Hrt & Hpr & _)]; rewrite Er in E;
      [cbn [step_k] in E; discriminate|].
    destruct (isRootPositionOnRow p n r) eqn:Eroot.
    - (* [p] is the root of row [r]: [h] is the next candidate *)
      cbn [step_k] in E. apply IH in E.
      2:{ unfold StOK. cbn [c_row c_tp c_np c_proof]. repeat split; assumption. }
      destruct E as (nc & nr & Ec & Erw & Hok & HV).
      cbn [c_roots c_rows c_tp c_np] in Ec, Erw, HV.
      rewrite <- app_assoc in Ec, Erw. cbn [app] in Ec, Erw.
      destruct (cs_isRoot_rootPosition p n r Hn63 Eroot) as (Hbit & _ & Ep).
      rewrite <- Htotal in Ep.
      exists (h :: nc), (r :: nr). split; [exact Ec|]. split; [exact Erw|]. split.
      + constructor; [|exact Hok]. unfold cand_ok. rewrite <- Ep. repeat split; assumption.
      + intros HF. apply cs_Forall2_cons_inv in HF. destruct HF as [Hhd Htl].
        unfold cand_V in Hhd. rewrite <- Ep in Hhd.
        destruct (HV Htl) as [H2 H3]. exact (Hback Hhd H2 H3).
    - destruct (pop_sib H p tp1 np1) as [[[sh tp2] np2]|] eqn:Esib.
      + (* the sibling is queued: both claims are consumed *)
        destruct (isLeftNiece p) eqn:Eleft; cbn [negb] in E;
          [|cbn [step_k] in E; discriminate].
        pose proof (cs_pop_sib_pop _ _ _ _ _ _ Esib) as Epop2.
        pose proof (proj1 (cs_pop_Forall (fun e : hp H => nz (snd e)) _ _ _ _ _ _ Epop2)
                          (conj Htp1 Hnp1)) as (Hsh & Htp2 & Hnp2).
        cbn [snd] in Hsh.
        cbn [step_k] in E. apply IH in E.
        2:{ unfold StOK. cbn [c_row c_tp c_np c_proof]. split; [exact Hrt|].
            split; [exact Htp2|]. split; [|exact Hpf].
            apply cs_NZq_snoc; [exact Hnp2|]. apply cs_next_nz; assumption. }
        destruct E as (nc & nr & Ec & Erw & Hok & HV).
        cbn [c_roots c_rows c_tp c_np] in Ec, Erw, HV.
        exists nc, nr. split; [exact Ec|]. split; [exact Erw|]. split; [exact Hok|].
        intros HF. destruct (HV HF) as [H2 H3].
        apply cs_VQ_snoc in H3. destruct H3 as [H3 Hpar].
        destruct (cs_step_V p h sh r Hrt Hpr Hh Hsh Hpar) as [Vp Vs].
        rewrite <- (cs_rightSib_sibling p Eleft) in Vs.
        apply Hback; [exact Vp| |].
        * exact (proj1 (proj2 (cs_pop_Forall (fun e : hp H => V (fst e) (snd e))
                                 _ _ _ _ _ _ Epop2) (conj Vs (conj H2 H3)))).
        * exact (proj2 (proj2 (cs_pop_Forall (fun e : hp H => V (fst e) (snd e))
                                 _ _ _ _ _ _ Epop2) (conj Vs (conj H2 H3)))).
      + (* the sibling comes from the proof *)
        destruct (c_proof st) as [|ph prest] eqn:Epf; [cbn [step_k] in E; discriminate|].
        inversion Hpf as [|ph' prest' Hph Hprest]; subst ph' prest'.
        cbn [step_k] in E. apply IH in E.
        2:{ unfold StOK. cbn [c_row c_tp c_np c_proof]. split; [exact Hrt|].
            split; [exact Htp1|]. split; [|exact Hprest].
            apply cs_NZq_snoc; [exact Hnp1|]. apply cs_next_nz; assumption. }
        destruct E as (nc & nr & Ec & Erw & Hok & HV).
        cbn [c_roots c_rows c_tp c_np] in Ec, Erw, HV.
        exists nc, nr. split; [exact Ec|]. split; [exact Erw|]. split; [exact Hok|].
        intros HF. destruct (HV HF) as [H2 H3].
        apply cs_VQ_snoc in H3. destruct H3 as [H3 Hpar].
        destruct (cs_step_V p h ph r Hrt Hpr Hh Hph Hpar) as [Vp _].
        exact (Hback Vp H2 H3).
  Qed.

  (** * 6. The theorem *)

  Theorem calc_claims_sound hashes targets proof inter cands rows :
    length hashes = length targets ->
    has_empty HO hashes = false -> has_empty HO proof = false ->
    calculateHashes HO true n (Some hashes) targets proof = Ok (inter, cands, rows) ->
    length cands = length rows /\
    (forall i c r, nth_error cands i = Some c -> nth_error rows i = Some r ->
       N.testbit n r = true /\ r <= total /\ nz c /\
       isRootPositionOnRow (rootPosition n r total) n r = true) /\
    ((forall i c r, nth_error cands i = Some c -> nth_error rows i = Some r ->
        V (rootPosition n r total) c) ->
     forall j t h, nth_error targets j = Some t -> nth_error hashes j = Some h -> V t h).
  Proof.
    intros Hlen Hhs Hpf E. unfold calculateHashes in E. cbv zeta in E.
    rewrite Hlen, PeanoNat.Nat.eqb_refl in E. cbn [negb] in E. rewrite <- Htotal in E.
    apply cs_has_empty_false in Hhs. apply cs_has_empty_false in Hpf.
    apply calc_loop_sound in E.
    2:{ unfold StOK. cbn [c_row c_tp c_np c_proof]. split; [lia|]. split; [|split].
        - unfold NZq. apply cs_sortK_Forall. apply cs_zip_hp_Forall_snd. exact Hhs.
        - constructor.
        - exact Hpf. }
    destruct E as (nc & nr & Ec & Erw & Hok & HV).
    cbn [c_roots c_rows c_tp c_np app] in Ec, Erw, HV. subst cands rows.
    split; [exact (cs_Forall2_length _ _ _ Hok)|]. split.
    - intros i c r Hc Hr. exact (cs_Forall2_nth _ _ _ Hok i c r Hc Hr).
    - intros Hall j t h Ht Hh.
      assert (HF : Forall2 cand_V nc nr).
      { apply cs_nth_Forall2; [exact (cs_Forall2_length _ _ _ Hok)|exact Hall]. }
      destruct (HV HF) as [Hq _]. unfold VQ in Hq.
      rewrite cs_sortK_Forall, Forall_forall in Hq.
      exact (Hq (t, h) (cs_zip_hp_nth targets hashes j t h Ht Hh)).
  Qed.
End CalcSound.

(** The statement, closed (for reference by other files). *)
Definition calc_claims_sound_statement : Prop :=
  forall (H : Type) (HO : ops H) (V : N -> H -> Prop) (n total : N),
    total = TreeRows n -> n <= 2 ^ 63 ->
    (forall a b, NZ HO (op_hash2 HO a b)) ->
    (forall p h hs, p <= 2 ^ (total + 1) - 2 -> NZ HO h -> NZ HO hs ->
       V (Parent p total)
         (if isLeftNiece p then op_hash2 HO h hs else op_hash2 HO hs h) ->
       V p h /\ V (sibling p) hs) ->
    forall hashes targets proof inter cands rows,
      length hashes = length targets ->
      has_empty HO hashes = false -> has_empty HO proof = false ->
      calculateHashes HO true n (Some hashes) targets proof = Ok (inter, cands, rows) ->
      length cands = length rows /\
      (forall i c r, nth_error cands i = Some c -> nth_error rows i = Some r ->
         N.testbit n r = true /\ r <= total /\ NZ HO c /\
         isRootPositionOnRow (rootPosition n r total) n r = true) /\
      ((forall i c r, nth_error cands i = Some c -> nth_error rows i = Some r ->
          V (rootPosition n r total) c) ->
       forall j t h, nth_error targets j = Some t -> nth_error hashes j = Some h -> V t h).

Theorem calc_claims_sound_holds : calc_claims_sound_statement.
Proof.
  unfold calc_claims_sound_statement. intros H HO V n total Htotal Hn Hnz Hstep.
  exact (calc_claims_sound H HO V n total Htotal Hn Hnz Hstep).
Qed.

(** * 7. Non-vacuity (free hash algebra, by computation) *)

Lemma cs_term_hash_nz : forall a b : term, NZ term_ops (op_hash2 term_ops a b).
Proof. intros a b. reflexivity. Qed.

(** an honest proof in the forest of 7 leaves [Atom 0 .. Atom 6]: targets 0, 5, 6 (given out of
    order); three candidates, one per root *)
Example ex_sound_ok :
  calculateHashes term_ops true 7 (Some [Atom 6; Atom 0; Atom 5]) [6; 0; 5]
                  [Atom 1; Atom 4; Node (Atom 2) (Atom 3)]
  = Ok ([(0, Atom 0); (5, Atom 5); (6, Atom 6);
         (8, Node (Atom 0) (Atom 1)); (10, Node (Atom 4) (Atom 5));
         (12, Node (Node (Atom 0) (Atom 1)) (Node (Atom 2) (Atom 3)))],
        [Atom 6; Node (Atom 4) (Atom 5);
         Node (Node (Atom 0) (Atom 1)) (Node (Atom 2) (Atom 3))],
        [0; 1; 2]).
Proof. vm_compute. reflexivity. Qed.

Example ex_sound_ok_positions :
  (rootPosition 7 0 (TreeRows 7), rootPosition 7 1 (TreeRows 7), rootPosition 7 2 (TreeRows 7))
  = (6, 10, 12).
Proof. vm_compute. reflexivity. Qed.

(** the hypotheses on [V] are satisfiable by a real forest: two leaves [Atom 0], [Atom 1] *)
Definition ex_V (p : N) (h : term) : Prop :=
  (p = 0 /\ h = Atom 0) \/ (p = 1 /\ h = Atom 1) \/ (p = 2 /\ h = Node (Atom 0) (Atom 1)).

Lemma ex_V_step : forall p h hs,
  p <= 2 ^ (1 + 1) - 2 -> NZ term_ops h -> NZ term_ops hs ->
  ex_V (Parent p 1)
       (if isLeftNiece p then op_hash2 term_ops h hs else op_hash2 term_ops hs h) ->
  ex_V p h /\ ex_V (sibling p) hs.
Proof.
  intros p h hs Hp _ _ HV. change (2 ^ (1 + 1) - 2) with 2 in Hp.
  assert (Hcase : p = 0 \/ p = 1 \/ p = 2) by lia.
  destruct Hcase as [-> | [-> | ->]].
  - change (Parent 0 1) with 2 in HV. change (isLeftNiece 0) with true in HV.
    change (sibling 0) with 1. cbn [op_hash2 term_ops] in HV.
    destruct HV as [[E _]|[[E _]|[_ E]]]; try discriminate E.
    injection E as -> ->. split; [left|right; left]; split; reflexivity.
  - change (Parent 1 1) with 2 in HV. change (isLeftNiece 1) with false in HV.
    change (sibling 1) with 0. cbn [op_hash2 term_ops] in HV.
    destruct HV as [[E _]|[[E _]|[_ E]]]; try discriminate E.
    injection E as -> ->. split; [right; left|left]; split; reflexivity.
  - change (Parent 2 1) with 3 in HV.
    destruct HV as [[E _]|[[E _]|[E _]]]; discriminate E.
Qed.

(** the theorem at this [V]: whoever gets the root of the two-leaf forest out of
    [calculateHashes] has only made true claims *)
Example ex_sound_instance hashes targets proof inter cands rows :
  length hashes = length targets ->
  has_empty term_ops hashes = false -> has_empty term_ops proof = false ->
  calculateHashes term_ops true 2 (Some hashes) targets proof = Ok (inter, cands, rows) ->
  (forall c, In c cands -> c = Node (Atom 0) (Atom 1)) ->
  forall j t h, nth_error targets j = Some t -> nth_error hashes j = Some h -> ex_V t h.
Proof.
  intros Hlen Hhs Hpf E Hroot.
  destruct (calc_claims_sound term term_ops ex_V 2 1 eq_refl ltac:(vm_compute; discriminate)
              cs_term_hash_nz ex_V_step hashes targets proof inter cands rows Hlen Hhs Hpf E)
    as (_ & Hok & Hsound).
  apply Hsound. intros i c r Hc Hr.
  destruct (Hok i c r Hc Hr) as (Hbit & Hr1 & _ & _).
  assert (Hcase : r = 0 \/ r = 1) by lia.
  destruct Hcase as [-> | ->]; [discriminate Hbit|].
  change (rootPosition 2 1 1) with 2. right. right. split; [reflexivity|].
  apply Hroot. exact (nth_error_In _ _ Hc).
Qed.

Example ex_sound_instance_ok :
  calculateHashes term_ops true 2 (Some [Atom 0]) [0] [Atom 1]
  = Ok ([(0, Atom 0); (2, Node (Atom 0) (Atom 1))], [Node (Atom 0) (Atom 1)], [1]).
Proof. vm_compute. reflexivity. Qed.

Print Assumptions calc_claims_sound.
Print Assumptions calc_claims_sound_holds.
Print Assumptions ex_sound_instance.
