(** [MapPollard.Prune], [MapPollard.Ingest] and [MapPollard.Verify] with [remember = true] on a
    map forest: the operations that do not change the forest, only what a partial forest stores
    (property C09).  The mirror is [Model.MapMut] ([mm_prune], [mm_ingest], [mm_verify_remember]).

    Invariant.  [Inv s R m] = [consistent HO s R m] of [Proofs.MapReadSpec] (every stored hash is
    the true hash of the node at its position; the cached map is exactly [R] at the true
    positions; the roots, the leaves of [R] and the siblings along their paths are stored) plus
    [flags_ok]: the stored node of every remembered leaf carries the [remember] flag (without it
    [prunePosition] would delete remembered leaves).  [Inv_empty]: the empty forest satisfies it.

    Tidiness.  [tidy s R m]: every stored position is the position of a root, of a member of the
    known set (the leaves of [R] and their ancestors) or of the sibling of a non-root member, and
    only leaves of [R] carry the flag.  [tidy_allowed]: then every stored position (translated
    to the minimal geometry, [stored_min]) is in [Forest.allowed_pos].

    Theorems (axiom-free, any [H], [HO] with a correct [op_eqb]):
    - G1 [mm_prune_inv]: on a partial forest [Prune hs] succeeds and keeps [Inv] for
      [R] minus [hs]; hashes that are not remembered (or repeated) are skipped ([mm_prune_skip]),
      so no hypothesis on [hs] is needed; on a full forest [Prune] is the identity
      ([mm_prune_full]);
    - G2 [mm_prune_tidy]: [Prune] preserves tidiness - together with G1: pruning removes exactly
      what no other remembered leaf needs, up to ancestors of remembered leaves, which may go
      (they are allowed, not needed: [prunePosition] deletes e.g. the parent of a remembered leaf
      whose other child was pruned);
    - G3 [mm_ingest_inv], [mm_verify_remember_inv]: the canonical proof ([exp_prove], targets in
      the coordinates of the minimal geometry, any order) of distinct live leaves [hs] is
      accepted / ingested, [Inv] holds for [R ++ hs], and tidiness is preserved on a partial
      forest.  Hypotheses: [hash2] never returns the empty hash, no live leaf is the empty hash
      (as for [verify_complete]);
    - [Inv_ext], [tidy_ext]: both depend on [R] only as a set;
    - [Invb_sound], [tidyb_sound]: sound decision procedures; [mmp_ex_*]: the hypotheses are
      satisfiable and the theorems compute on the example state of [MapReadSpec]. *)
From Utreexo Require Import Base.Hash Model.Utils Model.UtilsFast Model.Verify Model.MapRead
  Model.MapMut Spec.Forest Spec.Oracle Spec.Geometry
  Proofs.UtilsGeom Proofs.UtilsGeom2 Proofs.SpecBasics Proofs.StumpAdd Proofs.LayoutStruct
  Proofs.ProofPosSpec Proofs.MapReadSpec Proofs.CalcSound Proofs.CalcComplete.
From Utreexo Require Proofs.RefTheory.
From Coq Require Import List Arith PeanoNat NArith Lia ZifyNat ZifyN ZifyBool Sorted Permutation Bool.
Import ListNotations.
Open Scope N_scope.

Local Notation gpos := UtilsGeom.gpos.

(** * 0. The two association lists *)
Section Assoc.
  Variable H : Type.
  Variable HO : ops H.
  Hypothesis HOK : ops_ok HO.

  Lemma ng_del_same p (l : nodemap H) : nodes_get (nodes_del p l) p = None.
  Proof.
    induction l as [|[k v] l IH]; [reflexivity|]. unfold nodes_del in *. cbn [filter fst].
    destruct (N.eqb_spec k p) as [E|E]; cbn [negb]; [exact IH|].
    cbn [nodes_get]. destruct (N.eqb_spec k p); [contradiction|exact IH].
  Qed.

  Lemma ng_del_other p q (l : nodemap H) : q <> p -> nodes_get (nodes_del p l) q = nodes_get l q.
  Proof.
    intros Hne. induction l as [|[k v] l IH]; [reflexivity|]. unfold nodes_del in *.
    cbn [filter fst nodes_get].
    destruct (N.eqb_spec k p) as [E|E]; cbn [negb].
    - destruct (N.eqb_spec k q) as [E'|E']; [congruence|exact IH].
    - cbn [nodes_get]. destruct (N.eqb_spec k q); [reflexivity|exact IH].
  Qed.

  Lemma in_del p (l : nodemap H) e : In e (nodes_del p l) -> In e l.
  Proof. unfold nodes_del. intros Hin. apply filter_In in Hin. apply Hin. Qed.

  Lemma ng_put_same p v (l : nodemap H) : nodes_get (nodes_put p v l) p = Some v.
  Proof. unfold nodes_put. cbn [nodes_get]. rewrite N.eqb_refl. reflexivity. Qed.

  Lemma ng_put_other p q v (l : nodemap H) : q <> p ->
    nodes_get (nodes_put p v l) q = nodes_get l q.
  Proof.
    intros Hne. unfold nodes_put. cbn [nodes_get].
    destruct (N.eqb_spec p q); [congruence|]. apply ng_del_other, Hne.
  Qed.

  Lemma in_put p v (l : nodemap H) e : In e (nodes_put p v l) -> e = (p, v) \/ In e l.
  Proof. unfold nodes_put. intros [<-|Hin]; [left; reflexivity|right; exact (in_del p l e Hin)]. Qed.

  Lemma ng_del_stored p q (l : nodemap H) :
    nodes_get (nodes_del p l) q <> None -> nodes_get l q <> None.
  Proof.
    destruct (N.eq_dec q p) as [->|Hne]; [rewrite ng_del_same; congruence|].
    rewrite ng_del_other by exact Hne. auto.
  Qed.

  Lemma heqb_refl h : op_eqb HO h h = true.
  Proof. apply HOK. reflexivity. Qed.

  Lemma in_cdel h (l : cachemap H) k p : In (k, p) (cached_del HO h l) <-> In (k, p) l /\ k <> h.
  Proof.
    unfold cached_del. rewrite filter_In. cbn [fst]. split.
    - intros [Hin Hb]. split; [exact Hin|]. intros ->. rewrite heqb_refl in Hb. discriminate.
    - intros [Hin Hne]. split; [exact Hin|]. destruct (op_eqb HO k h) eqn:E; [|reflexivity].
      apply HOK in E. contradiction.
  Qed.
End Assoc.

(** * 1. Nodes of the layout as positions of the [T]-row geometry *)
Section Geo.
  Variable H : Type.
  Variable HO : ops H.
  Hypothesis HOK : ops_ok HO.
  Variable s : slots H.
  Variable T : N.
  Notation lay := (layout HO s).
  Notation n := (N.of_nat (length s)).
  Notation tr := (TreeRows (N.of_nat (length s))).
  Hypothesis Hn63 : n <= 2 ^ 63.
  Hypothesis HTlo : tr <= T.
  Hypothesis HT63 : T <= 63.
  Notation gpx := (fun x : node H => gp T (nrow x) (noff x)).

  Lemma nv x : In x lay -> N.of_nat (nrow x) <= T /\ noff x < 2 ^ (T - N.of_nat (nrow x)).
  Proof.
    exact (nodeh_valid H HO s T Hn63 HTlo HT63 [] (fun x Hx => match Hx with end)
             (fun x Hx => match Hx with end) x).
  Qed.

  Lemma nv_min x : In x lay -> N.of_nat (nrow x) <= tr /\ noff x < 2 ^ (tr - N.of_nat (nrow x)).
  Proof.
    intros Hx. destruct (layout_coords_rows_of H HO s x Hx) as [Hr Ho].
    pose proof (pc_rows_of H s) as E. rewrite E in Ho. split; [lia|exact Ho].
  Qed.

  Lemma gpx_inj x y : In x lay -> In y lay -> gpx x = gpx y -> x = y.
  Proof.
    exact (nodeh_gp_eq H HO s T Hn63 HTlo HT63 [] (fun x Hx => match Hx with end)
             (fun x Hx => match Hx with end) x y).
  Qed.

  Lemma coord_node_eq x y : In x lay -> In y lay -> (nrow x, noff x) = (nrow y, noff y) -> x = y.
  Proof.
    intros Hx Hy E. injection E as Er Eo. pose proof (tnode_in H HO s x Hx) as Ex.
    pose proof (tnode_in H HO s y Hy) as Ey. rewrite Er, Eo in Ex. congruence.
  Qed.

  Lemma detect_gpx x : In x lay -> DetectRow (gpx x) T = N.of_nat (nrow x).
  Proof. intros Hx. destruct (nv x Hx) as [A B]. unfold gp. apply DetectRow_gpos; assumption. Qed.

  (** [isRootPositionTotalRows] on the position of a node says whether it is a root *)
  Lemma isroot_min r o : r <= tr -> o < 2 ^ (tr - r) ->
    isRootPosition (gpos tr r o) n = is_root_c n (r, o).
  Proof.
    intros Hr Ho. pose proof (TreeRows_le_63 n Hn63) as Htr.
    unfold isRootPosition. rewrite DetectRow_gpos by assumption.
    unfold is_root_c. cbn [fst snd].
    destruct (isRootPositionOnRow (gpos tr r o) n r) eqn:E.
    - apply isRootPositionOnRow_spec in E as [Hb Ep]; [|exact Hn63]. rewrite Hb. cbn [andb].
      destruct (root_coord_valid n r tr (TreeRows_upper n) Hb) as [Hk Hv].
      destruct (gpos_inj tr _ _ _ _ Hr Ho Hk Hv Ep) as [_ ->]. symmetry. apply N.eqb_refl.
    - destruct (N.testbit n r) eqn:Hb; [|reflexivity]. cbn [andb].
      destruct (N.eqb_spec o (2 * (n / 2 ^ (r + 1)))) as [Eo|]; [|reflexivity].
      assert (Ht : isRootPositionOnRow (gpos tr r o) n r = true).
      { apply isRootPositionOnRow_spec; [exact Hn63|]. split; [exact Hb|]. rewrite Eo. reflexivity. }
      congruence.
  Qed.

  Lemma isroot_gpx x : In x lay -> isRootPositionTotalRows (gpx x) n T = nroot x.
  Proof.
    intros Hx. destruct (nv x Hx) as [A B]. destruct (nv_min x Hx) as [C D].
    pose proof (TreeRows_le_63 n Hn63) as Htr.
    rewrite <- (node_is_root_c H HO s x Hx). unfold isRootPositionTotalRows, gp.
    destruct (N.eqb_spec T tr) as [E|E].
    - rewrite E. apply isroot_min; assumption.
    - rewrite translatePos_gpos by assumption. apply isroot_min; assumption.
  Qed.

  Lemma sibling_gpx x : In x lay -> sibling (gpx x) = gp T (nrow x) (N.lxor (noff x) 1).
  Proof. intros Hx. destruct (nv x Hx) as [A B]. unfold gp. apply sibling_gpos. exact A. Qed.

  (** a non-root node, its sibling and its parent *)
  Lemma family x : In x lay -> nroot x = false ->
    exists p sb, In p lay /\ In sb lay /\ nroot sb = false /\ nleaf p = false /\
      nrow sb = nrow x /\ noff sb = N.lxor (noff x) 1 /\
      nrow p = S (nrow x) /\ noff p = noff x / 2 /\
      sibling (gpx x) = gpx sb /\ sibling (gpx sb) = gpx x /\ Parent (gpx x) T = gpx p.
  Proof.
    intros Hx Hr.
    destruct (node_sibling H HO s _ _ x (tnode_in H HO s x Hx) Hr)
      as (p & sb & Hp & Hsb & Hpl & _ & _ & Hsr & _).
    apply tnode_some in Hp as (Hpin & Epr & Epo). apply tnode_some in Hsb as (Hsin & Esr & Eso).
    exists p, sb. repeat split; try assumption.
    - rewrite (sibling_gpx x Hx), Esr, Eso. reflexivity.
    - rewrite (sibling_gpx sb Hsin), Esr, Eso, pps_lxor_invol. reflexivity.
    - destruct (nv x Hx) as [A B]. destruct (nv p Hpin) as [C _]. unfold gp.
      rewrite Parent_gpos; [|exact HT63|lia|exact B]. rewrite Epr, Epo. f_equal. lia.
  Qed.

  (** the two children positions of an inner position *)
  Lemma children_gpx x r' : In x lay -> nrow x = S r' ->
    LeftChild (gpx x) T = gp T r' (2 * noff x) /\ RightChild (gpx x) T = gp T r' (2 * noff x + 1).
  Proof.
    intros Hx Er. destruct (nv x Hx) as [A B]. unfold gp. rewrite Er in *.
    replace (N.of_nat (S r')) with (N.of_nat r' + 1) in * by lia.
    assert (B' : noff x < 2 ^ (T - N.of_nat r' - 1))
      by (replace (T - N.of_nat r' - 1) with (T - (N.of_nat r' + 1)) by lia; exact B).
    split; [apply LeftChild_gpos|apply RightChild_gpos]; try assumption; lia.
  Qed.
End Geo.

(** * 2. What a partial forest must store for the target nodes [ts], and [prunePosition] *)
Section Good.
  Variable H : Type.
  Variable HO : ops H.
  Hypothesis HOK : ops_ok HO.
  Variable s : slots H.
  Variable T : N.
  Notation lay := (layout HO s).
  Notation n := (N.of_nat (length s)).
  Notation tr := (TreeRows (N.of_nat (length s))).
  Hypothesis Hn63 : n <= 2 ^ 63.
  Hypothesis HTlo : tr <= T.
  Hypothesis HT63 : T <= 63.
  Notation gpx := (fun x : node H => gp T (nrow x) (noff x)).
  Notation gpc := (fun c : nat * N => gp T (fst c) (snd c)).

  (** clauses (i) and (iii) of [consistent] for a node map, the targets given as nodes; the
      targets carry the [remember] flag *)
  Set Implicit Arguments.
  Record good (ts : list (node H)) (nd : nodemap H) : Prop := mkGood {
    g_true : forall p h b, In (p, (h, b)) nd ->
      exists r o, p = gp T r o /\ thash HO s r o = Some h;
    g_roots : forall x, In x lay -> nroot x = true -> nodes_get nd (gpx x) <> None;
    g_tgts : forall x, In x ts -> exists h, nodes_get nd (gpx x) = Some (h, true);
    g_sibs : forall c, In c (known_set lay ts) -> is_root_coord lay c = false ->
      nodes_get nd (gpc (sib_coord c)) <> None }.
  Unset Implicit Arguments.

  Variable ts : list (node H).
  Hypothesis ts_lay : forall x, In x ts -> In x lay.

  (** deleting a position that is not needed *)
  Lemma good_del nd d : good ts nd ->
    (forall x, In x lay -> nroot x = true -> gpx x <> d) ->
    (forall x, In x ts -> gpx x <> d) ->
    (forall c, In c (known_set lay ts) -> is_root_coord lay c = false -> gpc (sib_coord c) <> d) ->
    good ts (nodes_del d nd).
  Proof.
    intros G Hr Ht Hs. constructor.
    - intros p h b Hin. exact (g_true G _ _ _ (in_del H _ _ _ Hin)).
    - intros x Hx Hroot. rewrite ng_del_other by exact (Hr x Hx Hroot). exact (g_roots G x Hx Hroot).
    - intros x Hx. rewrite ng_del_other by exact (Ht x Hx). exact (g_tgts G x Hx).
    - intros c Hc Hroot. rewrite ng_del_other by exact (Hs c Hc Hroot). exact (g_sibs G c Hc Hroot).
  Qed.

  (** one half of [prunePosition]: the position of the non-root node [a] (sibling [b]) goes unless
      a child of [b] is stored; neither [a] nor [b] carries the flag *)
  Lemma try_del_good nd a b : In a lay -> In b lay -> nroot a = false ->
    nrow b = nrow a -> noff b = N.lxor (noff a) 1 -> sibling (gpx a) = gpx b ->
    snd (nodes_get0 HO nd (gpx a)) = false -> snd (nodes_get0 HO nd (gpx b)) = false ->
    good ts nd ->
    good ts (if niecesPresent T nd (gpx a) then nd else nodes_del (gpx a) nd).
  Proof.
    intros Ha Hb Hra Ebr Ebo Esib Fa Fb G.
    destruct (niecesPresent T nd (gpx a)) eqn:Enp; [exact G|].
    apply good_del; [exact G| | |].
    - intros x Hx Hroot E. rewrite (gpx_inj H HO s T Hn63 HTlo HT63 x a Hx Ha E) in Hroot. congruence.
    - intros x Hx E. rewrite (gpx_inj H HO s T Hn63 HTlo HT63 x a (ts_lay x Hx) Ha E) in Hx.
      destruct (g_tgts G a Hx) as [h Eh]. unfold nodes_get0 in Fa. rewrite Eh in Fa. discriminate.
    - intros c Hc Hroot E.
      destruct (known_sib_node H HO s ts c Hn63 ts_lay Hc Hroot) as (sb & Hsb & Ec).
      rewrite <- Ec in E. cbn [fst snd] in E.
      pose proof (gpx_inj H HO s T Hn63 HTlo HT63 sb a Hsb Ha E) as ->.
      (* c is the coordinate of b *)
      assert (Ecb : c = (nrow b, noff b)).
      { destruct c as [cr co]. unfold sib_coord in Ec. cbn [fst snd] in Ec. injection Ec as E1 E2.
        rewrite Ebr, Ebo, E1, E2, pps_lxor_invol. reflexivity. }
      destruct (known_src H HO s Hn63 ts ts_lay c Hc) as [(x & Hx & Ex)|(c' & Hc' & Hr' & Ex)].
      + rewrite Ecb in Ex.
        pose proof (coord_node_eq H HO s b x Hb (ts_lay x Hx) Ex) as <-.
        destruct (g_tgts G b Hx) as [h Eh]. unfold nodes_get0 in Fb. rewrite Eh in Fb. discriminate.
      + (* a child of b is in the known set: its sibling, the other child of b, is stored *)
        pose proof (g_sibs G c' Hc' Hr') as Hst.
        destruct c' as [r' o']. rewrite Ecb in Ex. unfold par_coord in Ex. cbn [fst snd] in Ex.
        injection Ex as Er Eo. unfold sib_coord in Hst. cbn [fst snd] in Hst.
        destruct (children_gpx H HO s T Hn63 HTlo HT63 b r' Hb Er) as [EL ER].
        unfold niecesPresent in Enp.
        rewrite Esib, EL, ER, (detect_gpx H HO s T Hn63 HTlo HT63 a Ha), <- Ebr, Er in Enp.
        destruct (N.eqb_spec (N.of_nat (S r')) 0) as [E0|_]; [lia|].
        apply orb_false_iff in Enp as [E1 E2].
        unfold nodes_has in E1, E2.
        pose proof (N.div_mod' o' 2) as Hdm. pose proof (mod2_even o') as Hm.
        rewrite lxor_1 in Hst. rewrite Eo in E1, E2.
        destruct (N.even o').
        * replace (o' + 1) with (2 * (o' / 2) + 1) in Hst by lia.
          destruct (nodes_get nd (gp T r' (2 * (o' / 2) + 1))); [discriminate|congruence].
        * replace (o' - 1) with (2 * (o' / 2)) in Hst by lia.
          destruct (nodes_get nd (gp T r' (2 * (o' / 2)))); [discriminate|congruence].
  Qed.

  (** [prunePosition] at a non-root node keeps everything that is needed *)
  Lemma prunePosition_good nd q : In q lay -> nroot q = false -> good ts nd ->
    good ts (prunePosition HO T nd (gpx q)).
  Proof.
    intros Hq Hr G.
    destruct (family H HO s T Hn63 HTlo HT63 q Hq Hr)
      as (p & sq & _ & Hsq & Hsr & _ & Er & Eo & _ & _ & Esib & Esib' & _).
    unfold prunePosition. rewrite Esib.
    destruct (snd (nodes_get0 HO nd (gpx q))) eqn:Fq; cbn [negb andb]; [exact G|].
    destruct (snd (nodes_get0 HO nd (gpx sq))) eqn:Fs; cbn [negb andb]; [exact G|].
    assert (Eqo : noff q = N.lxor (noff sq) 1) by (rewrite Eo, pps_lxor_invol; reflexivity).
    pose proof (try_del_good nd sq q Hsq Hq Hsr (eq_sym Er) Eqo Esib' Fs Fq G) as G1.
    set (nd1 := if niecesPresent T nd (gpx sq) then nd else nodes_del (gpx sq) nd) in *.
    apply (try_del_good nd1 q sq Hq Hsq Hr Er Eo Esib); [| |exact G1].
    - unfold nd1. destruct (niecesPresent T nd (gpx sq)); [exact Fq|].
      unfold nodes_get0. rewrite ng_del_other; [exact Fq|].
      intros E. pose proof (gpx_inj H HO s T Hn63 HTlo HT63 q sq Hq Hsq E) as Eq.
      rewrite Eq in Eqo. pose proof (lxor_1 (noff sq)). destruct (N.even (noff sq)) eqn:Ev; [lia|].
      pose proof (odd_nz _ Ev). lia.
    - unfold nd1. destruct (niecesPresent T nd (gpx sq)); [exact Fs|].
      unfold nodes_get0. rewrite ng_del_same. reflexivity.
  Qed.

  (** the loop of [Prune]: from a node up to the root of its tree *)
  Lemma prune_up_good : forall fuel row nd x, In x lay -> good ts nd ->
    good ts (prune_up HO fuel n T row (gpx x) nd).
  Proof.
    induction fuel as [|f IH]; intros row nd x Hx G; [exact G|]. cbn [prune_up].
    destruct (tr <? row); [exact G|].
    rewrite (isroot_gpx H HO s T Hn63 HTlo HT63 x Hx).
    destruct (nroot x) eqn:Hr; [exact G|].
    destruct (family H HO s T Hn63 HTlo HT63 x Hx Hr) as (p & _ & Hp & _ & _ & _ & _ & _ & _ & _ & _ & _ & Epar).
    rewrite Epar. apply IH; [exact Hp|]. apply prunePosition_good; assumption.
  Qed.
End Good.

(** * 3. The invariant, and [Prune] *)
Section Prune.
  Variable H : Type.
  Variable HO : ops H.
  Hypothesis HOK : ops_ok HO.

  (** the [remember] flag: the node of every remembered leaf carries it *)
  Definition flags_ok (s : slots H) (R : list H) (m : mstate H) : Prop :=
    forall h x, In h R -> find_leaf HO (layout HO s) h = Some x ->
      exists h', nodes_get (ms_nodes m) (gp (ms_total m) (nrow x) (noff x)) = Some (h', true).

  Definition Inv (s : slots H) (R : list H) (m : mstate H) : Prop :=
    consistent HO s R m /\ flags_ok s R m.

  Lemma Inv_consistent s R m : Inv s R m -> consistent HO s R m.
  Proof. intros [Hc _]. exact Hc. Qed.

  (** the empty forest, allocated with any number of rows *)
  Lemma Inv_empty T full : T <= 63 -> Inv [] [] (mkM [] [] 0 T full).
  Proof.
    intros HT. split.
    - constructor; cbn [ms_n ms_total ms_nodes ms_cached num_leaves length N.of_nat].
      + reflexivity.
      + lia.
      + rewrite TreeRows_0. lia.
      + exact HT.
      + intros p h b [].
      + intros h [].
      + intros h. split; intros [].
      + intros h p [].
      + intros x [].
      + intros ts [= <-] x [].
      + intros ts [= <-] c [].
    - intros h x [].
  Qed.

  Section Fixed.
    Variable s : slots H.
    Variable T : N.
    Variable fl : bool.
    Notation lay := (layout HO s).
    Notation n := (N.of_nat (length s)).
    Notation gpx := (fun x : node H => gp T (nrow x) (noff x)).

    Lemma Inv_facts R nd ca : Inv s R (mkM nd ca n T fl) ->
      n <= 2 ^ 63 /\ TreeRows n <= T /\ T <= 63.
    Proof.
      intros [Hc _]. pose proof (cs_n63 Hc). pose proof (cs_rows Hc). pose proof (cs_T63 Hc).
      cbn [ms_n ms_total] in *. auto.
    Qed.

    Lemma Inv_good R nd ca ts : Inv s R (mkM nd ca n T fl) ->
      find_leaves HO lay R = Some ts -> good HO s T ts nd.
    Proof.
      intros [Hc Hf] Hts. constructor.
      - exact (cs_true Hc).
      - exact (cs_roots Hc).
      - intros x Hx. apply (RefTheory.find_leaves_In H HO _ _ _ Hts) in Hx as (h & Hh & Hx).
        exact (Hf h x Hh Hx).
      - exact (cs_sibs Hc Hts).
    Qed.

    Lemma good_Inv R nd ca ts :
      n <= 2 ^ 63 -> TreeRows n <= T -> T <= 63 ->
      find_leaves HO lay R = Some ts -> good HO s T ts nd ->
      (forall h, In h R -> In (Some h) s) ->
      (forall h, In h R <-> In h (map fst ca)) ->
      (forall h p, In (h, p) ca -> exists x, find_leaf HO lay h = Some x /\ p = gpx x) ->
      Inv s R (mkM nd ca n T fl).
    Proof.
      intros Hn HTlo HT Hts G Hlive HR Hpos. split.
      - constructor; cbn [ms_n ms_total ms_nodes ms_cached]; try assumption.
        + reflexivity.
        + exact (g_true G).
        + exact (g_roots G).
        + intros ts' Hts' x Hx. rewrite Hts in Hts'. injection Hts' as <-.
          destruct (g_tgts G x Hx) as [h E]. unfold stored. cbn [ms_nodes]. rewrite E. discriminate.
        + intros ts' Hts' c Hc Hr. rewrite Hts in Hts'. injection Hts' as <-.
          exact (g_sibs G c Hc Hr).
      - intros h x Hh Hx. cbn [ms_nodes ms_total]. apply (g_tgts G).
        apply (RefTheory.find_leaves_In H HO _ _ _ Hts). exists h. auto.
    Qed.

    Lemma ng_put_stored p v (nd : nodemap H) q :
      nodes_get nd q <> None -> nodes_get (nodes_put p v nd) q <> None.
    Proof.
      intros Hst. destruct (N.eq_dec q p) as [->|Hne]; [rewrite ng_put_same; discriminate|].
      rewrite ng_put_other by exact Hne. exact Hst.
    Qed.

    (** the leaf of a cached hash [h]; the remembered leaves without [h]; the state after the
        flag of the leaf was cleared *)
    Lemma prune_setup R nd ca h pos : Inv s R (mkM nd ca n T fl) ->
      cached_get HO ca h = Some pos ->
      exists x b tsR ts1,
        find_leaf HO lay h = Some x /\ pos = gpx x /\ In x lay /\ nleaf x = true /\
        nodes_get nd pos = Some (nhash x, b) /\
        find_leaves HO lay R = Some tsR /\
        find_leaves HO lay (filter (fun h' => negb (op_eqb HO h' h)) R) = Some ts1 /\
        (forall y, In y ts1 -> In y lay) /\
        (forall y, In y tsR -> In y ts1 \/ y = x) /\
        (forall h', In h' (filter (fun h' => negb (op_eqb HO h' h)) R) <-> In h' R /\ h' <> h) /\
        good HO s T ts1 (nodes_put pos (nhash x, false) nd).
    Proof.
      intros HI Ec. pose proof HI as [Hc Hf]. destruct (Inv_facts _ _ _ HI) as (Hn & HTlo & HT).
      pose proof (cached_get_In H HO HOK _ _ _ Ec) as Hin.
      destruct (cs_cached_pos Hc _ _ Hin) as (x & Hx & Ep). cbn [ms_total] in Ep.
      assert (HhR : In h R).
      { apply (cs_cached_R Hc). cbn [ms_cached]. apply in_map_iff. exists (h, pos). auto. }
      destruct (R_leaves H HO HOK s R _ Hc) as [tsR HtsR].
      assert (HxR : In x tsR) by (apply (RefTheory.find_leaves_In H HO _ _ _ HtsR); exists h; auto).
      destruct (find_leaf_spec H HO HOK _ _ _ Hx) as (Hxl & Hxleaf & Hxh).
      destruct (stored_node H HO s R _ Hc x Hxl (cs_targets Hc HtsR x HxR)) as [b Eb].
      cbn [ms_nodes ms_total] in Eb. rewrite <- Ep in Eb.
      set (R1 := filter (fun h' => negb (op_eqb HO h' h)) R).
      assert (HR1 : forall h', In h' R1 <-> In h' R /\ h' <> h).
      { intros h'. unfold R1. rewrite filter_In. split; intros [A B]; (split; [exact A|]).
        - intros ->. rewrite (heqb_refl H HO HOK) in B. discriminate.
        - destruct (op_eqb HO h' h) eqn:E; [|reflexivity]. apply HOK in E. contradiction. }
      destruct (tracked_leaves H HO HOK s R _ Hc R1 (fun h' Hh' => proj1 (proj1 (HR1 h') Hh')))
        as (ts1 & Hts1 & _).
      assert (Hts1_lay : forall y, In y ts1 -> In y lay)
        by (intros y Hy; exact (proj1 (leaves_nodes H HO HOK s R1 ts1 Hts1 y Hy))).
      exists x, b, tsR, ts1. repeat (split; [assumption|]). split; [|split; [exact HR1|]].
      { intros y Hy. apply (RefTheory.find_leaves_In H HO _ _ _ HtsR) in Hy as (h1 & Hh1 & Hy).
        destruct (op_eqb HO h1 h) eqn:E.
        - apply HOK in E. subst h1. right. congruence.
        - left. apply (RefTheory.find_leaves_In H HO _ _ _ Hts1). exists h1. split; [|exact Hy].
          apply HR1. split; [exact Hh1|]. intros ->. rewrite (heqb_refl H HO HOK) in E. discriminate. }
      constructor.
      + intros p h0 b0 Hin0. apply in_put in Hin0 as [E|Hin0]; [|exact (cs_true Hc _ _ _ Hin0)].
        injection E as -> -> ->. exists (nrow x), (noff x). split; [exact Ep|].
        rewrite thash_tnode, (tnode_in H HO s x Hxl). reflexivity.
      + intros y Hy Hr. apply ng_put_stored. exact (cs_roots Hc y Hy Hr).
      + intros y Hy. apply (RefTheory.find_leaves_In H HO _ _ _ Hts1) in Hy as (h1 & Hh1 & Hy).
        apply HR1 in Hh1 as [Hh1 Hne].
        destruct (find_leaf_spec H HO HOK _ _ _ Hy) as (Hyl & _ & Hyh).
        rewrite ng_put_other; [exact (Hf h1 y Hh1 Hy)|].
        rewrite Ep. intros E. apply (gpx_inj H HO s T Hn HTlo HT y x Hyl Hxl) in E. congruence.
      + intros c Hc' Hr. apply ng_put_stored. apply (cs_sibs Hc HtsR c); [|exact Hr].
        apply (RefTheory.known_set_mono H lay ts1 tsR); [|exact Hc'].
        intros y Hy. apply (RefTheory.find_leaves_In H HO _ _ _ Hts1) in Hy as (h1 & Hh1 & Hy).
        apply (RefTheory.find_leaves_In H HO _ _ _ HtsR). exists h1. split; [|exact Hy].
        apply HR1, Hh1.
    Qed.

    (** pruning one cached hash *)
    Lemma prune_step R nd ca h pos row fuel : Inv s R (mkM nd ca n T fl) ->
      cached_get HO ca h = Some pos ->
      exists lf, nodes_get nd pos = Some lf /\
        Inv s (filter (fun h' => negb (op_eqb HO h' h)) R)
            (mkM (prune_up HO fuel n T row pos (nodes_put pos (fst lf, false) nd))
                 (cached_del HO h ca) n T fl).
    Proof.
      intros HI Ec. pose proof HI as [Hc Hf]. destruct (Inv_facts _ _ _ HI) as (Hn & HTlo & HT).
      destruct (prune_setup R nd ca h pos HI Ec)
        as (x & b & tsR & ts1 & Hx & Ep & Hxl & Hxleaf & Eb & HtsR & Hts1 & Hts1_lay & _ & HR1 & G0).
      exists (nhash x, b). split; [exact Eb|]. cbn [fst].
      apply (good_Inv _ _ _ ts1 Hn HTlo HT Hts1).
      - rewrite Ep. apply (prune_up_good H HO s T Hn HTlo HT ts1 Hts1_lay fuel row _ x Hxl).
        rewrite <- Ep. exact G0.
      - intros h' Hh'. apply (cs_R_live Hc), HR1, Hh'.
      - intros h'. rewrite HR1, (cs_cached_R Hc h'). cbn [ms_cached]. rewrite !in_map_iff. split.
        + intros [([k p] & <- & Hk) Hne]. exists (k, p). split; [reflexivity|].
          apply (in_cdel H HO HOK). auto.
        + intros ([k p] & <- & Hk). apply (in_cdel H HO HOK) in Hk as [Hk Hne]. split; [|exact Hne].
          exists (k, p). auto.
      - intros h' p Hin'. apply (in_cdel H HO HOK) in Hin' as [Hin' _]. exact (cs_cached_pos Hc _ _ Hin').
    Qed.

    Lemma filter_all_true {A} (f : A -> bool) l : (forall x, In x l -> f x = true) -> filter f l = l.
    Proof.
      induction l as [|a l IH]; intros Hf; [reflexivity|]. cbn [filter].
      rewrite (Hf a (or_introl eq_refl)), IH; [reflexivity|]. intros y Hy. apply Hf. right. exact Hy.
    Qed.

    Lemma filter_twice {A} (f g : A -> bool) l :
      filter f (filter g l) = filter (fun x => g x && f x) l.
    Proof.
      induction l as [|a l IH]; [reflexivity|]. cbn [filter]. destruct (g a); cbn [andb filter].
      - rewrite IH. reflexivity.
      - exact IH.
    Qed.

    (** the loop of [Prune]: hashes that are not cached are skipped *)
    Lemma prune_loop_inv : forall hs R nd ca, Inv s R (mkM nd ca n T fl) ->
      exists nd' ca', prune_loop HO n T hs (nd, ca) = Some (nd', ca') /\
        Inv s (filter (fun h => negb (memH HO h hs)) R) (mkM nd' ca' n T fl).
    Proof.
      induction hs as [|h hs IH]; intros R nd ca HI.
      - exists nd, ca. split; [reflexivity|]. cbn [memH negb].
        rewrite filter_all_true by reflexivity. exact HI.
      - cbn [prune_loop fst snd]. destruct (cached_get HO ca h) as [pos|] eqn:Ec.
        + destruct (prune_step R nd ca h pos (DetectRow pos T) 300 HI Ec) as (lf & -> & HI1).
          destruct (IH _ _ _ HI1) as (nd' & ca' & E & HI').
          exists nd', ca'. split; [exact E|]. rewrite filter_twice in HI'.
          erewrite filter_ext; [exact HI'|]. intros a. cbn [memH]. cbv beta.
          rewrite negb_orb. reflexivity.
        + destruct (IH _ _ _ HI) as (nd' & ca' & E & HI').
          exists nd', ca'. split; [exact E|].
          erewrite filter_ext_in; [exact HI'|]. intros a Ha. cbn [memH]. cbv beta.
          destruct (op_eqb HO a h) eqn:Eh; [|reflexivity]. apply HOK in Eh. subst a. exfalso.
          apply (cached_get_None H HO HOK _ _ Ec).
          exact (proj1 (cs_cached_R (Inv_consistent _ _ _ HI) h) Ha).
    Qed.
  End Fixed.

  (** G1: [Prune] on a partial forest keeps the invariant for the remembered leaves that were not
      pruned; hashes that are not remembered (or repeated) are ignored; the leaf count and the
      allocation do not change *)
  Theorem mm_prune_inv s R m hs : Inv s R m -> ms_full m = false ->
    exists m', mm_prune HO m hs = Some m' /\
      Inv s (filter (fun h => negb (memH HO h hs)) R) m' /\
      ms_n m' = ms_n m /\ ms_total m' = ms_total m /\ ms_full m' = false.
  Proof.
    intros HI Hfull. destruct m as [nd ca n0 T fl]. cbn [ms_full] in Hfull. subst fl.
    pose proof (cs_n (Inv_consistent _ _ _ HI)) as En. cbn [ms_n] in En. unfold num_leaves in En. subst n0.
    unfold mm_prune. cbn [ms_full ms_n ms_total ms_nodes ms_cached].
    destruct (prune_loop_inv s T false hs R nd ca HI) as (nd' & ca' & -> & HI').
    eexists. split; [reflexivity|]. split; [exact HI'|]. cbn [ms_n ms_total ms_full]. auto.
  Qed.

  (** on a full forest [Prune] does nothing *)
  Theorem mm_prune_full m hs : ms_full m = true -> mm_prune HO m hs = Some m.
  Proof. intros E. unfold mm_prune. rewrite E. reflexivity. Qed.

  (** a hash that is not remembered is ignored *)
  Theorem mm_prune_skip s R m h hs : Inv s R m -> ~ In h R ->
    mm_prune HO m (h :: hs) = mm_prune HO m hs.
  Proof.
    intros HI Hn. unfold mm_prune. destruct (ms_full m); [reflexivity|]. cbn [prune_loop snd].
    rewrite (cached_untracked H HO HOK s R m (Inv_consistent _ _ _ HI) h Hn). reflexivity.
  Qed.
End Prune.

(** * 4. The loops of [ingest] on the two maps *)
Section IngestLoops.
  Variable H : Type.
  Variable HO : ops H.
  Hypothesis HOK : ops_ok HO.

  (** "ingest the proof": the positions [f a] with the hashes [gh a]; a position that is stored is
      left alone *)
  Lemma ingest_fill_spec {E} (f : E -> N) (gh : E -> H) full : forall (l : list E) pre nd,
    exists nd1, ingest_fill full (length pre) (map f l) (pre ++ map gh l) nd = Some nd1 /\
      (forall p v, nodes_get nd p = Some v -> nodes_get nd1 p = Some v) /\
      (forall e, In e nd1 -> In e nd \/ exists a, In a l /\ e = (f a, (gh a, full))) /\
      (forall a, In a l -> nodes_get nd1 (f a) <> None) /\
      (forall p v, nodes_get nd1 p = Some v ->
         nodes_get nd p = Some v \/ exists a, In a l /\ p = f a /\ v = (gh a, full)).
  Proof.
    induction l as [|a l IH]; intros pre nd.
    - exists nd. cbn [map ingest_fill]. split; [reflexivity|]. split; [auto|]. split; [auto|].
      split; [intros a []|auto].
    - cbn [map ingest_fill].
      assert (Eg : pre ++ gh a :: map gh l = (pre ++ [gh a]) ++ map gh l)
        by (rewrite <- app_assoc; reflexivity).
      assert (El : S (length pre) = length (pre ++ [gh a]))
        by (rewrite app_length; cbn [length]; lia).
      unfold nodes_has. destruct (nodes_get nd (f a)) as [v|] eqn:Ea.
      + rewrite Eg, El. destruct (IH (pre ++ [gh a]) nd) as (nd1 & E1 & P1 & P2 & P3 & P4).
        exists nd1. split; [exact E1|]. split; [exact P1|]. split; [|split].
        * intros e He. destruct (P2 e He) as [Hin|(b & Hb & ->)]; [left; exact Hin|].
          right. exists b. split; [right; exact Hb|reflexivity].
        * intros b [<-|Hb]; [rewrite (P1 _ _ Ea); discriminate|exact (P3 b Hb)].
        * intros p w Ep. destruct (P4 p w Ep) as [Hold|(b & Hb & Eb)]; [left; exact Hold|].
          right. exists b. split; [right; exact Hb|exact Eb].
      + assert (En : nth_error (pre ++ gh a :: map gh l) (length pre) = Some (gh a))
          by (rewrite nth_error_app2, Nat.sub_diag by lia; reflexivity).
        rewrite En, Eg, El.
        destruct (IH (pre ++ [gh a]) (nodes_put (f a) (gh a, full) nd))
          as (nd1 & E1 & P1 & P2 & P3 & P4).
        exists nd1. split; [exact E1|]. split; [|split; [|split]].
        * intros p v Ep. apply P1. rewrite ng_put_other; [exact Ep|]. intros ->. congruence.
        * intros e He. destruct (P2 e He) as [Hin|(b & Hb & ->)].
          -- apply in_put in Hin as [->|Hin]; [right; exists a; split; [left|]; reflexivity|left; exact Hin].
          -- right. exists b. split; [right; exact Hb|reflexivity].
        * intros b [<-|Hb]; [|exact (P3 b Hb)]. rewrite (P1 _ _ (ng_put_same H _ _ _)). discriminate.
        * intros p w Ep. destruct (P4 p w Ep) as [Hold|(b & Hb & Eb)].
          -- destruct (N.eq_dec p (f a)) as [->|Hne].
             ++ rewrite ng_put_same in Hold. injection Hold as <-. right. exists a.
                split; [left; reflexivity|auto].
             ++ rewrite ng_put_other in Hold by exact Hne. left. exact Hold.
          -- right. exists b. split; [right; exact Hb|exact Eb].
  Qed.

  Lemma in_cput h p (l : cachemap H) k q :
    In (k, q) (cached_put HO h p l) -> (k, q) = (h, p) \/ In (k, q) l.
  Proof.
    unfold cached_put. intros [E|Hin]; [left; symmetry; exact E|].
    right. exact (proj1 (proj1 (in_cdel H HO HOK h l k q) Hin)).
  Qed.

  Lemma keys_cput h p (l : cachemap H) k :
    In k (map fst l) -> In k (map fst (cached_put HO h p l)).
  Proof.
    intros Hin. unfold cached_put. cbn [map fst].
    destruct (op_eqb HO k h) eqn:E; [apply HOK in E; left; symmetry; exact E|]. right.
    apply in_map_iff in Hin as ([k' q] & <- & Hk). apply in_map_iff. exists (k', q).
    split; [reflexivity|]. apply (in_cdel H HO HOK). split; [exact Hk|]. cbn [fst] in E.
    intros ->. rewrite (heqb_refl H HO HOK) in E. discriminate.
  Qed.

  (** "store the calculated nodes" *)
  Lemma put_calc_spec full tp : forall (l : list (hp H)) nd ca nd' ca',
    put_calculated HO full tp l (nd, ca) = (nd', ca') ->
    (forall p, ~ In p (map fst l) -> nodes_get nd' p = nodes_get nd p) /\
    (forall p, In p (map fst l) ->
       exists h, In (p, h) l /\ nodes_get nd' p = Some (h, full || memN p tp)) /\
    (forall e, In e nd' -> In e nd \/ exists p h, In (p, h) l /\ e = (p, (h, full || memN p tp))) /\
    (forall h p, In (h, p) ca' -> In (h, p) ca \/ (In (p, h) l /\ memN p tp = true)) /\
    (forall h, In h (map fst ca) -> In h (map fst ca')) /\
    (forall p h, In (p, h) l -> memN p tp = true -> In h (map fst ca')).
  Proof.
    induction l as [|[p0 h0] l IH]; intros nd ca nd' ca' E.
    - cbn [put_calculated] in E. injection E as <- <-. cbn [map In].
      split; [reflexivity|]. split; [intros p []|]. split; [intros e He; left; exact He|].
      split; [intros h p Hin; left; exact Hin|]. split; [intros h Hh; exact Hh|intros p h []].
    - cbn [put_calculated fst snd] in E. apply IH in E as (P1 & P2 & P3 & P4 & P5 & P6).
      clear IH. cbn [map fst]. split; [|split; [|split; [|split; [|split]]]].
      + intros p Hn. rewrite P1 by (intros Hin; apply Hn; right; exact Hin). apply ng_put_other. intros ->. apply Hn. left. reflexivity.
      + intros p Hp. destruct (in_dec N.eq_dec p (map fst l)) as [Hin|Hnin].
        * destruct (P2 p Hin) as (h & Hh & Eh). exists h. split; [right; exact Hh|exact Eh].
        * destruct Hp as [<-|Hp]; [|contradiction]. exists h0. split; [left; reflexivity|].
          rewrite (P1 p0 Hnin). apply ng_put_same.
      + intros e He. destruct (P3 e He) as [Hin|(p & h & Hph & ->)].
        * apply in_put in Hin as [->|Hin]; [|left; exact Hin].
          right. exists p0, h0. split; [left; reflexivity|reflexivity].
        * right. exists p, h. split; [right; exact Hph|reflexivity].
      + intros h p Hin. destruct (P4 h p Hin) as [Hc|[Hl Hm]]; [|right; split; [right; exact Hl|exact Hm]].
        destruct (memN p0 tp) eqn:Em; [|left; exact Hc].
        apply in_cput in Hc as [Ec|Hc]; [|left; exact Hc]. injection Ec as -> ->.
        right. split; [left; reflexivity|exact Em].
      + intros h Hh. apply P5. destruct (memN p0 tp); [apply keys_cput|]; exact Hh.
      + intros p h [Ee|Hin] Hm; [|exact (P6 p h Hin Hm)]. injection Ee as <- <-. apply P5.
        rewrite Hm. unfold cached_put. left. reflexivity.
  Qed.

  Lemma find_leaves_app lay : forall (a b : list H) ta tb,
    find_leaves HO lay a = Some ta -> find_leaves HO lay b = Some tb ->
    find_leaves HO lay (a ++ b) = Some (ta ++ tb).
  Proof.
    induction a as [|h a IH]; intros b ta tb Ha Hb.
    - injection Ha as <-. exact Hb.
    - apply RefTheory.find_leaves_cons in Ha as (x & xs & Hx & Hxs & ->).
      cbn [app find_leaves]. rewrite Hx, (IH b xs tb Hxs Hb). reflexivity.
  Qed.
End IngestLoops.

(** * 5. Tidiness: nothing is stored beyond the roots, the known set and its siblings; the
      [remember] flag marks exactly the remembered leaves.  [Prune] restores it. *)
Section Tidy.
  Variable H : Type.
  Variable HO : ops H.
  Hypothesis HOK : ops_ok HO.
  Variable s : slots H.
  Variable T : N.
  Notation lay := (layout HO s).
  Notation n := (N.of_nat (length s)).
  Notation tr := (TreeRows (N.of_nat (length s))).
  Hypothesis Hn63 : n <= 2 ^ 63.
  Hypothesis HTlo : tr <= T.
  Hypothesis HT63 : T <= 63.
  Notation gpx := (fun x : node H => gp T (nrow x) (noff x)).
  Notation crd x := (nrow x, noff x).

  (** the node [x] may be stored when the target nodes are [ts] *)
  Definition alwn (ts : list (node H)) (x : node H) : Prop :=
    nroot x = true \/ In (crd x) (known_set lay ts) \/
    exists d, In d (known_set lay ts) /\ is_root_coord lay d = false /\ sib_coord d = crd x.

  Set Implicit Arguments.
  Record tidyg (ts : list (node H)) (nd : nodemap H) : Prop := mkTidy {
    t_alw : forall x, In x lay -> nodes_get nd (gpx x) <> None -> alwn ts x;
    t_flag : forall x h, In x lay -> nodes_get nd (gpx x) = Some (h, true) -> In x ts }.
  Unset Implicit Arguments.

  (** ancestors inside the tree *)
  Inductive anc : node H -> node H -> Prop :=
  | anc_refl x : anc x x
  | anc_step x p a : In p lay -> nroot x = false -> nrow p = S (nrow x) -> noff p = noff x / 2 ->
      anc p a -> anc x a.

  Lemma anc_row x a : anc x a -> (nrow x <= nrow a)%nat.
  Proof. induction 1 as [x|x p a _ _ Er _ _ IH]; lia. Qed.

  Lemma anc_lay x a : In x lay -> anc x a -> In a lay.
  Proof. intros Hx Ha. induction Ha as [x|x p a Hp _ _ _ _ IH]; [exact Hx|exact (IH Hp)]. Qed.

  Lemma anc_root x a : nroot x = true -> anc x a -> a = x.
  Proof. intros Hr Ha. destruct Ha as [x|x p a _ Hnr _ _ _]; [reflexivity|congruence]. Qed.

  Lemma path_anc : forall f x c, In x lay ->
    In c (path_up f lay (nrow x) (noff x) (ntree x)) -> exists a, anc x a /\ c = crd a.
  Proof.
    induction f as [|f IH]; intros x c Hx Hc.
    - destruct Hc as [<-|[]]. exists x. split; [constructor|reflexivity].
    - cbn [path_up] in Hc. destruct Hc as [<-|Hc]; [exists x; split; [constructor|reflexivity]|].
      destruct (Nat.ltb_spec (nrow x) (ntree x)) as [Hlt|_]; [|destruct Hc].
      apply (nonroot_iff_row H HO s Hn63 x Hx) in Hlt.
      destruct (node_parent H HO s _ _ x (tnode_in H HO s x Hx) Hlt) as (p & Hp & _ & Ept & _).
      apply tnode_some in Hp as (Hpin & Epr & Epo).
      rewrite <- Epr, <- Epo, <- Ept in Hc. destruct (IH p c Hpin Hc) as (a & Ha & Ea).
      exists a. split; [|exact Ea]. exact (anc_step x p a Hpin Hlt Epr Epo Ha).
  Qed.

  Variable ts1 : list (node H).
  Hypothesis ts1_lay : forall x, In x ts1 -> In x lay.
  Notation K1 := (known_set lay ts1).

  (** the two nodes that [prunePosition] at an ancestor [a] of [x] has to remove *)
  Definition exc (x y : node H) : Prop :=
    exists a, anc x a /\ nroot a = false /\ ~ In (crd a) K1 /\ ~ In (sib_coord (crd a)) K1 /\
              (crd y = crd a \/ crd y = sib_coord (crd a)).

  Lemma K1_up x p : In x lay -> In p lay -> nroot x = false ->
    nrow p = S (nrow x) -> noff p = noff x / 2 -> In (crd x) K1 -> In (crd p) K1.
  Proof.
    intros Hx Hp Hr Er Eo Hk.
    assert (Hrc : is_root_coord lay (crd x) = false).
    { rewrite (is_root_coord_node H HO s (crd x) x (tnode_in H HO s x Hx)). exact Hr. }
    destruct (known_closed H HO s Hn63 ts1 ts1_lay _ Hk Hrc) as [Hpk _].
    unfold par_coord in Hpk. cbn [fst snd] in Hpk. rewrite Er, Eo. exact Hpk.
  Qed.

  Definition no_kids (nd : nodemap H) (x : node H) : Prop :=
    forall r', nrow x = S r' ->
      nodes_get nd (gp T r' (2 * noff x)) = None /\ nodes_get nd (gp T r' (2 * noff x + 1)) = None.

  Lemma nieces_absent nd a b : In a lay -> In b lay -> nrow b = nrow a ->
    sibling (gpx a) = gpx b -> no_kids nd b -> niecesPresent T nd (gpx a) = false.
  Proof.
    intros Ha Hb Ebr Es Hk. unfold niecesPresent.
    rewrite (detect_gpx H HO s T Hn63 HTlo HT63 a Ha), Es, <- Ebr.
    destruct (N.eqb_spec (N.of_nat (nrow b)) 0) as [E0|E0]; [reflexivity|].
    assert (Hex : exists r', nrow b = S r') by (destruct (nrow b); [lia|eauto]).
    destruct Hex as [r' Er].
    destruct (children_gpx H HO s T Hn63 HTlo HT63 b r' Hb Er) as [EL ER]. rewrite EL, ER.
    destruct (Hk r' Er) as [E1 E2]. unfold nodes_has. rewrite E1, E2. reflexivity.
  Qed.

  Lemma ng_del_some d (nd : nodemap H) p v :
    nodes_get (nodes_del d nd) p = Some v -> nodes_get nd p = Some v.
  Proof.
    destruct (N.eq_dec p d) as [->|Hne]; [rewrite ng_del_same; discriminate|].
    rewrite ng_del_other by exact Hne. auto.
  Qed.

  Lemma prunePosition_some nd q p v :
    nodes_get (prunePosition HO T nd q) p = Some v -> nodes_get nd p = Some v.
  Proof.
    unfold prunePosition.
    destruct (negb (snd (nodes_get0 HO nd q)) && negb (snd (nodes_get0 HO nd (sibling q)))); [|auto].
    set (nd1 := if niecesPresent T nd (sibling q) then nd else nodes_del (sibling q) nd).
    assert (H1 : forall p v, nodes_get nd1 p = Some v -> nodes_get nd p = Some v).
    { unfold nd1. destruct (niecesPresent T nd (sibling q)); [auto|]. intros p' v'. apply ng_del_some. }
    destruct (niecesPresent T nd1 q); [apply H1|]. intros E. apply H1. exact (ng_del_some _ _ _ _ E).
  Qed.

  (** every stored position is the position of a node *)
  Lemma stored_is_node nd p v :
    (forall p h b, In (p, (h, b)) nd -> exists r o, p = gp T r o /\ thash HO s r o = Some h) ->
    nodes_get nd p = Some v -> exists z, In z lay /\ p = gpx z.
  Proof.
    intros Htrue E. destruct v as [h b]. apply nodes_get_In in E.
    destruct (Htrue _ _ _ E) as (r & o & -> & Hh).
    apply thash_some in Hh as (z & Hz & _). apply tnode_some in Hz as (Hzin & <- & <-).
    exists z. auto.
  Qed.

  Section Step.
    Variables (x : node H) (nd : nodemap H).
    Hypothesis Hx : In x lay.
    Hypothesis G : good HO s T ts1 nd.
    Hypothesis Hflag : forall y h, In y lay -> nodes_get nd (gpx y) = Some (h, true) -> In y ts1.
    Hypothesis Halw : forall y, In y lay -> nodes_get nd (gpx y) <> None -> alwn ts1 y \/ exc x y.

    (** no child of a node [sb] outside the known set, in the row of [x], is stored *)
    Lemma kids_unstored sb : In sb lay -> nrow sb = nrow x -> ~ In (crd sb) K1 -> no_kids nd sb.
    Proof.
      intros Hsb Ebr Hnk r' Er.
      assert (Hgen : forall j, j = 0 \/ j = 1 -> nodes_get nd (gp T r' (2 * noff sb + j)) = None).
      { intros j Hj. destruct (nodes_get nd (gp T r' (2 * noff sb + j))) as [v|] eqn:E; [exfalso|reflexivity].
        destruct (stored_is_node nd _ v (g_true G) E) as (z & Hz & Ez).
        destruct (nv H HO s T Hn63 HTlo HT63 sb Hsb) as [A B].
        destruct (nv H HO s T Hn63 HTlo HT63 z Hz) as [C D].
        rewrite Er in A, B.
        assert (B' : 2 * noff sb + j < 2 ^ (T - N.of_nat r')).
        { replace (T - N.of_nat r') with (T - N.of_nat (S r') + 1) by lia.
          rewrite UtilsGeom.pow2_S. lia. }
        assert (A' : N.of_nat r' <= T) by lia.
        unfold gp in Ez. destruct (gpos_inj T _ _ _ _ A' B' C D Ez) as [Ezr Ezo].
        assert (Ezr' : nrow z = r') by lia. clear Ezr.
        (* z is a child of sb: not a root *)
        assert (Hzr : nroot z = false).
        { pose proof (tnode_in H HO s z Hz) as Tz. rewrite Ezr', <- Ezo in Tz.
          destruct (node_cases H HO s _ _ sb (tnode_in H HO s sb Hsb))
            as [r'' xl xr _ Er'' Hxl Hxr _ _ _ Hrl Hrr|_ _ Hc|_ _ _ _ _ Hc].
          - rewrite Er in Er''. injection Er'' as <-. destruct Hj as [-> | ->].
            + rewrite N.add_0_r in Tz. congruence.
            + congruence.
          - destruct (Hc r' Er) as [C1 C2]. destruct Hj as [-> | ->]; [rewrite N.add_0_r in Tz|]; congruence.
          - destruct (Hc r' Er) as [C1 C2]. destruct Hj as [-> | ->]; [rewrite N.add_0_r in Tz|]; congruence. }
        assert (Ehalf : noff sb = noff z / 2) by (rewrite <- Ezo; destruct Hj as [-> | ->]; lia).
        assert (Erow : nrow sb = S (nrow z)) by lia.
        assert (Est : nodes_get nd (gpx z) <> None) by (cbv beta; rewrite Ezr', <- Ezo, E; discriminate).
        destruct (Halw z Hz Est) as [[Hr|[Hk|(d & Hd & Hdr & Ed)]]|(a & Ha & _ & _ & _ & Ec)].
        - congruence.
        - exact (Hnk (K1_up z sb Hz Hsb Hzr Erow Ehalf Hk)).
        - destruct (known_closed H HO s Hn63 ts1 ts1_lay d Hd Hdr) as [Hpk _].
          apply Hnk. destruct d as [dr do]. unfold sib_coord in Ed. cbn [fst snd] in Ed.
          injection Ed as Edr Edo. unfold par_coord in Hpk. cbn [fst snd] in Hpk.
          replace (S dr, do / 2) with (crd sb) in Hpk; [exact Hpk|].
          rewrite Erow, Ehalf, <- Edr, <- Edo. f_equal.
          pose proof (lxor_1 do) as Hl. pose proof (N.div_mod' do 2). pose proof (mod2_even do) as Hm.
          destruct (N.even do) eqn:Ev.
          + rewrite Hl. replace (do + 1) with (1 + (do / 2) * 2) by lia.
            rewrite N.div_add by lia. reflexivity.
          + rewrite Hl. pose proof (odd_nz _ Ev). replace (do - 1) with (0 + (do / 2) * 2) by lia.
            rewrite N.div_add by lia. reflexivity.
        - pose proof (anc_row x a Ha) as Hrow.
          assert (nrow z = nrow a) by (destruct Ec as [Ec|Ec]; injection Ec; auto). lia. }
      split; [rewrite <- (N.add_0_r (2 * noff sb))|]; apply Hgen; auto.
    Qed.

    (** outside the known set both the node and its sibling go *)
    Lemma prune_both p sb : nroot x = false -> In sb lay -> In p lay ->
      nrow sb = nrow x -> noff sb = N.lxor (noff x) 1 ->
      sibling (gpx x) = gpx sb -> sibling (gpx sb) = gpx x ->
      ~ In (crd x) K1 -> ~ In (crd sb) K1 -> no_kids nd x ->
      nodes_get (prunePosition HO T nd (gpx x)) (gpx x) = None /\
      nodes_get (prunePosition HO T nd (gpx x)) (gpx sb) = None.
    Proof.
      intros Hr Hsb Hp Ebr Ebo Es Es' Hxk Hsk Hkids.
      assert (Fx : snd (nodes_get0 HO nd (gpx x)) = false).
      { unfold nodes_get0. destruct (nodes_get nd (gpx x)) as [[h [|]]|] eqn:E; try reflexivity.
        exfalso. apply Hxk. apply RefTheory.known_set_target. exact (Hflag x h Hx E). }
      assert (Fs : snd (nodes_get0 HO nd (gpx sb)) = false).
      { unfold nodes_get0. destruct (nodes_get nd (gpx sb)) as [[h [|]]|] eqn:E; try reflexivity.
        exfalso. apply Hsk. apply RefTheory.known_set_target. exact (Hflag sb h Hsb E). }
      assert (Hne : gpx x <> gpx sb).
      { intros E. pose proof (gpx_inj H HO s T Hn63 HTlo HT63 x sb Hx Hsb E) as Eq.
        rewrite <- Eq in Ebo. pose proof (lxor_1 (noff x)). destruct (N.even (noff x)) eqn:Ev; [lia|].
        pose proof (odd_nz _ Ev). lia. }
      unfold prunePosition. rewrite Es, Fx, Fs. cbn [negb andb].
      rewrite (nieces_absent nd sb x Hsb Hx (eq_sym Ebr) Es' Hkids).
      assert (Hk2 : no_kids (nodes_del (gpx sb) nd) sb).
      { intros r' Er. destruct (kids_unstored sb Hsb Ebr Hsk r' Er) as [E1 E2].
        split; (destruct (nodes_get (nodes_del (gpx sb) nd) _) as [v|] eqn:E; [|reflexivity]);
          apply ng_del_some in E; congruence. }
      rewrite (nieces_absent _ x sb Hx Hsb Ebr Es Hk2).
      split; [apply ng_del_same|]. rewrite ng_del_other by (intros E; apply Hne; symmetry; exact E).
      apply ng_del_same.
    Qed.
  End Step.

  Lemma lxor1_half o : N.lxor o 1 / 2 = o / 2.
  Proof.
    pose proof (lxor_1 o) as Hl. pose proof (N.div_mod' o 2). pose proof (mod2_even o) as Hm.
    rewrite Hl. destruct (N.even o) eqn:Ev.
    - replace (o + 1) with (1 + (o / 2) * 2) by lia. rewrite N.div_add by lia. reflexivity.
    - pose proof (odd_nz _ Ev). replace (o - 1) with (0 + (o / 2) * 2) by lia.
      rewrite N.div_add by lia. reflexivity.
  Qed.

  (** the loop of [Prune] removes what only the pruned leaf needed *)
  Lemma prune_up_tidy : forall fuel x row nd, In x lay -> row = N.of_nat (nrow x) ->
    (ntree x - nrow x < fuel)%nat -> good HO s T ts1 nd ->
    (forall y h, In y lay -> nodes_get nd (gpx y) = Some (h, true) -> In y ts1) ->
    (forall y, In y lay -> nodes_get nd (gpx y) <> None -> alwn ts1 y \/ exc x y) ->
    (~ In (crd x) K1 -> no_kids nd x) ->
    tidyg ts1 (prune_up HO fuel n T row (gpx x) nd).
  Proof.
    induction fuel as [|f IH]; intros x row nd Hx Erow Hfuel G Hflag Halw Hkids; [lia|].
    cbn [prune_up]. destruct (nv_min H HO s T Hn63 HTlo HT63 x Hx) as [Hrtr _].
    pose proof (TreeRows_le_63 n Hn63) as Htr63.
    destruct (N.ltb_spec tr row) as [Hlt|_]; [lia|].
    rewrite (isroot_gpx H HO s T Hn63 HTlo HT63 x Hx).
    destruct (nroot x) eqn:Hr.
    - constructor; [|exact Hflag]. intros y Hy Hst.
      destruct (Halw y Hy Hst) as [Ha|(a & Ha & Hra & _)]; [exact Ha|].
      rewrite (anc_root x a Hr Ha) in Hra. congruence.
    - destruct (family H HO s T Hn63 HTlo HT63 x Hx Hr)
        as (p & sb & Hp & Hsb & Hsr & _ & Ebr & Ebo & Epr & Epo & Es & Es' & Epar).
      rewrite Epar.
      assert (Ept : ntree p = ntree x).
      { destruct (node_parent H HO s _ _ x (tnode_in H HO s x Hx) Hr) as (p' & Hp' & _ & Et & _).
        rewrite <- Epr, <- Epo, (tnode_in H HO s p Hp) in Hp'. congruence. }
      pose proof (proj1 (nonroot_iff_row H HO s Hn63 x Hx) Hr) as Hlt.
      assert (Hsk_of : In (crd sb) K1 -> In (crd p) K1).
      { apply (K1_up sb p Hsb Hp Hsr); [lia|]. rewrite Ebo, lxor1_half. exact Epo. }
      assert (Hxk_of : In (crd x) K1 -> In (crd p) K1) by exact (K1_up x p Hx Hp Hr Epr Epo).
      assert (Eadd : add8 row 1 = N.of_nat (nrow p)) by (rewrite add8_small; lia).
      apply (IH p); [exact Hp|exact Eadd|lia| | | |].
      + apply (prunePosition_good H HO s T Hn63 HTlo HT63 ts1 ts1_lay); assumption.
      + intros y h Hy E. apply prunePosition_some in E. exact (Hflag y h Hy E).
      + intros y Hy Hst.
        assert (Hst0 : nodes_get nd (gpx y) <> None).
        { destruct (nodes_get (prunePosition HO T nd (gpx x)) (gpx y)) as [v|] eqn:E; [|congruence].
          rewrite (prunePosition_some _ _ _ _ E). discriminate. }
        destruct (Halw y Hy Hst0) as [Ha|(a & Ha & Hra & Hak & Hask & Ec)]; [left; exact Ha|].
        inversion Ha as [x0 E0 E1|x0 p' a0 Hp' _ Epr' Epo' Ha' E0 E1]; subst.
        * (* a = x: both x and its sibling have just been removed *)
          exfalso.
          assert (Hsk : ~ In (crd sb) K1).
          { intros Hk. apply Hask. unfold sib_coord. cbn [fst snd]. rewrite <- Ebr, <- Ebo. exact Hk. }
          destruct (prune_both a nd Hx G Hflag Halw p sb Hr Hsb Hp Ebr Ebo Es Es' Hak Hsk (Hkids Hak))
            as [N1 N2].
          destruct Ec as [Ec|Ec].
          -- rewrite (coord_node_eq H HO s y a Hy Hx Ec) in Hst. exact (Hst N1).
          -- assert (Ey : crd y = crd sb)
               by (rewrite Ec; unfold sib_coord; cbn [fst snd]; rewrite Ebr, Ebo; reflexivity).
             rewrite (coord_node_eq H HO s y sb Hy Hsb Ey) in Hst. exact (Hst N2).
        * right. assert (p' = p).
          { apply (coord_node_eq H HO s p' p Hp' Hp). rewrite Epr', Epo', Epr, Epo. reflexivity. }
          subst p'. exists a. auto.
      + intros Hpk.
        assert (Hxk : ~ In (crd x) K1) by (intros Hk; exact (Hpk (Hxk_of Hk))).
        assert (Hsk : ~ In (crd sb) K1) by (intros Hk; exact (Hpk (Hsk_of Hk))).
        destruct (prune_both x nd Hx G Hflag Halw p sb Hr Hsb Hp Ebr Ebo Es Es' Hxk Hsk (Hkids Hxk))
          as [N1 N2].
        intros r' Er'. assert (r' = nrow x) by lia. subst r'. rewrite Epo.
        pose proof (N.div_mod' (noff x) 2) as Hdm. pose proof (mod2_even (noff x)) as Hm.
        pose proof (lxor_1 (noff x)) as Hl. cbv beta in N1, N2. rewrite Ebr, Ebo, Hl in N2.
        destruct (N.even (noff x)) eqn:Ev.
        * replace (2 * (noff x / 2)) with (noff x) by lia. split; assumption.
        * pose proof (odd_nz _ Ev).
          replace (2 * (noff x / 2) + 1) with (noff x) by lia.
          replace (2 * (noff x / 2)) with (noff x - 1) by lia. split; assumption.
  Qed.

  (** a leaf has nothing stored below it *)
  Lemma leaf_no_kids nd x :
    (forall p h b, In (p, (h, b)) nd -> exists r o, p = gp T r o /\ thash HO s r o = Some h) ->
    In x lay -> nleaf x = true -> no_kids nd x.
  Proof.
    intros Htrue Hx Hl r' Er.
    pose proof (tnode_in H HO s x Hx) as Tx. rewrite Er in Tx.
    destruct (leaf_children_none H HO s r' (noff x) x Tx Hl) as [C1 C2].
    destruct (nv H HO s T Hn63 HTlo HT63 x Hx) as [A B]. rewrite Er in A, B.
    assert (A' : N.of_nat r' <= T) by lia.
    assert (Hgen : forall j, j = 0 \/ j = 1 -> nodes_get nd (gp T r' (2 * noff x + j)) = None).
    { intros j Hj. destruct (nodes_get nd (gp T r' (2 * noff x + j))) as [v|] eqn:E; [exfalso|reflexivity].
      destruct (stored_is_node nd _ v Htrue E) as (z & Hz & Ez).
      destruct (nv H HO s T Hn63 HTlo HT63 z Hz) as [C D].
      assert (B' : 2 * noff x + j < 2 ^ (T - N.of_nat r')).
      { replace (T - N.of_nat r') with (T - N.of_nat (S r') + 1) by lia.
        rewrite UtilsGeom.pow2_S. lia. }
      unfold gp in Ez. destruct (gpos_inj T _ _ _ _ A' B' C D Ez) as [Ezr Ezo].
      assert (Ezr' : nrow z = r') by lia.
      pose proof (tnode_in H HO s z Hz) as Tz. rewrite Ezr', <- Ezo in Tz.
      destruct Hj as [-> | ->]; [rewrite N.add_0_r in Tz|]; congruence. }
    split; [rewrite <- (N.add_0_r (2 * noff x))|]; apply Hgen; auto.
  Qed.

  (** what was allowed for the targets [tsR] = [ts1] plus the leaf [x] *)
  Lemma alwn_split tsR x y : In x lay -> In y lay ->
    (forall t, In t tsR -> In t ts1 \/ t = x) -> alwn tsR y -> alwn ts1 y \/ exc x y.
  Proof.
    intros Hx Hy Hsub Ha.
    assert (HK : forall c, In c (known_set lay tsR) -> In c K1 \/ exists a, anc x a /\ c = crd a).
    { intros c Hc. apply RefTheory.known_set_In in Hc as (t & Ht & Hc).
      destruct (Hsub t Ht) as [Ht1| ->].
      - left. apply RefTheory.known_set_In. exists t. auto.
      - right. exact (path_anc 64 x c Hx Hc). }
    assert (Hdec : forall c, In c K1 \/ ~ In c K1).
    { intros c. destruct (mem_coord c K1) eqn:E; [left; apply RefTheory.mem_coord_In, E|].
      right. apply RefTheory.mem_coord_false, E. }
    (* an ancestor [a] of [x] and a node [y] that is [a] or its sibling *)
    assert (Hcase : forall a, anc x a -> nroot a = false ->
              (crd y = crd a \/ crd y = sib_coord (crd a)) -> alwn ts1 y \/ exc x y).
    { intros a Ha' Hra Ec. pose proof (anc_lay x a Hx Ha') as Hal.
      destruct (family H HO s T Hn63 HTlo HT63 a Hal Hra)
        as (p & sb & _ & Hsb & Hsr & _ & Ebr & Ebo & _).
      assert (Esb : crd sb = sib_coord (crd a))
        by (unfold sib_coord; cbn [fst snd]; rewrite Ebr, Ebo; reflexivity).
      destruct (Hdec (crd a)) as [Hak|Hak].
      - left. destruct Ec as [Ec|Ec]; [right; left; rewrite Ec; exact Hak|].
        right. right. exists (crd a). split; [exact Hak|]. split; [|symmetry; exact Ec].
        rewrite (is_root_coord_node H HO s (crd a) a (tnode_in H HO s a Hal)). exact Hra.
      - destruct (Hdec (sib_coord (crd a))) as [Hsk|Hsk].
        + left. destruct Ec as [Ec|Ec]; [|right; left; rewrite Ec; exact Hsk].
          right. right. exists (sib_coord (crd a)). split; [exact Hsk|]. split.
          * rewrite <- Esb. rewrite (is_root_coord_node H HO s (crd sb) sb (tnode_in H HO s sb Hsb)).
            exact Hsr.
          * rewrite Ec. unfold sib_coord. cbn [fst snd]. rewrite pps_lxor_invol. reflexivity.
        + right. exists a. auto. }
    destruct Ha as [Hr|[Hk|(d & Hd & Hdr & Ed)]]; [left; left; exact Hr| |].
    - destruct (HK _ Hk) as [Hk1|(a & Ha' & Ea)]; [left; right; left; exact Hk1|].
      pose proof (anc_lay x a Hx Ha') as Hal.
      destruct (nroot a) eqn:Hra.
      + left. left. rewrite (coord_node_eq H HO s y a Hy Hal Ea). exact Hra.
      + apply (Hcase a Ha' Hra). left. exact Ea.
    - destruct (HK _ Hd) as [Hd1|(a & Ha' & Ea)]; [left; right; right; exists d; auto|].
      pose proof (anc_lay x a Hx Ha') as Hal. subst d.
      rewrite (is_root_coord_node H HO s (crd a) a (tnode_in H HO s a Hal)) in Hdr.
      apply (Hcase a Ha' Hdr). right. symmetry. exact Ed.
  Qed.
End Tidy.

(** G2: "pruning a leaf removes exactly what no other remembered leaf needs" *)
Section PruneTidy.
  Variable H : Type.
  Variable HO : ops H.
  Hypothesis HOK : ops_ok HO.

  (** nothing is stored beyond the roots, the remembered leaves with their ancestors, and the
      siblings of these; only remembered leaves carry the flag *)
  Definition tidy (s : slots H) (R : list H) (m : mstate H) : Prop :=
    forall ts, find_leaves HO (layout HO s) R = Some ts ->
      tidyg HO s (ms_total m) ts (ms_nodes m).

  Lemma tidy_empty T full : tidy [] [] (mkM [] [] 0 T full).
  Proof.
    intros ts _. constructor; cbn [ms_nodes nodes_get]; [congruence|discriminate].
  Qed.

  Section Fixed.
    Variable s : slots H.
    Variable T : N.
    Variable fl : bool.
    Notation lay := (layout HO s).
    Notation n := (N.of_nat (length s)).
    Notation gpx := (fun x : node H => gp T (nrow x) (noff x)).

    Lemma prune_step_tidy R nd ca h pos lf : Inv H HO s R (mkM nd ca n T fl) ->
      tidy s R (mkM nd ca n T fl) ->
      cached_get HO ca h = Some pos -> nodes_get nd pos = Some lf ->
      tidy s (filter (fun h' => negb (op_eqb HO h' h)) R)
           (mkM (prune_up HO 300 n T (DetectRow pos T) pos (nodes_put pos (fst lf, false) nd))
                (cached_del HO h ca) n T fl).
    Proof.
      intros HI Ht Ec Elf. destruct (Inv_facts H HO s T fl _ _ _ HI) as (Hn & HTlo & HT).
      destruct (prune_setup H HO HOK s T fl R nd ca h pos HI Ec)
        as (x & b & tsR & ts1 & Hx & Ep & Hxl & Hxleaf & Eb & HtsR & Hts1 & Hts1_lay & Hsub & HR1 & G0).
      rewrite Eb in Elf. injection Elf as <-. cbn [fst].
      intros ts' Hts'. rewrite Hts1 in Hts'. injection Hts' as <-.
      cbn [ms_total ms_nodes]. specialize (Ht tsR HtsR). cbn [ms_total ms_nodes] in Ht.
      rewrite Ep in *. rewrite (detect_gpx H HO s T Hn HTlo HT x Hxl).
      assert (Hst : forall y, In y lay ->
                nodes_get (nodes_put (gpx x) (nhash x, false) nd) (gpx y) <> None ->
                nodes_get nd (gpx y) <> None).
      { intros y Hy. destruct (N.eq_dec (gpx y) (gpx x)) as [E|E].
        - cbv beta in E. rewrite E, Eb. discriminate.
        - rewrite ng_put_other by exact E. auto. }
      apply (prune_up_tidy H HO s T Hn HTlo HT ts1 Hts1_lay 300 x _ _ Hxl eq_refl).
      - pose proof (node_tree_63 H HO s Hn x Hxl). lia.
      - exact G0.
      - intros y h' Hy E. destruct (N.eq_dec (gpx y) (gpx x)) as [E'|E'].
        + cbv beta in E'. rewrite E', ng_put_same in E. discriminate.
        + rewrite ng_put_other in E by exact E'.
          destruct (Hsub y (t_flag Ht y Hy E)) as [H1| ->]; [exact H1|contradiction].
      - intros y Hy Hs. apply (alwn_split H HO s T Hn HTlo HT ts1 tsR x y Hxl Hy Hsub).
        exact (t_alw Ht y Hy (Hst y Hy Hs)).
      - intros _. exact (leaf_no_kids H HO s T Hn HTlo HT ts1 Hts1_lay _ x (g_true G0) Hxl Hxleaf).
    Qed.

    Lemma prune_loop_tidy : forall hs R nd ca, Inv H HO s R (mkM nd ca n T fl) ->
      tidy s R (mkM nd ca n T fl) ->
      forall nd' ca', prune_loop HO n T hs (nd, ca) = Some (nd', ca') ->
      tidy s (filter (fun h => negb (memH HO h hs)) R) (mkM nd' ca' n T fl).
    Proof.
      induction hs as [|h hs IH]; intros R nd ca HI Ht nd' ca' E.
      - cbn [prune_loop] in E. injection E as <- <-. cbn [memH negb].
        rewrite filter_all_true by reflexivity. exact Ht.
      - cbn [prune_loop fst snd] in E. destruct (cached_get HO ca h) as [pos|] eqn:Ec.
        + destruct (prune_step H HO HOK s T fl R nd ca h pos (DetectRow pos T) 300 HI Ec)
            as (lf & Elf & HI1).
          rewrite Elf in E.
          pose proof (prune_step_tidy R nd ca h pos lf HI Ht Ec Elf) as Ht1.
          pose proof (IH _ _ _ HI1 Ht1 nd' ca' E) as Ht'. rewrite filter_twice in Ht'.
          erewrite filter_ext; [exact Ht'|]. intros a. cbn [memH]. cbv beta.
          rewrite negb_orb. reflexivity.
        + pose proof (IH _ _ _ HI Ht nd' ca' E) as Ht'.
          erewrite filter_ext_in; [exact Ht'|]. intros a Ha. cbn [memH]. cbv beta.
          destruct (op_eqb HO a h) eqn:Eh; [|reflexivity]. apply HOK in Eh. subst a. exfalso.
          apply (cached_get_None H HO HOK _ _ Ec).
          exact (proj1 (cs_cached_R (Inv_consistent H HO s R _ HI) h) Ha).
    Qed.
  End Fixed.

  Theorem mm_prune_tidy s R m hs m' : Inv H HO s R m -> tidy s R m -> ms_full m = false ->
    mm_prune HO m hs = Some m' ->
    tidy s (filter (fun h => negb (memH HO h hs)) R) m'.
  Proof.
    intros HI Ht Hfull E. destruct m as [nd ca n0 T fl]. cbn [ms_full] in Hfull. subst fl.
    pose proof (cs_n (Inv_consistent H HO s R _ HI)) as En. cbn [ms_n] in En.
    unfold num_leaves in En. subst n0.
    unfold mm_prune in E. cbn [ms_full ms_n ms_total ms_nodes ms_cached] in E.
    destruct (prune_loop HO (N.of_nat (length s)) T hs (nd, ca)) as [[nd' ca']|] eqn:El; [|discriminate].
    injection E as <-. exact (prune_loop_tidy s T false hs R nd ca HI Ht nd' ca' El).
  Qed.
End PruneTidy.

(** * 6. [Ingest] *)
Section Ingest.
  Variable H : Type.
  Variable HO : ops H.
  Hypothesis HOK : ops_ok HO.
  Hypothesis hash_nz : forall a b, NZ HO (op_hash2 HO a b).
  Variable s : slots H.
  Hypothesis Hlive_nz : forall h, In (Some h) s -> NZ HO h.
  Variable T : N.
  Variable fl : bool.
  Notation lay := (layout HO s).
  Notation n := (N.of_nat (length s)).
  Notation tr := (TreeRows (N.of_nat (length s))).
  Notation Rw := (rows_of (num_leaves s)).
  Notation gpx := (fun x : node H => gp T (nrow x) (noff x)).
  Variables (R : list H) (nd : nodemap H) (ca : cachemap H).
  Hypothesis HI : Inv H HO s R (mkM nd ca n T fl).
  Variables (hs : list H) (tsn : list (node H)).
  Hypothesis Hnd : NoDup hs.
  Hypothesis Hts : find_leaves HO lay hs = Some tsn.

  Let Hn : n <= 2 ^ 63 := proj1 (Inv_facts H HO s T fl R nd ca HI).
  Let HTlo : tr <= T := proj1 (proj2 (Inv_facts H HO s T fl R nd ca HI)).
  Let HT : T <= 63 := proj2 (proj2 (Inv_facts H HO s T fl R nd ca HI)).
  Let Hlay : forall x, In x tsn -> In x lay :=
    proj1 (cc_find_leaves_facts HO s hs tsn HOK Hnd Hts).
  Let Hleaf : forall x, In x tsn -> nleaf x = true :=
    proj1 (proj2 (cc_find_leaves_facts HO s hs tsn HOK Hnd Hts)).
  Let Hndt : NoDup tsn := proj1 (proj2 (proj2 (cc_find_leaves_facts HO s hs tsn HOK Hnd Hts))).
  Let Ehs : map (@nhash H) tsn = hs :=
    proj1 (proj2 (proj2 (proj2 (cc_find_leaves_facts HO s hs tsn HOK Hnd Hts)))).

  Notation ts := (map (npos Rw) tsn).
  Notation SC := (sort_coords Rw (proof_coords lay tsn)).
  Notation pf := (canon_proof_hashes HO Rw lay tsn).

  Lemma ing_ts : ts = map (fun x : node H => gp tr (nrow x) (noff x)) tsn.
  Proof.
    apply map_ext. intros x. unfold npos. rewrite LayoutStruct.pos_gpos, (pc_rows_of H s). reflexivity.
  Qed.

  Lemma ing_translate x : In x lay ->
    translatePos (gp tr (nrow x) (noff x)) tr T = gpx x.
  Proof.
    intros Hx. destruct (nv H HO s T Hn HTlo HT x Hx) as [A B].
    destruct (nv_min H HO s T Hn HTlo HT x Hx) as [C D]. pose proof (TreeRows_le_63 n Hn).
    unfold gp. apply translatePos_gpos; assumption.
  Qed.

  Lemma ing_gpx_nodup : NoDup (map gpx tsn).
  Proof.
    apply NoDup_map_on; [exact Hndt|]. intros x y Hx Hy E.
    exact (gpx_inj H HO s T Hn HTlo HT x y (Hlay x Hx) (Hlay y Hy) E).
  Qed.

  Lemma sortN_perm_eq l l' : NoDup l -> Permutation l l' -> sortN l' = sortN l.
  Proof.
    intros Hl Hp. apply pps_sortN_unique.
    - apply pps_sortN_NoDup_SSlt, Hl.
    - exact (Permutation_NoDup Hp Hl).
    - intros x. rewrite RefTheory.sortN_In. split; apply Permutation_in;
        [exact Hp|apply Permutation_sym, Hp].
  Qed.

  (** the targets, translated and sorted as [ingest] does *)
  Lemma ing_positions :
    (if T =? tr then sortN ts else sortN (translatePositions (sortN ts) tr T)) = sortN (map gpx tsn).
  Proof.
    rewrite ing_ts. destruct (N.eqb_spec T tr) as [E|E].
    - rewrite <- E. reflexivity.
    - apply sortN_perm_eq; [exact ing_gpx_nodup|]. unfold translatePositions.
      replace (map gpx tsn)
        with (map (fun p => translatePos p tr T) (map (fun x : node H => gp tr (nrow x) (noff x)) tsn)).
      + apply Permutation_map, Permutation_sym, pps_sortN_perm.
      + rewrite map_map. apply map_ext_in. intros x Hx. exact (ing_translate x (Hlay x Hx)).
  Qed.

  Notation fpos := (fun e : N * (nat * N) => gp T (fst (snd e)) (snd (snd e))).
  Notation ghash := (fun e : N * (nat * N) =>
                       match find_coord lay (fst (snd e)) (snd (snd e)) with
                       | Some x => nhash x | None => op_empty HO end).

  Lemma ing_pp : exists ds, ProofPositions_fast (sortN (map gpx tsn)) n T = (map fpos SC, ds).
  Proof.
    rewrite ProofPositions_fast_eq.
    exact (pp_canon H HO s T Hn HTlo HT tsn Hlay Hleaf Hndt).
  Qed.

  Lemma ing_pc_node c : In c (proof_coords lay tsn) ->
    exists sb, In sb lay /\ nrow sb = fst c /\ noff sb = snd c /\
               find_coord lay (fst c) (snd c) = Some sb.
  Proof.
    intros Hc. destruct (pc_node H HO s Hn tsn Hlay c Hc) as [sb Hsb].
    pose proof Hsb as Hsb'. apply tnode_some in Hsb' as (Hin & Er & Eo). exists sb. auto.
  Qed.

  (** "ingest the proof" *)
  Lemma ing_fill : exists nd1, ingest_fill fl 0 (map fpos SC) pf nd = Some nd1 /\
    (forall p v, nodes_get nd p = Some v -> nodes_get nd1 p = Some v) /\
    (forall p h b, In (p, (h, b)) nd1 -> exists r o, p = gp T r o /\ thash HO s r o = Some h) /\
    (forall c, In c (proof_coords lay tsn) -> nodes_get nd1 (gp T (fst c) (snd c)) <> None) /\
    (forall p v, nodes_get nd1 p = Some v -> nodes_get nd p = Some v \/
       exists c, In c (proof_coords lay tsn) /\ p = gp T (fst c) (snd c) /\ snd v = fl).
  Proof.
    destruct (ingest_fill_spec H fpos ghash fl SC [] nd) as (nd1 & E & P1 & P2 & P3 & P4).
    exists nd1. split; [exact E|]. split; [exact P1|]. split; [|split].
    - intros p h b Hin. destruct (P2 _ Hin) as [Hold|(a & Ha & Ee)].
      + exact (cs_true (Inv_consistent H HO s R _ HI) _ _ _ Hold).
      + apply RefTheory.sort_coords_In in Ha as (c & Hc & ->). cbn [fst snd] in Ee.
        destruct (ing_pc_node c Hc) as (sb & Hsb & Er & Eo & Ef). rewrite Ef in Ee.
        injection Ee as -> -> _. exists (fst c), (snd c). split; [reflexivity|].
        rewrite thash_tnode. unfold tnode. rewrite Ef. reflexivity.
    - intros c Hc. apply (P3 (pos Rw (fst c) (snd c), c)).
      apply RefTheory.sort_coords_In. exists c. auto.
    - intros p v Ep. destruct (P4 p v Ep) as [Hold|(a & Ha & -> & ->)]; [left; exact Hold|].
      right. apply RefTheory.sort_coords_In in Ha as (c & Hc & ->). exists c. auto.
  Qed.

  (** [calculateHashes] on the canonical proof: the targets and their ancestors, each with the hash
      of its node *)
  Lemma ing_calc : exists inter cands rows,
    calculateHashes HO true n (Some hs) ts pf = Ok (inter, cands, rows) /\
    (forall e, In e inter -> exists x, In x lay /\ fst e = gp tr (nrow x) (noff x) /\
       snd e = nhash x /\ In (nrow x, noff x) (known_set lay tsn)) /\
    (forall d, In d (known_set lay tsn) -> In (gp tr (fst d) (snd d)) (map fst inter)).
  Proof.
    pose proof (rt_valid H HO s tsn Hlay Hleaf Hndt) as Hval.
    destruct (cc_valid_facts n Hn _ Hval) as (HK1 & _).
    destruct (cc_Ks_spec n Hn _ Hval) as [_ HKs].
    destruct (calc_complete_c H HO (Wv H HO s) n Hn (map (@ncrd H) tsn) (Some hs) pf [] Hval)
      as (inter & cands & Ecalc & _ & _ & Efst & HW).
    { intros c h h' Hc Hr. exact (vc_step H HO hash_nz s Hn c h h' (HK1 c Hc) Hr). }
    { cbn [cc_hs]. rewrite <- Ehs. exact (vc_targets_W H HO s Hlive_nz tsn Hlay Hleaf). }
    { exact (vc_proof_W H HO hash_nz s Hlive_nz Hn tsn Hlay Hleaf Hndt). }
    rewrite app_nil_r, map_map in Ecalc.
    rewrite (map_ext _ (npos Rw) (fun x => eq_sym (rf_npos H s x))) in Ecalc.
    eexists inter, cands, _. split; [exact Ecalc|]. split.
    - intros e He. rewrite Forall_forall in HW. destruct (HW e He) as (x & Hx & Ep & Eh & _).
      exists x. split; [exact Hx|]. split; [exact Ep|]. split; [symmetry; exact Eh|].
      assert (Hfe : In (fst e) (map fst inter)) by (apply in_map, He).
      rewrite Efst in Hfe. apply in_map_iff in Hfe as (c & Ec & Hc).
      apply HKs in Hc. pose proof (HK1 c Hc) as Hinf.
      apply (rt_K H HO s Hn tsn Hlay) in Hc as (d & Hd & ->).
      rewrite Ep in Ec.
      apply pps_g_inj in Ec;
        [|exact (pps_inf_vld n tr (TreeRows_upper n) _ Hinf)|exact (rf_node_vld H HO s x Hx)].
      apply CalcComplete.cN_inj in Ec. rewrite Ec in Hd. exact Hd.
    - intros d Hd. rewrite Efst.
      change (gp tr (fst d) (snd d)) with (g tr (CalcComplete.cN d)). apply in_map. apply HKs.
      apply (rt_K H HO s Hn tsn Hlay). exists d. auto.
  Qed.

  Notation K := (known_set lay tsn).

  (** a leaf in the known set is a target *)
  Lemma ing_leaf_target x : In x lay -> nleaf x = true -> In (nrow x, noff x) K -> In x tsn.
  Proof.
    intros Hx Hl Hk.
    destruct (known_src H HO s Hn tsn Hlay _ Hk) as [(t & Ht & Et)|(c & Hc & Hr & Ec)].
    - rewrite (coord_node_eq H HO s x t Hx (Hlay t Ht) Et). exact Ht.
    - exfalso. destruct (known_closed H HO s Hn tsn Hlay c Hc Hr) as (_ & p & Hp & Hpl).
      rewrite <- Ec in Hp. cbn [fst snd] in Hp. rewrite (tnode_in H HO s x Hx) in Hp. congruence.
  Qed.

  Lemma ing_memN p : memN p (sortN (map gpx tsn)) = true <-> exists x, In x tsn /\ p = gpx x.
  Proof.
    rewrite RefTheory.memN_In, RefTheory.sortN_In, in_map_iff. split; intros (x & A & B); exists x; auto.
  Qed.

  (** the list handed to "store the calculated nodes", in [T]-row coordinates *)
  Definition ing_lok (l : list (hp H)) : Prop :=
    (forall e, In e l -> exists x, In x lay /\ fst e = gpx x /\ snd e = nhash x /\
       In (nrow x, noff x) K) /\
    (forall x, In x lay -> In (nrow x, noff x) K -> In (gpx x, nhash x) l).

  Lemma ing_l inter :
    (forall e, In e inter -> exists x, In x lay /\ fst e = gp tr (nrow x) (noff x) /\
       snd e = nhash x /\ In (nrow x, noff x) K) ->
    (forall d, In d K -> In (gp tr (fst d) (snd d)) (map fst inter)) ->
    ing_lok (if T =? tr then inter
             else sortK (map (fun e : hp H => (translatePos (fst e) tr T, snd e)) inter)).
  Proof.
    intros I1 I2. unfold ing_lok.
    set (l := if T =? tr then inter
              else sortK (map (fun e : hp H => (translatePos (fst e) tr T, snd e)) inter)).
    assert (I3 : forall x, In x lay -> In (nrow x, noff x) K -> In (gp tr (nrow x) (noff x), nhash x) inter).
    { intros x Hx Hk. specialize (I2 _ Hk). cbn [fst snd] in I2.
      apply in_map_iff in I2 as ([p h] & Ep & He). cbn [fst] in Ep. subst p.
      destruct (I1 _ He) as (y & Hy & Ey & Eh & _). cbn [fst snd] in Ey, Eh.
      assert (Exy : x = y).
      { pose proof (TreeRows_le_63 n Hn) as H63.
        exact (gpx_inj H HO s tr Hn (N.le_refl _) H63 x y Hx Hy Ey). }
      subst y. rewrite <- Eh. exact He. }
    unfold l. destruct (N.eqb_spec T tr) as [E|E].
    - rewrite E. split; [exact I1|exact I3].
    - split.
      + intros e He. apply (proj1 (cs_sortK_in _ _)) in He. apply in_map_iff in He as (e0 & <- & He0).
        destruct (I1 _ He0) as (x & Hx & Ex & Eh & Hk). exists x. cbn [fst snd].
        split; [exact Hx|]. split; [rewrite Ex; exact (ing_translate x Hx)|]. auto.
      + intros x Hx Hk. apply (proj2 (cs_sortK_in _ _)). apply in_map_iff.
        exists (gp tr (nrow x) (noff x), nhash x). cbn [fst snd].
        rewrite (ing_translate x Hx). split; [reflexivity|exact (I3 x Hx Hk)].
  Qed.

  (** [ingest] of a canonical proof *)
  Lemma ing_steps : exists nd1 nd2 ca2,
    ingest_steps HO (mkM nd ca n T fl) hs ts pf =
      Some (mkM nd1 ca n T fl, Some (mkM nd2 ca2 n T fl)) /\
    Inv H HO s (R ++ hs) (mkM nd2 ca2 n T fl) /\
    (fl = false -> tidy H HO s R (mkM nd ca n T fl) ->
     tidy H HO s (R ++ hs) (mkM nd2 ca2 n T fl)).
  Proof.
    pose proof (Inv_consistent H HO s R _ HI) as Hc. pose proof (proj2 HI) as Hf.
    unfold ingest_steps. cbn [ms_n ms_total ms_full ms_nodes ms_cached].
    rewrite map_length.
    replace (length hs) with (length tsn) by (rewrite <- Ehs; symmetry; apply map_length).
    rewrite Nat.eqb_refl. cbn [negb]. cbv zeta.
    rewrite ing_positions. destruct ing_pp as [ds Epp]. rewrite Epp.
    replace (Nat.ltb (length pf) (length (map fpos SC))) with false
      by (unfold canon_proof_hashes; rewrite !map_length; symmetry; apply Nat.ltb_irrefl).
    rewrite andb_false_r.
    destruct ing_fill as (nd1 & E1 & F1 & F2 & F3 & F4). rewrite E1.
    destruct ing_calc as (inter & cands & rows & Ec & I1 & I2). rewrite Ec.
    match goal with |- context [put_calculated HO fl ?tp ?l0 (nd1, ca)] => set (l := l0) end.
    assert (HL : ing_lok l) by exact (ing_l inter I1 I2). destruct HL as [La Lb].
    match goal with |- context [put_calculated ?a ?b ?c ?d ?e] =>
      destruct (put_calculated a b c d e) as [nd2 ca2] eqn:Epc end.
    apply (put_calc_spec H HO HOK) in Epc as (P1 & P2 & P3 & P4 & P5 & P6).
    exists nd1, nd2, ca2. split; [reflexivity|].
    destruct (R_leaves H HO HOK s R _ Hc) as [tsR HtsR].
    pose proof (find_leaves_app H HO lay R hs tsR tsn HtsR Hts) as Happ.
    assert (HtsR_facts : forall x, In x tsR -> In x lay /\ nleaf x = true)
      by exact (leaves_nodes H HO HOK s R tsR HtsR).
    (* stored positions stay stored *)
    assert (S12 : forall q, nodes_get nd1 q <> None -> nodes_get nd2 q <> None).
    { intros q Hq. destruct (in_dec N.eq_dec q (map fst l)) as [Hin|Hnin].
      - destruct (P2 q Hin) as (h & _ & ->). discriminate.
      - rewrite (P1 q Hnin). exact Hq. }
    assert (S02 : forall q, nodes_get nd q <> None -> nodes_get nd2 q <> None).
    { intros q Hq. apply S12. destruct (nodes_get nd q) as [v|] eqn:E; [|congruence].
      rewrite (F1 _ _ E). discriminate. }
    (* a calculated node at a target position is that target *)
    assert (Ltgt : forall p h, In (p, h) l -> memN p (sortN (map gpx tsn)) = true ->
              exists x, In x tsn /\ p = gpx x /\ h = nhash x).
    { intros p h Hl Hm. apply ing_memN in Hm as (x & Hx & ->).
      destruct (La _ Hl) as (y & Hy & Ey & Eh & _). cbn [fst snd] in Ey, Eh.
      pose proof (gpx_inj H HO s T Hn HTlo HT x y (Hlay x Hx) Hy Ey) as <-. exists x. auto. }
    assert (Ltsn : forall x, In x tsn -> In (gpx x, nhash x) l /\
              memN (gpx x) (sortN (map gpx tsn)) = true).
    { intros x Hx. split; [apply Lb; [exact (Hlay x Hx)|apply RefTheory.known_set_target, Hx]|].
      apply ing_memN. exists x. auto. }
    split; [apply (good_Inv H HO s T fl (R ++ hs) nd2 ca2 (tsR ++ tsn) Hn HTlo HT Happ)|].
    - constructor.
      + intros p h b Hin. destruct (P3 _ Hin) as [Hold|(p' & h' & Hl & Ee)]; [exact (F2 _ _ _ Hold)|].
        injection Ee as -> -> _. destruct (La _ Hl) as (x & Hx & Ex & Eh & _). cbn [fst snd] in Ex, Eh.
        exists (nrow x), (noff x). split; [exact Ex|].
        rewrite thash_tnode, (tnode_in H HO s x Hx), Eh. reflexivity.
      + intros x Hx Hr. apply S02. exact (cs_roots Hc x Hx Hr).
      + intros x Hx. apply in_app_iff in Hx as [Hx|Hx].
        * destruct (HtsR_facts x Hx) as [Hxl Hxleaf].
          apply (RefTheory.find_leaves_In H HO _ _ _ HtsR) in Hx as (h0 & Hh0 & Hfx).
          destruct (Hf h0 x Hh0 Hfx) as [h' Eh']. cbn [ms_nodes ms_total] in Eh'.
          apply F1 in Eh'.
          destruct (in_dec N.eq_dec (gpx x) (map fst l)) as [Hin|Hnin].
          -- destruct (P2 _ Hin) as (h & Hl & ->). exists h. f_equal. f_equal.
             destruct (La _ Hl) as (y & Hy & Ey & _ & Hk). cbn [fst] in Ey.
             pose proof (gpx_inj H HO s T Hn HTlo HT x y Hxl Hy Ey) as <-.
             pose proof (ing_leaf_target x Hxl Hxleaf Hk) as Hxt.
             rewrite (proj2 (Ltsn x Hxt)). apply orb_true_r.
          -- exists h'. rewrite (P1 _ Hnin). exact Eh'.
        * destruct (Ltsn x Hx) as [Hl Hm].
          destruct (P2 (gpx x)) as (h & _ & ->); [apply in_map_iff; exists (gpx x, nhash x); auto|].
          exists h. rewrite Hm, orb_true_r. reflexivity.
      + intros c Hck Hr. apply RefTheory.known_set_In in Hck as (x & Hx & Hpath).
        apply in_app_iff in Hx as [Hx|Hx].
        * apply S02. apply (cs_sibs Hc HtsR c); [|exact Hr].
          apply RefTheory.known_set_In. exists x. auto.
        * assert (Hk : In c K) by (apply RefTheory.known_set_In; exists x; auto).
          destruct (mem_coord (sib_coord c) K) eqn:Em.
          -- apply RefTheory.mem_coord_In in Em.
             destruct (known_sib_node H HO s tsn c Hn Hlay Hk Hr) as (sb & Hsb & Esb).
             rewrite <- Esb in Em |- *. cbn [fst snd].
             destruct (P2 (gpx sb)) as (h & _ & ->); [|discriminate].
             apply in_map_iff. exists (gpx sb, nhash sb). split; [reflexivity|exact (Lb sb Hsb Em)].
          -- apply RefTheory.mem_coord_false in Em. apply S12. apply F3.
             apply RefTheory.proof_coords_In. exists c. auto.
    - intros h Hh. apply in_app_iff in Hh as [Hh|Hh]; [exact (cs_R_live Hc h Hh)|].
      rewrite <- Ehs in Hh. apply in_map_iff in Hh as (x & <- & Hx).
      exact (layout_leaf_live H HO s x (Hlay x Hx) (Hleaf x Hx)).
    - intros h. rewrite in_app_iff. split.
      + intros [Hh|Hh]; [apply P5; exact (proj1 (cs_cached_R Hc h) Hh)|].
        rewrite <- Ehs in Hh. apply in_map_iff in Hh as (x & <- & Hx).
        destruct (Ltsn x Hx) as [Hl Hm]. exact (P6 _ _ Hl Hm).
      + intros Hh. apply in_map_iff in Hh as ([h' p] & <- & Hin). cbn [fst].
        destruct (P4 _ _ Hin) as [Hold|[Hl Hm]].
        * left. apply (cs_cached_R Hc). cbn [ms_cached]. apply in_map_iff. exists (h', p). auto.
        * right. destruct (Ltgt _ _ Hl Hm) as (x & Hx & _ & ->). rewrite <- Ehs. apply in_map, Hx.
    - intros h p Hin. destruct (P4 _ _ Hin) as [Hold|[Hl Hm]]; [exact (cs_cached_pos Hc _ _ Hold)|].
      destruct (Ltgt _ _ Hl Hm) as (x & Hx & -> & ->). exists x. split; [|reflexivity].
      apply (RefTheory.find_leaves_In H HO _ _ _ Hts) in Hx as (h0 & _ & Hfx).
      destruct (find_leaf_spec H HO HOK _ _ _ Hfx) as (_ & _ & <-). exact Hfx.
    - (* tidiness *)
      intros Hfl Ht ts' Hts'. rewrite Happ in Hts'. injection Hts' as <-.
      cbn [ms_total ms_nodes]. specialize (Ht tsR HtsR). cbn [ms_total ms_nodes] in Ht.
      assert (Hmono1 : forall c, In c (known_set lay tsR) -> In c (known_set lay (tsR ++ tsn))).
      { apply RefTheory.known_set_mono. intros t Ht'. apply in_app_iff. left. exact Ht'. }
      assert (Hmono2 : forall c, In c K -> In c (known_set lay (tsR ++ tsn))).
      { apply RefTheory.known_set_mono. intros t Ht'. apply in_app_iff. right. exact Ht'. }
      constructor.
      + intros y Hy Hst. destruct (in_dec N.eq_dec (gpx y) (map fst l)) as [Hin|Hnin].
        * destruct (P2 _ Hin) as (h & Hl & _). destruct (La _ Hl) as (z & Hz & Ez & _ & Hk).
          cbn [fst] in Ez. pose proof (gpx_inj H HO s T Hn HTlo HT y z Hy Hz Ez) as <-.
          right. left. exact (Hmono2 _ Hk).
        * rewrite (P1 _ Hnin) in Hst.
          destruct (nodes_get nd1 (gpx y)) as [v|] eqn:E1'; [|congruence].
          destruct (F4 _ _ E1') as [Hold|(c & Hpc & Epc & _)].
          -- assert (Hst0 : nodes_get nd (gpx y) <> None) by (rewrite Hold; discriminate).
             destruct (t_alw Ht y Hy Hst0) as [Hr|[Hk|(d & Hd & Hdr & Ed)]].
             ++ left. exact Hr.
             ++ right. left. exact (Hmono1 _ Hk).
             ++ right. right. exists d. split; [exact (Hmono1 _ Hd)|auto].
          -- destruct (ing_pc_node c Hpc) as (sb & Hsb & Er & Eo & _).
             rewrite <- Er, <- Eo in Epc.
             pose proof (gpx_inj H HO s T Hn HTlo HT y sb Hy Hsb Epc) as ->.
             apply RefTheory.proof_coords_In in Hpc as (d & Hd & Hdr & _ & Ed).
             right. right. exists d. split; [exact (Hmono2 _ Hd)|]. split; [exact Hdr|].
             rewrite <- Ed, Er, Eo. destruct c; reflexivity.
      + intros y h Hy E. apply in_app_iff.
        destruct (in_dec N.eq_dec (gpx y) (map fst l)) as [Hin|Hnin].
        * destruct (P2 _ Hin) as (h' & _ & E'). rewrite E' in E. injection E as _ Em.
          rewrite Hfl in Em. cbn [orb] in Em. apply ing_memN in Em as (x & Hx & Ex).
          right. rewrite (gpx_inj H HO s T Hn HTlo HT y x Hy (Hlay x Hx) Ex). exact Hx.
        * rewrite (P1 _ Hnin) in E. destruct (F4 _ _ E) as [Hold|(c & _ & _ & Ef)].
          -- left. exact (t_flag Ht y Hy Hold).
          -- cbn [snd] in Ef. congruence.
  Qed.
End Ingest.

(** G3 for [Ingest]: the canonical proof of distinct live leaves [hs] (targets in the coordinates
    of the minimal geometry, as [Prove] returns them; any order) is ingested without error, and
    afterwards the leaves [hs] are remembered too.  Hypotheses: the hash function never returns
    the empty hash and no live leaf is the empty hash ([calculateHashes] treats the empty hash as
    "no node").  The forest may be partial or full. *)
Theorem ingest_steps_inv {H} (HO : ops H) (s : slots H) (R : list H) (m : mstate H)
        (hs : list H) (ts : list N) (pf : list H) :
  ops_ok HO ->
  (forall a b, NZ HO (op_hash2 HO a b)) ->
  (forall h, In (Some h) s -> NZ HO h) ->
  Inv H HO s R m -> NoDup hs ->
  exp_prove HO (mk_ctx HO s) hs = Some (ts, pf) ->
  exists m1 m', ingest_steps HO m hs ts pf = Some (m1, Some m') /\
    Inv H HO s (R ++ hs) m' /\
    ms_n m' = ms_n m /\ ms_total m' = ms_total m /\ ms_full m' = ms_full m /\
    (ms_full m = false -> tidy H HO s R m -> tidy H HO s (R ++ hs) m').
Proof.
  intros HOK Hnz Hlive HI Hnd Ep. unfold exp_prove, mk_ctx in Ep. cbn [clay crows] in Ep.
  destruct (find_leaves HO (layout HO s) hs) as [tsn|] eqn:Hts; [|discriminate].
  injection Ep as <- <-.
  destruct m as [nd ca n0 T fl].
  pose proof (cs_n (Inv_consistent H HO s R _ HI)) as En. cbn [ms_n] in En.
  unfold num_leaves in En. subst n0.
  destruct (ing_steps H HO HOK Hnz s Hlive T fl R nd ca HI hs tsn Hnd Hts)
    as (nd1 & nd2 & ca2 & E & HI' & Ht').
  eexists _, _. split; [exact E|]. split; [exact HI'|]. cbn [ms_n ms_total ms_full]. auto.
Qed.

Theorem mm_ingest_inv {H} (HO : ops H) (s : slots H) (R : list H) (m : mstate H)
        (hs : list H) (ts : list N) (pf : list H) :
  ops_ok HO ->
  (forall a b, NZ HO (op_hash2 HO a b)) ->
  (forall h, In (Some h) s -> NZ HO h) ->
  Inv H HO s R m -> NoDup hs ->
  exp_prove HO (mk_ctx HO s) hs = Some (ts, pf) ->
  exists m', mm_ingest HO m hs ts pf = Some m' /\
    Inv H HO s (R ++ hs) m' /\
    ms_n m' = ms_n m /\ ms_total m' = ms_total m /\ ms_full m' = ms_full m /\
    (ms_full m = false -> tidy H HO s R m -> tidy H HO s (R ++ hs) m').
Proof.
  intros HOK Hnz Hlive HI Hnd Ep.
  destruct (ingest_steps_inv HO s R m hs ts pf HOK Hnz Hlive HI Hnd Ep) as (m1 & m' & E & P).
  exists m'. unfold mm_ingest. rewrite E. split; [reflexivity|exact P].
Qed.

(** * 7. [Verify] with [remember = true] *)

(** a position of the minimal geometry is a row-0 position of a taller frame: [translatePos]
    leaves it alone (this is why [MapPollard.Verify] accepts targets in the coordinates of the
    minimal geometry although it translates them "from [TotalRows]") *)
Lemma translate_min_id tr T p : tr < T -> T <= 63 -> p <= 2 ^ (tr + 1) - 2 ->
  translatePos p T tr = p.
Proof.
  intros Hlt HT Hp. unfold translatePos.
  assert (Hp2 : p < 2 ^ (T - 0)).
  { rewrite N.sub_0_r. assert (2 ^ (tr + 1) <= 2 ^ T) by (apply UtilsGeom.pow2_le; lia).
    pose proof (UtilsGeom.pow2_pos (tr + 1)). lia. }
  pose proof (DetectRow_gpos T 0 p HT ltac:(lia) Hp2) as Hd.
  unfold UtilsGeom.gpos in Hd. rewrite mrs_gstart_0, N.add_0_l in Hd. rewrite Hd. reflexivity.
Qed.

Theorem mm_verify_remember_inv {H} (HO : ops H) (s : slots H) (R : list H) (m : mstate H)
        (hs : list H) (ts : list N) (pf : list H) :
  ops_ok HO ->
  (forall a b, NZ HO (op_hash2 HO a b)) ->
  (forall h, In (Some h) s -> NZ HO h) ->
  Inv H HO s R m -> NoDup hs ->
  exp_prove HO (mk_ctx HO s) hs = Some (ts, pf) ->
  exists m', mm_verify_remember HO m hs ts pf = Some m' /\
    Inv H HO s (R ++ hs) m' /\
    ms_n m' = ms_n m /\ ms_total m' = ms_total m /\ ms_full m' = ms_full m /\
    (ms_full m = false -> tidy H HO s R m -> tidy H HO s (R ++ hs) m').
Proof.
  intros HOK Hnz Hlive HI Hnd Ep.
  pose proof (Inv_consistent H HO s R m HI) as Hc.
  pose proof (cs_len63 H HO s R m Hc) as Hn63.
  destruct (verify_complete HO s hs ts pf HOK Hnz Hlive Hn63 Hnd Ep) as (rows & Ev & _).
  assert (Est : getStump HO m = the_stump (mk_ctx HO s)).
  { unfold getStump, the_stump, mk_ctx. cbn [croots cn].
    rewrite (map_getroots H HO s R m Hc), (cs_n Hc). reflexivity. }
  (* the targets pass unchanged *)
  assert (Hts : TreeRows (ms_n m) <> ms_total m ->
                (forall t, In t ts -> t <= 2 ^ (TreeRows (ms_n m) + 1) - 2) /\
                translatePositions ts (ms_total m) (TreeRows (ms_n m)) = ts).
  { intros Hne. pose proof (cs_rows Hc) as Hlo. pose proof (cs_T63 Hc) as HT.
    assert (Hb : forall t, In t ts -> t <= 2 ^ (TreeRows (ms_n m) + 1) - 2).
    { intros t Ht. unfold exp_prove, mk_ctx in Ep. cbn [clay crows] in Ep.
      destruct (find_leaves HO (layout HO s) hs) as [tsn|] eqn:Hf; [|discriminate].
      injection Ep as <- <-. apply in_map_iff in Ht as (x & <- & Hx).
      apply (npos_range H HO s R m Hc).
      exact (proj1 (leaves_nodes H HO HOK s hs tsn Hf x Hx)). }
    split; [exact Hb|]. unfold translatePositions. rewrite <- (map_id ts) at 2.
    apply map_ext_in. intros t Ht. apply translate_min_id; [lia|exact HT|exact (Hb t Ht)]. }
  destruct (ingest_steps_inv HO s R m hs ts pf HOK Hnz Hlive HI Hnd Ep) as (m1 & m' & Ei & P).
  exists m'. split; [|exact P]. unfold mm_verify_remember, map_verify. cbv zeta.
  destruct (N.eqb_spec (TreeRows (ms_n m)) (ms_total m)) as [E|E].
  - rewrite Est, Ev, Ei. reflexivity.
  - destruct (Hts E) as [Hb Etr]. rewrite Etr, Est.
    match goal with |- context [forallb ?f ts] => assert (Hfa : forallb f ts = true) end.
    { apply forallb_forall. intros t Ht. pose proof (cs_rows Hc). pose proof (cs_T63 Hc).
      rewrite (maxPosition_spec (TreeRows (ms_n m))) by lia.
      specialize (Hb t Ht). destruct (N.leb_spec t (2 ^ (TreeRows (ms_n m) + 1) - 1)); [reflexivity|lia]. }
    rewrite Hfa, Ev, Ei. reflexivity.
Qed.

(** * 8. Tidiness in the words of the reference: every stored position is one of
      [Forest.allowed_pos] (positions of the minimal geometry, as the harness dumps them) *)
Section Allowed.
  Variable H : Type.
  Variable HO : ops H.
  Hypothesis HOK : ops_ok HO.

  Theorem tidy_allowed s R m : Inv H HO s R m -> tidy H HO s R m ->
    exists al, allowed_pos HO s R = Some al /\ forall p, In p (stored_min m) -> In p al.
  Proof.
    intros HI Ht. pose proof (Inv_consistent H HO s R m HI) as Hc.
    destruct (R_leaves H HO HOK s R m Hc) as [tsR HtsR]. specialize (Ht tsR HtsR).
    unfold allowed_pos. rewrite HtsR. eexists. split; [reflexivity|].
    intros p Hp. unfold stored_min in Hp. apply in_map_iff in Hp as (k & Ek & Hk).
    destruct (nodes_get (ms_nodes m) k) as [[h b]|] eqn:Eg.
    2:{ exfalso. exact (nodes_get_None H _ _ Eg Hk). }
    destruct (lookup_true H HO s R m Hc k h b Eg) as (x & Hx & -> & _).
    rewrite (translate_node H HO s R m Hc x Hx) in Ek. subst p.
    assert (Hst : nodes_get (ms_nodes m) (gp (ms_total m) (nrow x) (noff x)) <> None)
      by (rewrite Eg; discriminate).
    rewrite RefTheory.sortN_In, RefTheory.dedupN_In, !in_app_iff.
    destruct (t_alw Ht x Hx Hst) as [Hr|[Hk'|(d & Hd & Hdr & Ed)]].
    - left. apply in_map. apply filter_In. auto.
    - right. left. apply in_map_iff. exists (nrow x, noff x). auto.
    - right. right. apply in_map_iff. exists (nrow x, noff x). split; [reflexivity|].
      apply in_flat_map. exists d. split; [exact Hd|]. rewrite Hdr, Ed. left. reflexivity.
  Qed.
End Allowed.

(** * 9. The invariant and tidiness depend on the remembered hashes as a set *)
Section Ext.
  Variable H : Type.
  Variable HO : ops H.
  Hypothesis HOK : ops_ok HO.

  Lemma alwn_mono s ts ts' x : (forall t, In t ts -> In t ts') -> alwn H HO s ts x -> alwn H HO s ts' x.
  Proof.
    intros Hsub [Hr|[Hk|(d & Hd & Hdr & Ed)]]; [left; exact Hr| |].
    - right. left. exact (RefTheory.known_set_mono H _ ts ts' Hsub _ Hk).
    - right. right. exists d. split; [exact (RefTheory.known_set_mono H _ ts ts' Hsub _ Hd)|auto].
  Qed.

  Lemma leaves_subset s R R' ts ts' : (forall h, In h R -> In h R') ->
    find_leaves HO (layout HO s) R = Some ts -> find_leaves HO (layout HO s) R' = Some ts' ->
    forall x, In x ts -> In x ts'.
  Proof.
    intros Hsub Hts Hts' x Hx. apply (RefTheory.find_leaves_In H HO _ _ _ Hts) in Hx as (h & Hh & Hx).
    apply (RefTheory.find_leaves_In H HO _ _ _ Hts'). exists h. split; [apply Hsub, Hh|exact Hx].
  Qed.

  Theorem Inv_ext s R R' m : (forall h, In h R <-> In h R') -> Inv H HO s R m -> Inv H HO s R' m.
  Proof.
    intros Heq [Hc Hf]. destruct (R_leaves H HO HOK s R m Hc) as [tsR HtsR]. split.
    - constructor; try exact (cs_n Hc); try exact (cs_n63 Hc); try exact (cs_rows Hc);
        try exact (cs_T63 Hc); try exact (cs_true Hc); try exact (cs_roots Hc);
        try exact (cs_cached_pos Hc).
      + intros h Hh. apply (cs_R_live Hc), Heq, Hh.
      + intros h. rewrite <- (Heq h). exact (cs_cached_R Hc h).
      + intros ts' Hts' x Hx. apply (cs_targets Hc HtsR).
        exact (leaves_subset s R' R ts' tsR (fun h Hh => proj2 (Heq h) Hh) Hts' HtsR x Hx).
      + intros ts' Hts' c Hk Hr. apply (cs_sibs Hc HtsR c); [|exact Hr].
        apply (RefTheory.known_set_mono H _ ts' tsR); [|exact Hk].
        exact (leaves_subset s R' R ts' tsR (fun h Hh => proj2 (Heq h) Hh) Hts' HtsR).
    - intros h x Hh Hx. exact (Hf h x (proj2 (Heq h) Hh) Hx).
  Qed.

  Theorem tidy_ext s R R' m : (forall h, In h R <-> In h R') -> Inv H HO s R m ->
    tidy H HO s R m -> tidy H HO s R' m.
  Proof.
    intros Heq [Hc _] Ht ts' Hts'. destruct (R_leaves H HO HOK s R m Hc) as [tsR HtsR].
    specialize (Ht tsR HtsR).
    pose proof (leaves_subset s R R' tsR ts' (fun h Hh => proj1 (Heq h) Hh) HtsR Hts') as Hsub.
    constructor.
    - intros x Hx Hst. exact (alwn_mono s tsR ts' x Hsub (t_alw Ht x Hx Hst)).
    - intros x h Hx E. exact (Hsub x (t_flag Ht x Hx E)).
  Qed.
End Ext.

(** * 10. Decision procedures (sound) and a worked example: the hypotheses are satisfiable *)
Section Decide.
  Variable H : Type.
  Variable HO : ops H.
  Hypothesis HOK : ops_ok HO.

  Definition flagsb (s : slots H) (R : list H) (m : mstate H) : bool :=
    forallb (fun h => match find_leaf HO (layout HO s) h with
                      | Some x => match nodes_get (ms_nodes m) (gp (ms_total m) (nrow x) (noff x)) with
                                  | Some (_, true) => true | _ => false end
                      | None => true end) R.

  Definition Invb (s : slots H) (R : list H) (m : mstate H) : bool :=
    consistentb HO s R m && flagsb s R m.

  Theorem Invb_sound s R m : Invb s R m = true -> Inv H HO s R m.
  Proof.
    unfold Invb. rewrite andb_true_iff. intros [Ec Ef]. split.
    - exact (consistentb_sound H HO HOK s R m Ec).
    - intros h x Hh Hx. unfold flagsb in Ef. rewrite forallb_forall in Ef. specialize (Ef h Hh).
      rewrite Hx in Ef.
      destruct (nodes_get (ms_nodes m) (gp (ms_total m) (nrow x) (noff x))) as [[h' [|]]|];
        try discriminate. exists h'. reflexivity.
  Qed.

  Definition tidyb (s : slots H) (R : list H) (m : mstate H) : bool :=
    let lay := layout HO s in
    match find_leaves HO lay R with
    | None => true
    | Some ts =>
        let K := known_set lay ts in
        forallb (fun x =>
          match nodes_get (ms_nodes m) (gp (ms_total m) (nrow x) (noff x)) with
          | None => true
          | Some (_, b) =>
              (nroot x || mem_coord (nrow x, noff x) K ||
               existsb (fun d => negb (is_root_coord lay d) &&
                                 coord_eqb (sib_coord d) (nrow x, noff x)) K) &&
              (negb b || existsb (fun t => coord_eqb (nrow t, noff t) (nrow x, noff x)) ts)
          end) lay
    end.

  Theorem tidyb_sound s R m : tidyb s R m = true -> tidy H HO s R m.
  Proof.
    unfold tidyb. cbv zeta. intros E ts Hts. rewrite Hts in E. rewrite forallb_forall in E.
    constructor.
    - intros x Hx Hst. specialize (E x Hx).
      destruct (nodes_get (ms_nodes m) (gp (ms_total m) (nrow x) (noff x))) as [[h b]|]; [|congruence].
      apply andb_true_iff in E as [E _]. rewrite !orb_true_iff in E.
      destruct E as [[Hr|Hk]|He]; [left; exact Hr| |].
      + right. left. apply RefTheory.mem_coord_In, Hk.
      + right. right. apply existsb_exists in He as (d & Hd & Ed).
        apply andb_true_iff in Ed as [E1 E2]. exists d. split; [exact Hd|].
        split; [apply negb_true_iff, E1|apply RefTheory.coord_eqb_eq, E2].
    - intros x h Hx Eg. specialize (E x Hx). rewrite Eg in E.
      apply andb_true_iff in E as [_ E]. cbn [negb orb] in E.
      apply existsb_exists in E as (t & Ht & Et). apply RefTheory.coord_eqb_eq in Et.
      assert (Htl : In t (layout HO s)) by exact (proj1 (leaves_nodes H HO HOK s R ts Hts t Ht)).
      rewrite <- (coord_node_eq H HO s t x Htl Hx Et). exact Ht.
  Qed.
End Decide.

From Utreexo Require Import Spec.Term.

(** the state of [MapReadSpec.mrs_ex_m]: 7 slots (dead slots, an empty root), allocated with 4
    rows (minimum 3), remembering [Atom 3] and [Atom 7] *)
Example mmp_ex_Inv : Inv term term_ops mrs_ex_s mrs_ex_R mrs_ex_m.
Proof. apply (Invb_sound term term_ops term_ops_ok). vm_compute. reflexivity. Qed.

Example mmp_ex_tidy : tidy term term_ops mrs_ex_s mrs_ex_R mrs_ex_m.
Proof. apply (tidyb_sound term term_ops term_ops_ok). vm_compute. reflexivity. Qed.

Lemma term_hash_nz a b : NZ term_ops (op_hash2 term_ops a b).
Proof. reflexivity. Qed.

Lemma mmp_ex_live_nz h : In (Some h) mrs_ex_s -> NZ term_ops h.
Proof. cbn. intros [E|[E|[E|[E|[E|[E|[E|[]]]]]]]]; try discriminate; injection E as <-; reflexivity. Qed.

(** pruning [Atom 3]: the theorems apply, and the result computes *)
Example mmp_ex_prune :
  exists m', mm_prune term_ops mrs_ex_m [Atom 3] = Some m' /\
    Inv term term_ops mrs_ex_s [Atom 7] m' /\ tidy term term_ops mrs_ex_s [Atom 7] m' /\
    map fst (ms_nodes m') = [24; 18; 6].
Proof.
  destruct (mm_prune_inv term term_ops term_ops_ok mrs_ex_s mrs_ex_R mrs_ex_m [Atom 3]
              mmp_ex_Inv eq_refl) as (m' & E & HI & _).
  exists m'. split; [exact E|]. split; [exact HI|]. split.
  - exact (mm_prune_tidy term term_ops term_ops_ok _ _ _ _ m' mmp_ex_Inv mmp_ex_tidy eq_refl E).
  - vm_compute in E. injection E as <-. reflexivity.
Qed.

(** ingesting the canonical proof of [Atom 1] and [Atom 4] (request order [4; 1]) *)
Example mmp_ex_ingest :
  exists ts pf m', exp_prove term_ops (mk_ctx term_ops mrs_ex_s) [Atom 4; Atom 1] = Some (ts, pf) /\
    mm_ingest term_ops mrs_ex_m [Atom 4; Atom 1] ts pf = Some m' /\
    mm_verify_remember term_ops mrs_ex_m [Atom 4; Atom 1] ts pf = Some m' /\
    Inv term term_ops mrs_ex_s (mrs_ex_R ++ [Atom 4; Atom 1]) m' /\
    tidy term term_ops mrs_ex_s (mrs_ex_R ++ [Atom 4; Atom 1]) m'.
Proof.
  destruct (exp_prove term_ops (mk_ctx term_ops mrs_ex_s) [Atom 4; Atom 1]) as [[ts pf]|] eqn:Ep;
    [|vm_compute in Ep; discriminate].
  assert (Hnd : NoDup [Atom 4; Atom 1]) by (repeat constructor; cbn; intuition discriminate).
  destruct (mm_ingest_inv term_ops mrs_ex_s mrs_ex_R mrs_ex_m _ ts pf term_ops_ok term_hash_nz
              mmp_ex_live_nz mmp_ex_Inv Hnd Ep) as (m' & E & HI & _ & _ & _ & Ht).
  exists ts, pf, m'. split; [reflexivity|]. split; [exact E|]. split; [|split; [exact HI|]].
  - vm_compute in Ep. injection Ep as <- <-. vm_compute in E. injection E as <-.
    vm_compute. reflexivity.
  - exact (Ht eq_refl mmp_ex_tidy).
Qed.

Print Assumptions mm_prune_inv.
Print Assumptions mm_prune_tidy.
Print Assumptions mm_ingest_inv.
Print Assumptions mm_verify_remember_inv.
Print Assumptions tidy_allowed.
Print Assumptions Inv_ext.
Print Assumptions mmp_ex_prune.
Print Assumptions mmp_ex_ingest.
